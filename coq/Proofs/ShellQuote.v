(* Proofs about K/ShellQuote against K/Sh. *)
From Martian Require Import Lib.Bytes Lib.Utf8 Extracted.Shell K.ShellQuote K.Sh.
From Coq Require Import Permutation.
Local Open Scope N_scope.

(* ---- finite facts about single bytes, by exhaustive case analysis ---- *)

Definition sh_active (b : byte) : bool :=
  beq b c_dq || beq b c_bslash || beq b c_dollar || beq b c_btick.

(* The one fact about the escape set that everything rests on: a byte is
   prefixed with a backslash iff it is active inside double quotes, and every
   byte that is prefixed is one for which the backslash is removed. *)
Definition byte_ok (b : byte) : bool :=
  if is_escaped b then dq_special b else negb (sh_active b).

Lemma all_bytes_ok : forall b, byte_ok b = true.
Proof. destruct b; vm_compute; reflexivity. Qed.

Lemma high_not_active : forall b, 128 <=? b2n b = true -> sh_active b = false.
Proof. destruct b; vm_compute; intros; try reflexivity; discriminate. Qed.

Lemma octal_never : forall b, sh_active b = false \/ True.
Proof. auto. Qed.

(* ---- utf8_len facts ---- *)

Definition high (b : byte) : bool := 128 <=? b2n b.

Fixpoint high_prefix (n : nat) (s : bytes) : bool :=
  match n with
  | O => true
  | S k => match s with
           | b :: r => high b && high_prefix k r
           | [] => false
           end
  end.

Lemma in_range_high lo hi b : 128 <= lo -> in_range lo hi b = true -> high b = true.
Proof.
  unfold in_range, high. intros Hlo H. apply andb_prop in H. destruct H as [H _].
  apply N.leb_le in H. apply N.leb_le. lia.
Qed.

Lemma is_cont_high b : is_cont b = true -> high b = true.
Proof. apply in_range_high. lia. Qed.

Lemma utf8_len_1 b r : utf8_len (b :: r) = 1%nat -> b2n b < 128.
Proof.
  unfold utf8_len. destruct (b2n b <? 128) eqn:E; [intros _; apply N.ltb_lt; exact E|].
  destruct (b2n b <? 194); [discriminate|].
  destruct (b2n b <? 224).
  { destruct r as [|b1 ?]; [discriminate|]. destruct (is_cont b1); discriminate. }
  destruct (b2n b <? 240).
  { destruct r as [|b1 [|b2 ?]]; try discriminate.
    destruct (_ && _); discriminate. }
  destruct (b2n b <? 245); [|discriminate].
  destruct r as [|b1 [|b2 [|b3 ?]]]; try discriminate.
  destruct (_ && _); discriminate.
Qed.

Lemma utf8_len_multi b r k :
  utf8_len (b :: r) = S (S k) -> high b = true /\ high_prefix (S k) r = true.
Proof.
  unfold utf8_len.
  destruct (b2n b <? 128) eqn:E0; [discriminate|].
  assert (Hb : high b = true).
  { unfold high. apply N.leb_le. apply N.ltb_ge in E0. exact E0. }
  destruct (b2n b <? 194); [discriminate|].
  destruct (b2n b <? 224).
  { destruct r as [|b1 ?]; [discriminate|].
    destruct (is_cont b1) eqn:E1; [|discriminate].
    intros H; injection H as <-. split; [exact Hb|]. cbn. rewrite (is_cont_high _ E1). reflexivity. }
  destruct (b2n b <? 240).
  { destruct r as [|b1 [|b2 ?]]; try discriminate.
    destruct (in_range _ _ b1) eqn:E1; cbn [andb]; [|discriminate].
    destruct (is_cont b2) eqn:E2; [|discriminate].
    intros H; injection H as <-. split; [exact Hb|]. cbn.
    rewrite (is_cont_high _ E2).
    erewrite in_range_high; [reflexivity| |exact E1].
    destruct (b2n b =? 224); lia. }
  destruct (b2n b <? 245); [|discriminate].
  destruct r as [|b1 [|b2 [|b3 ?]]]; try discriminate.
  destruct (in_range _ _ b1) eqn:E1; cbn [andb]; [|discriminate].
  destruct (is_cont b2) eqn:E2; cbn [andb]; [|discriminate].
  destruct (is_cont b3) eqn:E3; [|discriminate].
  intros H; injection H as <-. split; [exact Hb|]. cbn.
  rewrite (is_cont_high _ E2), (is_cont_high _ E3).
  erewrite in_range_high; [reflexivity| |exact E1].
  destruct (b2n b =? 240); lia.
Qed.

(* ---- the double-quote scanner on quoted text ---- *)

Lemma beq_of_active b :
  sh_active b = false ->
  beq b c_dq = false /\ beq b c_bslash = false /\ beq b c_dollar = false /\ beq b c_btick = false.
Proof.
  unfold sh_active. intros H.
  repeat (apply orb_false_elim in H; destruct H as [H ?]). auto.
Qed.

Lemma dq_scan_plain b r acc :
  sh_active b = false -> dq_scan (b :: r) acc = dq_scan r (b :: acc).
Proof.
  intros H. destruct (beq_of_active _ H) as (H1 & H2 & H3 & H4).
  cbn [dq_scan]. rewrite H1, H2, H3, H4. reflexivity.
Qed.

Lemma dq_scan_escaped b r acc :
  dq_special b = true -> dq_scan (c_bslash :: b :: r) acc = dq_scan r (b :: acc).
Proof.
  intros H. cbn [dq_scan].
  change (beq c_bslash c_dq) with false. change (beq c_bslash c_bslash) with true.
  cbn iota. rewrite H. reflexivity.
Qed.

Lemma rev_cons_app {A} (a : A) l s : rev (a :: l) ++ s = rev l ++ a :: s.
Proof. cbn. rewrite <- app_assoc. reflexivity. Qed.

Lemma dq_scan_quote_body : forall s skip acc rest,
  high_prefix skip s = true ->
  valid_utf8_aux skip s = true ->
  dq_scan (quote_body skip s ++ c_dq :: rest) acc = Lit (rev acc ++ s, rest).
Proof.
  induction s as [|b r IH]; intros skip acc rest Hp Hv.
  - cbn. change (beq c_dq c_dq) with true. cbn iota. rewrite app_nil_r. reflexivity.
  - destruct skip as [|k].
    + cbn [quote_body]. cbn [valid_utf8_aux] in Hv.
      destruct (utf8_len (b :: r)) as [|[|k]] eqn:EL; [discriminate| |].
      * (* ASCII *)
        pose proof (all_bytes_ok b) as Hok. unfold byte_ok in Hok.
        destruct (is_escaped b).
        -- cbn [app]. rewrite dq_scan_escaped by exact Hok.
           rewrite IH by (auto). rewrite rev_cons_app. reflexivity.
        -- cbn [app]. rewrite dq_scan_plain by (apply negb_true_iff; exact Hok).
           rewrite IH by auto. rewrite rev_cons_app. reflexivity.
      * destruct (utf8_len_multi _ _ _ EL) as [Hb Hr].
        cbn [app]. rewrite dq_scan_plain by (apply high_not_active; exact Hb).
        rewrite IH by auto. rewrite rev_cons_app. reflexivity.
    + cbn [quote_body]. cbn [valid_utf8_aux] in Hv. cbn [high_prefix] in Hp.
      apply andb_prop in Hp. destruct Hp as [Hb Hr].
      cbn [app]. rewrite dq_scan_plain by (apply high_not_active; exact Hb).
      rewrite IH by auto. rewrite rev_cons_app. reflexivity.
Qed.

Theorem quote_roundtrip_lemma : forall s,
  valid_utf8 s = true -> sh_dquote (quote s) = Lit s.
Proof.
  intros s Hv. unfold sh_dquote, quote.
  change (beq c_dq c_dq) with true. cbn iota.
  rewrite (dq_scan_quote_body s 0 [] []) by (auto). reflexivity.
Qed.

(* ---- the word tokeniser on format_args output ---- *)

Definition push_q_all (w : word) (s : bytes) : word := fold_left w_push_q s w.

Lemma sh_run_q_plain b r w acc :
  sh_active b = false ->
  sh_run (b :: r) MQ (Some w) acc = sh_run r MQ (Some (w_push_q w b)) acc.
Proof.
  intros H. destruct (beq_of_active _ H) as (H1 & H2 & H3 & H4).
  cbn [sh_run]. rewrite H1, H2, H3, H4. reflexivity.
Qed.

Lemma sh_run_q_escaped b r w acc :
  dq_special b = true ->
  sh_run (c_bslash :: b :: r) MQ (Some w) acc = sh_run r MQ (Some (w_push_q w b)) acc.
Proof.
  intros H. cbn [sh_run].
  change (beq c_bslash c_dq) with false. change (beq c_bslash c_bslash) with true.
  cbn iota. rewrite H. reflexivity.
Qed.

Lemma sh_run_quote_body : forall s skip w acc rest,
  high_prefix skip s = true ->
  valid_utf8_aux skip s = true ->
  sh_run (quote_body skip s ++ c_dq :: rest) MQ (Some w) acc
  = sh_run rest MU (Some (push_q_all w s)) acc.
Proof.
  induction s as [|b r IH]; intros skip w acc rest Hp Hv.
  - cbn. change (beq c_dq c_dq) with true. reflexivity.
  - destruct skip as [|k].
    + cbn [quote_body]. cbn [valid_utf8_aux] in Hv.
      destruct (utf8_len (b :: r)) as [|[|k]] eqn:EL; [discriminate| |].
      * pose proof (all_bytes_ok b) as Hok. unfold byte_ok in Hok.
        destruct (is_escaped b).
        -- cbn [app]. rewrite sh_run_q_escaped by exact Hok.
           rewrite IH by auto. reflexivity.
        -- cbn [app]. rewrite sh_run_q_plain by (apply negb_true_iff; exact Hok).
           rewrite IH by auto. reflexivity.
      * destruct (utf8_len_multi _ _ _ EL) as [Hb Hr].
        cbn [app]. rewrite sh_run_q_plain by (apply high_not_active; exact Hb).
        rewrite IH by auto. reflexivity.
    + cbn [quote_body]. cbn [valid_utf8_aux] in Hv. cbn [high_prefix] in Hp.
      apply andb_prop in Hp. destruct Hp as [Hb Hr].
      cbn [app]. rewrite sh_run_q_plain by (apply high_not_active; exact Hb).
      rewrite IH by auto. reflexivity.
Qed.

Lemma sh_run_quote v rest cur acc :
  valid_utf8 v = true ->
  sh_run (quote v ++ rest) MU cur acc
  = sh_run rest MU (Some (push_q_all (w_open_q (w_or_empty cur)) v)) acc.
Proof.
  intros Hv. unfold quote. cbn [app sh_run].
  change (is_blank c_dq) with false. change (beq c_dq c_nl) with false.
  change (beq c_dq c_bslash) with false. change (beq c_dq c_dq) with true. cbn iota.
  rewrite <- app_assoc. cbn [app].
  apply sh_run_quote_body; auto.
Qed.

Lemma sh_run_sep rest cur acc :
  sh_run (sep ++ rest) MU cur acc = sh_run rest MU None (flush cur acc).
Proof. reflexivity. Qed.

Lemma name_char_facts : forall b, is_name_char b = true ->
  is_blank b = false /\ beq b c_nl = false /\ beq b c_bslash = false
  /\ beq b c_dq = false /\ is_plain b = true /\ beq b c_eq = false.
Proof. destruct b; vm_compute; intros H; try discriminate H; repeat split. Qed.

Definition push_plain_all (w : word) (s : bytes) : word := fold_left w_push_plain s w.

Lemma sh_run_name : forall n rest w acc,
  forallb is_name_char n = true ->
  sh_run (n ++ rest) MU (Some w) acc = sh_run rest MU (Some (push_plain_all w n)) acc.
Proof.
  induction n as [|c n IH]; intros rest w acc H; [reflexivity|].
  cbn [forallb] in H. apply andb_prop in H. destruct H as [Hc Hn].
  destruct (name_char_facts _ Hc) as (H1 & H2 & H3 & H4 & H5 & _).
  cbn [app sh_run]. rewrite H1, H2, H3, H4, H5. cbn [w_or_empty].
  rewrite IH by exact Hn. reflexivity.
Qed.

Lemma push_plain_name : forall n w,
  forallb is_name_char n = true -> w_inpre w = true ->
  push_plain_all w n =
  {| w_name := match n with [] => w_name w | _ => None end;
     w_pre := rev n ++ w_pre w; w_inpre := true; w_val := rev n ++ w_val w |}.
Proof.
  induction n as [|c n IH]; intros w H Hi.
  - destruct w; cbn in *. subst. reflexivity.
  - cbn [forallb] in H. apply andb_prop in H. destruct H as [Hc Hn].
    destruct (name_char_facts _ Hc) as (_ & _ & _ & _ & _ & H6).
    unfold push_plain_all. cbn [fold_left].
    unfold w_push_plain at 2. rewrite Hi, H6.
    fold (push_plain_all {| w_name := None; w_pre := c :: w_pre w; w_inpre := true;
                            w_val := c :: w_val w |} n).
    rewrite IH by auto. cbn [w_pre w_val w_name rev].
    rewrite <- !app_assoc. cbn [app]. destruct n; reflexivity.
Qed.

Lemma push_q_all_val : forall s w,
  push_q_all w s =
  match s with
  | [] => w
  | _ => {| w_name := w_name w; w_pre := []; w_inpre := false; w_val := rev s ++ w_val w |}
  end.
Proof.
  induction s as [|c s IH]; intros w; [reflexivity|].
  unfold push_q_all. cbn [fold_left]. fold (push_q_all (w_push_q w c) s).
  rewrite IH. destruct s as [|d s]; [reflexivity|].
  cbn [w_push_q w_name w_val rev]. rewrite <- !app_assoc. reflexivity.
Qed.

Lemma finish_quoted w v :
  w_finish (push_q_all (w_open_q w) v) = (w_name w, rev (w_val w) ++ v).
Proof.
  rewrite push_q_all_val. destruct v as [|c v].
  - unfold w_finish, w_open_q. cbn. rewrite app_nil_r. reflexivity.
  - unfold w_finish, w_open_q. cbn [w_name w_val]. rewrite rev_app_distr, rev_involutive.
    reflexivity.
Qed.

Lemma is_name_chars n : is_name n = true -> forallb is_name_char n = true /\ n <> [].
Proof.
  destruct n as [|c n]; [discriminate|]. cbn [is_name forallb]. intros H.
  apply andb_prop in H. destruct H as [H1 H2]. split; [|discriminate].
  unfold is_name_char at 1. rewrite H1, H2. reflexivity.
Qed.

Lemma push_plain_first c :
  is_name_char c = true ->
  w_push_plain w_empty c =
  {| w_name := None; w_pre := [c]; w_inpre := true; w_val := [c] |}.
Proof.
  intros Hc. destruct (name_char_facts _ Hc) as (_ & _ & _ & _ & _ & H6).
  unfold w_push_plain, w_empty. cbn [w_inpre w_pre w_val]. rewrite H6. reflexivity.
Qed.

(* one environment assignment followed by the separator *)
Lemma sh_run_env k v rest acc :
  is_name k = true -> valid_utf8 v = true ->
  sh_run (env_str (k, v) ++ sep ++ rest) MU None acc
  = sh_run rest MU None ((Some k, v) :: acc).
Proof.
  intros Hk Hv. destruct (is_name_chars _ Hk) as [Hc Hne].
  unfold env_str. cbn [fst snd]. rewrite <- app_assoc.
  destruct k as [|c k]; [congruence|].
  cbn [app sh_run]. cbn [forallb] in Hc. apply andb_prop in Hc. destruct Hc as [Hc Hc'].
  destruct (name_char_facts _ Hc) as (H1 & H2 & H3 & H4 & H5 & H6).
  rewrite H1, H2, H3, H4, H5. cbn [w_or_empty].
  rewrite sh_run_name by exact Hc'.
  rewrite push_plain_first by exact Hc.
  rewrite push_plain_name by (auto).
  cbn [w_pre w_val w_name].
  cbn [app sh_run].
  change (is_blank c_eq) with false. change (beq c_eq c_nl) with false.
  change (beq c_eq c_bslash) with false. change (beq c_eq c_dq) with false.
  change (is_plain c_eq) with true. cbn iota. cbn [w_or_empty].
  unfold w_push_plain at 1. cbn [w_inpre w_pre]. change (beq c_eq c_eq) with true. cbn iota.
  replace (rev (rev k ++ [c])) with (c :: k)
    by (rewrite rev_app_distr, rev_involutive; reflexivity).
  rewrite Hk.
  rewrite sh_run_quote by exact Hv. cbn [w_or_empty].
  rewrite sh_run_sep. unfold flush. rewrite finish_quoted. reflexivity.
Qed.

Lemma sh_run_envs : forall envs rest acc,
  Forall (fun kv => is_name (fst kv) = true /\ valid_utf8 (snd kv) = true) envs ->
  sh_run (List.concat (map (fun e => e ++ sep) (map env_str envs)) ++ rest) MU None acc
  = sh_run rest MU None (rev (map (fun kv => (Some (fst kv), snd kv)) envs) ++ acc).
Proof.
  induction envs as [|[k v] envs IH]; intros rest acc H; [reflexivity|].
  inversion H as [|? ? [Hk Hv] H']; subst. cbn [map List.concat fst snd] in *.
  rewrite <- !app_assoc. rewrite sh_run_env by assumption.
  rewrite IH by assumption. cbn [rev]. rewrite <- app_assoc. reflexivity.
Qed.

Lemma sh_run_args : forall argv w acc,
  Forall (fun a => valid_utf8 a = true) argv ->
  sh_run (List.concat (map (fun a => sep ++ quote a) argv)) MU (Some w) acc
  = Lit (rev acc ++ w_finish w :: map (fun a => (None, a)) argv).
Proof.
  induction argv as [|a argv IH]; intros w acc H.
  - cbn. reflexivity.
  - inversion H as [|? ? Ha H']; subst. cbn [map List.concat].
    rewrite <- !app_assoc. rewrite sh_run_sep. rewrite sh_run_quote by exact Ha.
    rewrite IH by exact H'. cbn [w_or_empty flush]. rewrite finish_quoted.
    cbn [w_empty w_val w_name rev app]. rewrite <- app_assoc. reflexivity.
Qed.

Lemma split_assign_envs : forall envs cmd argv,
  split_assign (map (fun kv : bytes * bytes => (Some (fst kv), snd kv)) envs
                ++ (None, cmd) :: map (fun a => (None, a)) argv)
  = (envs, cmd :: argv).
Proof.
  induction envs as [|[k v] envs IH]; intros cmd argv.
  - cbn. f_equal. f_equal. induction argv as [|a argv IHa]; [reflexivity|].
    cbn. rewrite IHa. reflexivity.
  - cbn [map app split_assign fst snd]. rewrite IH. reflexivity.
Qed.

(* ---- sorting is a permutation, through map ---- *)

Lemma insert_sorted_map {A B} (leb : B -> B -> bool) (f : A -> B) x :
  forall l, exists l', Permutation (x :: l) l'
    /\ insert_sorted leb (f x) (map f l) = map f l'.
Proof.
  induction l as [|y l IH].
  - exists [x]. split; [apply Permutation_refl|reflexivity].
  - cbn [map insert_sorted]. destruct (leb (f x) (f y)).
    + exists (x :: y :: l). split; [apply Permutation_refl|reflexivity].
    + destruct IH as (l' & HP & HE). exists (y :: l'). split.
      * eapply perm_trans; [apply perm_swap|]. apply perm_skip. exact HP.
      * cbn [map]. rewrite HE. reflexivity.
Qed.

Lemma isort_map {A B} (leb : B -> B -> bool) (f : A -> B) :
  forall l, exists l', Permutation l l' /\ isort leb (map f l) = map f l'.
Proof.
  induction l as [|x l IH].
  - exists []. split; [constructor|reflexivity].
  - destruct IH as (l' & HP & HE). cbn [map isort fold_right].
    fold (isort leb (map f l)). rewrite HE.
    destruct (insert_sorted_map leb f x l') as (l'' & HP' & HE').
    exists l''. split; [|exact HE'].
    eapply perm_trans; [apply perm_skip; exact HP|exact HP'].
Qed.

Definition env_ok (kv : bytes * bytes) : Prop :=
  is_name (fst kv) = true /\ valid_utf8 (snd kv) = true.

Theorem format_args_roundtrip_lemma : forall envs cmd argv,
  Forall env_ok envs ->
  valid_utf8 cmd = true ->
  Forall (fun a => valid_utf8 a = true) argv ->
  exists envs', Permutation envs envs' /\
    sh_simple_command (format_args envs cmd argv) = Lit (envs', cmd :: argv).
Proof.
  intros envs cmd argv He Hc Ha.
  destruct (isort_map bytes_leb env_str envs) as (envs' & HP & HE).
  exists envs'. split; [exact HP|].
  unfold sh_simple_command, format_args. cbv zeta. rewrite HE.
  rewrite sh_run_envs.
  2:{ eapply Permutation_Forall; [exact HP|exact He]. }
  rewrite sh_run_quote by exact Hc.
  rewrite sh_run_args by exact Ha.
  rewrite app_nil_r, rev_involutive. cbn [w_or_empty]. rewrite finish_quoted.
  cbn [w_empty w_name w_val rev app].
  rewrite split_assign_envs. reflexivity.
Qed.
