(* Proofs about K/SysReqs.v (model of GetSystemReqs). *)
From Martian Require Import Extracted.Resources K.SysReqs.
Local Open Scope Z_scope.

Definition cfg_ok (c : cfg) : Prop :=
  0 < max_cores c /\ 0 < threads_per_job c /\ 0 < max_mem_gb c /\
  0 <= mem_gb_per_job c /\ 0 <= extra_vmem_gb c.

(* the unit multipliers the code applies are the ones the model's units assume *)
Lemma units_lemma : centi_per_core = 100 /\ mb_per_gb = 1024.
Proof. split; reflexivity. Qed.

Lemma round_away_sign : forall num den, 0 < den ->
  (num < 0 -> round_away num den < 0) /\
  (num = 0 -> round_away num den = 0) /\
  (0 < num -> 0 < round_away num den).
Proof.
  intros num den Hd. unfold round_away, ceil_div.
  destruct (num <? 0) eqn:E.
  - apply Z.ltb_lt in E. split; [|split]; try lia. intros _.
    apply Z.div_lt_upper_bound; lia.
  - apply Z.ltb_ge in E. split; [lia|split].
    + intros ->. reflexivity.
    + intros Hp. assert ((- num) / den < 0) by (apply Z.div_lt_upper_bound; lia). lia.
Qed.

Lemma centi_cores_bounds : forall c t, cfg_ok c ->
  0 < centi_cores c t <= max_cores c * 100.
Proof.
  intros c t (Hc & Ht & _). unfold centi_cores.
  set (cc0 := round_away (t * centi_per_core) 64).
  destruct (cc0 =? 0) eqn:E0.
  - destruct (max_cores c * 100 <? threads_per_job c * 100) eqn:E; [lia|].
    apply Z.ltb_ge in E. lia.
  - apply Z.eqb_neq in E0. destruct (cc0 <? 0) eqn:E1.
    + rewrite Z.ltb_irrefl. lia.
    + apply Z.ltb_ge in E1. destruct (max_cores c * 100 <? cc0) eqn:E; [lia|].
      apply Z.ltb_ge in E. lia.
Qed.

Lemma adaptive_pos : forall avail x, x < 0 -> 0 < adaptive avail x.
Proof.
  intros avail x Hx. unfold adaptive.
  destruct (avail <? 1) eqn:A; cbn [orb]; [lia|].
  apply Z.ltb_ge in A. destruct (avail <? - x); lia.
Qed.

Lemma adaptive_spec : forall avail x, x < 0 ->
  (1 <= avail -> - x <= avail -> adaptive avail x = avail) /\
  (avail < - x -> adaptive avail x = - x).
Proof.
  intros avail x Hx. unfold adaptive. split.
  - intros H1 H2. destruct (avail <? 1) eqn:A; [apply Z.ltb_lt in A; lia|].
    destruct (avail <? - x) eqn:B; [apply Z.ltb_lt in B; lia|]. reflexivity.
  - intros H. destruct (avail <? 1); cbn [orb]; [reflexivity|].
    destruct (avail <? - x) eqn:B; [reflexivity|]. apply Z.ltb_ge in B. lia.
Qed.

Lemma mem_unclamped_nonneg : forall c mem_cur m, cfg_ok c ->
  0 <= mem_mb_unclamped c mem_cur m /\
  (0 < mem_gb_per_job c -> 0 < mem_mb_unclamped c mem_cur m).
Proof.
  intros c mem_cur m (_ & _ & _ & Hm & _). unfold mem_mb_unclamped.
  set (m0 := round_away (m * mb_per_gb) 4096).
  destruct (m0 =? 0) eqn:E0; [lia|]. apply Z.eqb_neq in E0.
  destruct (m0 <? 0) eqn:E1.
  - apply Z.ltb_lt in E1. pose proof (adaptive_pos mem_cur m0 E1). lia.
  - apply Z.ltb_ge in E1. lia.
Qed.

Lemma mem_mb_bounds : forall c mem_cur m, cfg_ok c ->
  0 <= mem_mb c mem_cur m <= max_mem_gb c * 1024 /\
  (0 < mem_gb_per_job c -> 0 < mem_mb c mem_cur m).
Proof.
  intros c mem_cur m Hc. pose proof Hc as (_ & _ & Hmm & _).
  destruct (mem_unclamped_nonneg c mem_cur m Hc) as [H0 H1].
  unfold mem_mb. destruct (max_mem_gb c * 1024 <? mem_mb_unclamped c mem_cur m) eqn:E.
  - lia.
  - apply Z.ltb_ge in E. split; [lia|exact H1].
Qed.

(* a negative (adaptive) memory request -x is given the whole current size
   when that is at least x, and x (clamped to the limit) otherwise *)
Lemma mem_adaptive_lemma : forall c mem_cur m, cfg_ok c ->
  let m0 := round_away (m * mb_per_gb) 4096 in
  m0 < 0 ->
  (1 <= mem_cur -> - m0 <= mem_cur <= max_mem_gb c * 1024 -> mem_mb c mem_cur m = mem_cur) /\
  (mem_cur < - m0 -> mem_mb c mem_cur m = Z.min (- m0) (max_mem_gb c * 1024)).
Proof.
  intros c mem_cur m Hc m0 Hneg. unfold mem_mb, mem_mb_unclamped. fold m0.
  destruct (m0 =? 0) eqn:E0; [apply Z.eqb_eq in E0; lia|].
  destruct (m0 <? 0) eqn:E1; [|apply Z.ltb_ge in E1; lia].
  destruct (adaptive_spec mem_cur m0 Hneg) as [A1 A2]. split.
  - intros H1 H2. rewrite A1 by lia.
    destruct (max_mem_gb c * 1024 <? mem_cur) eqn:E; [apply Z.ltb_lt in E; lia|reflexivity].
  - intros H. rewrite A2 by lia.
    destruct (max_mem_gb c * 1024 <? - m0) eqn:E.
    + apply Z.ltb_lt in E. lia.
    + apply Z.ltb_ge in E. lia.
Qed.

Lemma vmem_mb_bounds : forall c mem_cur vmem_cur m v, cfg_ok c ->
  has_vmem c = true -> max_mem_gb c * 1024 <= max_vmem_mb c ->
  let vm := vmem_mb c mem_cur vmem_cur m v in
  0 <= vm <= max_vmem_mb c /\ (0 < vm -> mem_mb c mem_cur m <= vm).
Proof.
  intros c mem_cur vmem_cur m v Hc Hv Hle. pose proof Hc as (_ & _ & _ & _ & Hx).
  unfold has_vmem in Hv. apply Z.ltb_lt in Hv.
  destruct (mem_unclamped_nonneg c mem_cur m Hc) as [U0 _].
  destruct (mem_mb_bounds c mem_cur m Hc) as [[M0 M1] _].
  cbn zeta. unfold vmem_mb, has_vmem.
  set (m1 := mem_mb_unclamped c mem_cur m) in *.
  set (m2 := mem_mb c mem_cur m) in *.
  set (v0 := round_away (v * mb_per_gb) 4096).
  set (v1 := if v0 =? 0 then m1 + extra_vmem_gb c * 1024 else v0).
  assert (V1 : v1 < 0 \/ 0 <= v1) by lia.
  set (v2 := if v1 <? 0 then (if 0 <? max_vmem_mb c then adaptive vmem_cur v1 else v1) else v1).
  assert (V2 : 0 <= v2).
  { unfold v2. destruct (v1 <? 0) eqn:E.
    - apply Z.ltb_lt in E. destruct (0 <? max_vmem_mb c) eqn:F; [|apply Z.ltb_ge in F; lia].
      pose proof (adaptive_pos vmem_cur v1 E). lia.
    - apply Z.ltb_ge in E. lia. }
  set (v3 := if (0 <? max_vmem_mb c) && (max_vmem_mb c <? v2) then max_vmem_mb c else v2).
  assert (V3 : 0 <= v3 <= max_vmem_mb c).
  { unfold v3. destruct (0 <? max_vmem_mb c) eqn:F; [|apply Z.ltb_ge in F; lia]. cbn [andb].
    destruct (max_vmem_mb c <? v2) eqn:G; [lia|]. apply Z.ltb_ge in G. lia. }
  clearbody v3 v2 v1 v0 m2 m1.
  destruct ((0 <? v3) && (v3 <? m2)) eqn:E.
  - apply andb_prop in E as [E1 E2]. apply Z.ltb_lt in E1, E2. lia.
  - split; [lia|]. intros Hp. apply andb_false_elim in E as [E|E].
    + apply Z.ltb_ge in E. lia.
    + apply Z.ltb_ge in E. lia.
Qed.

(* Without the configuration condition max_mem <= max_vmem the final
   "vmem >= mem" adjustment can push vmem above its limit. *)
Lemma vmem_above_limit_when_misconfigured :
  let c := mkCfg 4 8 2048 1 1 0 in
  vmem_mb c 8192 2048 (4 * 4096) 0 = 4096 /\ max_vmem_mb c = 2048.
Proof. vm_compute. split; reflexivity. Qed.

Lemma quot_trunc_le : forall x, 0 <= x -> 0 <= Z.quot x 1024 * 1024 <= x.
Proof.
  intros x Hx. rewrite Z.quot_div_nonneg by lia.
  pose proof (Z.mul_div_le x 1024 ltac:(lia)).
  pose proof (Z.div_pos x 1024 Hx ltac:(lia)). lia.
Qed.

(* Every amount Enqueue acquires for cores, memory and virtual memory is
   within [0, limit of that semaphore]: by C12_acquire_error_iff the Acquire
   can then never be refused, and by C12_reserved_le_max the sum of what
   runs concurrently stays within the limit. *)
Lemma sysreqs_clamped_lemma : forall c mem_cur vmem_cur t m v,
  cfg_ok c ->
  match enqueue_amounts (get_system_reqs c mem_cur vmem_cur t m v) with
  | [cc; mb; vmb; procs] =>
      0 < cc <= max_cores c * 100 /\
      0 <= mb <= max_mem_gb c * 1024 /\
      (0 < mem_gb_per_job c -> 0 < mb) /\
      (has_vmem c = true -> max_mem_gb c * 1024 <= max_vmem_mb c ->
         0 <= vmb <= max_vmem_mb c) /\
      Z.of_N procs_per_job < procs <= Z.of_N procs_per_job + max_cores c
  | _ => False
  end.
Proof.
  intros c mem_cur vmem_cur t m v Hc. unfold get_system_reqs, enqueue_amounts.
  pose proof (centi_cores_bounds c t Hc) as Hcc.
  destruct (mem_mb_bounds c mem_cur m Hc) as [Hm Hm'].
  split; [exact Hcc|]. split; [exact Hm|]. split; [exact Hm'|]. split.
  - intros Hv Hle. destruct (vmem_mb_bounds c mem_cur vmem_cur m v Hc Hv Hle) as [Hb _].
    pose proof (quot_trunc_le _ (proj1 Hb)). lia.
  - set (cc := centi_cores c t) in *.
    assert (1 <= (cc + 99) / 100) by (apply Z.div_le_lower_bound; lia).
    assert ((cc + 99) / 100 < max_cores c + 1).
    { apply Z.div_lt_upper_bound; lia. }
    lia.
Qed.
