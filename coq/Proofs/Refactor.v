(* Proofs about K/Refactor.v (C19): the reference edits commute with the
   call-tree denotation, so the translation validator is sound. *)
From Martian Require Import Lib.Bytes Mro.Ast K.Refactor.

(* ------------------------------------------------------------ equalities *)

Lemma rf_beq_eq a b : beq a b = true -> a = b.
Proof. unfold beq. apply Byte.byte_dec_bl. Qed.
Lemma rf_beq_refl a : beq a a = true.
Proof. unfold beq. apply Byte.byte_dec_lb. reflexivity. Qed.

Lemma rf_bytes_eqb_eq : forall a b, bytes_eqb a b = true -> a = b.
Proof.
  induction a as [|x a IH]; destruct b as [|y b]; cbn; intros H; try reflexivity; try discriminate.
  apply andb_prop in H. destruct H as [H1 H2]. apply rf_beq_eq in H1. apply IH in H2. subst. reflexivity.
Qed.
Lemma rf_bytes_eqb_refl : forall a, bytes_eqb a a = true.
Proof. induction a as [|x a IH]; cbn; [reflexivity|]. rewrite rf_beq_refl, IH. reflexivity. Qed.
Lemma rf_bytes_eqb_neq a b : a <> b -> bytes_eqb a b = false.
Proof.
  intros H. destruct (bytes_eqb a b) eqn:E; [|reflexivity]. apply rf_bytes_eqb_eq in E. contradiction.
Qed.

Lemma rf_bool_eqb_eq a b : Bool.eqb a b = true -> a = b.
Proof. apply Bool.eqb_prop. Qed.

Lemma rf_list_eqb_eq {A} (f : A -> A -> bool) :
  (forall x y, f x y = true -> x = y) ->
  forall a b, list_eqb f a b = true -> a = b.
Proof.
  intros Hf. induction a as [|x a IH]; destruct b as [|y b]; cbn; intros H; try discriminate; [reflexivity|].
  apply andb_prop in H as [H1 H2]. f_equal; auto.
Qed.
Lemma rf_opt_eqb_eq {A} (f : A -> A -> bool) :
  (forall x y, f x y = true -> x = y) ->
  forall a b, opt_eqb f a b = true -> a = b.
Proof.
  intros Hf [x|] [y|]; cbn; intros H; try discriminate; [|reflexivity]. f_equal. auto.
Qed.

Ltac split_all :=
  repeat match goal with
         | H : (_ && _) = true |- _ => apply andb_prop in H; destruct H
         end.

Lemma rf_type_id_eqb_eq a b : type_id_eqb a b = true -> a = b.
Proof.
  destruct a, b. unfold type_id_eqb. cbn. intros H. split_all.
  match goal with H : bytes_eqb _ _ = true |- _ => apply rf_bytes_eqb_eq in H end.
  repeat match goal with H : (_ =? _)%N = true |- _ => apply N.eqb_eq in H end.
  congruence.
Qed.
Lemma rf_file_kind_eqb_eq a b : file_kind_eqb a b = true -> a = b.
Proof. destruct a, b; cbn; congruence. Qed.
Lemma rf_map_kind_eqb_eq a b : map_kind_eqb a b = true -> a = b.
Proof. destruct a, b; cbn; congruence. Qed.
Lemma rf_ref_kind_eqb_eq a b : ref_kind_eqb a b = true -> a = b.
Proof. destruct a, b; cbn; congruence. Qed.
Lemma rf_call_mode_eqb_eq a b : call_mode_eqb a b = true -> a = b.
Proof. destruct a, b; cbn; congruence. Qed.
Lemma rf_lang_eqb_eq a b : lang_eqb a b = true -> a = b.
Proof. destruct a, b; cbn; congruence. Qed.
Lemma rf_zz_eqb_eq a b : zz_eqb a b = true -> a = b.
Proof.
  destruct a, b. unfold zz_eqb. cbn. intros H. apply andb_prop in H as [H1 H2].
  apply Z.eqb_eq in H1, H2. congruence.
Qed.

Section ExpInd.
  Variable P : exp -> Prop.
  Hypothesis HA : forall l, Forall P l -> P (EArray l).
  Hypothesis HM : forall k es, Forall (fun kv => P (snd kv)) es -> P (EMap k es).
  Hypothesis HStr : forall s, P (EString s).
  Hypothesis HB : forall b, P (EBool b).
  Hypothesis HI : forall z, P (EInt z).
  Hypothesis HF : forall m e, P (EFloat m e).
  Hypothesis HN : P ENull.
  Hypothesis HR : forall k i o, P (ERef k i o).
  Hypothesis HSp : forall x, P x -> P (ESplit x).
  Fixpoint rf_exp_ind (e : exp) : P e :=
    match e with
    | EArray l => HA l ((fix go (l : list exp) : Forall P l :=
                           match l with
                           | [] => Forall_nil _
                           | x :: r => Forall_cons x (rf_exp_ind x) (go r)
                           end) l)
    | EMap k es => HM k es ((fix go (es : list (bytes * exp)) : Forall (fun kv => P (snd kv)) es :=
                               match es with
                               | [] => Forall_nil _
                               | kv :: r => Forall_cons kv (rf_exp_ind (snd kv)) (go r)
                               end) es)
    | EString s => HStr s
    | EBool b => HB b
    | EInt z => HI z
    | EFloat m e => HF m e
    | ENull => HN
    | ERef k i o => HR k i o
    | ESplit x => HSp x (rf_exp_ind x)
    end.
End ExpInd.

Lemma rf_exp_eqb_eq : forall a b, exp_eqb a b = true -> a = b.
Proof.
  induction a as [l IH|k es IH|s|x|z|m e| |k i o|x IH] using rf_exp_ind; intros b H;
    destruct b as [l'|k' es'|s'|x'|z'|m' e'| |k' i' o'|x']; try discriminate H.
  - f_equal. cbn in H.
    revert l' H. induction IH as [|x l Hx _ IHl]; intros [|y l'] H; try discriminate; [reflexivity|].
    apply andb_prop in H as [H1 H2]. f_equal; auto.
  - cbn in H. apply andb_prop in H as [Hk H]. apply rf_map_kind_eqb_eq in Hk. subst k'. f_equal.
    revert es' H. induction IH as [|[k1 v1] es Hx _ IHl]; intros [|[k2 v2] es'] H; try discriminate; [reflexivity|].
    apply andb_prop in H as [H H2]. apply andb_prop in H as [H0 H1].
    apply rf_bytes_eqb_eq in H0. cbn in Hx. apply Hx in H1. subst. f_equal. auto.
  - cbn in H. apply rf_bytes_eqb_eq in H. congruence.
  - cbn in H. apply rf_bool_eqb_eq in H. congruence.
  - cbn in H. apply Z.eqb_eq in H. congruence.
  - cbn in H. apply andb_prop in H as [H H0]. apply Z.eqb_eq in H, H0. congruence.
  - reflexivity.
  - cbn in H. apply andb_prop in H as [H H0]. apply andb_prop in H as [H H1].
    apply rf_ref_kind_eqb_eq in H. apply rf_bytes_eqb_eq in H1, H0. congruence.
  - cbn in H. f_equal. auto.
Qed.

(* turn every boolean conjunct into an equation *)
Ltac conv_eq :=
  repeat match goal with
         | H : bytes_eqb _ _ = true |- _ => apply rf_bytes_eqb_eq in H
         | H : Bool.eqb _ _ = true |- _ => apply rf_bool_eqb_eq in H
         | H : type_id_eqb _ _ = true |- _ => apply rf_type_id_eqb_eq in H
         | H : file_kind_eqb _ _ = true |- _ => apply rf_file_kind_eqb_eq in H
         | H : call_mode_eqb _ _ = true |- _ => apply rf_call_mode_eqb_eq in H
         | H : lang_eqb _ _ = true |- _ => apply rf_lang_eqb_eq in H
         | H : zz_eqb _ _ = true |- _ => apply rf_zz_eqb_eq in H
         | H : exp_eqb _ _ = true |- _ => apply rf_exp_eqb_eq in H
         | H : list_eqb bytes_eqb _ _ = true |- _ => apply (rf_list_eqb_eq _ rf_bytes_eqb_eq) in H
         | H : list_eqb exp_eqb _ _ = true |- _ => apply (rf_list_eqb_eq _ rf_exp_eqb_eq) in H
         end.

Lemma rf_bind_eqb_eq a b : bind_eqb a b = true -> a = b.
Proof. destruct a, b. unfold bind_eqb. cbn. intros H. split_all. conv_eq. congruence. Qed.

Lemma rf_mods_eqb_eq a b : mods_eqb a b = true -> a = b.
Proof.
  destruct a, b. unfold mods_eqb. cbn. intros H. split_all. conv_eq.
  match goal with H : list_eqb bind_eqb _ _ = true |- _ => apply (rf_list_eqb_eq _ rf_bind_eqb_eq) in H end.
  congruence.
Qed.

Lemma rf_call_eqb_eq a b : call_eqb a b = true -> a = b.
Proof.
  destruct a, b. unfold call_eqb. cbn. intros H. split_all. conv_eq.
  match goal with H : list_eqb bind_eqb _ _ = true |- _ => apply (rf_list_eqb_eq _ rf_bind_eqb_eq) in H end.
  match goal with H : opt_eqb mods_eqb _ _ = true |- _ => apply (rf_opt_eqb_eq _ rf_mods_eqb_eq) in H end.
  congruence.
Qed.

Lemma rf_member_eqb_eq a b : member_eqb a b = true -> a = b.
Proof. destruct a, b. unfold member_eqb. cbn. intros H. split_all. conv_eq. congruence. Qed.

Lemma rf_struct_eqb_eq a b : struct_eqb a b = true -> a = b.
Proof.
  destruct a, b. unfold struct_eqb. cbn. intros H. split_all. conv_eq.
  match goal with H : list_eqb member_eqb _ _ = true |- _ => apply (rf_list_eqb_eq _ rf_member_eqb_eq) in H end.
  congruence.
Qed.

Lemma rf_in_eqb_eq a b : in_eqb a b = true -> a = b.
Proof. destruct a, b. unfold in_eqb. cbn. intros H. split_all. conv_eq. congruence. Qed.

Lemma rf_src_eqb_eq a b : src_eqb a b = true -> a = b.
Proof. destruct a, b. unfold src_eqb. cbn. intros H. split_all. conv_eq. congruence. Qed.

Lemma rf_res_eqb_eq a b : res_eqb a b = true -> a = b.
Proof. destruct a, b. unfold res_eqb. cbn. intros H. split_all. conv_eq. congruence. Qed.

Ltac conv_lists :=
  repeat match goal with
         | H : list_eqb in_eqb _ _ = true |- _ => apply (rf_list_eqb_eq _ rf_in_eqb_eq) in H
         | H : list_eqb member_eqb _ _ = true |- _ => apply (rf_list_eqb_eq _ rf_member_eqb_eq) in H
         | H : list_eqb call_eqb _ _ = true |- _ => apply (rf_list_eqb_eq _ rf_call_eqb_eq) in H
         | H : list_eqb bind_eqb _ _ = true |- _ => apply (rf_list_eqb_eq _ rf_bind_eqb_eq) in H
         | H : list_eqb struct_eqb _ _ = true |- _ => apply (rf_list_eqb_eq _ rf_struct_eqb_eq) in H
         | H : src_eqb _ _ = true |- _ => apply rf_src_eqb_eq in H
         | H : opt_eqb res_eqb _ _ = true |- _ => apply (rf_opt_eqb_eq _ rf_res_eqb_eq) in H
         | H : opt_eqb call_eqb _ _ = true |- _ => apply (rf_opt_eqb_eq _ rf_call_eqb_eq) in H
         | H : opt_eqb (list_eqb bind_eqb) _ _ = true |- _ =>
             apply (rf_opt_eqb_eq _ (rf_list_eqb_eq _ rf_bind_eqb_eq)) in H
         end.

Lemma rf_stage_eqb_eq a b : stage_eqb a b = true -> a = b.
Proof. destruct a, b. unfold stage_eqb. cbn. intros H. split_all. conv_eq. conv_lists. congruence. Qed.

Lemma rf_pipeline_eqb_eq a b : pipeline_eqb a b = true -> a = b.
Proof. destruct a, b. unfold pipeline_eqb. cbn. intros H. split_all. conv_eq. conv_lists. congruence. Qed.

Lemma rf_callable_eqb_eq a b : callable_eqb a b = true -> a = b.
Proof.
  destruct a, b; cbn; intros H; try discriminate.
  - apply rf_stage_eqb_eq in H. congruence.
  - apply rf_pipeline_eqb_eq in H. congruence.
Qed.

Lemma ast_eqb_eq a b : ast_eqb a b = true -> a = b.
Proof.
  destruct a, b. unfold ast_eqb. cbn. intros H. split_all. conv_eq. conv_lists.
  match goal with H : list_eqb callable_eqb _ _ = true |- _ => apply (rf_list_eqb_eq _ rf_callable_eqb_eq) in H end.
  congruence.
Qed.

(* ------------------------------------------------------------ lookups *)

Lemma find_callable_some x : forall l d, find_callable x l = Some d -> In d l /\ callable_id d = x.
Proof.
  induction l as [|c r IH]; cbn; intros d H; [discriminate|].
  destruct (bytes_eqb (callable_id c) x) eqn:E.
  - injection H as <-. split; [left; reflexivity|apply rf_bytes_eqb_eq; assumption].
  - apply IH in H as [H1 H2]. split; [right|]; assumption.
Qed.

Lemma nodupb_NoDup : forall l, nodupb l = true -> NoDup l.
Proof.
  induction l as [|x r IH]; cbn; intros H; [constructor|].
  apply andb_prop in H as [H1 H2]. constructor; [|auto].
  intros Hin. apply Bool.negb_true_iff in H1.
  assert (existsb (bytes_eqb x) r = true) as E.
  { apply existsb_exists. exists x. split; [assumption|apply rf_bytes_eqb_refl]. }
  congruence.
Qed.

Lemma map_opt_map {A B C D} (f : A -> option B) (g : C -> option D) (h : A -> C) (k : B -> D) :
  forall l ys,
    (forall x y, In x l -> f x = Some y -> g (h x) = Some (k y)) ->
    map_opt f l = Some ys -> map_opt g (map h l) = Some (map k ys).
Proof.
  induction l as [|x r IH]; cbn; intros ys Hf H.
  - injection H as <-. reflexivity.
  - destruct (f x) as [y|] eqn:Ex; [|discriminate].
    destruct (map_opt f r) as [ys'|] eqn:Er; [|discriminate].
    injection H as <-. rewrite (Hf x y (or_introl eq_refl) Ex).
    rewrite (IH ys'); [reflexivity| |reflexivity].
    intros x0 y0 Hin. apply Hf. right. assumption.
Qed.

(* ------------------------------------------------------------ renaming commutes with resolution *)

Lemma rename_callable_id rho d :
  callable_id (rename_callable rho d) = ren1 (rn_callable rho) (callable_id d).
Proof. destruct d; reflexivity. Qed.

Lemma find_callable_rename rho : forall l x d,
  NoDup (map (ren1 (rn_callable rho)) (map callable_id l)) ->
  find_callable x l = Some d ->
  find_callable (ren1 (rn_callable rho) x) (map (rename_callable rho) l) = Some (rename_callable rho d).
Proof.
  induction l as [|c r IH]; cbn; intros x d Hnd H; [discriminate|].
  rewrite rename_callable_id. inversion Hnd as [|? ? Hnotin Hnd']. subst.
  destruct (bytes_eqb (callable_id c) x) eqn:E.
  - injection H as <-. apply rf_bytes_eqb_eq in E. subst x. rewrite rf_bytes_eqb_refl. reflexivity.
  - rewrite rf_bytes_eqb_neq.
    + apply IH; assumption.
    + intros Heq. apply Hnotin. rewrite Heq.
      apply find_callable_some in H as [Hin Hid]. subst x.
      apply in_map. apply in_map. assumption.
Qed.

Lemma rename_denote_call rho l :
  NoDup (map (ren1 (rn_callable rho)) (map callable_id l)) ->
  forall fuel c t P sg,
    denote_call fuel l c = Some t ->
    denote_call fuel (map (rename_callable rho) l) (rename_call rho P sg c) = Some (rename_tree rho P sg t).
Proof.
  intros Hnd. induction fuel as [|f IH]; intros c t P sg H; [discriminate|].
  cbn [denote_call] in *. cbn [rename_call c_dec_id].
  destruct (find_callable (c_dec_id c) l) as [d|] eqn:Ef; [|discriminate].
  rewrite (find_callable_rename rho l _ d Hnd Ef).
  destruct d as [s|p]; cbn [rename_callable].
  - injection H as <-. reflexivity.
  - destruct (map_opt (denote_call f l) (pl_calls p)) as [kids|] eqn:Ek; [|discriminate].
    injection H as <-. cbn [rename_pipeline pl_calls].
    rewrite (map_opt_map (denote_call f l) (denote_call f (map (rename_callable rho) l))
               (rename_call rho (pl_id p) (scope_of_calls (pl_calls p)))
               (rename_tree rho (pl_id p) (scope_of_calls (pl_calls p))) (pl_calls p) kids).
    + reflexivity.
    + intros x y _ Hx. apply IH. assumption.
    + assumption.
Qed.

Lemma ren_ok_NoDup rho a :
  ren_ok rho a = true -> NoDup (map (ren1 (rn_callable rho)) (map callable_id (a_callables a))).
Proof. unfold ren_ok, callable_names. apply nodupb_NoDup. Qed.

(* Renaming preserves the resolved call tree up to the renaming. *)
Theorem rename_denote rho a t :
  ren_ok rho a = true ->
  denote a = Some t ->
  denote (rename_ast rho a) = Some (rename_tree rho [] [] t).
Proof.
  intros Hok H. unfold denote, fuel_of in *. cbn [rename_ast a_call a_callables].
  destruct (a_call a) as [c|]; [|discriminate]. cbn [option_map].
  rewrite map_length.
  apply rename_denote_call; [apply ren_ok_NoDup; assumption|assumption].
Qed.

(* ------------------------------------------------------------ restriction commutes with resolution *)

Lemma restrict_callable_id d c : callable_id (restrict_callable d c) = callable_id c.
Proof. destruct c; reflexivity. Qed.

Lemma find_callable_restrict d : forall l x,
  find_callable x (map (restrict_callable d) l) = option_map (restrict_callable d) (find_callable x l).
Proof.
  induction l as [|c r IH]; cbn; intros x; [reflexivity|].
  rewrite restrict_callable_id. destruct (bytes_eqb (callable_id c) x); [reflexivity|apply IH].
Qed.

Lemma denote_call_root fuel l c t : denote_call fuel l c = Some t -> tree_call t = c.
Proof.
  destruct fuel as [|f]; cbn; [discriminate|].
  destruct (find_callable (c_dec_id c) l) as [[s|p]|]; try discriminate.
  - intros H. injection H as <-. reflexivity.
  - destruct (map_opt (denote_call f l) (pl_calls p)); [|discriminate]. intros H. injection H as <-. reflexivity.
Qed.

Lemma map_opt_filter {A B} (f : A -> option B) (g : A -> bool) (g' : B -> bool) :
  forall l ys,
    (forall x y, In x l -> f x = Some y -> g' y = g x) ->
    map_opt f l = Some ys -> map_opt f (filter g l) = Some (filter g' ys).
Proof.
  induction l as [|x r IH]; cbn; intros ys Hg H.
  - injection H as <-. reflexivity.
  - destruct (f x) as [y|] eqn:Ex; [|discriminate].
    destruct (map_opt f r) as [ys'|] eqn:Er; [|discriminate].
    injection H as <-. cbn [filter]. rewrite (Hg x y (or_introl eq_refl) Ex).
    assert (map_opt f (filter g r) = Some (filter g' ys')) as E.
    { apply IH; [|reflexivity]. intros x0 y0 Hin. apply Hg. right. assumption. }
    destruct (g x); cbn [map_opt]; rewrite ?Ex, E; reflexivity.
Qed.

Lemma restrict_tree_unfold d c def kids :
  restrict_tree d (Tree c def kids) =
  Tree (restrict_call d c) (restrict_callable d def)
       (map (restrict_tree d)
            (filter (fun k => negb (mem2 (rm_call d) (callable_id def) (c_id (tree_call k)))) kids)).
Proof.
  cbn [restrict_tree]. f_equal.
  induction kids as [|k r IH]; cbn [filter map]; [reflexivity|].
  destruct (negb (mem2 (rm_call d) (callable_id def) (c_id (tree_call k)))); cbn [map]; rewrite IH; reflexivity.
Qed.

Lemma restrict_denote_call d l :
  forall fuel c t,
    denote_call fuel l c = Some t ->
    denote_call fuel (map (restrict_callable d) l) (restrict_call d c) = Some (restrict_tree d t).
Proof.
  induction fuel as [|f IH]; intros c t H; [discriminate|].
  cbn [denote_call] in *. cbn [restrict_call c_dec_id].
  rewrite find_callable_restrict.
  destruct (find_callable (c_dec_id c) l) as [def|] eqn:Ef; [|discriminate]. cbn [option_map].
  destruct def as [s|p]; cbn [restrict_callable].
  - injection H as <-. reflexivity.
  - destruct (map_opt (denote_call f l) (pl_calls p)) as [kids|] eqn:Ek; [|discriminate].
    injection H as <-. rewrite restrict_tree_unfold. cbn [restrict_callable restrict_pipeline pl_calls callable_id].
    rewrite (map_opt_map (denote_call f l) (denote_call f (map (restrict_callable d) l))
               (restrict_call d) (restrict_tree d)
               (filter (fun c0 => negb (mem2 (rm_call d) (pl_id p) (c_id c0))) (pl_calls p))
               (filter (fun k => negb (mem2 (rm_call d) (pl_id p) (c_id (tree_call k)))) kids)).
    + reflexivity.
    + intros x y _ Hx. apply IH. assumption.
    + apply map_opt_filter; [|assumption].
      intros x y _ Hx. apply denote_call_root in Hx. rewrite Hx. reflexivity.
Qed.

(* Removing elements preserves the resolved call tree up to the restriction. *)
Theorem restrict_denote d a t :
  denote a = Some t ->
  denote (restrict_ast d a) = Some (restrict_tree d t).
Proof.
  intros H. unfold denote, fuel_of in *. cbn [restrict_ast a_call a_callables].
  destruct (a_call a) as [c|]; [|discriminate]. cbn [option_map].
  rewrite map_length.
  apply restrict_denote_call. assumption.
Qed.

(* ------------------------------------------------------------ the validator *)

Lemma callable_names_restrict d a : callable_names (restrict_ast d a) = callable_names a.
Proof.
  unfold callable_names. cbn [restrict_ast a_callables]. rewrite map_map.
  apply map_ext. intros c. apply restrict_callable_id.
Qed.

Theorem same_up_to_sound rho d a b t :
  same_up_to rho d a b = true ->
  denote a = Some t ->
  denote b = Some (rename_tree rho [] [] (restrict_tree d t)).
Proof.
  unfold same_up_to. intros H Ht. apply andb_prop in H as [H Heq]. apply andb_prop in H as [Hok _].
  apply ast_eqb_eq in Heq. subst b.
  apply rename_denote.
  - unfold ren_ok in *. rewrite callable_names_restrict. assumption.
  - apply restrict_denote. assumption.
Qed.

Theorem verdict_valid rho d a b : verdict rho d a b = 0%N -> same_up_to rho d a b = true.
Proof.
  unfold verdict, same_up_to.
  destruct (ren_ok rho a); cbn; [|discriminate].
  destruct (unused_ok d a); cbn; [|discriminate].
  destruct (ast_eqb _ b); [reflexivity|discriminate].
Qed.

(* what the correspondence run evaluates on every dumped pair *)
Theorem check_rename_sound e a b t :
  check_rename e a b = 0%N ->
  denote a = Some t ->
  denote b = Some (rename_tree (go_renaming e a) [] [] t).
Proof.
  intros H Ht. apply verdict_valid in H.
  pose proof (same_up_to_sound _ _ _ _ _ H Ht) as E. rewrite E. f_equal. f_equal.
  (* restricting by nothing is the identity on the tree *)
  clear. revert t.
  fix IH 1. intros [c def kids]. rewrite restrict_tree_unfold.
  assert (restrict_call removed_none c = c) as ->.
  { destruct c. unfold restrict_call. cbn. f_equal.
    induction c_bindings as [|x r IHr]; cbn; [reflexivity|]. f_equal. assumption. }
  assert (forall {A} (l : list A), filter (fun _ => true) l = l) as Hf.
  { intros A l. induction l as [|x r IHr]; cbn; [reflexivity|]. f_equal. assumption. }
  assert (restrict_callable removed_none def = def) as ->.
  { destruct def as [s|p]; cbn.
    - destruct s. unfold restrict_stage. cbn. rewrite !Hf. reflexivity.
    - destruct p. unfold restrict_pipeline. cbn. rewrite !Hf.
      f_equal. f_equal.
      + induction pl_calls as [|x r IHr]; cbn; [reflexivity|]. f_equal; [|assumption].
        destruct x. unfold restrict_call. cbn. rewrite Hf. reflexivity.
      + destruct pl_ret; cbn; [rewrite Hf|]; reflexivity. }
  f_equal. cbn. rewrite Hf.
  induction kids as [|k r IHr]; cbn; [reflexivity|]. f_equal; [apply IH|assumption].
Qed.

Theorem check_removal_sound a b t :
  check_removal a b = 0%N ->
  denote a = Some t ->
  denote b = Some (rename_tree ren_none [] [] (restrict_tree (diff_removed a b) t))
  /\ unused_ok (diff_removed a b) a = true.
Proof.
  intros H Ht. apply verdict_valid in H. split.
  - apply (same_up_to_sound _ _ _ _ _ H Ht).
  - unfold same_up_to in H. apply andb_prop in H as [H _]. apply andb_prop in H as [_ H]. assumption.
Qed.

Theorem check_roundtrip_sound a c : check_roundtrip a c = 0%N -> c = a /\ denote c = denote a.
Proof.
  unfold check_roundtrip. destruct (ast_eqb a c) eqn:E; [|discriminate].
  apply ast_eqb_eq in E. subst c. split; reflexivity.
Qed.

(* ------------------------------------------------------------ aliases keep the qualified names *)

Lemma ren2_nil c x : ren2 [] c x = x.
Proof. reflexivity. Qed.

(* When no call id is renamed (every affected call keeps or gets an alias),
   the tree of fully qualified names is unchanged. *)
Theorem alias_insertion_preserves rho :
  rn_call rho = [] ->
  forall t P sg, tree_ids (rename_tree rho P sg t) = tree_ids t.
Proof.
  intros Hnil. fix IH 1. intros [c d kids] P sg. cbn [rename_tree tree_ids rename_call c_id].
  rewrite Hnil, ren2_nil. f_equal. rewrite map_map.
  induction kids as [|k r IHr]; cbn; [reflexivity|]. f_equal; [apply IH|assumption].
Qed.

(* The qualified names after a rename are the original ones with the call ids
   renamed per pipeline. *)
Fixpoint rename_ids (rho : renaming) (P : bytes) (t : tree) : idtree :=
  match t with
  | Tree c d kids => IdTree (ren2 (rn_call rho) P (c_id c)) (map (rename_ids rho (callable_id d)) kids)
  end.

Theorem rename_tree_ids rho : forall t P sg, tree_ids (rename_tree rho P sg t) = rename_ids rho P t.
Proof.
  fix IH 1. intros [c d kids] P sg. cbn [rename_tree tree_ids rename_call c_id rename_ids].
  f_equal. rewrite map_map.
  induction kids as [|k r IHr]; cbn; [reflexivity|]. f_equal; [apply IH|assumption].
Qed.

(* ------------------------------------------------------------ rename there and back *)

Lemma ren1_inverse X Y n : n <> Y -> ren1 [(Y, X)] (ren1 [(X, Y)] n) = n.
Proof.
  intros Hn. cbn. destruct (bytes_eqb X n) eqn:E.
  - rewrite rf_bytes_eqb_refl. apply rf_bytes_eqb_eq. assumption.
  - rewrite rf_bytes_eqb_neq; [reflexivity|]. intros ->. contradiction.
Qed.

Lemma ren2_inverse C x y c n :
  ~ (c = C /\ n = y) -> ren2 [(C, y, x)] c (ren2 [(C, x, y)] c n) = n.
Proof.
  intros Hn. cbn [ren2]. destruct (bytes_eqb C c) eqn:Ec; cbn [andb]; [|reflexivity].
  destruct (bytes_eqb x n) eqn:E.
  - rewrite rf_bytes_eqb_refl. apply rf_bytes_eqb_eq. assumption.
  - rewrite rf_bytes_eqb_neq; [reflexivity|].
    intros ->. apply Hn. split; [symmetry; apply rf_bytes_eqb_eq; assumption|reflexivity].
Qed.

(* ------------------------------------------------------------ several edits in one invocation *)

Theorem apply_edits_denote : forall es a a' t,
  apply_edits es a = Some a' ->
  denote a = Some t ->
  denote a' = Some (apply_edits_tree es a t).
Proof.
  induction es as [|e r IH]; cbn [apply_edits apply_edits_tree]; intros a a' t H Ht.
  - injection H as <-. assumption.
  - destruct (ren_ok (go_renaming e a) a) eqn:Hok; [|discriminate].
    apply (IH _ _ _ H). apply rename_denote; assumption.
Qed.

Theorem check_combo_sound es a b t :
  check_combo es false a b = 0%N ->
  denote a = Some t ->
  denote b = Some (apply_edits_tree es a t).
Proof.
  unfold check_combo. intros H Ht.
  destruct (apply_edits es a) as [a'|] eqn:Ea; [|discriminate].
  destruct (ast_eqb a' b) eqn:E; [|discriminate].
  apply ast_eqb_eq in E. subst b. apply (apply_edits_denote _ _ _ _ Ea Ht).
Qed.

Theorem check_combo_removal_sound es a b t :
  check_combo es true a b = 0%N ->
  denote a = Some t ->
  exists a', apply_edits es a = Some a' /\
    denote b = Some (rename_tree ren_none [] []
                       (restrict_tree (diff_removed a' b) (apply_edits_tree es a t))) /\
    unused_ok (diff_removed a' b) a' = true.
Proof.
  unfold check_combo. intros H Ht.
  destruct (apply_edits es a) as [a'|] eqn:Ea; [|discriminate].
  exists a'. split; [reflexivity|].
  apply check_removal_sound; [assumption|].
  apply (apply_edits_denote _ _ _ _ Ea Ht).
Qed.
