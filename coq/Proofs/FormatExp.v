(* Proofs about K/FormatExp (quoteString, IntExp.format) against the lexer's
   string rule (K/Lexer.tok_string), unquoteBytes (K/Unquote.unquote) and
   parseInt (K/ParseNum.parse_int). *)
From Martian Require Import Lib.Bytes Lib.Utf8 K.ParseNum K.Unquote K.Lexer K.FormatExp
  Proofs.BytesFacts Proofs.ParseNum.
Local Open Scope N_scope.

(* ------------------------------------------------------------ utf8 facts *)

Definition high (b : byte) : bool := 128 <=? b2n b.

Fixpoint high_prefix (n : nat) (s : bytes) : bool :=
  match n with
  | O => true
  | S k => match s with
           | b :: r => high b && high_prefix k r
           | [] => false
           end
  end.

Lemma in_range_high lo hi b : 128 <= lo -> in_range lo hi b = true -> high b = true.
Proof.
  unfold in_range, high. intros Hlo H. apply andb_prop in H. destruct H as [H _].
  apply N.leb_le in H. apply N.leb_le. lia.
Qed.

Lemma is_cont_high b : is_cont b = true -> high b = true.
Proof. apply in_range_high. lia. Qed.

Lemma utf8_len_pos_high b r k :
  b2n b <? 128 = false -> utf8_len (b :: r) = S k -> high b = true /\ high_prefix k r = true.
Proof.
  unfold utf8_len. intros E0. rewrite E0.
  assert (Hb : high b = true).
  { unfold high. apply N.leb_le. apply N.ltb_ge in E0. exact E0. }
  destruct (b2n b <? 194); [discriminate|].
  destruct (b2n b <? 224).
  { destruct r as [|b1 ?]; [discriminate|].
    destruct (is_cont b1) eqn:E1; [|discriminate].
    intros H; injection H as <-. split; [exact Hb|]. cbn. rewrite (is_cont_high _ E1). reflexivity. }
  destruct (b2n b <? 240).
  { destruct r as [|b1 [|b2 ?]]; try discriminate.
    destruct (in_range _ _ b1) eqn:E1; cbn [andb]; [|discriminate].
    destruct (is_cont b2) eqn:E2; [|discriminate].
    intros H; injection H as <-. split; [exact Hb|]. cbn.
    rewrite (is_cont_high _ E2).
    erewrite in_range_high; [reflexivity| |exact E1].
    destruct (b2n b =? 224); lia. }
  destruct (b2n b <? 245); [|discriminate].
  destruct r as [|b1 [|b2 [|b3 ?]]]; try discriminate.
  destruct (in_range _ _ b1) eqn:E1; cbn [andb]; [|discriminate].
  destruct (is_cont b2) eqn:E2; cbn [andb]; [|discriminate].
  destruct (is_cont b3) eqn:E3; [|discriminate].
  intros H; injection H as <-. split; [exact Hb|]. cbn.
  rewrite (is_cont_high _ E2), (is_cont_high _ E3).
  erewrite in_range_high; [reflexivity| |exact E1].
  destruct (b2n b =? 240); lia.
Qed.

(* ------------------------------------------------------------ single bytes *)

Lemma high_not_special b : high b = true -> beq b c_backslash = false /\ beq b c_dquote = false.
Proof. destruct b; vm_compute; intros H; try discriminate; split; reflexivity. Qed.

Lemma plain_not_special b :
  b2n b <? 128 = true -> plain_ascii b = true ->
  beq b c_backslash = false /\ beq b c_dquote = false /\ high b = false.
Proof. destruct b; vm_compute; intros H1 H2; try discriminate; repeat split; reflexivity. Qed.

Lemma unquote_loop_copy b rest :
  beq b c_backslash = false -> unquote_loop (b :: rest) = opt_cons b (unquote_loop rest).
Proof.
  intros H. cbn [unquote_loop]. rewrite H. cbn [negb].
  destruct (128 <=? b2n b); reflexivity.
Qed.

Lemma unquote_loop_esc b rest :
  b2n b <? 128 = true -> plain_ascii b = false ->
  unquote_loop (esc_byte b ++ rest) = opt_cons b (unquote_loop rest).
Proof. destruct b; intros H1 H2; try discriminate H1; try discriminate H2; reflexivity. Qed.

Lemma esc_byte_head b : exists t, esc_byte b = c_backslash :: t.
Proof.
  unfold esc_byte.
  repeat match goal with |- context [if ?c then _ else _] => destruct c end; eexists; reflexivity.
Qed.

Lemma ls_ps_inv s d :
  ls_ps s = Some d ->
  exists r', (s = xe2 :: x80 :: xa8 :: r' /\ d = hexd 8) \/ (s = xe2 :: x80 :: xa9 :: r' /\ d = hexd 9).
Proof.
  destruct s as [|b0 [|b1 [|b2 r']]]; try discriminate. cbn [ls_ps].
  destruct (b2n b0 =? 226) eqn:E0; [|discriminate].
  destruct (b2n b1 =? 128) eqn:E1; [|discriminate]. cbn [andb].
  assert (b0 = xe2) as -> by (destruct b0; try discriminate E0; reflexivity).
  assert (b1 = x80) as -> by (destruct b1; try discriminate E1; reflexivity).
  destruct (b2n b2 =? 168) eqn:E2.
  - intros H; injection H as <-. exists r'. left. split; [|reflexivity].
    assert (b2 = xa8) as -> by (destruct b2; try discriminate E2; reflexivity). reflexivity.
  - destruct (b2n b2 =? 169) eqn:E3; [|discriminate].
    intros H; injection H as <-. exists r'. right. split; [|reflexivity].
    assert (b2 = xa9) as -> by (destruct b2; try discriminate E3; reflexivity). reflexivity.
Qed.

(* ------------------------------------------------------------ unquote . quote *)

Lemma opt_cons_some b o l : o = Some l -> opt_cons b o = Some (b :: l).
Proof. intros ->. reflexivity. Qed.

Lemma unquote_quote_loop : forall s skip,
  high_prefix skip s = true ->
  valid_utf8_aux skip s = true ->
  unquote_loop (quote_loop skip s) = Some s.
Proof.
  induction s as [|b r IH]; intros skip Hp Hv; [reflexivity|].
  destruct skip as [|k].
  - cbn [quote_loop]. cbn [valid_utf8_aux] in Hv.
    destruct (b2n b <? 128) eqn:E0.
    + assert (EL : utf8_len (b :: r) = 1%nat) by (unfold utf8_len; rewrite E0; reflexivity).
      rewrite EL in Hv.
      destruct (plain_ascii b) eqn:Epl.
      * destruct (plain_not_special b E0 Epl) as (Hbs & _ & _).
        cbn [app]. rewrite unquote_loop_copy by exact Hbs.
        apply opt_cons_some. apply IH; [reflexivity|exact Hv].
      * rewrite unquote_loop_esc by assumption.
        apply opt_cons_some. apply IH; [reflexivity|exact Hv].
    + destruct (utf8_len (b :: r)) as [|k] eqn:EL; [discriminate|].
      destruct (utf8_len_pos_high _ _ _ E0 EL) as [Hb Hr].
      destruct (ls_ps (b :: r)) as [d|] eqn:Els.
      * destruct (ls_ps_inv _ _ Els) as (r' & [[Es ->]|[Es ->]]); injection Es as -> ->.
        -- assert (k = 2%nat) as -> by (cbn in EL; congruence).
           specialize (IH 2%nat Hr Hv). cbn [quote_loop] in IH.
           rewrite !unquote_loop_copy in IH by reflexivity.
           destruct (unquote_loop (quote_loop 0 r')) as [l|] eqn:E; [|discriminate IH].
           cbn in IH. injection IH as ->.
           change (unquote_loop (esc_202 ++ hexd 8 :: quote_loop 0 r'))
             with (opt_app [xe2; x80; xa8] (unquote_loop (quote_loop 0 r'))).
           rewrite E. reflexivity.
        -- assert (k = 2%nat) as -> by (cbn in EL; congruence).
           specialize (IH 2%nat Hr Hv). cbn [quote_loop] in IH.
           rewrite !unquote_loop_copy in IH by reflexivity.
           destruct (unquote_loop (quote_loop 0 r')) as [l|] eqn:E; [|discriminate IH].
           cbn in IH. injection IH as ->.
           change (unquote_loop (esc_202 ++ hexd 9 :: quote_loop 0 r'))
             with (opt_app [xe2; x80; xa9] (unquote_loop (quote_loop 0 r'))).
           rewrite E. reflexivity.
      * destruct (high_not_special b Hb) as [Hbs _].
        rewrite unquote_loop_copy by exact Hbs.
        apply opt_cons_some. apply IH; assumption.
  - cbn [quote_loop]. cbn [valid_utf8_aux] in Hv. cbn [high_prefix] in Hp.
    apply andb_prop in Hp as [Hb Hp].
    destruct (high_not_special b Hb) as [Hbs _].
    rewrite unquote_loop_copy by exact Hbs.
    apply opt_cons_some. apply IH; assumption.
Qed.

(* when nothing had to be escaped the text is the string itself (the fast
   path of unquoteBytes returns the inner text unchanged) *)
Lemma has_escape_app a b :
  has_escape_or_quote (a ++ b) = has_escape_or_quote a || has_escape_or_quote b.
Proof. unfold has_escape_or_quote. apply existsb_app. Qed.

Lemma quote_loop_plain : forall s skip,
  high_prefix skip s = true ->
  valid_utf8_aux skip s = true ->
  has_escape_or_quote (quote_loop skip s) = false ->
  quote_loop skip s = s.
Proof.
  induction s as [|b r IH]; intros skip Hp Hv He; [reflexivity|].
  destruct skip as [|k].
  - cbn [quote_loop] in *. cbn [valid_utf8_aux] in Hv.
    destruct (b2n b <? 128) eqn:E0.
    + assert (EL : utf8_len (b :: r) = 1%nat) by (unfold utf8_len; rewrite E0; reflexivity).
      rewrite EL in Hv.
      destruct (plain_ascii b) eqn:Epl.
      * cbn [app] in *. unfold has_escape_or_quote in He. cbn [existsb] in He.
        apply orb_false_elim in He as [_ He].
        f_equal. apply IH; [reflexivity|exact Hv|exact He].
      * destruct (esc_byte_head b) as [t Et]. rewrite Et in He.
        unfold has_escape_or_quote in He. cbn in He. discriminate He.
    + destruct (utf8_len (b :: r)) as [|k] eqn:EL; [discriminate|].
      destruct (utf8_len_pos_high _ _ _ E0 EL) as [Hb Hr].
      destruct (ls_ps (b :: r)) as [d|] eqn:Els.
      * unfold has_escape_or_quote in He. cbn in He. discriminate He.
      * unfold has_escape_or_quote in He. cbn [existsb] in He.
        apply orb_false_elim in He as [_ He].
        f_equal. apply IH; assumption.
  - cbn [quote_loop] in *. cbn [valid_utf8_aux] in Hv. cbn [high_prefix] in Hp.
    apply andb_prop in Hp as [Hb Hp].
    unfold has_escape_or_quote in He. cbn [existsb] in He.
    apply orb_false_elim in He as [_ He].
    f_equal. apply IH; assumption.
Qed.

Lemma unquote_quote_lemma : forall s,
  valid_utf8 s = true -> unquote (quote_string s) = Some s.
Proof.
  intros s Hv. unfold quote_string, unquote.
  rewrite rev_app_distr. cbn [rev app].
  change (beq c_dquote c_dquote) with true. cbn [andb].
  rewrite rev_involutive.
  destruct (has_escape_or_quote (quote_loop 0 s)) eqn:E; cbn [negb].
  - apply unquote_quote_loop; [reflexivity|exact Hv].
  - f_equal. apply quote_loop_plain; [reflexivity|exact Hv|exact E].
Qed.

(* ------------------------------------------------------------ the string token rule *)

Lemma str_body_copy b rest :
  beq b c_backslash = false -> beq b c_dquote = false ->
  str_body (b :: rest) = opt_add 1 (str_body rest).
Proof. intros H1 H2. cbn [str_body]. rewrite H1, H2. reflexivity. Qed.

Lemma str_body_esc b rest :
  b2n b <? 128 = true -> plain_ascii b = false ->
  str_body (esc_byte b ++ rest) = opt_add (length (esc_byte b)) (str_body rest).
Proof.
  destruct b; intros H1 H2; try discriminate H1; try discriminate H2;
    cbn; destruct (str_body rest); reflexivity.
Qed.

Lemma opt_add_some_eq k o n : o = Some n -> opt_add k o = Some (k + n)%nat.
Proof. intros ->. reflexivity. Qed.

Lemma str_body_quote_loop : forall s skip rest,
  high_prefix skip s = true ->
  valid_utf8_aux skip s = true ->
  str_body (quote_loop skip s ++ c_dquote :: rest) = Some (length (quote_loop skip s) + 1)%nat.
Proof.
  induction s as [|b r IH]; intros skip rest Hp Hv.
  - cbn. reflexivity.
  - destruct skip as [|k].
    + cbn [quote_loop]. cbn [valid_utf8_aux] in Hv.
      destruct (b2n b <? 128) eqn:E0.
      * assert (EL : utf8_len (b :: r) = 1%nat) by (unfold utf8_len; rewrite E0; reflexivity).
        rewrite EL in Hv.
        destruct (plain_ascii b) eqn:Epl.
        -- destruct (plain_not_special b E0 Epl) as (Hbs & Hdq & _).
           cbn [app]. rewrite str_body_copy by assumption.
           rewrite (opt_add_some_eq _ _ _ (IH 0%nat rest eq_refl Hv)). cbn [length]. f_equal.
        -- rewrite <- app_assoc. rewrite str_body_esc by assumption.
           rewrite (opt_add_some_eq _ _ _ (IH 0%nat rest eq_refl Hv)).
           rewrite app_length. f_equal. lia.
      * destruct (utf8_len (b :: r)) as [|k] eqn:EL; [discriminate|].
        destruct (utf8_len_pos_high _ _ _ E0 EL) as [Hb Hr].
        destruct (ls_ps (b :: r)) as [d|] eqn:Els.
        -- destruct (ls_ps_inv _ _ Els) as (r' & [[Es ->]|[Es ->]]); injection Es as -> ->;
             assert (k = 2%nat) as -> by (cbn in EL; congruence);
             specialize (IH 2%nat rest Hr Hv); cbn [quote_loop] in IH; cbn [app] in IH;
             rewrite !str_body_copy in IH by reflexivity;
             destruct (str_body (quote_loop 0 r' ++ c_dquote :: rest)) as [n|] eqn:E; try discriminate IH;
             cbn in IH; injection IH as IH;
             cbn [app esc_202];
             match goal with |- str_body (?a :: ?b :: ?c :: ?d :: ?e :: ?f :: ?t) = _ =>
               change (str_body (a :: b :: c :: d :: e :: f :: t)) with (opt_add 6 (str_body t)) end;
             rewrite E; cbn [opt_add length]; f_equal; lia.
        -- destruct (high_not_special b Hb) as [Hbs Hdq].
           cbn [app]. rewrite str_body_copy by assumption.
           rewrite (opt_add_some_eq _ _ _ (IH k rest Hr Hv)). cbn [length]. f_equal.
    + cbn [quote_loop]. cbn [valid_utf8_aux] in Hv. cbn [high_prefix] in Hp.
      apply andb_prop in Hp as [Hb Hp].
      destruct (high_not_special b Hb) as [Hbs Hdq].
      cbn [app]. rewrite str_body_copy by assumption.
      rewrite (opt_add_some_eq _ _ _ (IH k rest Hp Hv)). cbn [length]. f_equal.
Qed.

Lemma quote_is_string_token_lemma : forall s rest,
  valid_utf8 s = true ->
  tok_string (quote_string s ++ rest) = length (quote_string s).
Proof.
  intros s rest Hv. unfold quote_string, tok_string. cbn [app].
  change (beq c_dquote c_dquote) with true. cbn iota.
  rewrite <- app_assoc. cbn [app].
  rewrite (str_body_quote_loop s 0 rest eq_refl Hv).
  cbn [length]. rewrite app_length. cbn [length]. reflexivity.
Qed.

(* both facts together: what the formatter writes for a string is one string
   token whose value is the string *)
Lemma quote_roundtrip_lemma : forall s rest,
  valid_utf8 s = true ->
  tok_string (quote_string s ++ rest) = length (quote_string s) /\
  unquote (quote_string s) = Some s.
Proof.
  intros s rest Hv. split; [apply quote_is_string_token_lemma|apply unquote_quote_lemma]; exact Hv.
Qed.

(* invalid UTF-8 is not reproduced: the byte FF becomes U+FFFD *)
Lemma quote_invalid_utf8_refuted_lemma :
  exists s, unquote (quote_string s) <> Some s /\ valid_utf8 s = false.
Proof. exists [xff]. split; [vm_compute; discriminate|reflexivity]. Qed.

(* ------------------------------------------------------------ integers *)

Lemma digit_is_digit n : n < 10 -> is_digit (digit n) = true /\ digit_val (digit n) = n.
Proof.
  intro H. unfold digit.
  assert (n = 0 \/ n = 1 \/ n = 2 \/ n = 3 \/ n = 4 \/ n = 5 \/ n = 6 \/ n = 7 \/ n = 8 \/ n = 9) as Hn by lia.
  repeat (destruct Hn as [->|Hn]; [vm_compute; split; reflexivity|]). subst. vm_compute; split; reflexivity.
Qed.

Lemma dec_value_acc_app : forall s t acc,
  dec_value_acc acc (s ++ t) = dec_value_acc (dec_value_acc acc s) t.
Proof. induction s as [|c s IH]; intros t acc; cbn [app dec_value_acc]; [reflexivity|apply IH]. Qed.

Lemma dec_aux_spec : forall fuel n acc,
  n < 2 ^ N.of_nat fuel -> (0 < fuel)%nat ->
  exists ds, dec_aux fuel n acc = ds ++ acc /\ forallb is_digit ds = true /\ ds <> [] /\
             forall v, dec_value_acc v ds = v * 10 ^ N.of_nat (length ds) + n.
Proof.
  induction fuel as [|f IH]; intros n acc Hn Hf; [lia|].
  cbn [dec_aux].
  assert (Hm : n mod 10 < 10) by (apply N.mod_lt; lia).
  destruct (digit_is_digit _ Hm) as [Hd Hv].
  destruct (n <? 10) eqn:E.
  - apply N.ltb_lt in E. exists [digit (n mod 10)]. repeat split.
    + cbn [forallb]. rewrite Hd. reflexivity.
    + discriminate.
    + intro v. cbn [dec_value_acc length]. rewrite Hv.
      rewrite N.mod_small by exact E. change (10 ^ N.of_nat 1) with 10. lia.
  - apply N.ltb_ge in E.
    assert (Hf' : (0 < f)%nat).
    { destruct f; [|lia]. cbn in Hn. lia. }
    assert (Hn' : n / 10 < 2 ^ N.of_nat f).
    { replace (N.of_nat (S f)) with (N.succ (N.of_nat f)) in Hn by lia.
      rewrite N.pow_succ_r' in Hn.
      apply N.div_lt_upper_bound; [lia|]. lia. }
    destruct (IH (n / 10) (digit (n mod 10) :: acc) Hn' Hf') as (ds & E1 & Hds & Hne & Hval).
    exists (ds ++ [digit (n mod 10)]). repeat split.
    + rewrite E1, <- app_assoc. reflexivity.
    + rewrite forallb_app, Hds. cbn [forallb]. rewrite Hd. reflexivity.
    + intro Hc. apply app_eq_nil in Hc as [_ Hc]. discriminate.
    + intro v. rewrite dec_value_acc_app. cbn [dec_value_acc]. rewrite Hval, Hv.
      rewrite app_length. cbn [length]. replace (N.of_nat (length ds + 1)) with (N.succ (N.of_nat (length ds))) by lia.
      rewrite N.pow_succ_r'. pose proof (N.div_mod n 10) as Hdm. lia.
Qed.

Lemma print_dec_spec n :
  forallb is_digit (print_dec n) = true /\ print_dec n <> [] /\ dec_value (print_dec n) = n.
Proof.
  unfold print_dec.
  destruct (dec_aux_spec (S (N.to_nat (N.size n))) n []) as (ds & E & Hd & Hne & Hv).
  - rewrite Nat2N.inj_succ, N2Nat.id, N.pow_succ_r'.
    destruct n as [|p]; [cbn; lia|].
    pose proof (N.size_gt (N.pos p)) as Hs. lia.
  - lia.
  - rewrite E, app_nil_r. repeat split; try assumption.
    unfold dec_value. rewrite (Hv 0). lia.
Qed.

(* strconv.FormatInt followed by parseInt is the identity on int64 *)
Lemma int_format_parse_lemma : forall z,
  (- 2 ^ 63 <= z < 2 ^ 63)%Z -> parse_int (format_int z) = IOk z.
Proof.
  intros z Hz. unfold format_int. destruct z as [|p|p].
  - reflexivity.
  - destruct (print_dec_spec (Z.to_N (Z.pos p))) as (Hd & Hne & Hv).
    rewrite (parse_int_literal false (print_dec (Z.to_N (Z.pos p))) (print_dec (Z.to_N (Z.pos p)))).
    + unfold int_value. rewrite Hv. f_equal; try lia.
    + unfold int_literal. repeat split; assumption.
    + rewrite Hv. unfold int_bound, int_cutoff. lia.
  - destruct (print_dec_spec (N.pos p)) as (Hd & Hne & Hv).
    rewrite (parse_int_literal true (print_dec (N.pos p)) (c_minus :: print_dec (N.pos p))).
    + unfold int_value. rewrite Hv. f_equal; try lia.
    + unfold int_literal. repeat split; assumption.
    + rewrite Hv. unfold int_bound, int_cutoff. lia.
Qed.
