(* Proofs about K/Semaphore.v (model of resource_semaphore.go). *)
From Martian Require Import K.Semaphore.
Local Open Scope Z_scope.

(* ------------------------------------------------------------ run_jobs *)

Definition head_blocked_at (cur res : Z) (ws : list (N * Z)) : Prop :=
  match ws with
  | [] => True
  | (_, a) :: _ => cur - res < a
  end.

Definition head_blocked (s : sem) : Prop :=
  head_blocked_at (s_cur s) (s_res s) (s_wait s).

Lemma requests_app : forall a b, requests (a ++ b) = requests a ++ requests b.
Proof.
  induction a as [|e a IH]; intros b; [reflexivity|].
  destruct e; cbn [app requests]; rewrite ?IH; reflexivity.
Qed.

Lemma grants_app : forall a b, grants (a ++ b) = grants a ++ grants b.
Proof.
  induction a as [|e a IH]; intros b; [reflexivity|].
  destruct e; cbn [app grants]; rewrite ?IH; reflexivity.
Qed.

Lemma has_panic_app : forall a b, has_panic (a ++ b) = has_panic a || has_panic b.
Proof. intros a b. unfold has_panic. apply existsb_app. Qed.

Lemma run_jobs_spec : forall ws cur res r w g,
  run_jobs cur res ws = (r, w, g) ->
  ws = grants g ++ w /\
  requests g = [] /\
  has_panic g = false /\
  r = res + sum_held (grants g) /\
  head_blocked_at cur r w /\
  (g = [] -> r = res /\ w = ws) /\
  (g <> [] -> r <= cur).
Proof.
  induction ws as [|[id a] tl IH]; intros cur res r w g H.
  - cbn in H. inversion H; subst. cbn. repeat split; auto; try lia. congruence.
  - cbn [run_jobs] in H.
    destruct (cur - res <? a) eqn:E.
    + inversion H; subst. cbn. apply Z.ltb_lt in E.
      repeat split; auto; try lia. congruence.
    + apply Z.ltb_ge in E.
      destruct (run_jobs cur (res + a) tl) as [[r1 w1] g1] eqn:R.
      inversion H; subst. clear H.
      destruct (IH _ _ _ _ _ R) as (Hws & Hreq & Hp & Hr & Hb & Hnil & Hne).
      cbn [grants requests app sum_held fold_right snd has_panic existsb is_panic orb].
      split; [|split; [|split; [|split; [|split; [|split]]]]].
      * rewrite Hws at 1. reflexivity.
      * exact Hreq.
      * exact Hp.
      * unfold sum_held in Hr. lia.
      * exact Hb.
      * intros X; discriminate X.
      * intros _. destruct g1 as [|e g1].
        -- destruct (Hnil eq_refl) as [-> _]. lia.
        -- apply Hne. congruence.
Qed.

(* ------------------------------------------------------------ bounds *)

Definition op_ok (mx : Z) (o : op) : Prop :=
  match o with
  | UpdateSize n => n <= mx
  | Release n => 0 <= n
  | _ => True
  end.

Definition bounded (mx : Z) (s : sem) : Prop :=
  s_max s = mx /\ s_cur s <= mx /\ s_res s <= mx.

Lemma with_run_jobs_bounded : forall mx cur res ws ev s e,
  cur <= mx -> res <= mx ->
  with_run_jobs mx cur res ws ev = (s, e) -> bounded mx s.
Proof.
  intros mx cur res ws ev s e Hc Hr H. unfold with_run_jobs in H.
  destruct (run_jobs cur res ws) as [[r w] g] eqn:R. inversion H; subst.
  destruct (run_jobs_spec _ _ _ _ _ _ R) as (_ & _ & _ & _ & _ & Hnil & Hne).
  unfold bounded; cbn. repeat split; auto.
  destruct g as [|x g]; [destruct (Hnil eq_refl); lia|].
  assert (r <= cur) by (apply Hne; congruence). lia.
Qed.

Lemma resize_bounded : forall mx s newcur ret s' e,
  bounded mx s -> newcur <= mx -> resize s newcur ret = (s', e) -> bounded mx s'.
Proof.
  intros mx s newcur ret s' e (Hm & Hc & Hr) Hn H. unfold resize in H.
  destruct (s_cur s <? newcur).
  - rewrite Hm in H. eapply with_run_jobs_bounded; [| |exact H]; assumption.
  - inversion H; subst. unfold bounded; cbn. auto.
Qed.

Lemma step_bounded : forall mx s o s' e,
  bounded mx s -> op_ok mx o -> step s o = (s', e) -> bounded mx s'.
Proof.
  intros mx s o s' e Hb Hok H. pose proof Hb as (Hm & Hc & Hr).
  destruct o as [id n|n|n|n|free used]; cbn [step] in H.
  - destruct ((n <=? s_cur s - s_res s) && is_nil (s_wait s)) eqn:E.
    + inversion H; subst. apply andb_prop in E as [E _]. apply Z.leb_le in E.
      unfold bounded; cbn. repeat split; auto; lia.
    + destruct (s_max s <? n); inversion H; subst; auto.
  - cbn in Hok. destruct (s_res s - n <? 0).
    + inversion H; subst. unfold bounded; cbn. repeat split; auto; lia.
    + rewrite Hm in H. eapply with_run_jobs_bounded; [| |exact H]; lia.
  - eapply resize_bounded; [exact Hb| |exact H].
    destruct (s_max s <? n + s_res s) eqn:E; [lia|]. apply Z.ltb_ge in E. lia.
  - cbn in Hok. destruct (s_cur s <? n).
    + rewrite Hm in H. eapply with_run_jobs_bounded; [| |exact H]; lia.
    + inversion H; subst. unfold bounded; cbn. auto.
  - eapply resize_bounded; [exact Hb| |exact H].
    destruct (used <=? s_res s) eqn:U.
    + destruct (s_max s <? free + used) eqn:E; [lia|]. apply Z.ltb_ge in E. lia.
    + apply Z.leb_gt in U.
      destruct (s_max s - (used - s_res s) <? free + used) eqn:E; [lia|].
      apply Z.ltb_ge in E. lia.
Qed.

Lemma run_bounded : forall mx ops s s' e,
  bounded mx s -> Forall (op_ok mx) ops -> run s ops = (s', e) -> bounded mx s'.
Proof.
  induction ops as [|o tl IH]; intros s s' e Hb Hok H; cbn [run] in H.
  - inversion H; subst; auto.
  - inversion Hok as [|? ? Ho Htl]; subst.
    destruct (step s o) as [s1 e1] eqn:S.
    destruct (run s1 tl) as [s2 e2] eqn:R. inversion H; subst.
    eapply IH; [|exact Htl|exact R]. eapply step_bounded; eauto.
Qed.

Lemma reserved_le_max_lemma : forall size ops,
  0 <= size -> Forall (op_ok size) ops ->
  let s := fst (run (sem_init size) ops) in
  s_max s = size /\ s_cur s <= size /\ s_res s <= size.
Proof.
  intros size ops Hs Hok. cbn zeta.
  destruct (run (sem_init size) ops) as [s e] eqn:R. cbn [fst].
  eapply run_bounded; [|exact Hok|exact R]. unfold bounded; cbn. lia.
Qed.

(* ------------------------------------------------------------ no lost wake-up *)

Lemma with_run_jobs_head : forall mx cur res ws ev s e,
  with_run_jobs mx cur res ws ev = (s, e) -> head_blocked s.
Proof.
  intros mx cur res ws ev s e H. unfold with_run_jobs in H.
  destruct (run_jobs cur res ws) as [[r w] g] eqn:R. inversion H; subst.
  destruct (run_jobs_spec _ _ _ _ _ _ R) as (_ & _ & _ & _ & Hb & _).
  exact Hb.
Qed.

Lemma with_run_jobs_panic : forall mx cur res ws ev s e,
  with_run_jobs mx cur res ws ev = (s, e) -> has_panic e = has_panic ev.
Proof.
  intros mx cur res ws ev s e H. unfold with_run_jobs in H.
  destruct (run_jobs cur res ws) as [[r w] g] eqn:R. inversion H; subst.
  destruct (run_jobs_spec _ _ _ _ _ _ R) as (_ & _ & Hp & _).
  rewrite has_panic_app, Hp. apply orb_false_r.
Qed.

Lemma resize_head : forall s newcur ret s' e,
  head_blocked s -> resize s newcur ret = (s', e) -> head_blocked s'.
Proof.
  intros s newcur ret s' e Hb H. unfold resize in H.
  destruct (s_cur s <? newcur) eqn:E.
  - eapply with_run_jobs_head; eauto.
  - inversion H; subst. apply Z.ltb_ge in E. unfold head_blocked in *; cbn.
    destruct (s_wait s) as [|[i a] tl]; cbn in *; auto. lia.
Qed.

Lemma step_head : forall s o s' e,
  head_blocked s -> step s o = (s', e) -> has_panic e = false -> head_blocked s'.
Proof.
  intros s o s' e Hb H Hp.
  destruct o as [id n|n|n|n|free used]; cbn [step] in H.
  - destruct ((n <=? s_cur s - s_res s) && is_nil (s_wait s)) eqn:E.
    + inversion H; subst. apply andb_prop in E as [_ E].
      unfold head_blocked; cbn. destruct (s_wait s); [exact I|discriminate E].
    + destruct (s_max s <? n); inversion H; subst; auto.
      unfold head_blocked in *; cbn.
      destruct (s_wait s) as [|[i a] tl] eqn:W; cbn in *; auto.
      rewrite andb_true_r in E. apply Z.leb_gt in E. lia.
  - destruct (s_res s - n <? 0).
    + inversion H; subst. cbn in Hp. discriminate Hp.
    + eapply with_run_jobs_head; eauto.
  - eapply resize_head; eauto.
  - destruct (s_cur s <? n) eqn:E.
    + eapply with_run_jobs_head; eauto.
    + inversion H; subst. apply Z.ltb_ge in E. unfold head_blocked in *; cbn.
      destruct (s_wait s) as [|[i a] tl]; cbn in *; auto. lia.
  - eapply resize_head; eauto.
Qed.

Lemma run_head : forall ops s s' e,
  head_blocked s -> run s ops = (s', e) -> has_panic e = false -> head_blocked s'.
Proof.
  induction ops as [|o tl IH]; intros s s' e Hb H Hp; cbn [run] in H.
  - inversion H; subst; auto.
  - destruct (step s o) as [s1 e1] eqn:S.
    destruct (run s1 tl) as [s2 e2] eqn:R. inversion H; subst.
    rewrite has_panic_app in Hp. apply orb_false_elim in Hp as [P1 P2].
    eapply IH; [|exact R|exact P2]. eapply step_head; eauto.
Qed.

(* In every reachable state the queue is empty or its head does not fit the
   free capacity: whenever the oldest waiting request fits, it has been granted. *)
Lemma head_blocked_inv_lemma : forall size ops,
  let '(s, ev) := run (sem_init size) ops in
  has_panic ev = false ->
  match s_wait s with
  | [] => True
  | (_, a) :: _ => available s < a
  end.
Proof.
  intros size ops. destruct (run (sem_init size) ops) as [s ev] eqn:R.
  intros Hp. eapply run_head in R; [exact R| |exact Hp].
  unfold head_blocked; cbn. exact I.
Qed.

(* ------------------------------------------------------------ FIFO *)

Lemma with_run_jobs_fifo : forall mx cur res ws ev s e,
  with_run_jobs mx cur res ws ev = (s, e) ->
  requests e = requests ev /\ grants ev ++ ws = grants e ++ s_wait s.
Proof.
  intros mx cur res ws ev s e H. unfold with_run_jobs in H.
  destruct (run_jobs cur res ws) as [[r w] g] eqn:R. inversion H; subst.
  destruct (run_jobs_spec _ _ _ _ _ _ R) as (Hws & Hreq & _).
  cbn. rewrite requests_app, grants_app, Hreq, app_nil_r, <- app_assoc, <- Hws. auto.
Qed.

Lemma resize_fifo : forall s newcur ret s' e,
  resize s newcur ret = (s', e) ->
  requests e = [] /\ s_wait s = grants e ++ s_wait s'.
Proof.
  intros s newcur ret s' e H. unfold resize in H.
  destruct (s_cur s <? newcur).
  - apply with_run_jobs_fifo in H. cbn in H. exact H.
  - inversion H; subst. cbn. auto.
Qed.

Lemma step_fifo : forall s o s' e,
  step s o = (s', e) -> s_wait s ++ requests e = grants e ++ s_wait s'.
Proof.
  intros s o s' e H.
  destruct o as [id n|n|n|n|free used]; cbn [step] in H.
  - destruct ((n <=? s_cur s - s_res s) && is_nil (s_wait s)) eqn:E.
    + inversion H; subst. apply andb_prop in E as [_ E].
      destruct (s_wait s); [reflexivity|discriminate E].
    + destruct (s_max s <? n); inversion H; subst; cbn.
      * rewrite app_nil_r. reflexivity.
      * reflexivity.
  - destruct (s_res s - n <? 0).
    + inversion H; subst. cbn. apply app_nil_r.
    + apply with_run_jobs_fifo in H. cbn in H. destruct H as [-> H].
      rewrite app_nil_r. exact H.
  - apply resize_fifo in H as [-> H]. rewrite app_nil_r. exact H.
  - destruct (s_cur s <? n).
    + apply with_run_jobs_fifo in H. cbn in H. destruct H as [-> H].
      rewrite app_nil_r. exact H.
    + inversion H; subst. cbn. apply app_nil_r.
  - apply resize_fifo in H as [-> H]. rewrite app_nil_r. exact H.
Qed.

Lemma run_fifo : forall ops s s' e,
  run s ops = (s', e) -> s_wait s ++ requests e = grants e ++ s_wait s'.
Proof.
  induction ops as [|o tl IH]; intros s s' e H; cbn [run] in H.
  - inversion H; subst. cbn. apply app_nil_r.
  - destruct (step s o) as [s1 e1] eqn:S.
    destruct (run s1 tl) as [s2 e2] eqn:R. inversion H; subst.
    rewrite requests_app, grants_app, app_assoc, (step_fifo _ _ _ _ S).
    rewrite <- !app_assoc. f_equal. apply IH. exact R.
Qed.

(* Grants occur in request order: the grant history is a prefix of the
   history of accepted requests and the rest is exactly the queue. *)
Lemma grant_fifo_lemma : forall size ops,
  let '(s, ev) := run (sem_init size) ops in
  requests ev = grants ev ++ s_wait s.
Proof.
  intros size ops. destruct (run (sem_init size) ops) as [s ev] eqn:R.
  apply run_fifo in R. cbn in R. exact R.
Qed.

(* ------------------------------------------------------------ Acquire outcomes *)

Lemma acquire_outcome_lemma : forall s id n,
  let fits := n <= available s /\ s_wait s = [] in
  (fits -> step s (Acquire id n) =
     (mkSem (s_max s) (s_cur s) (s_res s + n) (s_wait s), [EGrantNow id n])) /\
  (~ fits -> s_max s < n -> step s (Acquire id n) = (s, [EError id])) /\
  (~ fits -> n <= s_max s -> step s (Acquire id n) =
     (mkSem (s_max s) (s_cur s) (s_res s) (s_wait s ++ [(id, n)]), [EEnqueue id n])).
Proof.
  intros s id n fits. unfold fits, available. cbn [step].
  split; [|split].
  - intros [H1 H2]. apply Z.leb_le in H1. rewrite H1, H2. reflexivity.
  - intros Hn Hm.
    destruct ((n <=? s_cur s - s_res s) && is_nil (s_wait s)) eqn:E.
    + exfalso. apply Hn. apply andb_prop in E as [E1 E2]. apply Z.leb_le in E1.
      split; auto. destruct (s_wait s); [reflexivity|discriminate].
    + apply Z.ltb_lt in Hm. rewrite Hm. reflexivity.
  - intros Hn Hm.
    destruct ((n <=? s_cur s - s_res s) && is_nil (s_wait s)) eqn:E.
    + exfalso. apply Hn. apply andb_prop in E as [E1 E2]. apply Z.leb_le in E1.
      split; auto. destruct (s_wait s); [reflexivity|discriminate].
    + apply Z.ltb_ge in Hm. rewrite Hm. reflexivity.
Qed.

Lemma acquire_error_iff_lemma : forall s id n,
  In (EError id) (snd (step s (Acquire id n))) <->
  (s_max s < n /\ ~ (n <= available s /\ s_wait s = [])).
Proof.
  intros s id n.
  destruct (acquire_outcome_lemma s id n) as (Hf & He & Hq).
  assert (D : (n <= available s /\ s_wait s = []) \/ ~ (n <= available s /\ s_wait s = [])).
  { destruct (Z_le_gt_dec n (available s)); [|right; lia].
    destruct (s_wait s); [left; auto|right; intros [_ X]; discriminate]. }
  split.
  - intros HIn. destruct D as [D|D].
    + rewrite (Hf D) in HIn. cbn in HIn. destruct HIn as [X|[]]; discriminate.
    + destruct (Z_lt_ge_dec (s_max s) n) as [L|L]; [auto|].
      rewrite (Hq D) in HIn by lia. cbn in HIn. destruct HIn as [X|[]]; discriminate.
  - intros [L D']. rewrite (He D' L). cbn. auto.
Qed.

(* ------------------------------------------------------------ clients *)

Definition cop_ok (mx : Z) (o : cop) : Prop :=
  match o with
  | CAcquire _ n => 0 <= n
  | CUpdateSize n => n <= mx
  | CRawRelease _ => False
  | _ => True
  end.

Definition cinv (mx : Z) (c : client) : Prop :=
  c_dead c = false /\ bounded mx (c_sem c) /\
  s_res (c_sem c) = sum_held (c_held c) /\
  Forall (fun p => 0 <= snd p) (c_held c) /\
  Forall (fun p => 0 <= snd p) (s_wait (c_sem c)).

Lemma sum_held_app : forall a b, sum_held (a ++ b) = sum_held a + sum_held b.
Proof.
  induction a as [|p a IH]; intros b; cbn; [reflexivity|].
  unfold sum_held in *. cbn. rewrite IH. lia.
Qed.

Lemma sum_held_nonneg : forall h, Forall (fun p => 0 <= snd p) h -> 0 <= sum_held h.
Proof.
  induction 1 as [|p h Hp _ IH]; cbn; [lia|]. unfold sum_held in *. cbn. lia.
Qed.

Lemma remove_held_spec : forall id h a h',
  remove_held id h = Some (a, h') ->
  sum_held h = a + sum_held h' /\
  (Forall (fun p => 0 <= snd p) h -> 0 <= a /\ Forall (fun p => 0 <= snd p) h').
Proof.
  induction h as [|[i x] tl IH]; intros a h' H; cbn in H; [discriminate|].
  destruct (N.eqb i id).
  - inversion H; subst. split; [reflexivity|]. intros F. inversion F; subst. cbn in *. auto.
  - destruct (remove_held id tl) as [[y tl']|] eqn:R; [|discriminate].
    inversion H; subst. destruct (IH _ _ eq_refl) as [Hs Hf].
    split.
    + unfold sum_held in *. cbn. lia.
    + intros F. inversion F as [|? ? Hx Ftl]; subst. destruct (Hf Ftl) as [Ha Ftl'].
      split; auto.
Qed.

Lemma with_run_jobs_client : forall mx cur res ws s e,
  with_run_jobs mx cur res ws [] = (s, e) ->
  Forall (fun p => 0 <= snd p) ws ->
  s_res s = res + sum_held (grants e) /\
  Forall (fun p => 0 <= snd p) (grants e) /\
  Forall (fun p => 0 <= snd p) (s_wait s) /\ has_panic e = false.
Proof.
  intros mx cur res ws s e H F. unfold with_run_jobs in H.
  destruct (run_jobs cur res ws) as [[r w] g] eqn:R. inversion H; subst. cbn.
  destruct (run_jobs_spec _ _ _ _ _ _ R) as (Hws & _ & Hp & Hr & _).
  rewrite Hws in F. apply Forall_app in F as [F1 F2]. auto.
Qed.

Lemma resize_client : forall s newcur ret s' e,
  resize s newcur ret = (s', e) ->
  Forall (fun p => 0 <= snd p) (s_wait s) ->
  s_res s' = s_res s + sum_held (grants e) /\
  Forall (fun p => 0 <= snd p) (grants e) /\
  Forall (fun p => 0 <= snd p) (s_wait s') /\ has_panic e = false.
Proof.
  intros s newcur ret s' e H F. unfold resize in H.
  destruct (s_cur s <? newcur).
  - unfold with_run_jobs in H.
    destruct (run_jobs newcur (s_res s) (s_wait s)) as [[r w] g] eqn:R. inversion H; subst. cbn.
    destruct (run_jobs_spec _ _ _ _ _ _ R) as (Hws & _ & Hp & Hr & _).
    rewrite Hws in F. apply Forall_app in F as [F1 F2]. auto.
  - inversion H; subst. cbn. repeat split; auto. unfold sum_held; cbn; lia.
Qed.

(* common shape of every non-panicking step seen by a client *)
Lemma cfinish_inv : forall mx c s e held c' e',
  cfinish c (s, e) held = (c', e') ->
  bounded mx s ->
  s_res s = sum_held held + sum_held (grants e) ->
  Forall (fun p => 0 <= snd p) held ->
  Forall (fun p => 0 <= snd p) (grants e) ->
  Forall (fun p => 0 <= snd p) (s_wait s) ->
  has_panic e = false ->
  cinv mx c'.
Proof.
  intros mx c s e held c' e' H Hb Hr Fh Fg Fw Hp. unfold cfinish in H.
  inversion H; subst. unfold cinv; cbn.
  repeat split; auto.
  - apply Hb.
  - apply Hb.
  - apply Hb.
  - rewrite sum_held_app. exact Hr.
  - apply Forall_app; auto.
Qed.

Lemma cstep_inv : forall mx c o c' e,
  cinv mx c -> cop_ok mx o -> cstep c o = (c', e) -> cinv mx c'.
Proof.
  intros mx c o c' e Hc Hok H. pose proof Hc as (Hd & Hb & Hr & Fh & Fw).
  unfold cstep in H. rewrite Hd in H.
  assert (SB : forall oo s1 e1, op_ok mx oo -> step (c_sem c) oo = (s1, e1) -> bounded mx s1).
  { intros. eapply step_bounded; eauto. }
  destruct o as [id n|id|n|n|f u|n]; cbn in Hok.
  - (* acquire *)
    destruct (step (c_sem c) (Acquire id n)) as [s1 e1] eqn:S.
    assert (B1 : bounded mx s1) by (eapply SB; [|exact S]; exact I).
    cbn [step] in S.
    destruct ((n <=? s_cur (c_sem c) - s_res (c_sem c)) && is_nil (s_wait (c_sem c))).
    + inversion S; subst. eapply cfinish_inv; eauto; cbn; try reflexivity; try lia.
      constructor; [exact Hok|constructor].
    + destruct (s_max (c_sem c) <? n); inversion S; subst.
      * eapply cfinish_inv; eauto; cbn; try reflexivity; try lia; auto.
      * eapply cfinish_inv; eauto; cbn; try reflexivity; try lia; auto.
        apply Forall_app; split; auto.
  - (* disciplined release *)
    destruct (remove_held id (c_held c)) as [[a h']|] eqn:RH.
    + destruct (remove_held_spec _ _ _ _ RH) as [Hs Hf]. destruct (Hf Fh) as [Ha Fh'].
      destruct (step (c_sem c) (Release a)) as [s1 e1] eqn:S.
      assert (B1 : bounded mx s1) by (eapply SB; [|exact S]; exact Ha).
      cbn [step] in S.
      assert (NN : 0 <= sum_held h') by (apply sum_held_nonneg; auto).
      destruct (s_res (c_sem c) - a <? 0) eqn:E.
      * apply Z.ltb_lt in E. lia.
      * destruct (with_run_jobs_client _ _ _ _ _ _ S Fw) as (R1 & Fg & Fw1 & Hp).
        eapply cfinish_inv; eauto. lia.
    + inversion H; subst. exact Hc.
  - destruct (step (c_sem c) (UpdateActual n)) as [s1 e1] eqn:S.
    assert (B1 : bounded mx s1) by (eapply SB; [|exact S]; exact I). cbn [step] in S.
    destruct (resize_client _ _ _ _ _ S Fw) as (R1 & Fg & Fw1 & Hp).
    eapply cfinish_inv; eauto. lia.
  - destruct (step (c_sem c) (UpdateSize n)) as [s1 e1] eqn:S.
    assert (B1 : bounded mx s1) by (eapply SB; [|exact S]; exact Hok). cbn [step] in S.
    destruct (s_cur (c_sem c) <? n).
    + destruct (with_run_jobs_client _ _ _ _ _ _ S Fw) as (R1 & Fg & Fw1 & Hp).
      eapply cfinish_inv; eauto. lia.
    + inversion S; subst. eapply cfinish_inv; eauto; cbn; try reflexivity; try lia; auto.
  - destruct (step (c_sem c) (UpdateFreeUsed f u)) as [s1 e1] eqn:S.
    assert (B1 : bounded mx s1) by (eapply SB; [|exact S]; exact I). cbn [step] in S.
    destruct (resize_client _ _ _ _ _ S Fw) as (R1 & Fg & Fw1 & Hp).
    eapply cfinish_inv; eauto. lia.
  - contradiction.
Qed.

Lemma crun_inv : forall mx ops c c' e,
  cinv mx c -> Forall (cop_ok mx) ops -> crun c ops = (c', e) -> cinv mx c'.
Proof.
  induction ops as [|o tl IH]; intros c c' e Hc Hok H; cbn [crun] in H.
  - inversion H; subst; auto.
  - inversion Hok as [|? ? Ho Htl]; subst.
    destruct (cstep c o) as [c1 e1] eqn:S.
    destruct (crun c1 tl) as [c2 e2] eqn:R. inversion H; subst.
    eapply IH; [|exact Htl|exact R]. eapply cstep_inv; eauto.
Qed.

(* The summed reservations of the requests that currently hold the resource
   equal [reserved], are never negative (Release never panics) and never
   exceed the configured limit. *)
Lemma held_le_max_lemma : forall size ops,
  0 <= size -> Forall (cop_ok size) ops ->
  let c := fst (crun (client_init size) ops) in
  c_dead c = false /\
  s_res (c_sem c) = sum_held (c_held c) /\
  0 <= sum_held (c_held c) <= size.
Proof.
  intros size ops Hs Hok. cbn zeta.
  destruct (crun (client_init size) ops) as [c e] eqn:R. cbn [fst].
  assert (I0 : cinv size (client_init size)).
  { unfold cinv, client_init, bounded; cbn. repeat split; auto; lia. }
  destruct (crun_inv _ _ _ _ _ I0 Hok R) as (Hd & (_ & _ & Hb) & Hr & Fh & _).
  repeat split; auto.
  - apply sum_held_nonneg; auto.
  - lia.
Qed.

(* ------------------------------------------------------------ atomicity of Acquire *)

(* If the waiter were appended in a second critical section, a Release
   between the decision and the append would be lost: a holds 5 of 10, b asks
   for 8 and must wait (step says EEnqueue), a releases before b is appended,
   b is appended afterwards: b is at the head, 10 are available, nobody is
   left to wake it.  So C12_head_blocked_inv depends on Acquire being one
   atomic step, which is what the correspondence checks on the code. *)
Lemma enqueue_must_be_atomic_lemma :
  let s0 := fst (step (sem_init 10) (Acquire 1 5)) in
  snd (step s0 (Acquire 2 8)) = [EEnqueue 2 8] /\
  let s1 := fst (step s0 (Release 5)) in
  let s2 := enqueue_only s1 2 8 in
  s_wait s2 = [(2%N, 8)] /\ available s2 = 10 /\ ~ head_blocked s2.
Proof.
  cbn zeta. split; [reflexivity|]. split; [reflexivity|]. split; [reflexivity|].
  unfold head_blocked. vm_compute. intros H. discriminate H.
Qed.
