(* Proofs about K/Invocation.v (C16). *)
From Martian Require Import Lib.Bytes Json.Json Mro.Ast K.Invocation K.InvocationSpec Proofs.BytesFacts.
Local Open Scope Z_scope.

(* ------------------------------------------------------------ regenerated constants *)

(* The key SplitExp.encodeJSON writes is the key convertToExp reads (both
   regenerated from the Go sources on every run). *)
Lemma split_keys_agree_proof : split_enc_key = split_dec_key.
Proof. vm_compute. reflexivity. Qed.

(* ------------------------------------------------------------ lists *)

Lemma bytes_eqb_refl a : bytes_eqb a a = true.
Proof. apply bytes_eqb_spec. reflexivity. Qed.

Lemma existsb_key_false {A} (k : bytes) (l : list (bytes * A)) :
  ~ In k (map fst l) -> existsb (fun kv' => bytes_eqb k (fst kv')) l = false.
Proof.
  induction l as [|x l IH]; cbn; intros Hn; [reflexivity|].
  destruct (bytes_eqb k (fst x)) eqn:E.
  - apply bytes_eqb_spec in E. exfalso. apply Hn. left. symmetry. exact E.
  - cbn. apply IH. intros Hin. apply Hn. right. exact Hin.
Qed.

Lemma dedup_last_nodup {A} (l : list (bytes * A)) :
  NoDup (map fst l) -> dedup_last l = l.
Proof.
  induction l as [|x l IH]; cbn; intros Hnd; [reflexivity|].
  inversion Hnd as [|? ? Hni Hnd']; subst.
  rewrite (existsb_key_false (fst x) l Hni). rewrite (IH Hnd'). reflexivity.
Qed.

Section KeyMap.
  Context {A B : Type} (g : bytes -> A -> B).
  Definition kmap (kv : bytes * A) : bytes * B := (fst kv, g (fst kv) (snd kv)).

  Lemma map_fst_kmap l : map fst (map kmap l) = map fst l.
  Proof. induction l as [|x l IH]; cbn; [reflexivity|]. rewrite IH. reflexivity. Qed.

  Lemma insert_sorted_kmap x l :
    insert_sorted (fun a b : bytes * B => bytes_leb (fst a) (fst b)) (kmap x) (map kmap l)
    = map kmap (insert_sorted (fun a b : bytes * A => bytes_leb (fst a) (fst b)) x l).
  Proof.
    induction l as [|y l IH]; cbn; [reflexivity|].
    destruct (bytes_leb (fst x) (fst y)); cbn; [reflexivity|]. rewrite IH. reflexivity.
  Qed.

  Lemma sort_keys_kmap l : sort_keys (map kmap l) = map kmap (sort_keys l).
  Proof.
    unfold sort_keys, isort. induction l as [|x l IH]; cbn; [reflexivity|].
    rewrite IH. apply insert_sorted_kmap.
  Qed.
End KeyMap.

Lemma Forall_insert_sorted {A} (P : A -> Prop) leb x l :
  P x -> Forall P l -> Forall P (insert_sorted leb x l).
Proof.
  intros Hx Hl. induction Hl as [|y l Hy Hl IH]; cbn.
  - constructor; [exact Hx|constructor].
  - destruct (leb x y); constructor; try assumption. constructor; assumption.
Qed.

Lemma Forall_isort {A} (P : A -> Prop) leb l : Forall P l -> Forall P (isort leb l).
Proof.
  intros Hl. unfold isort. induction Hl as [|y l Hy Hl IH]; cbn; [constructor|].
  apply Forall_insert_sorted; assumption.
Qed.

Lemma Forall_dedup_last {A} (P : bytes * A -> Prop) l : Forall P l -> Forall P (dedup_last l).
Proof.
  intros Hl. induction Hl as [|y l Hy Hl IH]; cbn; [constructor|].
  destruct (existsb _ l); [exact IH|constructor; assumption].
Qed.

Lemma map_ext_Forall {A B} (f g : A -> B) l :
  Forall (fun x => f x = g x) l -> map f l = map g l.
Proof. intros H. induction H as [|x l Hx Hl IH]; cbn; [reflexivity|]. rewrite Hx, IH. reflexivity. Qed.

(* a strictly sorted list is its own insertion sort *)
Lemma bytes_leb_of_ltb a b : bytes_ltb a b = true -> bytes_leb a b = true.
Proof.
  unfold bytes_leb. revert b. induction a as [|x a IH]; destruct b as [|y b]; cbn; try discriminate; try reflexivity.
  destruct (b2n x <? b2n y)%N eqn:E1.
  - intros _. destruct (b2n y <? b2n x)%N eqn:E2; [|reflexivity].
    apply N.ltb_lt in E1. apply N.ltb_lt in E2. lia.
  - destruct (b2n y <? b2n x)%N eqn:E2; [discriminate|]. intros H. apply IH in H. exact H.
Qed.

Lemma sort_keys_sorted {A} (l : list (bytes * A)) :
  keys_sorted (map fst l) -> sort_keys l = l.
Proof.
  unfold sort_keys, isort. induction l as [|x l IH]; cbn; [reflexivity|].
  intros Hs. destruct l as [|y l'].
  - reflexivity.
  - cbn in Hs. destruct Hs as [Hlt Hs]. rewrite (IH Hs). cbn [insert_sorted].
    rewrite (bytes_leb_of_ltb _ _ Hlt). reflexivity.
Qed.

(* ------------------------------------------------------------ induction on exp *)

Section ExpInd.
  Variable P : exp -> Prop.
  Hypothesis Harr : forall l, Forall P l -> P (EArray l).
  Hypothesis Hmap : forall k kvs, Forall (fun kv => P (snd kv)) kvs -> P (EMap k kvs).
  Hypothesis Hstr : forall s, P (EString s).
  Hypothesis Hbool : forall b, P (EBool b).
  Hypothesis Hint : forall z, P (EInt z).
  Hypothesis Hfloat : forall m e, P (EFloat m e).
  Hypothesis Hnull : P ENull.
  Hypothesis Href : forall k i o, P (ERef k i o).
  Hypothesis Hsplit : forall x, P x -> P (ESplit x).

  Fixpoint exp_ind' (e : exp) : P e :=
    match e with
    | EArray l =>
        Harr l ((fix go (l : list exp) : Forall P l :=
                   match l with [] => Forall_nil _ | x :: r => Forall_cons x (exp_ind' x) (go r) end) l)
    | EMap k kvs =>
        Hmap k kvs ((fix go (l : list (bytes * exp)) : Forall (fun kv => P (snd kv)) l :=
                       match l with [] => Forall_nil _ | x :: r => Forall_cons x (exp_ind' (snd x)) (go r) end) kvs)
    | EString s => Hstr s
    | EBool b => Hbool b
    | EInt z => Hint z
    | EFloat m e => Hfloat m e
    | ENull => Hnull
    | ERef k i o => Href k i o
    | ESplit x => Hsplit x (exp_ind' x)
    end.
End ExpInd.

Section Floats.
  Variable fparse : Z -> Z -> Z * Z.
  Variable fprint : Z -> Z -> Z * Z.
  Hypothesis Hpp : float_print_parse fparse fprint.

  Notation j2e := (json_to_exp fparse).
  Notation e2j := (exp_to_json fprint).

  Definition conv_entry (te : tenv) (d : obj_dec) (kv : bytes * json) : bytes * exp :=
    (fst kv, j2e te (dec_child d (fst kv)) (snd kv)).

  Lemma j2e_obj te t kvs :
    j2e te t (JObj kvs) =
    let d := match t with Some t' => decide te t' | None => DMap end in
    EMap (dec_kind d) (sort_keys (dedup_last (map (conv_entry te d) kvs))).
  Proof.
    cbn [json_to_exp]. cbv zeta. f_equal. f_equal. f_equal.
    apply map_ext. intros [k v]. reflexivity.
  Qed.

  Lemma e2j_map k kvs :
    e2j (EMap k kvs) = JObj (map (fun kv : bytes * exp => (fst kv, e2j (snd kv))) kvs).
  Proof. cbn [exp_to_json]. f_equal. apply map_ext. intros [a b]. reflexivity. Qed.

  (* ---------------------------------------------------------- json_exp_json *)

  Theorem json_exp_json_proof : forall te j t,
    jwf fprint j -> e2j (j2e te t j) = json_canon j.
  Proof.
    intros te. induction j as [| b | m e | s | l IH | kvs IH] using json_ind'; intros t Hwf.
    - reflexivity.
    - reflexivity.
    - cbn [json_to_exp json_canon]. destruct (e =? 0) eqn:E.
      + apply Z.eqb_eq in E. subst e. reflexivity.
      + apply Z.eqb_neq in E. inversion Hwf as [| | | z Hz | m' e' m2 e2 Hne Hpr Heq | |]; subst.
        * contradiction.
        * rewrite (Hpp m2 e2 m e Hpr Hne). cbn [exp_to_json]. rewrite Hpr. reflexivity.
    - reflexivity.
    - inversion Hwf as [| | | | | l' Hl Heq |]; subst.
      cbn [json_to_exp exp_to_json json_canon]. f_equal. rewrite map_map.
      apply map_ext_Forall. rewrite Forall_forall in *. intros x Hx. apply IH; [exact Hx|]. apply Hl. exact Hx.
    - inversion Hwf as [| | | | | | kvs' Hnd Hl Heq]; subst.
      rewrite j2e_obj. cbv zeta. rewrite e2j_map. cbn [json_canon]. f_equal.
      set (d := match t with Some t' => decide te t' | None => DMap end).
      change (conv_entry te d) with (kmap (fun k v => j2e te (dec_child d k) v)).
      rewrite dedup_last_nodup by (rewrite map_fst_kmap; exact Hnd).
      rewrite sort_keys_kmap. rewrite map_map.
      change (fun kv : bytes * json => (fst kv, json_canon (snd kv))) with (kmap (fun (_ : bytes) v => json_canon v)).
      rewrite sort_keys_kmap.
      apply map_ext_Forall.
      assert (Hs : Forall (fun kv : bytes * json => forall t, jwf fprint (snd kv) -> e2j (j2e te t (snd kv)) = json_canon (snd kv)) (sort_keys kvs))
        by (apply Forall_isort; exact IH).
      assert (Hs2 : Forall (fun kv : bytes * json => jwf fprint (snd kv)) (sort_keys kvs))
        by (apply Forall_isort; exact Hl).
      rewrite Forall_forall in *. intros x Hx. unfold kmap. cbn [fst snd]. f_equal.
      apply Hs; [exact Hx|]. apply Hs2. exact Hx.
  Qed.

  (* ---------------------------------------------------------- struct/map decision *)

  Lemma no_struct_kind_arr l :
    Forall no_struct_kind l -> no_struct_kind (EArray l).
  Proof. intros H. cbn. induction H as [|x r Hx Hr IH]; [exact I|split; assumption]. Qed.

  Lemma no_struct_kind_map kvs :
    Forall (fun kv : bytes * exp => no_struct_kind (snd kv)) kvs -> no_struct_kind (EMap MapKindMap kvs).
  Proof. intros H. cbn. split; [reflexivity|]. induction H as [|x r Hx Hr IH]; [exact I|split; assumption]. Qed.

  Lemma no_struct_kind_arr_inv l : no_struct_kind (EArray l) -> Forall no_struct_kind l.
  Proof. cbn. induction l as [|x r IH]; intros H; constructor; [apply H|apply IH; apply H]. Qed.

  Lemma no_struct_kind_map_inv k kvs :
    no_struct_kind (EMap k kvs) -> k = MapKindMap /\ Forall (fun kv : bytes * exp => no_struct_kind (snd kv)) kvs.
  Proof.
    cbn. intros [Hk H]. split; [exact Hk|]. induction kvs as [|x r IH]; constructor; [apply H|apply IH; apply H].
  Qed.

  Lemma j2e_none_no_struct te : forall j, no_struct_kind (j2e te None j).
  Proof.
    induction j as [| b | m e | s | l IH | kvs IH] using json_ind'; try exact I.
    - cbn [json_to_exp]. destruct (e =? 0); [exact I|]. destruct (fparse m e). exact I.
    - cbn [json_to_exp option_map]. apply no_struct_kind_arr. rewrite Forall_map. exact IH.
    - rewrite j2e_obj. cbv zeta. cbn [dec_kind]. apply no_struct_kind_map.
      apply Forall_isort. apply Forall_dedup_last. rewrite Forall_map.
      rewrite Forall_forall in *. intros x Hx. cbn. apply IH. exact Hx.
  Qed.

  Lemma decide_tmap te t : tid_arr t = 0%N -> (0 < tid_map t)%N -> decide te t = DTypedMap (elem_of_map t).
  Proof. intros _ Hm. unfold decide. apply N.ltb_lt in Hm. rewrite Hm. reflexivity. Qed.

  Lemma decide_struct te t s : tid_arr t = 0%N -> tid_map t = 0%N -> find_struct te (tid_name t) = Some s ->
    decide te t = DStruct (sd_members s).
  Proof. intros Ha Hm Hf. unfold decide. rewrite Hm, Ha, Hf. reflexivity. Qed.

  Lemma decide_map te t : tid_arr t = 0%N -> tid_map t = 0%N -> find_struct te (tid_name t) = None ->
    base_known te (tid_name t) = true -> decide te t = DMap.
  Proof. intros Ha Hm Hf Hk. unfold decide. rewrite Hm, Ha, Hf, Hk. reflexivity. Qed.

  Lemma dec_arr_elem t : (0 < tid_arr t)%N -> dec_arr t = elem_of_arr t.
  Proof. intros H. unfold dec_arr. apply N.ltb_lt in H. rewrite H. reflexivity. Qed.

  Theorem struct_map_decision_proof : forall te j t,
    wf_value te t j -> kinds_ok te t (j2e te (Some t) j).
  Proof.
    intros te. induction j as [| b | m e | s | l IH | kvs IH] using json_ind'; intros t Hwf.
    - apply ko_leaf. exact I.
    - apply ko_leaf. exact I.
    - apply ko_leaf. cbn [json_to_exp]. destruct (e =? 0); [exact I|]. destruct (fparse m e). exact I.
    - apply ko_leaf. exact I.
    - inversion Hwf as [| t' l' Ha Hl | | | | t' j' Ha Hm Hsc]; subst.
      + cbn [json_to_exp option_map]. rewrite (dec_arr_elem _ Ha). apply ko_arr; [exact Ha|].
        rewrite Forall_map. rewrite Forall_forall in *. intros x Hx. apply IH; [exact Hx|]. apply Hl. exact Hx.
      + contradiction.
    - rewrite j2e_obj. cbv zeta.
      inversion Hwf as [| | t' kvs' Ha Hm Hl | t' s' kvs' Ha Hm Hf Hl | t' kvs' Ha Hm Hf Hk | t' j' Ha Hm Hsc]; subst.
      + rewrite (decide_tmap te t Ha Hm). cbn [dec_kind]. apply ko_tmap; [exact Ha|exact Hm|].
        apply Forall_isort. apply Forall_dedup_last. rewrite Forall_map.
        rewrite Forall_forall in *. intros x Hx. cbn. apply IH; [exact Hx|]. apply Hl. exact Hx.
      + rewrite (decide_struct te t s' Ha Hm Hf). cbn [dec_kind]. eapply ko_struct; [exact Ha|exact Hm|exact Hf|].
        apply Forall_isort. apply Forall_dedup_last. rewrite Forall_map.
        rewrite Forall_forall in *. intros x Hx. cbn.
        destruct (Hl x Hx) as [mt [Hmt Hv]]. exists mt. split; [exact Hmt|].
        rewrite Hmt. apply IH; [exact Hx|exact Hv].
      + rewrite (decide_map te t Ha Hm Hf Hk). cbn [dec_kind]. apply ko_map; try assumption.
        apply no_struct_kind_map. apply Forall_isort. apply Forall_dedup_last. rewrite Forall_map.
        rewrite Forall_forall. intros x _. cbn. apply j2e_none_no_struct.
      + contradiction.
  Qed.

  (* ---------------------------------------------------------- exp_json_exp *)

  Lemma exp_eqv_arr l l' : Forall2 (exp_eqv fprint) l l' -> exp_eqv fprint (EArray l) (EArray l').
  Proof. apply ee_arr. Qed.

  Lemma Forall2_map_r {A B} (R : A -> B -> Prop) (f : A -> B) l :
    Forall (fun x => R x (f x)) l -> Forall2 R l (map f l).
  Proof. intros H. induction H; cbn; constructor; assumption. Qed.

  (* entries in key order come back as they are *)
  Lemma roundtrip_entries te d (kvs : list (bytes * exp)) :
    keys_sorted (map fst kvs) -> NoDup (map fst kvs) ->
    sort_keys (dedup_last (map (conv_entry te d) (map (fun kv : bytes * exp => (fst kv, e2j (snd kv))) kvs)))
    = map (fun kv : bytes * exp => (fst kv, j2e te (dec_child d (fst kv)) (e2j (snd kv)))) kvs.
  Proof.
    intros Hs Hnd. rewrite map_map. unfold conv_entry. cbn [fst snd].
    change (fun x : bytes * exp => (fst x, j2e te (dec_child d (fst x)) (e2j (snd x))))
      with (kmap (fun k (v : exp) => j2e te (dec_child d k) (e2j v))).
    rewrite dedup_last_nodup by (rewrite map_fst_kmap; exact Hnd).
    apply sort_keys_sorted. rewrite map_fst_kmap. exact Hs.
  Qed.

  Lemma exp_json_exp_none te : forall e,
    exp_wf e -> no_struct_kind e -> exp_eqv fprint e (j2e te None (e2j e)).
  Proof.
    induction e as [l IH | k kvs IH | s | b | z | m e | | rk i o | x IH] using exp_ind'; intros Hwf Hns;
      try (apply ee_refl).
    - inversion Hwf as [l' Hl | | | | | |]; subst. apply no_struct_kind_arr_inv in Hns.
      cbn [exp_to_json json_to_exp option_map]. rewrite map_map. apply ee_arr. apply Forall2_map_r.
      rewrite Forall_forall in *. intros x Hx. apply IH; [exact Hx|apply Hl; exact Hx|apply Hns; exact Hx].
    - inversion Hwf as [| k' kvs' Hs Hnd Hl | | | | |]; subst.
      apply no_struct_kind_map_inv in Hns. destruct Hns as [-> Hns].
      rewrite e2j_map, j2e_obj. cbv zeta. cbn [dec_kind].
      rewrite (roundtrip_entries te DMap kvs Hs Hnd).
      apply ee_map. apply Forall2_map_r.
      rewrite Forall_forall in *. intros x Hx. cbn [fst snd dec_child]. split; [reflexivity|].
      apply IH; [exact Hx|apply Hl; exact Hx|apply Hns; exact Hx].
    - cbn [exp_to_json]. destruct (fprint m e) as [a b] eqn:Hp. cbn [json_to_exp].
      destruct (b =? 0) eqn:E.
      + apply Z.eqb_eq in E. subst b. apply ee_float_int. exact Hp.
      + apply Z.eqb_neq in E. rewrite (Hpp m e a b Hp E). apply ee_refl.
    - inversion Hwf.
    - inversion Hwf.
  Qed.

  Theorem exp_json_exp_proof : forall te e t,
    exp_wf e -> kinds_ok te t e -> exp_eqv fprint e (j2e te (Some t) (e2j e)).
  Proof.
    intros te. induction e as [l IH | k kvs IH | s | b | z | m e | | rk i o | x IH] using exp_ind'; intros t Hwf Hk;
      try (apply ee_refl).
    - inversion Hwf as [l' Hl | | | | | |]; subst.
      inversion Hk as [t' l' Ha Hel | | | | t' e' Hleaf]; subst; [|contradiction].
      cbn [exp_to_json json_to_exp option_map]. rewrite map_map. rewrite (dec_arr_elem _ Ha).
      apply ee_arr. apply Forall2_map_r.
      rewrite Forall_forall in *. intros x Hx. apply IH; [exact Hx|apply Hl; exact Hx|apply Hel; exact Hx].
    - inversion Hwf as [| k' kvs' Hs Hnd Hl | | | | |]; subst.
      rewrite e2j_map, j2e_obj. cbv zeta.
      inversion Hk as [| t' kvs' Ha Hm Hel | t' s' kvs' Ha Hm Hf Hel | t' kvs' Ha Hm Hf Hkn Hns | t' e' Hleaf]; subst.
      + rewrite (decide_tmap te t Ha Hm). cbn [dec_kind].
        rewrite (roundtrip_entries te (DTypedMap (elem_of_map t)) kvs Hs Hnd).
        apply ee_map. apply Forall2_map_r.
        rewrite Forall_forall in *. intros x Hx. cbn [fst snd dec_child]. split; [reflexivity|].
        apply IH; [exact Hx|apply Hl; exact Hx|apply Hel; exact Hx].
      + rewrite (decide_struct te t s' Ha Hm Hf). cbn [dec_kind].
        rewrite (roundtrip_entries te (DStruct (sd_members s')) kvs Hs Hnd).
        apply ee_map. apply Forall2_map_r.
        rewrite Forall_forall in *. intros x Hx. cbn [fst snd dec_child]. split; [reflexivity|].
        destruct (Hel x Hx) as [mt [Hmt Hv]]. rewrite Hmt.
        apply IH; [exact Hx|apply Hl; exact Hx|exact Hv].
      + rewrite (decide_map te t Ha Hm Hf Hkn). cbn [dec_kind].
        rewrite (roundtrip_entries te DMap kvs Hs Hnd).
        apply no_struct_kind_map_inv in Hns. destruct Hns as [_ Hns].
        apply ee_map. apply Forall2_map_r.
        rewrite Forall_forall in *. intros x Hx. cbn [fst snd dec_child]. split; [reflexivity|].
        apply exp_json_exp_none; [apply Hl; exact Hx|apply Hns; exact Hx].
      + contradiction.
    - cbn [exp_to_json]. destruct (fprint m e) as [a b] eqn:Hp. cbn [json_to_exp].
      destruct (b =? 0) eqn:E.
      + apply Z.eqb_eq in E. subst b. apply ee_float_int. exact Hp.
      + apply Z.eqb_neq in E. rewrite (Hpp m e a b Hp E). apply ee_refl.
    - inversion Hwf.
    - inversion Hwf.
  Qed.

  (* ---------------------------------------------------------- calls *)

  Lemma j2e_not_split te t j : is_split (j2e te t j) = false.
  Proof.
    destruct j; cbn [json_to_exp]; try reflexivity.
    destruct (e =? 0); [reflexivity|]. destruct (fparse m e). reflexivity.
  Qed.

  Lemma bind_to_json_not_split call e : is_split e = false -> bind_to_json fprint call e = e2j e.
  Proof. destruct e; cbn; try reflexivity. discriminate. Qed.

  Lemma fold_eqb_refl k : fold_eqb k k = true.
  Proof. unfold fold_eqb. apply bytes_eqb_refl. Qed.

  Lemma sort_keys_single {A} (kv : bytes * A) : sort_keys [kv] = [kv].
  Proof. reflexivity. Qed.

  Definition exp_arg (inv : invocation) (p : bytes * type_id) : bytes * json :=
    (fst p, match assoc_get_last (fst p) (inv_args inv) with None => JNull | Some j => json_canon j end).

  Lemma build_binds_roundtrip te call inv : forall params,
    call_typed fprint te params inv ->
    exists b, build_binds fparse te params (inv_args inv) (inv_split inv) = Some b
      /\ map (fun x : bytes * exp => (fst x, bind_to_json fprint call (snd x))) b = map (exp_arg inv) params
      /\ map fst (filter (fun x : bytes * exp => is_split (snd x)) b)
         = filter (fun id => mem_bytes id (inv_split inv)) (map fst params)
      /\ Forall2 (bind_kinds_ok te) params b.
  Proof.
    induction params as [|[id t] params IH]; intros Hty.
    - exists []. repeat split; constructor.
    - inversion Hty as [|p ps Hp Hps]; subst. destruct (IH Hps) as [b [Hb [Hargs [Hsp Hk]]]].
      cbn [build_binds]. cbn [fst snd] in Hp. unfold exp_arg at 1. cbn [map fst snd filter].
      destruct (assoc_get_last id (inv_args inv)) as [j|] eqn:Hget.
      + destruct Hp as [Hjwf [Hok Hsh]]. cbn [fst snd] in Hsh. unfold convert_arg.
        destruct (mem_bytes id (inv_split inv)) eqn:Hmem; cbn [negb].
        * destruct Hsh as [v [-> Hv]].
          cbn [assoc_get_last_fold]. rewrite fold_eqb_refl.
          assert (Hokv : json_ok v = true).
          { cbn [json_ok forallb snd] in Hok. apply andb_prop in Hok. apply Hok. }
          rewrite Hokv. cbn [negb]. rewrite Hb.
          assert (Hjv : jwf fprint v).
          { inversion Hjwf as [| | | | | | kvs Hnd Hl Heq]; subst. inversion Hl; subst. assumption. }
          eexists. split; [reflexivity|].
          cbn [map fst snd filter is_split]. rewrite Hargs, Hsp.
          assert (Hcanon : json_canon (JObj [(split_dec_key, v)]) = JObj [(split_dec_key, json_canon v)]) by reflexivity.
          rewrite Hcanon.
          destruct v as [| | | | [|x l] | [|kv kvs]]; try contradiction.
          -- split; [|split; [reflexivity|]].
             ++ f_equal. f_equal. unfold bind_to_json. cbn [json_to_exp].
                change (e2j (ESplit ?x)) with (JObj [(split_enc_key, e2j x)]).
                rewrite split_keys_agree_proof.
                rewrite <- (json_exp_json_proof te (JArr (x :: l)) (Some (split_source_type t false)) Hjv).
                reflexivity.
             ++ constructor; [|exact Hk]. split; [reflexivity|]. cbn [snd].
                exists false. apply struct_map_decision_proof. exact Hv.
          -- destruct Hv as [Hm Hv]. split; [|split; [reflexivity|]].
             ++ f_equal. f_equal. unfold bind_to_json. rewrite j2e_obj. cbv zeta.
                rewrite <- (json_exp_json_proof te (JObj (kv :: kvs)) (Some (split_source_type t true)) Hjv).
                rewrite j2e_obj. cbv zeta.
                change (e2j (ESplit ?x)) with (JObj [(split_enc_key, e2j x)]).
                rewrite split_keys_agree_proof. reflexivity.
             ++ constructor; [|exact Hk]. split; [reflexivity|]. cbn [snd].
                exists true. apply struct_map_decision_proof. exact Hv.
        * rewrite Hok. rewrite Hb. eexists. split; [reflexivity|].
          cbn [map fst snd filter]. rewrite j2e_not_split. rewrite Hargs, Hsp.
          rewrite bind_to_json_not_split by apply j2e_not_split.
          rewrite (json_exp_json_proof te j (Some t) Hjwf).
          split; [reflexivity|split; [reflexivity|]].
          constructor; [|exact Hk]. split; [reflexivity|]. cbn [snd].
          pose proof (struct_map_decision_proof te j t Hsh) as Hko.
          pose proof (j2e_not_split te (Some t) j) as Hns.
          destruct (j2e te (Some t) j); try exact Hko. discriminate.
      + rewrite Hp. rewrite Hb. eexists. split; [reflexivity|].
        cbn [map fst snd filter is_split bind_to_json exp_to_json]. rewrite Hargs, Hsp.
        split; [reflexivity|split; [reflexivity|]].
        constructor; [|exact Hk]. split; [reflexivity|]. cbn [snd]. apply ko_leaf. exact I.
  Qed.

  (* print x matches the number token: what BuildDataForAst writes is always
     accepted again by the parser *)
  Theorem exp_json_parses_proof : float_print_token fprint -> forall e,
    exp_int64 e = true -> json_ok (e2j e) = true.
  Proof.
    intros Hpt. induction e as [l IH | k kvs IH | s | b | z | m e | | rk i o | x IH] using exp_ind'; intros Hi;
      try reflexivity.
    - cbn [exp_to_json json_ok]. cbn [exp_int64] in Hi. rewrite forallb_forall in *.
      intros j Hj. apply in_map_iff in Hj. destruct Hj as [x [<- Hx]].
      rewrite Forall_forall in IH. apply IH; [exact Hx|]. apply Hi. exact Hx.
    - rewrite e2j_map. cbn [json_ok]. cbn [exp_int64] in Hi. rewrite forallb_forall in *.
      intros j Hj. apply in_map_iff in Hj. destruct Hj as [x [<- Hx]]. cbn [snd].
      rewrite Forall_forall in IH. apply IH; [exact Hx|]. apply (Hi x Hx).
    - exact Hi.
    - cbn [exp_to_json]. destruct (fprint m e) as [a b] eqn:Hp. cbn [json_ok].
      destruct (b =? 0) eqn:E; [|reflexivity].
      apply Z.eqb_eq in E. subst b. apply (Hpt m e a Hp).
    - cbn [exp_to_json json_ok forallb snd]. cbn [exp_int64] in Hi. rewrite (IH Hi). reflexivity.
  Qed.

  Theorem call_json_roundtrip_proof : forall te params inv,
    call_typed fprint te params inv ->
    exists c, build_call fparse te params inv = Some c
      /\ data_for_ast fprint c = expected_data params inv
      /\ Forall2 (bind_kinds_ok te) params (tc_binds c).
  Proof.
    intros te params inv Hty.
    destruct (build_binds_roundtrip te (inv_call inv) inv params Hty) as [b [Hb [Hargs [Hsp Hk]]]].
    unfold build_call. rewrite Hb. eexists. split; [reflexivity|].
    split; [|exact Hk].
    unfold data_for_ast, expected_data. cbn [tc_dec_id tc_binds tc_include].
    rewrite Hargs, Hsp. reflexivity.
  Qed.

  Theorem split_status_preserved_proof : forall te params inv,
    call_typed fprint te params inv ->
    exists c, build_call fparse te params inv = Some c
      /\ inv_split (data_for_ast fprint c) = filter (fun id => mem_bytes id (inv_split inv)) (map fst params)
      /\ Forall2 (fun (p : bytes * type_id) (b : bytes * exp) =>
                    fst b = fst p /\ is_split (snd b) = mem_bytes (fst p) (inv_split inv))
                 params (tc_binds c).
  Proof.
    intros te params inv Hty.
    assert (Hb : exists b, build_binds fparse te params (inv_args inv) (inv_split inv) = Some b
      /\ map fst (filter (fun x : bytes * exp => is_split (snd x)) b)
         = filter (fun id => mem_bytes id (inv_split inv)) (map fst params)
      /\ Forall2 (fun (p : bytes * type_id) (b : bytes * exp) =>
                    fst b = fst p /\ is_split (snd b) = mem_bytes (fst p) (inv_split inv)) params b).
    { clear - Hty. induction params as [|[id t] params IH].
      - exists []. repeat split; constructor.
      - inversion Hty as [|p ps Hp Hps]; subst. destruct (IH Hps) as [b [Hb [Hsp Hf]]].
        cbn [build_binds]. cbn [fst snd] in Hp. cbn [map fst filter].
        destruct (assoc_get_last id (inv_args inv)) as [j|] eqn:Hget.
        + destruct Hp as [Hjwf [Hok Hsh]]. cbn [fst snd] in Hsh. unfold convert_arg.
          destruct (mem_bytes id (inv_split inv)) eqn:Hmem; cbn [negb].
          * destruct Hsh as [v [-> Hv]]. cbn [assoc_get_last_fold]. rewrite fold_eqb_refl.
            cbn [json_ok forallb snd] in Hok. apply andb_prop in Hok. destruct Hok as [Hokv _].
            rewrite Hokv. cbn [negb]. rewrite Hb. eexists. split; [reflexivity|].
            cbn [filter snd is_split map fst]. rewrite Hsp. split; [reflexivity|].
            constructor; [|exact Hf]. split; [reflexivity|]. cbn [fst snd is_split]. symmetry. exact Hmem.
          * rewrite Hok, Hb. eexists. split; [reflexivity|].
            cbn [filter snd map fst]. rewrite j2e_not_split. rewrite Hsp. split; [reflexivity|].
            constructor; [|exact Hf]. split; [reflexivity|]. cbn [fst snd]. rewrite Hmem. apply j2e_not_split.
        + rewrite Hp, Hb. eexists. split; [reflexivity|].
          cbn [filter snd is_split map fst]. rewrite Hsp. split; [reflexivity|].
          constructor; [|exact Hf]. split; [reflexivity|]. cbn [fst snd is_split]. symmetry. exact Hp. }
    destruct Hb as [b [Hb [Hsp Hf]]]. unfold build_call. rewrite Hb. eexists. split; [reflexivity|].
    split; [exact Hsp|exact Hf].
  Qed.

End Floats.

(* the example instance satisfies both float hypotheses *)
Lemma fex_print_parse : float_print_parse fparse_ex fprint_ex.
Proof.
  unfold float_print_parse, fprint_ex, fparse_ex. intros m2 e2 m e Hp Hne.
  destruct ((0 <=? e2) && int64_ok (m2 * 2 ^ e2)).
  - injection Hp as <- <-. contradiction.
  - destruct (e2 <? 0) eqn:E.
    + injection Hp as <- <-. rewrite E. apply Z.ltb_lt in E.
      rewrite Z.div_mul; [reflexivity|]. apply Z.pow_nonzero; lia.
    + injection Hp as <- <-. apply Z.ltb_ge in E.
      destruct (e2 + 1 <? 0) eqn:E2; [apply Z.ltb_lt in E2; lia|].
      f_equal. lia.
Qed.

Lemma fex_print_token : float_print_token fprint_ex.
Proof.
  unfold float_print_token, fprint_ex. intros m2 e2 z Hp.
  destruct (0 <=? e2) eqn:E0; cbn [andb] in Hp.
  - destruct (int64_ok (m2 * 2 ^ e2)) eqn:Ei.
    + injection Hp as <-. apply Z.leb_le in E0. repeat split; assumption.
    + destruct (e2 <? 0) eqn:E; injection Hp as <- He; apply Z.leb_le in E0.
      * apply Z.ltb_lt in E. lia.
      * lia.
  - apply Z.leb_gt in E0. destruct (e2 <? 0) eqn:E; injection Hp as <- He; lia.
Qed.
