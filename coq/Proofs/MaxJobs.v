(* Proofs about K/MaxJobs.v (model of maxjobs_semaphore.go). *)
From Martian Require Import K.MaxJobs.
Local Open Scope Z_scope.

Definition minv (L : Z) (m : mj) : Prop :=
  mj_limit m <= L /\ len (mj_running m) <= L /\ NoDup (mj_running m).

Lemma mem_false_notin : forall md l, mem md l = false -> ~ In md l.
Proof.
  intros md l H Hin. unfold mem in H.
  assert (existsb (N.eqb md) l = true).
  { apply existsb_exists. exists md. split; auto. apply N.eqb_refl. }
  congruence.
Qed.

Lemma len_app1 : forall l md, len (l ++ [md]) = len l + 1.
Proof. intros. unfold len. rewrite app_length. cbn. lia. Qed.

Lemma len_filter_le : forall f l, len (filter f l) <= len l.
Proof.
  intros f l. unfold len. induction l as [|x l IH]; cbn; [lia|].
  destruct (f x); cbn; lia.
Qed.

Lemma NoDup_app1 : forall (l : list N) md, NoDup l -> ~ In md l -> NoDup (l ++ [md]).
Proof.
  induction l as [|x l IH]; intros md Hn Hi; cbn.
  - constructor; [intros []|constructor].
  - inversion Hn; subst. constructor.
    + intros X. apply in_app_or in X as [X|[X|[]]]; auto. subst. apply Hi. left. reflexivity.
    + apply IH; auto. intros X. apply Hi. right. exact X.
Qed.

Lemma pass_inv : forall L m md nb m' r,
  minv L m -> pass m md nb = (m', r) ->
  minv L m' /\ mj_blocked m' = mj_blocked m.
Proof.
  intros L m md nb m' r (Hl & Hr & Hn) H. unfold pass in H.
  destruct (mj_limit m <=? len (mj_running m)) eqn:E.
  - destruct (mj_limit m <=? 0); [inversion H; subst; repeat split; auto|].
    destruct (refuses _); [inversion H; subst; repeat split; auto|].
    destruct (mem md (mj_running m)); [inversion H; subst; repeat split; auto|].
    destruct nb; inversion H; subst; repeat split; auto.
  - apply Z.leb_gt in E.
    destruct (refuses _); [inversion H; subst; repeat split; auto|].
    destruct (mem md (mj_running m)) eqn:M; [inversion H; subst; repeat split; auto|].
    inversion H; subst. unfold minv; cbn. rewrite len_app1.
    repeat split; auto; try lia.
    apply NoDup_app1; auto. apply mem_false_notin. exact M.
Qed.

Lemma minv_blocked : forall L m b,
  minv L m -> minv L (mkMj (mj_limit m) (mj_running m) (mj_states m) b).
Proof. intros L m b H. exact H. Qed.

Lemma signal_inv : forall L fuel m m' ev,
  minv L m -> signal fuel m = (m', ev) -> minv L m'.
Proof.
  induction fuel as [|f IH]; intros m m' ev Hi H; cbn [signal] in H.
  - inversion H; subst; auto.
  - destruct (mj_blocked m) as [|[md nb] tl]; [inversion H; subst; auto|].
    destruct (pass _ md nb) as [m1 r] eqn:P.
    apply pass_inv with (L := L) in P as [I1 _]; [|exact Hi].
    destruct r.
    + destruct (signal f m1) as [m2 e2] eqn:S. inversion H; subst. eapply IH; eauto.
    + destruct (signal f m1) as [m2 e2] eqn:S. inversion H; subst. eapply IH; eauto.
    + inversion H; subst. exact I1.
Qed.

Lemma do_signal_inv : forall L m m' ev,
  minv L m -> do_signal m = (m', ev) -> minv L m'.
Proof. intros L m m' ev Hi H. unfold do_signal in H. eapply signal_inv; eauto. Qed.

Lemma broadcast_inv : forall L woken m m' ev,
  minv L m -> broadcast woken m = (m', ev) -> minv L m'.
Proof.
  induction woken as [|[md nb] tl IH]; intros m m' ev Hi H; cbn [broadcast] in H.
  - inversion H; subst; auto.
  - destruct (pass m md nb) as [m1 r] eqn:P.
    apply pass_inv with (L := L) in P as [I1 _]; [|exact Hi].
    destruct r.
    + destruct (broadcast tl m1) as [m2 e2] eqn:S. inversion H; subst. eapply IH; eauto.
    + destruct (broadcast tl m1) as [m2 e2] eqn:S. inversion H; subst. eapply IH; eauto.
    + eapply IH; [|exact H]. exact I1.
Qed.

Lemma do_broadcast_inv : forall L m m' ev,
  minv L m -> do_broadcast m = (m', ev) -> minv L m'.
Proof.
  intros L m m' ev Hi H. unfold do_broadcast in H.
  destruct (broadcast _ _) as [m1 e1] eqn:B.
  apply broadcast_inv with (L := L) in B; [|exact Hi].
  destruct e1.
  - inversion H; subst. exact B.
  - destruct (do_signal m1) as [m2 e2] eqn:S. inversion H; subst.
    eapply do_signal_inv; eauto.
Qed.

Lemma NoDup_filter_N : forall f (l : list N), NoDup l -> NoDup (filter f l).
Proof.
  intros f l H. induction H as [|x l Hx _ IH]; cbn; [constructor|].
  destruct (f x); auto. constructor; auto.
  intros X. apply filter_In in X as [X _]. contradiction.
Qed.

Lemma mstep_inv : forall L m o m' ev,
  0 <= L -> minv L m -> mstep m o = (m', ev) -> minv L m'.
Proof.
  intros L m o m' ev HL Hi H. pose proof Hi as (Hl & Hr & Hn).
  destruct o as [md s|md nb|md| |]; cbn [mstep] in H.
  - inversion H; subst. exact Hi.
  - destruct (refuses _); [inversion H; subst; exact Hi|].
    destruct (pass m md nb) as [m1 r] eqn:P.
    apply pass_inv with (L := L) in P as [I1 _]; [|exact Hi].
    destruct r.
    + destruct (do_signal m1) as [m2 e2] eqn:S. inversion H; subst. eapply do_signal_inv; eauto.
    + destruct (do_signal m1) as [m2 e2] eqn:S. inversion H; subst. eapply do_signal_inv; eauto.
    + inversion H; subst. exact I1.
  - destruct (mem md (mj_running m)); [|inversion H; subst; exact Hi].
    eapply do_signal_inv; [|exact H]. unfold minv; cbn.
    repeat split; auto.
    + unfold remove_md. pose proof (len_filter_le (fun k => negb (N.eqb k md)) (mj_running m)). lia.
    + apply NoDup_filter_N. exact Hn.
  - set (keep := filter _ (mj_running m)) in H.
    assert (I1 : forall b, minv L (mkMj (mj_limit m) keep (mj_states m) b)).
    { intros b. unfold minv; cbn. repeat split; auto.
      - pose proof (len_filter_le (fun k => negb (finished (state_of k (mj_states m)))) (mj_running m)).
        unfold keep. lia.
      - apply NoDup_filter_N. exact Hn. }
    destruct (length keep =? length (mj_running m))%nat; [inversion H; subst; exact Hi|].
    destruct (1 <? mj_limit m - len keep).
    + destruct (mj_blocked m) as [|b1 [|b2 tl]].
      * eapply do_broadcast_inv; [|exact H]. apply I1.
      * eapply do_broadcast_inv; [|exact H]. apply I1.
      * destruct (do_broadcast _) as [m2 e2] eqn:B. inversion H; subst.
        eapply do_broadcast_inv; [|exact B]. apply I1.
    + destruct (mj_limit m - len keep =? 1).
      * eapply do_signal_inv; [|exact H]. apply I1.
      * inversion H; subst. apply I1.
  - eapply do_broadcast_inv; [|exact H]. unfold minv; cbn. repeat split; auto.
Qed.

Lemma mrun_inv : forall L ops m m' ev,
  0 <= L -> minv L m -> mrun m ops = (m', ev) -> minv L m'.
Proof.
  induction ops as [|o tl IH]; intros m m' ev HL Hi H; cbn [mrun] in H.
  - inversion H; subst; auto.
  - destruct (mstep m o) as [m1 e1] eqn:S.
    destruct (mrun m1 tl) as [m2 e2] eqn:R. inversion H; subst.
    eapply IH; [exact HL| |exact R]. eapply mstep_inv; eauto.
Qed.

(* The running set never holds more than the configured maximum, and a
   metadata object occupies at most one slot. *)
Lemma maxjobs_card_le_limit_lemma : forall limit ops,
  1 <= limit ->
  let m := fst (mrun (mj_init limit) ops) in
  len (mj_running m) <= limit /\ NoDup (mj_running m).
Proof.
  intros limit ops Hl. cbn zeta.
  destruct (mrun (mj_init limit) ops) as [m ev] eqn:R. cbn [fst].
  assert (I0 : minv limit (mj_init limit)).
  { unfold minv, mj_init; cbn. repeat split; try lia. constructor. }
  destruct (mrun_inv limit ops _ _ _ ltac:(lia) I0 R) as (_ & H1 & H2). auto.
Qed.
