(* Proofs about K/FormatGB: the fraction formatGB prints denotes, read as an
   exact decimal and rounded up to the next MB, the number of MB it was made
   from - for every one of the 1023 fractions (finite domain, settled by
   vm_compute) and every integer part (print_dec_spec). *)
From Martian Require Import Lib.Bytes K.ParseNum K.FormatExp K.FormatGB Proofs.FormatExp.
Local Open Scope N_scope.

Definition fractions : list N := map N.of_nat (seq 1 1023).

Lemma fractions_all : forallb (fun mb => gb_frac_mb mb =? mb) fractions = true.
Proof. vm_compute. reflexivity. Qed.

Lemma in_fractions mb : 0 < mb < 1024 -> In mb fractions.
Proof.
  intros H. unfold fractions. apply in_map_iff. exists (N.to_nat mb). split; [lia|].
  apply in_seq. lia.
Qed.

Lemma gb_frac_roundtrip_lemma : forall mb, 0 < mb < 1024 -> gb_frac_mb mb = mb.
Proof.
  intros mb H. pose proof fractions_all as A. rewrite forallb_forall in A.
  apply N.eqb_eq. apply A. apply in_fractions. exact H.
Qed.

(* the fraction text is a dot followed by one to four digits, the last not 0 *)
Definition frac_shape (s : bytes) : bool :=
  match s with
  | c :: ds => beq c c_dot && Nat.leb 1 (length ds) && Nat.leb (length ds) 4 &&
               forallb is_digit ds &&
               match rev ds with l :: _ => negb (beq l c_zero) | [] => false end
  | [] => false
  end.

Lemma fractions_shape : forallb (fun mb => frac_shape (gb_frac mb)) fractions = true.
Proof. vm_compute. reflexivity. Qed.

Lemma gb_frac_shape_lemma : forall mb, 0 < mb < 1024 -> frac_shape (gb_frac mb) = true.
Proof.
  intros mb H. pose proof fractions_shape as A. rewrite forallb_forall in A.
  apply A. apply in_fractions. exact H.
Qed.

(* whole value: integer part (any size) and fraction together *)
Lemma format_gb_roundtrip_lemma : forall mbt,
  let whole := mbt / 1024 in
  let mb := mbt mod 1024 in
  format_gb mbt = (if mbt =? 0 then [c_zero]
                   else print_dec whole ++ (if mb =? 0 then [] else gb_frac mb)) /\
  forallb is_digit (print_dec whole) = true /\
  dec_value (print_dec whole) * 1024 + (if mb =? 0 then 0 else gb_frac_mb mb) = mbt.
Proof.
  intros mbt whole mb. split; [reflexivity|].
  destruct (print_dec_spec whole) as (Hd & _ & Hv). split; [exact Hd|].
  rewrite Hv. subst whole mb.
  assert (Hdm : mbt = 1024 * (mbt / 1024) + mbt mod 1024) by (apply N.div_mod; discriminate).
  assert (Hlt : mbt mod 1024 < 1024) by (apply N.mod_lt; discriminate).
  set (q := mbt / 1024) in *. set (r := mbt mod 1024) in *.
  destruct (r =? 0) eqn:E.
  - apply N.eqb_eq in E. lia.
  - apply N.eqb_neq in E. rewrite gb_frac_roundtrip_lemma by lia. lia.
Qed.
