(* Concrete values used by the non-vacuity Examples of Properties/C16.v. *)
From Coq Require Import String.
From Martian Require Import Lib.Bytes Json.Json Mro.Ast K.Invocation K.InvocationSpec Proofs.Invocation.
Local Open Scope Z_scope.

Definition tid0 (n : string) : type_id := mk_tid (bs n) 0 0.
Definition mem_ex (id : string) (t : type_id) : struct_member :=
  mk_member (bs id) t [] [] KindIsNotFile false false.

(* struct S(int a, string b)
   struct T(S s, S[] ss, map<S> ms, map m) *)
Definition te_ex : tenv :=
  mk_tenv
    [ mk_struct (bs "S") [mem_ex "a" (tid0 "int"); mem_ex "b" (tid0 "string")] KindIsNotFile;
      mk_struct (bs "T") [mem_ex "s" (tid0 "S"); mem_ex "ss" (mk_tid (bs "S") 1 0);
                          mem_ex "ms" (mk_tid (bs "S") 0 1); mem_ex "m" (tid0 "map")] KindIsNotFile ]
    [bs "int"; bs "float"; bs "string"; bs "bool"; bs "map"].

Definition jS (a : Z) (b : json) : json := JObj [(bs "b", b); (bs "a", JNum a 0)].

(* {"ss":[{..a:2,b:null}], "s":{..a:1,b:"x"}, "ms":{"k":{..a:3,b:"y"}}, "m":{"q":{"r":0.5},"big":9223372036854775807} } *)
Definition j_ex : json :=
  JObj [ (bs "ss", JArr [jS 2 JNull]);
         (bs "s", jS 1 (JStr (bs "x")));
         (bs "ms", JObj [(bs "k", jS 3 (JStr (bs "y")))]);
         (bs "m", JObj [(bs "q", JObj [(bs "r", JNum 5 (-1))]); (bs "big", JNum 9223372036854775807 0)]) ].

Definition e_ex : exp :=
  EMap MapKindStruct
    [ (bs "m", EMap MapKindMap [(bs "big", EInt 9223372036854775807);
                                (bs "q", EMap MapKindMap [(bs "r", EFloat 1 (-1))])]);
      (bs "ms", EMap MapKindMap [(bs "k", EMap MapKindStruct [(bs "a", EInt 3); (bs "b", EString (bs "y"))])]);
      (bs "s", EMap MapKindStruct [(bs "a", EInt 1); (bs "b", EString (bs "x"))]);
      (bs "ss", EArray [EMap MapKindStruct [(bs "a", EInt 2); (bs "b", ENull)]]) ].

Ltac nodup_tac := repeat (apply NoDup_cons; [cbn; intuition discriminate|]); apply NoDup_nil.

Ltac jwf_tac :=
  cbn [snd fst jS];
  first
    [ apply jwf_null | apply jwf_bool | apply jwf_str | apply jwf_int
    | (apply (jwf_float fprint_ex 5 (-1) 1 (-1)); [discriminate|reflexivity])
    | (apply jwf_arr; repeat (apply Forall_cons; [jwf_tac|]); apply Forall_nil)
    | (apply jwf_obj; [nodup_tac | repeat (apply Forall_cons; [jwf_tac|]); apply Forall_nil]) ].

Ltac wfv_tac :=
  cbn [snd fst jS];
  first
    [ apply wv_null
    | (apply wv_arr; [reflexivity | repeat (apply Forall_cons; [wfv_tac|]); apply Forall_nil])
    | (apply wv_tmap; [reflexivity | reflexivity | repeat (apply Forall_cons; [wfv_tac|]); apply Forall_nil])
    | (eapply wv_struct; [reflexivity | reflexivity | reflexivity
                         | repeat (apply Forall_cons; [eexists; split; [reflexivity|wfv_tac]|]); apply Forall_nil])
    | (apply wv_map; reflexivity)
    | (apply wv_scalar; [reflexivity | reflexivity | exact I]) ].

Ltac expwf_tac :=
  cbn [snd fst];
  first
    [ apply ew_str | apply ew_bool | apply ew_int | apply ew_float | apply ew_null
    | (apply ew_arr; repeat (apply Forall_cons; [expwf_tac|]); apply Forall_nil)
    | (apply ew_map; [cbn; repeat split; reflexivity | nodup_tac
                     | repeat (apply Forall_cons; [expwf_tac|]); apply Forall_nil]) ].

Lemma j_ex_jwf : jwf fprint_ex j_ex.
Proof. unfold j_ex. jwf_tac. Qed.

Lemma j_ex_wf : wf_value te_ex (tid0 "T") j_ex.
Proof. unfold j_ex. wfv_tac. Qed.

Lemma e_ex_wf : exp_wf e_ex.
Proof. unfold e_ex. expwf_tac. Qed.

Lemma e_ex_is : json_to_exp fparse_ex te_ex (Some (tid0 "T")) j_ex = e_ex.
Proof. vm_compute. reflexivity. Qed.

(* a call: stage ST(in T x, in int n, in S q) with n split over [1, 2] and q
   split over the same length; the argument for x is j_ex *)
Definition params_ex : list (bytes * type_id) := [(bs "x", tid0 "T"); (bs "n", tid0 "int"); (bs "y", tid0 "S")].
Definition inv_ex : invocation :=
  mk_inv (bs "ST")
         [ (bs "n", JObj [(split_dec_key, JArr [JNum 1 0; JNum 2 0])]); (bs "x", j_ex) ]
         [bs "n"] (bs "st.mro").

Lemma inv_ex_typed : call_typed fprint_ex te_ex params_ex inv_ex.
Proof.
  unfold call_typed, params_ex. repeat apply Forall_cons; try apply Forall_nil.
  - cbn. split; [exact j_ex_jwf|]. split; [reflexivity|exact j_ex_wf].
  - cbn. split; [|split; [reflexivity|]].
    + jwf_tac.
    + eexists. split; [reflexivity|]. wfv_tac.
  - reflexivity.
Qed.
