(* C01: the dataflow semantics does not depend on how calls are aliased.
   Renaming the call ids of every pipeline body by an injective function
   (introducing, removing or changing aliases, consistently in the references
   to them) leaves every value unchanged - the outputs of every callable and
   the arguments of every job - and the jobs themselves, up to the names in
   their call paths. *)
From Martian Require Import Lib.Bytes Json.Json Mro.Sem.

Lemma al_bytes_eqb_iff a b : bytes_eqb a b = true <-> a = b.
Proof.
  revert b. induction a as [|x a IH]; intros [|y b]; cbn [bytes_eqb]; try (split; congruence).
  rewrite andb_true_iff, IH. unfold beq. split.
  - intros [H ->]. apply Byte.byte_dec_bl in H. subst. reflexivity.
  - intros H; inversion H; subst. split; auto. apply Byte.byte_dec_lb. reflexivity.
Qed.
Lemma al_bytes_eqb_eq a b : bytes_eqb a b = true -> a = b.
Proof. apply al_bytes_eqb_iff. Qed.
Lemma al_bytes_eqb_refl a : bytes_eqb a a = true.
Proof. apply al_bytes_eqb_iff. reflexivity. Qed.

(* one-step unfoldings of the mutual fixpoint, with the recursive calls folded *)
Lemma eval_call_S P Orc pf f E path c :
  eval_call P Orc pf (S f) E path c =
  let out_t := TStruct (c_callee c) in
  let res_t := match c_mapped c with
               | None => out_t | Some MArr => TArr out_t | Some MMap => TMap out_t end in
  let disabled := match c_disabled c with
                  | Some e => match eval_exp P pf E e with JBool true => true | _ => false end
                  | None => false
                  end in
  let vals := map (fun b => (fst b, (fst (snd b), eval_exp P pf E (snd (snd b))))) (c_binds c) in
  if disabled then
    match c_mapped c with
    | Some k =>
        if o_nulls Orc (path ++ [c_id c]) then
          let elems := split_elems k (first_split vals) in
          ((collect k elems (map (fun _ => JNull) elems), res_t), [])
        else ((JNull, res_t), [])
    | None => ((JNull, res_t), [])
    end
  else
    match c_mapped c with
    | None =>
        let r := eval_callable P Orc pf f (c_callee c) (path ++ [c_id c])
                   (JObj (map (fun b => (fst b, snd (snd b))) vals)) in
        ((fst r, res_t), snd r)
    | Some k =>
        let elems := split_elems k (first_split vals) in
        let rs := map (fun ie =>
                         eval_callable P Orc pf f (c_callee c) (path ++ [c_id c])
                           (JObj (fork_args k vals (fst ie) (fst (snd ie)))))
                      (combine (seq 0 (length elems)) elems) in
        ((collect k elems (map fst rs), res_t), List.concat (map snd rs))
    end.
Proof. reflexivity. Qed.

Lemma eval_callable_S P Orc pf f name path args :
  eval_callable P Orc pf (S f) name path args =
  let ss := pr_structs P ++ map (fun nc => (fst nc, callable_outs (snd nc))) (pr_callables P) in
  match assoc_get name (pr_callables P) with
  | None => (JNull, [])
  | Some (CStage s) => eval_stage Orc name s path (coerce_fields ss pf (st_ins s) args)
  | Some (CPipe p) =>
      let self := coerce_fields ss pf (p_ins p) args in
      let step (acc : env * list inv) (c : call) : env * list inv :=
        let (E, invs) := acc in
        let r := eval_call P Orc pf f E path c in
        ({| e_self := e_self E; e_self_t := e_self_t E;
            e_calls := e_calls E ++ [(c_id c, fst r)] |}, invs ++ snd r) in
      let (E, invs) := fold_left step (p_calls p)
                         ({| e_self := self; e_self_t := p_ins p; e_calls := [] |}, []) in
      (JObj (map (fun ot =>
                    (fst ot, coerce ss pf (snd ot)
                               (match assoc_get (fst ot) (p_ret p) with
                                | Some e => eval_exp P pf E e
                                | None => JNull
                                end))) (p_outs p)),
       invs)
  end.
Proof. reflexivity. Qed.

(* ---- induction over expressions (nested lists) ---- *)
Section ExpInd.
  Variable Q : exp -> Prop.
  Hypothesis HL : forall j, Q (ELit j).
  Hypothesis HA : forall l, Forall Q l -> Q (EArr l).
  Hypothesis HO : forall kvs, Forall (fun kv => Q (snd kv)) kvs -> Q (EObj kvs).
  Hypothesis HR : forall s p, Q (ERef s p).
  Fixpoint sem_exp_ind (e : exp) : Q e :=
    match e with
    | ELit j => HL j
    | EArr l => HA l ((fix go (l : list exp) : Forall Q l :=
                         match l with
                         | [] => Forall_nil _
                         | x :: r => Forall_cons x (sem_exp_ind x) (go r)
                         end) l)
    | EObj kvs => HO kvs ((fix go (kvs : list (bytes * exp)) : Forall (fun kv => Q (snd kv)) kvs :=
                             match kvs with
                             | [] => Forall_nil _
                             | kv :: r => Forall_cons kv (sem_exp_ind (snd kv)) (go r)
                             end) kvs)
    | ERef s p => HR s p
    end.
End ExpInd.

Section Alias.
  Variable sigma : bytes -> bytes.
  Hypothesis sigma_inj : forall a b, sigma a = sigma b -> a = b.

  Fixpoint ren_exp (e : exp) : exp :=
    match e with
    | ELit j => ELit j
    | EArr l => EArr (map ren_exp l)
    | EObj kvs => EObj (map (fun kv => (fst kv, ren_exp (snd kv))) kvs)
    | ERef (RSelf n) p => ERef (RSelf n) p
    | ERef (RCall id o) p => ERef (RCall (sigma id) o) p
    end.

  Definition ren_call (c : call) : call :=
    {| c_id := sigma (c_id c); c_callee := c_callee c; c_mapped := c_mapped c;
       c_binds := map (fun b => (fst b, (fst (snd b), ren_exp (snd (snd b))))) (c_binds c);
       c_disabled := option_map ren_exp (c_disabled c);
       c_preflight := c_preflight c |}.

  Definition ren_pipe (p : pipeline) : pipeline :=
    {| p_ins := p_ins p; p_outs := p_outs p;
       p_calls := map ren_call (p_calls p);
       p_ret := map (fun oe => (fst oe, ren_exp (snd oe))) (p_ret p) |}.

  Definition ren_callable (c : callable) : callable :=
    match c with CStage s => CStage s | CPipe p => CPipe (ren_pipe p) end.

  Definition ren_prog (P : program) : program :=
    {| pr_structs := pr_structs P;
       pr_callables := map (fun nc => (fst nc, ren_callable (snd nc))) (pr_callables P);
       pr_top := ren_call (pr_top P) |}.

  Definition ren_env (E : env) : env :=
    {| e_self := e_self E; e_self_t := e_self_t E;
       e_calls := map (fun kv => (sigma (fst kv), snd kv)) (e_calls E) |}.

  (* what remains of a job when the names in its call path are forgotten *)
  Definition strip (i : inv) : phase * json := (i_phase i, i_args i).

  Variable P : program.
  Variable Orc : oracle.
  Variable pf : nat.
  (* the latitude for disabled mapped calls is resolved by call path; renaming
     changes the paths, so the statement is for environments that resolve it
     uniformly *)
  Hypothesis nulls_uniform : forall p q, o_nulls Orc p = o_nulls Orc q.

  Lemma bytes_eqb_sigma a b : bytes_eqb (sigma a) (sigma b) = bytes_eqb a b.
  Proof.
    destruct (bytes_eqb a b) eqn:E.
    - apply al_bytes_eqb_eq in E. subst. apply al_bytes_eqb_refl.
    - destruct (bytes_eqb (sigma a) (sigma b)) eqn:E2; [|reflexivity].
      apply al_bytes_eqb_eq in E2. apply sigma_inj in E2. subst.
      rewrite al_bytes_eqb_refl in E. discriminate.
  Qed.

  Lemma assoc_get_sigma (A : Type) id (l : list (bytes * A)) :
    assoc_get (sigma id) (map (fun kv => (sigma (fst kv), snd kv)) l) = assoc_get id l.
  Proof.
    induction l as [|[k v] l IH]; cbn [map assoc_get fst snd]; [reflexivity|].
    rewrite bytes_eqb_sigma. destruct (bytes_eqb id k); [reflexivity|exact IH].
  Qed.

  Lemma callable_outs_ren c : callable_outs (ren_callable c) = callable_outs c.
  Proof. destruct c; reflexivity. Qed.

  Lemma structs_ren :
    pr_structs (ren_prog P) ++
      map (fun nc => (fst nc, callable_outs (snd nc))) (pr_callables (ren_prog P)) =
    pr_structs P ++ map (fun nc => (fst nc, callable_outs (snd nc))) (pr_callables P).
  Proof.
    cbn [ren_prog pr_structs pr_callables]. f_equal. rewrite map_map.
    apply map_ext. intros [n c]. cbn [fst snd]. rewrite callable_outs_ren. reflexivity.
  Qed.

  Lemma eval_exp_ren E e :
    eval_exp (ren_prog P) pf (ren_env E) (ren_exp e) = eval_exp P pf E e.
  Proof.
    induction e as [j|l IH|kvs IH|s p] using sem_exp_ind.
    - reflexivity.
    - cbn [ren_exp eval_exp]. f_equal. rewrite map_map.
      apply map_ext_Forall. exact IH.
    - cbn [ren_exp eval_exp]. f_equal. rewrite map_map.
      apply map_ext_Forall. eapply Forall_impl; [|exact IH].
      intros [k v] H. cbn [fst snd] in *. rewrite H. reflexivity.
    - destruct s as [n|id o].
      + cbn [ren_exp eval_exp ren_env e_self e_self_t]. rewrite structs_ren. reflexivity.
      + cbn [ren_exp eval_exp ren_env e_calls]. rewrite assoc_get_sigma, structs_ren. reflexivity.
  Qed.

  Lemma assoc_get_callable name :
    assoc_get name (pr_callables (ren_prog P)) = option_map ren_callable (assoc_get name (pr_callables P)).
  Proof.
    cbn [ren_prog pr_callables].
    induction (pr_callables P) as [|[k v] l IH]; cbn [map assoc_get fst snd option_map]; [reflexivity|].
    destruct (bytes_eqb name k); [reflexivity|exact IH].
  Qed.

  Lemma assoc_get_ret (o : bytes) (l : list (bytes * exp)) :
    assoc_get o (map (fun oe => (fst oe, ren_exp (snd oe))) l) = option_map ren_exp (assoc_get o l).
  Proof.
    induction l as [|[k v] l IH]; cbn [map assoc_get fst snd option_map]; [reflexivity|].
    destruct (bytes_eqb o k); [reflexivity|exact IH].
  Qed.

  (* stages do not mention call ids at all *)
  Lemma eval_stage_strip name s path path' args :
    fst (eval_stage Orc name s path args) = fst (eval_stage Orc name s path' args) /\
    map strip (snd (eval_stage Orc name s path args)) = map strip (snd (eval_stage Orc name s path' args)).
  Proof.
    unfold eval_stage. destruct (st_split s) as [[ci co]|]; cbn [fst snd]; split; try reflexivity.
    cbn [map strip i_phase i_args]. f_equal.
    rewrite !map_app, !map_map. cbn [map strip i_phase i_args]. reflexivity.
  Qed.

  Definition same_result (a b : json * list inv) : Prop :=
    fst a = fst b /\ map strip (snd a) = map strip (snd b).

  Lemma concat_strip (A : Type) (f g : A -> json * list inv) (l : list A) :
    (forall x, In x l -> same_result (f x) (g x)) ->
    map fst (map f l) = map fst (map g l) /\
    map strip (List.concat (map snd (map f l))) = map strip (List.concat (map snd (map g l))).
  Proof.
    induction l as [|x l IH]; intros H; cbn [map List.concat]; [split; reflexivity|].
    destruct (H x (or_introl eq_refl)) as [Hv Hi].
    destruct IH as [IHv IHi]; [intros y Hy; apply H; right; exact Hy|].
    split; [rewrite Hv, IHv; reflexivity|].
    rewrite !map_app, Hi, IHi. reflexivity.
  Qed.

  Theorem alias_invariance : forall fuel,
    (forall name path path' args,
        same_result (eval_callable (ren_prog P) Orc pf fuel name path' args)
                    (eval_callable P Orc pf fuel name path args)) /\
    (forall E path path' c,
        fst (fst (eval_call (ren_prog P) Orc pf fuel (ren_env E) path' (ren_call c))) =
        fst (fst (eval_call P Orc pf fuel E path c)) /\
        snd (fst (eval_call (ren_prog P) Orc pf fuel (ren_env E) path' (ren_call c))) =
        snd (fst (eval_call P Orc pf fuel E path c)) /\
        map strip (snd (eval_call (ren_prog P) Orc pf fuel (ren_env E) path' (ren_call c))) =
        map strip (snd (eval_call P Orc pf fuel E path c))).
  Proof.
    induction fuel as [|f [IHc IHk]].
    - split; [intros; split; reflexivity|intros; repeat split; reflexivity].
    - assert (Hcall : forall E path path' c,
        fst (fst (eval_call (ren_prog P) Orc pf (S f) (ren_env E) path' (ren_call c))) =
        fst (fst (eval_call P Orc pf (S f) E path c)) /\
        snd (fst (eval_call (ren_prog P) Orc pf (S f) (ren_env E) path' (ren_call c))) =
        snd (fst (eval_call P Orc pf (S f) E path c)) /\
        map strip (snd (eval_call (ren_prog P) Orc pf (S f) (ren_env E) path' (ren_call c))) =
        map strip (snd (eval_call P Orc pf (S f) E path c))).
      { intros E path path' c. rewrite !eval_call_S. cbv zeta.
        cbn [ren_call c_id c_callee c_mapped c_binds c_disabled].
        (* the disabling condition evaluates alike *)
        assert (Hd : match option_map ren_exp (c_disabled c) with
                     | Some e => match eval_exp (ren_prog P) pf (ren_env E) e with JBool true => true | _ => false end
                     | None => false end =
                     match c_disabled c with
                     | Some e => match eval_exp P pf E e with JBool true => true | _ => false end
                     | None => false end).
        { destruct (c_disabled c) as [e|]; cbn [option_map]; [rewrite eval_exp_ren|]; reflexivity. }
        rewrite Hd. clear Hd.
        (* and so do the bindings *)
        assert (Hv : map (fun b : bytes * (bool * exp) =>
                            (fst b, (fst (snd b), eval_exp (ren_prog P) pf (ren_env E) (snd (snd b)))))
                         (map (fun b : bytes * (bool * exp) => (fst b, (fst (snd b), ren_exp (snd (snd b))))) (c_binds c)) =
                     map (fun b : bytes * (bool * exp) => (fst b, (fst (snd b), eval_exp P pf E (snd (snd b))))) (c_binds c)).
        { rewrite map_map. apply map_ext. intros [n [sp e]]. cbn [fst snd]. rewrite eval_exp_ren. reflexivity. }
        rewrite Hv. clear Hv.
        set (vals := map (fun b : bytes * (bool * exp) => (fst b, (fst (snd b), eval_exp P pf E (snd (snd b))))) (c_binds c)).
        destruct (match c_disabled c with
                  | Some e => match eval_exp P pf E e with JBool true => true | _ => false end
                  | None => false end).
        - destruct (c_mapped c) as [k|]; [|repeat split; reflexivity].
          rewrite (nulls_uniform (path' ++ [sigma (c_id c)]) (path ++ [c_id c])).
          destruct (o_nulls Orc (path ++ [c_id c])); repeat split; reflexivity.
        - destruct (c_mapped c) as [k|].
          + cbv zeta. cbn [fst snd].
            destruct (concat_strip _
                        (fun ie : nat * (json * json) =>
                           eval_callable (ren_prog P) Orc pf f (c_callee c) (path' ++ [sigma (c_id c)])
                             (JObj (fork_args k vals (fst ie) (fst (snd ie)))))
                        (fun ie : nat * (json * json) =>
                           eval_callable P Orc pf f (c_callee c) (path ++ [c_id c])
                             (JObj (fork_args k vals (fst ie) (fst (snd ie)))))
                        (combine (seq 0 (length (split_elems k (first_split vals))))
                                 (split_elems k (first_split vals)))) as [Hvs His].
            { intros x _. apply IHc. }
            split; [rewrite Hvs; reflexivity|]. split; [reflexivity|exact His].
          + cbv zeta. cbn [fst snd].
            destruct (IHc (c_callee c) (path ++ [c_id c]) (path' ++ [sigma (c_id c)])
                          (JObj (map (fun b : bytes * (bool * json) => (fst b, snd (snd b))) vals))) as [Hv Hi].
            split; [exact Hv|]. split; [reflexivity|exact Hi]. }
      split; [|exact Hcall].
      intros name path path' args. rewrite !eval_callable_S. cbv zeta.
      rewrite assoc_get_callable.
      destruct (assoc_get name (pr_callables P)) as [[s|p]|]; cbn [option_map ren_callable].
      + rewrite structs_ren. apply eval_stage_strip.
      + (* a pipeline body: fold over the calls, environments related by ren_env *)
        cbn [ren_pipe p_ins p_outs p_calls p_ret].
        rewrite structs_ren.
        set (self := coerce_fields _ pf (p_ins p) args).
        match goal with
        | |- same_result (let (E, invs) := fold_left ?st' (map ren_call (p_calls p)) ?i' in _)
                         (let (E, invs) := fold_left ?st (p_calls p) ?i in _) =>
            assert (Hfold : forall cs a a',
                       fst a' = ren_env (fst a) -> map strip (snd a') = map strip (snd a) ->
                       fst (fold_left st' (map ren_call cs) a') = ren_env (fst (fold_left st cs a)) /\
                       map strip (snd (fold_left st' (map ren_call cs) a')) =
                       map strip (snd (fold_left st cs a)))
        end.
        { induction cs as [|c cs IHcs]; intros [E0 i0] [E0' i0'] HE Hi; cbn [fst snd] in HE, Hi;
            cbn [map fold_left]; [split; assumption|].
          apply IHcs; subst E0'; cbv beta iota zeta; cbn [fst snd].
          - destruct (IHk E0 path path' c) as (Hv & Ht & _).
            unfold ren_env. cbn [e_self e_self_t e_calls].
            f_equal. rewrite map_app. cbn [map fst snd ren_call c_id]. f_equal. f_equal. f_equal.
            apply injective_projections; [exact Hv|exact Ht].
          - destruct (IHk E0 path path' c) as (_ & _ & Hj).
            rewrite !map_app, Hi, Hj. reflexivity. }
        match goal with
        | |- same_result (let (E, invs) := fold_left ?st' (map ren_call (p_calls p)) ?i' in _)
                         (let (E, invs) := fold_left ?st (p_calls p) ?i in _) =>
            destruct (Hfold (p_calls p) i i' eq_refl eq_refl) as [HE Hi];
            destruct (fold_left st' (map ren_call (p_calls p)) i') as [E' invs'];
            destruct (fold_left st (p_calls p) i) as [E invs]
        end.
        cbn [fst snd] in HE, Hi. subst E'. split; cbn [fst snd]; [|exact Hi].
        f_equal. apply map_ext. intros [o t]. cbn [fst snd]. f_equal. f_equal.
        rewrite assoc_get_ret. destruct (assoc_get o (p_ret p)) as [e|]; cbn [option_map]; [|reflexivity].
        apply eval_exp_ren.
      + split; reflexivity.
  Qed.

  Corollary alias_invariance_program fuel :
    fst (eval_program (ren_prog P) Orc pf fuel) = fst (eval_program P Orc pf fuel) /\
    map strip (snd (eval_program (ren_prog P) Orc pf fuel)) = map strip (snd (eval_program P Orc pf fuel)).
  Proof.
    unfold eval_program. cbn [ren_prog pr_top].
    destruct (alias_invariance fuel) as [_ Hk].
    destruct (Hk {| e_self := JObj []; e_self_t := []; e_calls := [] |} [] [] (pr_top P)) as (Hv & _ & Hi).
    cbn [ren_env e_self e_self_t e_calls map] in Hv, Hi.
    split; [exact Hv|exact Hi].
  Qed.
End Alias.
