From Martian Require Import Lib.Bytes.

Lemma beq_spec a b : beq a b = true <-> a = b.
Proof.
  unfold beq. split.
  - apply Byte.byte_dec_bl.
  - apply Byte.byte_dec_lb.
Qed.

Lemma bytes_eqb_spec : forall a b, bytes_eqb a b = true <-> a = b.
Proof.
  induction a as [|x a IH]; destruct b as [|y b]; cbn; split; intros H; try reflexivity; try discriminate.
  - apply andb_prop in H. destruct H as [H1 H2]. apply beq_spec in H1. apply IH in H2. subst. reflexivity.
  - injection H as -> ->. apply andb_true_intro. split; [apply beq_spec; reflexivity|apply IH; reflexivity].
Qed.
