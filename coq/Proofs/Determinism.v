(* C10 - proofs: every emitter of K/Determinism.v gives the same result for
   any two insertion orders of the same finite map. *)
From Coq Require Import String.
From Martian Require Import Lib.Bytes Lib.Utf8 Json.Json K.Determinism.
From Coq Require Import Permutation Sorting.Sorted.
Local Open Scope N_scope.

(* ------------------------------------------------ sorting by a strict key order *)
Section KeySort.
  Context {K A : Type} (ltb : K -> K -> bool).
  Hypothesis ltb_asym : forall a b, ltb a b = true -> ltb b a = true -> False.
  Hypothesis ltb_trans : forall a b c, ltb a b = true -> ltb b c = true -> ltb a c = true.
  Hypothesis ltb_tri : forall a b, ltb a b = false -> ltb b a = false -> a = b.

  Definition kleb (x y : K * A) : bool := negb (ltb (fst y) (fst x)).
  Definition klt (x y : K * A) : Prop := ltb (fst x) (fst y) = true.
  Definition ksort (l : list (K * A)) : list (K * A) := isort kleb l.

  Lemma insert_perm x l : Permutation (x :: l) (insert_sorted kleb x l).
  Proof.
    induction l as [|y r IH]; cbn [insert_sorted].
    - apply Permutation_refl.
    - destruct (kleb x y).
      + apply Permutation_refl.
      + eapply perm_trans; [apply perm_swap|]. apply perm_skip. exact IH.
  Qed.

  Lemma ksort_perm l : Permutation l (ksort l).
  Proof.
    induction l as [|x r IH]; [apply perm_nil|].
    unfold ksort. cbn [isort fold_right]. fold (isort kleb r). fold (ksort r).
    eapply perm_trans; [apply perm_skip; exact IH|]. apply insert_perm.
  Qed.

  Lemma insert_sorted_sorted x l :
    StronglySorted klt l -> ~ In (fst x) (map fst l) ->
    StronglySorted klt (insert_sorted kleb x l).
  Proof.
    induction l as [|y r IH]; intros Hs Hn; cbn [insert_sorted].
    - constructor; constructor.
    - inversion Hs as [|? ? Hsr Hfy]; subst.
      unfold kleb at 1.
      destruct (ltb (fst y) (fst x)) eqn:Eyx; cbn [negb].
      + (* y < x : y stays first *)
        constructor.
        * apply IH; [exact Hsr|]. intro Hin. apply Hn. right. exact Hin.
        * eapply Permutation_Forall; [apply insert_perm|].
          constructor; [exact Eyx|exact Hfy].
      + (* not y < x, keys differ, so x < y *)
        assert (Exy : ltb (fst x) (fst y) = true).
        { destruct (ltb (fst x) (fst y)) eqn:E; [reflexivity|].
          exfalso. apply Hn. left. symmetry. apply ltb_tri; assumption. }
        constructor; [exact Hs|].
        constructor; [exact Exy|].
        eapply Forall_impl; [|exact Hfy].
        intros z Hz. unfold klt in *. eapply ltb_trans; eassumption.
  Qed.

  Lemma ksort_sorted l : NoDup (map fst l) -> StronglySorted klt (ksort l).
  Proof.
    induction l as [|x r IH]; intros Hnd.
    - constructor.
    - unfold ksort. cbn [isort fold_right]. fold (isort kleb r). fold (ksort r).
      cbn [map] in Hnd. inversion Hnd as [|? ? Hni Hndr]; subst.
      apply insert_sorted_sorted; [apply IH; exact Hndr|].
      intro Hin. apply Hni.
      eapply Permutation_in; [|exact Hin].
      apply Permutation_map. apply Permutation_sym. apply ksort_perm.
  Qed.

  Lemma klt_irrefl x : ~ klt x x.
  Proof. intro H. exact (ltb_asym _ _ H H). Qed.

  Lemma sorted_perm_eq : forall l l',
    StronglySorted klt l -> StronglySorted klt l' -> Permutation l l' -> l = l'.
  Proof.
    induction l as [|a t IH]; intros l' Hs Hs' Hp.
    - symmetry. apply Permutation_nil. exact Hp.
    - destruct l' as [|b t'].
      + exfalso. apply Permutation_sym in Hp. exact (Permutation_nil_cons Hp).
      + inversion Hs as [|? ? Hst Hfa]; subst.
        inversion Hs' as [|? ? Hst' Hfb]; subst.
        assert (Hab : a = b).
        { assert (Hina : In a (b :: t')) by (eapply Permutation_in; [exact Hp|left; reflexivity]).
          assert (Hinb : In b (a :: t)) by
            (eapply Permutation_in; [apply Permutation_sym; exact Hp|left; reflexivity]).
          destruct Hina as [E|Hina]; [symmetry; exact E|].
          destruct Hinb as [E|Hinb]; [exact E|].
          exfalso.
          rewrite Forall_forall in Hfa, Hfb.
          exact (ltb_asym _ _ (Hfa _ Hinb) (Hfb _ Hina)). }
        subst b. f_equal. apply IH; [exact Hst|exact Hst'|].
        eapply Permutation_cons_inv. exact Hp.
  Qed.

  Theorem ksort_perm_invariant l l' :
    Permutation l l' -> NoDup (map fst l) -> ksort l = ksort l'.
  Proof.
    intros Hp Hnd.
    apply sorted_perm_eq.
    - apply ksort_sorted. exact Hnd.
    - apply ksort_sorted. eapply Permutation_NoDup; [|exact Hnd].
      apply Permutation_map. exact Hp.
    - eapply perm_trans; [apply Permutation_sym; apply ksort_perm|].
      eapply perm_trans; [exact Hp|apply ksort_perm].
  Qed.

  Lemma ksort_sorted_id l : StronglySorted klt l -> ksort l = l.
  Proof.
    intros Hs. apply sorted_perm_eq; [|exact Hs|apply Permutation_sym; apply ksort_perm].
    apply ksort_sorted.
    (* a strictly sorted list has distinct keys *)
    clear -Hs ltb_asym. induction Hs as [|a t Hst IH Hfa]; cbn [map]; constructor; [|exact IH].
    intro Hin. apply in_map_iff in Hin. destruct Hin as (z & Ez & Hz).
    rewrite Forall_forall in Hfa. specialize (Hfa _ Hz). unfold klt in Hfa.
    rewrite Ez in Hfa. exact (ltb_asym _ _ Hfa Hfa).
  Qed.

  Lemma ksort_idem l : NoDup (map fst l) -> ksort (ksort l) = ksort l.
  Proof. intros Hnd. apply ksort_sorted_id. apply ksort_sorted. exact Hnd. Qed.
End KeySort.

(* sorting commutes with a map that keeps the keys *)
Lemma insert_sorted_map_keys {K A B} (ltb : K -> K -> bool) (f : K * A -> K * B) :
  (forall x, fst (f x) = fst x) ->
  forall x l, insert_sorted (kleb ltb) (f x) (map f l) = map f (insert_sorted (kleb ltb) x l).
Proof.
  intros Hf x l. induction l as [|y r IH]; cbn [map insert_sorted]; [reflexivity|].
  unfold kleb at 1 3. rewrite !Hf.
  destruct (negb (ltb (fst y) (fst x))); cbn [map]; [reflexivity|]. rewrite IH. reflexivity.
Qed.

Lemma ksort_map_keys {K A B} (ltb : K -> K -> bool) (f : K * A -> K * B) :
  (forall x, fst (f x) = fst x) ->
  forall l, ksort ltb (map f l) = map f (ksort ltb l).
Proof.
  intros Hf l. induction l as [|x r IH]; [reflexivity|].
  unfold ksort in *. cbn [map isort fold_right].
  fold (isort (kleb (A:=B) ltb) (map f r)). fold (isort (kleb (A:=A) ltb) r).
  rewrite IH. apply insert_sorted_map_keys. exact Hf.
Qed.

(* ------------------------------------------------ the byte-string order *)
Lemma b2n_inj a b : b2n a = b2n b -> a = b.
Proof.
  unfold b2n. intros H.
  assert (E : Some a = Some b) by (rewrite <- (Byte.of_to_N a), <- (Byte.of_to_N b), H; reflexivity).
  congruence.
Qed.

Lemma bytes_ltb_asym : forall a b, bytes_ltb a b = true -> bytes_ltb b a = true -> False.
Proof.
  induction a as [|x a IH]; intros [|y b]; cbn [bytes_ltb]; try discriminate.
  destruct (b2n x <? b2n y) eqn:E1; destruct (b2n y <? b2n x) eqn:E2;
    try discriminate.
  - apply N.ltb_lt in E1. apply N.ltb_lt in E2. lia.
  - apply IH.
Qed.

Lemma bytes_ltb_trans : forall a b c,
  bytes_ltb a b = true -> bytes_ltb b c = true -> bytes_ltb a c = true.
Proof.
  induction a as [|x a IH]; intros [|y b] [|z c]; cbn [bytes_ltb]; try discriminate; try reflexivity.
  destruct (b2n x <? b2n y) eqn:E1; destruct (b2n y <? b2n x) eqn:E2;
  destruct (b2n y <? b2n z) eqn:E3; destruct (b2n z <? b2n y) eqn:E4;
  destruct (b2n x <? b2n z) eqn:E5; destruct (b2n z <? b2n x) eqn:E6;
  try discriminate; try reflexivity;
  repeat match goal with
         | H : (_ <? _) = true |- _ => apply N.ltb_lt in H
         | H : (_ <? _) = false |- _ => apply N.ltb_ge in H
         end; try lia.
  apply IH.
Qed.

Lemma bytes_ltb_tri : forall a b, bytes_ltb a b = false -> bytes_ltb b a = false -> a = b.
Proof.
  induction a as [|x a IH]; intros [|y b]; cbn [bytes_ltb]; try discriminate; try reflexivity.
  destruct (b2n x <? b2n y) eqn:E1; destruct (b2n y <? b2n x) eqn:E2; try discriminate.
  intros H1 H2. apply N.ltb_ge in E1. apply N.ltb_ge in E2.
  assert (x = y) by (apply b2n_inj; lia). subst y. f_equal. apply IH; assumption.
Qed.

(* Json.sort_keys is ksort for the byte-string order *)
Lemma sort_keys_ksort {A} (l : list (bytes * A)) : sort_keys l = ksort bytes_ltb l.
Proof. reflexivity. Qed.

Theorem sort_keys_perm_invariant {A} (l l' : list (bytes * A)) :
  Permutation l l' -> NoDup (map fst l) -> sort_keys l = sort_keys l'.
Proof.
  rewrite !sort_keys_ksort.
  apply ksort_perm_invariant;
    [exact bytes_ltb_asym|exact bytes_ltb_trans|exact bytes_ltb_tri].
Qed.

Lemma sort_keys_idem {A} (l : list (bytes * A)) :
  NoDup (map fst l) -> sort_keys (sort_keys l) = sort_keys l.
Proof.
  rewrite !sort_keys_ksort.
  apply ksort_idem; [exact bytes_ltb_asym|exact bytes_ltb_trans|exact bytes_ltb_tri].
Qed.

Lemma sort_keys_perm {A} (l : list (bytes * A)) : Permutation l (sort_keys l).
Proof. rewrite sort_keys_ksort. apply ksort_perm. Qed.

Lemma sort_keys_map {A B} (f : bytes * A -> bytes * B) :
  (forall x, fst (f x) = fst x) ->
  forall l, sort_keys (map f l) = map f (sort_keys l).
Proof. intros Hf l. rewrite !sort_keys_ksort. apply ksort_map_keys. exact Hf. Qed.

(* sort.Strings on bare keys (isort bytes_leb) *)
Lemma isort_keys_as_pairs (ks : list bytes) :
  isort bytes_leb ks = map fst (sort_keys (map (fun k => (k, tt)) ks)).
Proof.
  induction ks as [|k r IH]; [reflexivity|].
  unfold sort_keys in *. cbn [map isort fold_right].
  fold (isort bytes_leb r).
  fold (isort (fun a b : bytes * unit => bytes_leb (fst a) (fst b)) (map (fun k => (k, tt)) r)).
  rewrite IH.
  generalize (isort (fun a b : bytes * unit => bytes_leb (fst a) (fst b)) (map (fun k => (k, tt)) r)).
  intros l. induction l as [|y t IHl]; cbn [map insert_sorted]; [reflexivity|].
  cbn [fst]. destruct (bytes_leb k (fst y)); cbn [map fst]; [reflexivity|].
  rewrite IHl. reflexivity.
Qed.

Theorem isort_keys_perm_invariant (ks ks' : list bytes) :
  Permutation ks ks' -> NoDup ks -> isort bytes_leb ks = isort bytes_leb ks'.
Proof.
  intros Hp Hnd. rewrite !isort_keys_as_pairs. f_equal.
  apply sort_keys_perm_invariant.
  - apply Permutation_map. exact Hp.
  - rewrite map_map. cbn [fst]. rewrite map_id. exact Hnd.
Qed.

(* nodup_keys reflects NoDup *)
Lemma bytes_eqb_eq : forall a b, bytes_eqb a b = true <-> a = b.
Proof.
  induction a as [|x a IH]; intros [|y b]; cbn [bytes_eqb]; split; intros H;
    try discriminate; try reflexivity.
  - apply andb_true_iff in H. destruct H as [H1 H2].
    unfold beq in H1. apply Byte.byte_dec_bl in H1. subst y.
    f_equal. apply IH. exact H2.
  - injection H as -> ->. apply andb_true_iff. split.
    + unfold beq. apply Byte.byte_dec_lb. reflexivity.
    + apply IH. reflexivity.
Qed.

Lemma nodup_keys_NoDup : forall l, nodup_keys l = true -> NoDup l.
Proof.
  induction l as [|k r IH]; cbn [nodup_keys]; intros H; constructor.
  - apply andb_true_iff in H. destruct H as [H _].
    intro Hin. apply negb_true_iff in H.
    assert (existsb (bytes_eqb k) r = true).
    { apply existsb_exists. exists k. split; [exact Hin|]. apply bytes_eqb_eq. reflexivity. }
    congruence.
  - apply IH. apply andb_true_iff in H. apply H.
Qed.

(* ------------------------------------------------ flat emitters *)
Theorem encode_obj_perm_invariant qk (l l' : list (bytes * bytes)) :
  Permutation l l' -> NoDup (map fst l) -> encode_obj qk l = encode_obj qk l'.
Proof.
  intros Hp Hnd. unfold encode_obj.
  rewrite (sort_keys_perm_invariant l l' Hp Hnd).
  destruct l as [|x r]; destruct l' as [|x' r']; try reflexivity.
  exfalso. exact (Permutation_nil_cons Hp).
Qed.

Theorem encode_lazy_args_perm_invariant (l l' : list (bytes * option bytes)) :
  Permutation l l' -> NoDup (map fst l) -> encode_lazy_args l = encode_lazy_args l'.
Proof.
  intros Hp Hnd. unfold encode_lazy_args. apply encode_obj_perm_invariant.
  - apply Permutation_map. exact Hp.
  - rewrite map_map. cbn [fst]. exact Hnd.
Qed.

Theorem encode_binding_map_perm_invariant (l l' : list (bytes * bytes)) :
  Permutation l l' -> NoDup (map fst l) -> encode_binding_map l = encode_binding_map l'.
Proof. apply encode_obj_perm_invariant. Qed.

Theorem map_source_json_perm_invariant (l l' : list (bytes * unit)) :
  Permutation l l' -> NoDup (map fst l) -> map_source_json l = map_source_json l'.
Proof.
  intros Hp Hnd. unfold map_source_json.
  rewrite (sort_keys_perm_invariant l l' Hp Hnd). reflexivity.
Qed.

Theorem expand_fork_keys_perm_invariant (l l' : list (bytes * unit)) :
  Permutation l l' -> NoDup (map fst l) -> expand_fork_keys l = expand_fork_keys l'.
Proof.
  intros Hp Hnd. unfold expand_fork_keys.
  rewrite (sort_keys_perm_invariant l l' Hp Hnd). reflexivity.
Qed.

Theorem find_first_sorted_perm_invariant {A B} (f : A -> option B) (l l' : list (bytes * A)) :
  Permutation l l' -> NoDup (map fst l) -> find_first_sorted f l = find_first_sorted f l'.
Proof.
  intros Hp Hnd. unfold find_first_sorted.
  rewrite (sort_keys_perm_invariant l l' Hp Hnd). reflexivity.
Qed.

(* ------------------------------------------------ max key length *)
Lemma max_key_len_perm st (l l' : list fitem) :
  Permutation l l' -> max_key_len st l = max_key_len st l'.
Proof.
  intros Hp. unfold max_key_len. destruct st; [|reflexivity].
  induction Hp as [|x l l' Hp IH|x y l|l l' l'' H1 IH1 H2 IH2]; cbn [fold_right].
  - reflexivity.
  - rewrite IH. reflexivity.
  - destruct (fst (snd x)), (fst (snd y)); try reflexivity. lia.
  - congruence.
Qed.

Theorem emit_map_perm_invariant st prefix (l l' : list fitem) :
  Permutation l l' -> NoDup (map fst l) -> emit_map st prefix l = emit_map st prefix l'.
Proof.
  intros Hp Hnd. unfold emit_map.
  rewrite (sort_keys_perm_invariant l l' Hp Hnd).
  rewrite (max_key_len_perm st l l' Hp).
  destruct l as [|x r]; destruct l' as [|x' r']; try reflexivity.
  - exfalso. exact (Permutation_nil_cons Hp).
  - exfalso. apply Permutation_sym in Hp. exact (Permutation_nil_cons Hp).
Qed.

(* ------------------------------------------------ expressions *)
(* the nested fixes of the model are maps *)
Definition fitems (vindent : bytes) (kvs : list (bytes * exp)) : list fitem :=
  map (fun kv => (fst kv, (single_line (snd kv), format (snd kv) vindent))) kvs.

Lemma format_map_unfold st kvs prefix :
  format (EMap st kvs) prefix = emit_map st prefix (fitems (prefix ++ indent) kvs).
Proof.
  reflexivity.
Qed.

Definition jitems (kvs : list (bytes * exp)) : list (bytes * bytes) :=
  map (fun kv => (fst kv, encode_json (snd kv))) kvs.

Lemma encode_map_unfold st kvs :
  encode_json (EMap st kvs) = encode_obj quote_string (jitems kvs).
Proof.
  reflexivity.
Qed.

(* Top level: two insertion orders of one map/struct literal *)
Theorem format_perm_invariant_lemma : forall st kvs kvs' prefix,
  Permutation kvs kvs' -> NoDup (map fst kvs) ->
  format (EMap st kvs) prefix = format (EMap st kvs') prefix.
Proof.
  intros st kvs kvs' prefix Hp Hnd. rewrite !format_map_unfold.
  apply emit_map_perm_invariant.
  - unfold fitems. apply Permutation_map. exact Hp.
  - unfold fitems. rewrite map_map. cbn [fst]. exact Hnd.
Qed.

Theorem encode_json_perm_invariant_lemma : forall st kvs kvs',
  Permutation kvs kvs' -> NoDup (map fst kvs) ->
  encode_json (EMap st kvs) = encode_json (EMap st kvs').
Proof.
  intros st kvs kvs' Hp Hnd. rewrite !encode_map_unfold.
  apply encode_obj_perm_invariant.
  - unfold jitems. apply Permutation_map. exact Hp.
  - unfold jitems. rewrite map_map. cbn [fst]. exact Hnd.
Qed.

(* Any depth: an induction principle for exp that reaches into the lists *)
Section ExpInd.
  Variable P : exp -> Prop.
  Hypothesis Hnull : P ENull.
  Hypothesis Hbool : forall b, P (EBool b).
  Hypothesis Hint : forall z, P (EInt z).
  Hypothesis Hfloat : forall t, P (EFloat t).
  Hypothesis Hstr : forall s, P (EStr s).
  Hypothesis Href : forall s i o, P (ERef s i o).
  Hypothesis Hsplit : forall e, P e -> P (ESplit e).
  Hypothesis Harr : forall l, Forall P l -> P (EArr l).
  Hypothesis Hmap : forall st kvs, Forall (fun kv => P (snd kv)) kvs -> P (EMap st kvs).

  Fixpoint exp_ind' (e : exp) : P e :=
    match e with
    | ENull => Hnull
    | EBool b => Hbool b
    | EInt z => Hint z
    | EFloat t => Hfloat t
    | EStr s => Hstr s
    | ERef s i o => Href s i o
    | ESplit v => Hsplit v (exp_ind' v)
    | EArr l =>
        Harr l ((fix go (l : list exp) : Forall P l :=
                   match l with
                   | [] => Forall_nil _
                   | x :: r => Forall_cons x (exp_ind' x) (go r)
                   end) l)
    | EMap st kvs =>
        Hmap st kvs ((fix go (l : list (bytes * exp)) : Forall (fun kv => P (snd kv)) l :=
                        match l with
                        | [] => Forall_nil _
                        | x :: r => Forall_cons x (exp_ind' (snd x)) (go r)
                        end) kvs)
    end.
End ExpInd.

Definition canon_kvs (kvs : list (bytes * exp)) : list (bytes * exp) :=
  map (fun kv => (fst kv, canon (snd kv))) kvs.

Lemma canon_map_unfold st kvs : canon (EMap st kvs) = EMap st (sort_keys (canon_kvs kvs)).
Proof.
  reflexivity.
Qed.

Lemma canon_arr_unfold l : canon (EArr l) = EArr (map canon l).
Proof.
  reflexivity.
Qed.

Lemma exp_wf_map st kvs :
  exp_wf (EMap st kvs) = true ->
  NoDup (map fst kvs) /\ Forall (fun kv => exp_wf (snd kv) = true) kvs.
Proof.
  cbn [exp_wf]. intros H. apply andb_true_iff in H. destruct H as [H1 H2]. split.
  - apply nodup_keys_NoDup. exact H1.
  - clear H1. induction kvs as [|kv t IH]; constructor.
    + apply andb_true_iff in H2. apply H2.
    + apply IH. apply andb_true_iff in H2. apply H2.
Qed.

Lemma exp_wf_arr l : exp_wf (EArr l) = true -> Forall (fun x => exp_wf x = true) l.
Proof.
  cbn [exp_wf]. induction l as [|x t IH]; intros H; constructor.
  - apply andb_true_iff in H. apply H.
  - apply IH. apply andb_true_iff in H. apply H.
Qed.

Lemma sort_keys_nil_iff {A} (l : list (bytes * A)) : sort_keys l = [] <-> l = [].
Proof.
  split; intros H; [|subst; reflexivity].
  pose proof (sort_keys_perm l) as Hp. rewrite H in Hp.
  apply Permutation_sym in Hp. apply Permutation_nil. exact Hp.
Qed.

Lemma single_line_canon : forall e, single_line (canon e) = single_line e.
Proof.
  apply (exp_ind' (fun e => single_line (canon e) = single_line e)); try reflexivity.
  - intros l Hl. rewrite canon_arr_unfold. cbn [single_line].
    destruct l as [|x [|y t]]; try reflexivity.
    cbn [map]. inversion Hl; subst. assumption.
  - intros st kvs _. rewrite canon_map_unfold. cbn [single_line].
    destruct kvs as [|kv t]; [reflexivity|].
    destruct (sort_keys (canon_kvs (kv :: t))) eqn:E; [|reflexivity].
    apply (proj1 (sort_keys_nil_iff _)) in E. unfold canon_kvs in E. cbn [map] in E. discriminate.
Qed.

(* lists of formatted array elements *)
Lemma format_arr_body vindent l l' :
  Forall2 (fun x y => format x vindent = format y vindent) l l' ->
  (fix go (l : list exp) : bytes :=
     match l with
     | [] => []
     | x :: t => vindent ++ format x vindent ++ [c_comma; c_nl] ++ go t
     end) l =
  (fix go (l : list exp) : bytes :=
     match l with
     | [] => []
     | x :: t => vindent ++ format x vindent ++ [c_comma; c_nl] ++ go t
     end) l'.
Proof.
  induction 1 as [|x y l l' Hxy _ IH]; [reflexivity|]. rewrite Hxy, IH. reflexivity.
Qed.

Theorem format_canon_lemma : forall e,
  exp_wf e = true -> forall prefix, format e prefix = format (canon e) prefix.
Proof.
  apply (exp_ind' (fun e => exp_wf e = true -> forall prefix, format e prefix = format (canon e) prefix));
    try (intros; reflexivity).
  - (* split *) intros e IH Hwf prefix. cbn [canon format]. rewrite <- IH; [reflexivity|exact Hwf].
  - (* array *)
    intros l Hl Hwf prefix. rewrite canon_arr_unfold.
    apply exp_wf_arr in Hwf.
    assert (HF : forall p, Forall2 (fun x y => format x p = format y p) l (map canon l)).
    { intros p. clear prefix. induction l as [|x t IHl]; [constructor|].
      inversion Hl; subst. inversion Hwf; subst. cbn [map]. constructor; auto. }
    destruct l as [|x t]; [reflexivity|].
    cbn [map]. cbn [format].
    assert (Esl : (match map canon t with [] => single_line (canon x) | _ :: _ => false end)
                  = (match t with [] => single_line x | _ :: _ => false end)).
    { destruct t; cbn [map]; [apply single_line_canon|reflexivity]. }
    rewrite Esl.
    destruct (match t with [] => single_line x | _ :: _ => false end).
    + specialize (HF prefix). inversion HF; subst. congruence.
    + do 2 f_equal. f_equal.
      exact (format_arr_body (prefix ++ indent) (x :: t) (canon x :: map canon t) (HF _)).
  - (* map *)
    intros st kvs Hk Hwf prefix.
    apply exp_wf_map in Hwf. destruct Hwf as [Hnd Hwfk].
    rewrite canon_map_unfold, !format_map_unfold.
    set (vi := prefix ++ indent).
    (* items of the canonical map = sorted items of the original map *)
    assert (E : fitems vi (sort_keys (canon_kvs kvs)) = sort_keys (fitems vi kvs)).
    { unfold fitems at 1.
      rewrite <- (sort_keys_map (fun kv : bytes * exp =>
                    (fst kv, (single_line (snd kv), format (snd kv) vi))));
        [|intros x; reflexivity].
      f_equal. unfold canon_kvs, fitems. rewrite map_map. cbn [fst snd].
      clear Hnd. induction kvs as [|kv t IH]; [reflexivity|].
      inversion Hk; subst. inversion Hwfk; subst. cbn [map].
      rewrite IH by assumption. do 3 f_equal.
      - apply single_line_canon.
      - symmetry. auto. }
    rewrite E.
    apply emit_map_perm_invariant.
    + apply sort_keys_perm.
    + unfold fitems. rewrite map_map. cbn [fst]. exact Hnd.
Qed.

Lemma join_map_ext sep (l l' : list bytes) : l = l' -> join sep l = join sep l'.
Proof. intros ->. reflexivity. Qed.

Theorem encode_json_canon_lemma : forall e,
  exp_wf e = true -> encode_json e = encode_json (canon e).
Proof.
  apply (exp_ind' (fun e => exp_wf e = true -> encode_json e = encode_json (canon e)));
    try (intros; reflexivity).
  - intros e IH Hwf. cbn [canon encode_json]. rewrite <- IH; [reflexivity|exact Hwf].
  - intros l Hl Hwf. rewrite canon_arr_unfold. apply exp_wf_arr in Hwf.
    assert (E : (fix go (l : list exp) : list bytes :=
                   match l with [] => [] | x :: t => encode_json x :: go t end) l
              = (fix go (l : list exp) : list bytes :=
                   match l with [] => [] | x :: t => encode_json x :: go t end) (map canon l)).
    { induction l as [|x t IHl]; [reflexivity|].
      inversion Hl; subst. inversion Hwf; subst. cbn [map]. rewrite IHl by assumption.
      f_equal. auto. }
    destruct l as [|x t]; [reflexivity|].
    cbn [map encode_json]. cbn [map] in E. rewrite E. reflexivity.
  - intros st kvs Hk Hwf.
    apply exp_wf_map in Hwf. destruct Hwf as [Hnd Hwfk].
    rewrite canon_map_unfold, !encode_map_unfold.
    assert (E : jitems (sort_keys (canon_kvs kvs)) = sort_keys (jitems kvs)).
    { unfold jitems at 1.
      rewrite <- (sort_keys_map (fun kv : bytes * exp => (fst kv, encode_json (snd kv))));
        [|intros x; reflexivity].
      f_equal. unfold canon_kvs, jitems. rewrite map_map. cbn [fst snd].
      clear Hnd. induction kvs as [|kv t IH]; [reflexivity|].
      inversion Hk; subst. inversion Hwfk; subst. cbn [map].
      rewrite IH by assumption. do 2 f_equal. symmetry. auto. }
    rewrite E.
    apply encode_obj_perm_invariant.
    + apply sort_keys_perm.
    + unfold jitems. rewrite map_map. cbn [fst]. exact Hnd.
Qed.

(* two expressions that differ only in the insertion order of map literals, at
   any depth (= have the same canonical form), give the same bytes *)
Theorem format_deep_invariant_lemma : forall e e',
  exp_wf e = true -> exp_wf e' = true -> canon e = canon e' ->
  forall prefix, format e prefix = format e' prefix.
Proof.
  intros e e' H H' E prefix.
  rewrite (format_canon_lemma e H), (format_canon_lemma e' H'), E. reflexivity.
Qed.

Theorem encode_json_deep_invariant_lemma : forall e e',
  exp_wf e = true -> exp_wf e' = true -> canon e = canon e' ->
  encode_json e = encode_json e'.
Proof.
  intros e e' H H' E.
  rewrite (encode_json_canon_lemma e H), (encode_json_canon_lemma e' H'), E. reflexivity.
Qed.

(* canon identifies permuted literals (so the hypothesis above is met by any
   reordering, at the top or below) *)
Theorem canon_perm_lemma : forall st kvs kvs',
  Permutation kvs kvs' -> NoDup (map fst kvs) ->
  canon (EMap st kvs) = canon (EMap st kvs').
Proof.
  intros st kvs kvs' Hp Hnd. rewrite !canon_map_unfold. f_equal.
  apply sort_keys_perm_invariant.
  - unfold canon_kvs. apply Permutation_map. exact Hp.
  - unfold canon_kvs. rewrite map_map. cbn [fst]. exact Hnd.
Qed.

(* ------------------------------------------------ fork ids *)
Inductive dim_same : dim -> dim -> Prop :=
| ds_arr n : dim_same (DArr n) (DArr n)
| ds_map ks ks' : Permutation ks ks' -> NoDup ks -> dim_same (DMap ks) (DMap ks').

Lemma parts_of_same d d' : dim_same d d' -> parts_of d = parts_of d'.
Proof.
  intros [n|ks ks' Hp Hnd]; [reflexivity|].
  cbn [parts_of]. rewrite (isort_keys_perm_invariant ks ks' Hp Hnd). reflexivity.
Qed.

Theorem fork_ids_perm_invariant_lemma : forall dims dims',
  Forall2 dim_same dims dims' -> make_fork_ids dims = make_fork_ids dims'.
Proof.
  intros dims dims' H.
  assert (E : fork_product dims = fork_product dims').
  { induction H as [|d d' l l' Hd _ IH]; [reflexivity|].
    cbn [fork_product]. rewrite IH, (parts_of_same d d' Hd). reflexivity. }
  unfold make_fork_ids. destruct H; [reflexivity|exact E].
Qed.

(* ------------------------------------------------ merging map sources *)
Lemma pos_ltb_lt a b : pos_ltb a b = true <-> (fst a < fst b \/ (fst a = fst b /\ snd a < snd b)).
Proof.
  unfold pos_ltb. rewrite orb_true_iff, andb_true_iff, !N.ltb_lt, N.eqb_eq. reflexivity.
Qed.

Lemma pos_ltb_ge a b : pos_ltb a b = false -> ~ (fst a < fst b \/ (fst a = fst b /\ snd a < snd b)).
Proof. intros H Hc. apply pos_ltb_lt in Hc. congruence. Qed.

Lemma pos_ltb_asym a b : pos_ltb a b = true -> pos_ltb b a = true -> False.
Proof. rewrite !pos_ltb_lt. lia. Qed.

Lemma pos_ltb_trans a b c : pos_ltb a b = true -> pos_ltb b c = true -> pos_ltb a c = true.
Proof. rewrite !pos_ltb_lt. lia. Qed.

Lemma pos_ltb_tri a b : pos_ltb a b = false -> pos_ltb b a = false -> a = b.
Proof.
  intros H1 H2. apply pos_ltb_ge in H1. apply pos_ltb_ge in H2.
  destruct a as [a1 a2], b as [b1 b2]. cbn [fst snd] in *. f_equal; lia.
Qed.

Lemma loc_ltb_asym : forall a b, loc_ltb a b = true -> loc_ltb b a = true -> False.
Proof.
  intros [[f1|] n1] [[f2|] n2]; unfold loc_ltb; cbn [fst snd]; try discriminate.
  - destruct (bytes_ltb f1 f2) eqn:E1; destruct (bytes_ltb f2 f1) eqn:E2; try discriminate.
    + intros _ _. exact (bytes_ltb_asym _ _ E1 E2).
    + apply pos_ltb_asym.
  - apply pos_ltb_asym.
Qed.

Lemma loc_ltb_trans : forall a b c, loc_ltb a b = true -> loc_ltb b c = true -> loc_ltb a c = true.
Proof.
  intros [[f1|] n1] [[f2|] n2] [[f3|] n3]; unfold loc_ltb; cbn [fst snd];
    try discriminate; try reflexivity.
  - destruct (bytes_ltb f1 f2) eqn:E12; destruct (bytes_ltb f2 f1) eqn:E21;
    destruct (bytes_ltb f2 f3) eqn:E23; destruct (bytes_ltb f3 f2) eqn:E32;
    intros H1 H2; try discriminate;
    try (exfalso; exact (bytes_ltb_asym _ _ E12 E21));
    try (exfalso; exact (bytes_ltb_asym _ _ E23 E32));
    try (rewrite (bytes_ltb_trans _ _ _ E12 E23); reflexivity);
    try (assert (f2 = f3) by (apply bytes_ltb_tri; assumption); subst f3;
         rewrite E12; reflexivity);
    try (assert (f1 = f2) by (apply bytes_ltb_tri; assumption); subst f2;
         rewrite E23; reflexivity).
    assert (f1 = f2) by (apply bytes_ltb_tri; assumption).
    assert (f2 = f3) by (apply bytes_ltb_tri; assumption). subst f2 f3.
    rewrite E12. eapply pos_ltb_trans; eassumption.
  - apply pos_ltb_trans.
Qed.

Lemma loc_ltb_tri : forall a b, loc_ltb a b = false -> loc_ltb b a = false -> a = b.
Proof.
  intros [[f1|] n1] [[f2|] n2]; unfold loc_ltb; cbn [fst snd]; try discriminate.
  - destruct (bytes_ltb f1 f2) eqn:E1; destruct (bytes_ltb f2 f1) eqn:E2; try discriminate.
    intros H1 H2. assert (f1 = f2) by (apply bytes_ltb_tri; assumption). subst f2.
    f_equal. apply pos_ltb_tri; assumption.
  - intros H1 H2. f_equal. apply pos_ltb_tri; assumption.
Qed.

Lemma sort_splits_ksort {A} (l : list (loc * A)) : sort_splits l = ksort loc_ltb l.
Proof. reflexivity. Qed.

Theorem merge_sources_perm_invariant_lemma :
  forall (S St : Type) (step : St -> S -> St) (init : St) (l l' : list (loc * S)),
  Permutation l l' -> NoDup (map fst l) ->
  unify_map_sources step init l = unify_map_sources step init l'.
Proof.
  intros S St step init l l' Hp Hnd. unfold unify_map_sources.
  rewrite !sort_splits_ksort.
  rewrite (ksort_perm_invariant loc_ltb loc_ltb_asym loc_ltb_trans loc_ltb_tri l l' Hp Hnd).
  reflexivity.
Qed.

(* Without distinct locations (two splits on one source line) the result
   depends on the order in which the set of splits was traversed. *)
Theorem merge_sources_same_line_refuted_lemma :
  exists l l' : list (loc * N),
    Permutation l l' /\
    unify_map_sources merge_len_step (None, []) l <>
    unify_map_sources merge_len_step (None, []) l'.
Proof.
  exists [((Some (bs "p.mro"), (7, 5)), 1); ((Some (bs "p.mro"), (7, 5)), 2)].
  exists [((Some (bs "p.mro"), (7, 5)), 2); ((Some (bs "p.mro"), (7, 5)), 1)].
  split; [apply perm_swap|]. vm_compute. discriminate.
Qed.

(* MergeMapCallSources names the first missing key in iteration order: the
   code as it is depends on the order; sorting first repairs it. *)
Theorem first_missing_key_refuted_lemma :
  exists (ka ka' : list (bytes * unit)) (kb : list bytes),
    Permutation ka ka' /\ NoDup (map fst ka) /\
    first_missing_key ka kb <> first_missing_key ka' kb.
Proof.
  exists [(bs "a", tt); (bs "b", tt)], [(bs "b", tt); (bs "a", tt)], [bs "c"; bs "d"].
  split; [apply perm_swap|]. split.
  - apply nodup_keys_NoDup. vm_compute. reflexivity.
  - vm_compute. discriminate.
Qed.

Theorem first_missing_key_sorted_perm_invariant_lemma :
  forall (ka ka' : list (bytes * unit)) kb,
    Permutation ka ka' -> NoDup (map fst ka) ->
    first_missing_key_sorted ka kb = first_missing_key_sorted ka' kb.
Proof.
  intros ka ka' kb Hp Hnd. unfold first_missing_key_sorted.
  rewrite (sort_keys_perm_invariant ka ka' Hp Hnd). reflexivity.
Qed.

(* ------------------------------------------------ error accumulation *)
Theorem error_list_perm_invariant_lemma :
  forall (A E : Type) (chk : bytes -> A -> option E) (l l' : list (bytes * A)),
  Permutation l l' -> NoDup (map fst l) ->
  collect_errors_sorted chk l = collect_errors_sorted chk l'.
Proof.
  intros A E chk l l' Hp Hnd. unfold collect_errors_sorted.
  rewrite (sort_keys_perm_invariant l l' Hp Hnd). reflexivity.
Qed.

Theorem error_list_unsorted_refuted_lemma :
  exists (chk : bytes -> bool -> option bytes) (l l' : list (bytes * bool)),
    Permutation l l' /\ NoDup (map fst l) /\
    collect_errors chk l <> collect_errors chk l'.
Proof.
  exists (fun (k : bytes) (bad : bool) => if bad then Some k else None).
  exists [(bs "a", true); (bs "b", true)], [(bs "b", true); (bs "a", true)].
  split; [apply perm_swap|]. split.
  - apply nodup_keys_NoDup. vm_compute. reflexivity.
  - vm_compute. discriminate.
Qed.
