(* Transport encoding of json values as bytes (same format as
   harness/internal/hx JV.Enc), so that model results computed inside Coq can
   be printed as one hex string and decoded by the drivers. *)
From Martian Require Import Lib.Bytes Json.Json.

Fixpoint pos_dec_fuel (fuel : nat) (p : positive) (acc : bytes) : bytes :=
  match fuel with
  | O => acc
  | S f =>
      let q := (Zpos p / 10)%Z in
      let r := (Zpos p mod 10)%Z in
      let acc' := n2b (48 + Z.to_N r) :: acc in
      match q with
      | Zpos q' => pos_dec_fuel f q' acc'
      | _ => acc'
      end
  end.

Definition z_dec (z : Z) : bytes :=
  match z with
  | Z0 => [x30]
  | Zpos p => pos_dec_fuel (S (Pos.to_nat (Pos.size p))) p []
  | Zneg p => x2d :: pos_dec_fuel (S (Pos.to_nat (Pos.size p))) p []
  end.

Definition hexd (n : N) : byte := n2b (if (n <? 10)%N then 48 + n else 87 + n)%N.
Fixpoint hex_bytes (s : bytes) : bytes :=
  match s with
  | [] => []
  | b :: r => hexd (b2n b / 16) :: hexd (b2n b mod 16) :: hex_bytes r
  end.

Fixpoint enc (j : json) : bytes :=
  match j with
  | JNull => [x6e]
  | JBool true => [x74]
  | JBool false => [x66]
  | JNum m e => x23 :: z_dec m ++ x65 :: z_dec e ++ [x3b]
  | JStr s => x73 :: hex_bytes s ++ [x3b]
  | JArr l => x5b :: List.concat (map enc l) ++ [x5d]
  | JObj kvs => x7b :: List.concat (map (fun kv => hex_bytes (fst kv) ++ x3a :: enc (snd kv)) kvs) ++ [x7d]
  end.
