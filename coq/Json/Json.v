(* JSON values.  Numbers are exact decimals m * 10^e (normalised by the
   producers: m = 0 -> e = 0, otherwise 10 does not divide m), strings are raw
   bytes, objects are association lists in source order (duplicate keys are a
   well-formedness matter, see json_nodup). *)
From Martian Require Import Lib.Bytes.

Inductive json :=
| JNull
| JBool (b : bool)
| JNum (m e : Z)
| JStr (s : bytes)
| JArr (l : list json)
| JObj (kvs : list (bytes * json)).

(* Proper induction principle (the generated one ignores the nested lists). *)
Section JsonInd.
  Variable P : json -> Prop.
  Hypothesis Hnull : P JNull.
  Hypothesis Hbool : forall b, P (JBool b).
  Hypothesis Hnum : forall m e, P (JNum m e).
  Hypothesis Hstr : forall s, P (JStr s).
  Hypothesis Harr : forall l, Forall P l -> P (JArr l).
  Hypothesis Hobj : forall kvs, Forall (fun kv => P (snd kv)) kvs -> P (JObj kvs).

  Fixpoint json_ind' (j : json) : P j :=
    match j with
    | JNull => Hnull
    | JBool b => Hbool b
    | JNum m e => Hnum m e
    | JStr s => Hstr s
    | JArr l =>
        Harr l ((fix go (l : list json) : Forall P l :=
                   match l with
                   | [] => Forall_nil _
                   | x :: r => Forall_cons x (json_ind' x) (go r)
                   end) l)
    | JObj kvs =>
        Hobj kvs ((fix go (l : list (bytes * json)) : Forall (fun kv => P (snd kv)) l :=
                     match l with
                     | [] => Forall_nil _
                     | x :: r => Forall_cons x (json_ind' (snd x)) (go r)
                     end) kvs)
    end.
End JsonInd.

Fixpoint json_eqb (a b : json) : bool :=
  match a, b with
  | JNull, JNull => true
  | JBool x, JBool y => Bool.eqb x y
  | JNum m e, JNum m' e' => (m =? m')%Z && (e =? e')%Z
  | JStr s, JStr t => bytes_eqb s t
  | JArr l, JArr l' =>
      (fix go (l l' : list json) : bool :=
         match l, l' with
         | [], [] => true
         | x :: r, y :: r' => json_eqb x y && go r r'
         | _, _ => false
         end) l l'
  | JObj k, JObj k' =>
      (fix go (l l' : list (bytes * json)) : bool :=
         match l, l' with
         | [], [] => true
         | (kx, x) :: r, (ky, y) :: r' => bytes_eqb kx ky && json_eqb x y && go r r'
         | _, _ => false
         end) k k'
  | _, _ => false
  end.

Definition is_null (j : json) : bool := match j with JNull => true | _ => false end.

Fixpoint assoc_get {A} (k : bytes) (l : list (bytes * A)) : option A :=
  match l with
  | [] => None
  | (k', v) :: r => if bytes_eqb k k' then Some v else assoc_get k r
  end.

(* keys sorted bytewise (sort.Strings), stable *)
Definition sort_keys {A} (l : list (bytes * A)) : list (bytes * A) :=
  isort (fun a b => bytes_leb (fst a) (fst b)) l.

(* canonical form used when comparing observations: object keys sorted,
   recursively; later duplicates of a key dropped (Go map semantics: last wins
   is applied by the producers before this). *)
Fixpoint json_canon (j : json) : json :=
  match j with
  | JArr l => JArr (map json_canon l)
  | JObj kvs => JObj (sort_keys (map (fun kv => (fst kv, json_canon (snd kv))) kvs))
  | _ => j
  end.

(* normalised number constructor: strips trailing decimal zeros of m *)
Fixpoint norm_num_fuel (fuel : nat) (m e : Z) : Z * Z :=
  match fuel with
  | O => (m, e)
  | S f => if (m =? 0)%Z then (0%Z, 0%Z)
           else if (m mod 10 =? 0)%Z then norm_num_fuel f (m / 10)%Z (e + 1)%Z
           else (m, e)
  end.
Definition jnum (m e : Z) : json :=
  let (m', e') := norm_num_fuel (S (Z.to_nat (Z.log2 (Z.abs m)))) m e in JNum m' e'.
Definition jint (z : Z) : json := jnum z 0.
