# Build of the verification framework (offline).
#   make build        everything (MANIFEST.setup_cmd): full .vo build of coq/,
#                     every extraction, every OCaml model driver
#   make prop P=c18   only what property C18 needs (used by bin/check, so that
#                     a broken obligation of one property never touches another)
PROPS := $(patsubst coq/Extract/%.v,%,$(wildcard coq/Extract/*.v))
UP = $(shell echo $(P) | tr a-z A-Z)

.PHONY: build buildall prop coq models clean coqchk
# setup: exactly what the claimed checks need (checks/claimed.txt), property by
# property, so that a file of an unfinished property can never break the setup
build: coq/Makefile
	for p in $$(tr A-Z a-z < checks/claimed.txt); do $(MAKE) prop P=$$p || exit 1; done

buildall: coq models

# _CoqProject lists every .v under coq/ except the extraction scripts; it is
# regenerated whenever the set of files changes.
COQV := $(shell cd coq && find Lib Json Extracted K Mro Proofs Properties -name '*.v' 2>/dev/null | LC_ALL=C sort)
coq/_CoqProject: FORCE
	@(echo "-Q . Martian"; for f in $(COQV); do echo $$f; done) > coq/_CoqProject.new; \
	if cmp -s coq/_CoqProject.new coq/_CoqProject; then rm coq/_CoqProject.new; else mv coq/_CoqProject.new coq/_CoqProject; fi
FORCE:

coq/Makefile: coq/_CoqProject
	cd coq && coq_makefile -f _CoqProject -o Makefile

coq: coq/Makefile
	$(MAKE) -C coq

models: coq
	for p in $(PROPS); do $(MAKE) model P=$$p || exit 1; done

prop: coq/Makefile
	$(MAKE) -C coq Properties/$(UP).vo
	if [ -f coq/Extract/$(P).v ]; then $(MAKE) model P=$(P); fi

model:
	mkdir -p ocaml/$(P)
	cd ocaml/$(P) && coqc -Q ../../coq Martian ../../coq/Extract/$(P).v > extract.log 2>&1 || (cat extract.log; exit 1)
	rm -f coq/Extract/$(P).vo coq/Extract/$(P).glob coq/Extract/.$(P).aux
	cat ocaml/src/common.ml $(addprefix ocaml/src/,$(shell sed -n 's/^(\*#use \(.*\)\*)$$/\1/p' ocaml/src/$(P).ml)) ocaml/src/$(P).ml ocaml/src/main.ml > ocaml/$(P)/driver.ml
	cd ocaml/$(P) && ocamlfind ocamlopt -O2 -w -a model.mli model.ml driver.ml -o model

coqchk: coq
	cd coq && coqchk -silent -o -Q . Martian $(shell sed -n 's/^\(Properties\/.*\)\.v$$/Martian.\1/p' coq/_CoqProject | tr / .)

clean:
	-$(MAKE) -C coq clean
	rm -rf coq/Makefile coq/Makefile.conf $(addprefix ocaml/,$(PROPS))
