#!/bin/sh
# comp stage: make.sh main <metadata dir> <files dir> <journal prefix>
meta="$2"; files="$3"
echo "start MAKE" >> "$C05PP_LOG"
printf 'report\n' > "$files/report.txt"
printf 'part0\n' > "$files/p0.txt"
printf 'part1\n' > "$files/p1.txt"
printf 'alpha\n' > "$files/a.txt"
printf 'beta\n' > "$files/b.txt"
printf 'pair\n' > "$files/pair.txt"
cat > "$meta/_outs" <<JSON
{"report": "$files/report.txt",
 "parts": ["$files/p0.txt", "$files/p1.txt"],
 "named": {"a": "$files/a.txt", "b": "$files/b.txt"},
 "pair": {"n": 3, "f": "$files/pair.txt"},
 "missing": "$files/never_written.txt"}
JSON
exit 0
