#!/bin/sh
meta="$2"
echo "start COUNT" >> "$C05PP_LOG"
n=$(grep -o 'txt"' "$meta/_args" | wc -l)
printf '{"n": %d}\n' "$n" > "$meta/_outs"
exit 0
