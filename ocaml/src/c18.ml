(* ---------------------------------------------------------------- C18 *)
let handle (f : string array) : string =
  match f.(0) with
  | "q" -> hb (quote (ub f.(1)))
  | "f" ->
    let ne = int_of_string f.(1) in
    let envs = List.init ne (fun j -> (ub f.(2 + 2*j), ub f.(3 + 2*j))) in
    let i = 2 + 2*ne in
    let cmd = ub f.(i) in
    let na = int_of_string f.(i+1) in
    let argv = List.init na (fun j -> ub f.(i + 2 + j)) in
    hb (format_args envs cmd argv)
  | "j" ->
    let tmpl = ub f.(1) in
    let np = int_of_string f.(2) in
    let pairs = List.init np (fun j -> (ub f.(3 + 2*j), ub f.(4 + 2*j))) in
    hb (replace_all pairs tmpl)
  | "d" ->
    (match sh_dquote (ub f.(1)) with
     | Lit v -> "L " ^ hb v
     | Expansion -> "E"
     | Malformed -> "M")
  | _ -> "?"

