(* ---------------------------------------------------------------- C11 *)
let split_on c s = String.split_on_char c s
let keys_of (s : string) : byte list list =
  match split_on ',' s with
  | _ :: ks -> List.map ub ks
  | [] -> []
let nat_of_int (i : int) : nat =
  let rec go i acc = if i <= 0 then acc else go (i - 1) (S acc) in go i O
let rec int_of_nat (n : nat) : int = match n with O -> 0 | S m -> 1 + int_of_nat m

let part_of (s : string) : part =
  let f = Array.of_list (split_on ':' s) in
  let i k = int_of_string f.(k) in
  { p_mode = (match i 0 with 1 -> MArray | 2 -> MMap | _ -> MSingle);
    p_known = (i 1 = 1);
    p_srclen = n_of_int (i 2);
    p_srckeys = keys_of f.(3);
    p_range = (match i 4 with 1 -> RArr (n_of_int (i 5)) | 2 -> RKeys (keys_of f.(6)) | _ -> RNone);
    p_id = (match i 7 with 0 -> IArr (n_of_int (i 8)) | 1 -> IKey (ub f.(9)) | 2 -> IEmpty | _ -> IUndet) }

let app = List.append

let handle (f : string array) : string =
  match f.(0) with
  | "k" -> hb (path_escape (ub f.(1)))
  | "j" -> hb (journal_encode (ub f.(1)))
  | "q" ->
    let a = path_escape (ub f.(1)) and b = path_escape (ub f.(2)) in
    String.concat " " [hb a; hb b; hb (journal_encode (app s_fork_us a)); hb (journal_encode (app s_fork_us b))]
  | "i" ->
    let n = int_of_string f.(1) in
    let parts = List.init n (fun j -> part_of f.(2 + j)) in
    (match fork_id parts with Some s -> "ok " ^ hb s | None -> "err")
  | "p" ->
    (match parse_journal (ub f.(1)) with
     | None -> "none"
     | Some p ->
       if p.jp_fq = [] then "none" else
       let chunk = match chunk_index p with Some c -> string_of_int (int_of_n c) | None -> "-1" in
       String.concat " " [hb p.jp_fq; hb p.jp_idx; chunk; hb p.jp_uniq; hb p.jp_state])
  | "u" -> if uniq_accepts (ub f.(1)) (ub f.(2)) then "1" else "0"
  | "t" ->
    let pos = ref 1 in
    let next () = let s = f.(!pos) in incr pos; s in
    let nexti () = int_of_string (next ()) in
    let psid = u (next ()) in
    let top = bytes_of_string ("ID." ^ psid) in
    let nn = nexti () in
    let out = Buffer.create 256 in
    let nodes = List.init nn (fun _ ->
      let rel = ub (next ()) in
      let _parent = nexti () in
      let nf = nexti () in
      let forks = List.init nf (fun _ ->
        let nch = nexti () in
        let np = nexti () in
        let parts = List.init np (fun _ -> part_of (next ())) in
        (fork_id parts, nch)) in
      (rel, forks)) in
    let allok = List.for_all (fun (_, fs) -> List.for_all (fun (id, _) -> id <> None) fs) nodes in
    List.iter (fun (_, fs) -> List.iter (fun (id, _) ->
      (match id with Some s -> Buffer.add_string out (hb s) | None -> Buffer.add_string out "E");
      Buffer.add_char out ' ') fs) nodes;
    let jnodes = List.map (fun (rel, fs) ->
      (rel, List.filter_map (fun (id, nch) ->
        match id with Some s -> Some (fork_tok s, n_of_int nch) | None -> None) fs)) nodes in
    let nq = nexti () in
    for _ = 1 to nq do
      let ni = nexti () in
      let fi = nexti () in
      let chunk = nexti () in
      let run = (match next () with "split" -> RSplit | "join" -> RJoin | _ -> RMain) in
      let uniq = ub (next ()) in
      let file = ub (next ()) in
      if allok then begin
        let (rel, fs) = List.nth nodes ni in
        let (id, nch) = List.nth fs fi in
        let id = (match id with Some s -> s | None -> []) in
        let name = journal_name { jo_rel = rel; jo_id = id; jo_run = run;
                                  jo_chunk = n_of_int (max chunk 0); jo_nchunks = n_of_int nch;
                                  jo_uniq = uniq; jo_file = file } in
        if List.length name > 255 then Buffer.add_string out "| toolong " else
        (match route_journal false top jnodes name with
         | Some r ->
           Buffer.add_string out (Printf.sprintf "| %s %d %d %d %s %s %d " (hb name)
             (int_of_nat r.r_node) (int_of_nat r.r_fork)
             (match r.r_chunk with Some c -> int_of_n c | None -> -1)
             (hb r.r_uniq) (hb r.r_state) (int_of_n r.r_target))
         | None ->
           Buffer.add_string out (Printf.sprintf "| %s unrouted " (hb name)))
      end
    done;
    String.trim (Buffer.contents out)
  | "a" ->
    (* a <runtype> <keyflag> <key> <chunk> <nchunks> <n> ops... *)
    let n = int_of_string f.(6) in
    let ops = List.init n (fun j ->
      let t = f.(7 + j) in
      match t.[0] with
      | 'S' -> OStart
      | 'R' -> OReset
      | 'F' -> ORefresh
      | _ ->
        (match split_on ':' t with
         | [_; k; file] -> OWrite (nat_of_int (int_of_string k), ub file)
         | _ -> ORefresh)) in
    String.concat ";" (List.map (fun ((cls, natts), names) ->
      Printf.sprintf "%d,%d,%s"
        (match cls with Some i -> int_of_nat i | None -> -1)
        (int_of_nat natts)
        (String.concat "+" (List.map hb names))) (atrace false s_init ops))
  | _ -> "?"

