(*#use json.ml*)
(* ---------------------------------------------------------------- C13 *)
(* type spec parser, see harness/cmd/vh/c13.go *)
let parse_members (s : string) : ((byte list * ty) * byte list) list =
  let pos = ref 0 in
  let until c = let st = !pos in
    while s.[!pos] <> c do incr pos done;
    let r = String.sub s st (!pos - st) in incr pos;
    bytes_of_string (u (if r = "" then "-" else r)) in
  let rec typ () : ty =
    let c = s.[!pos] in incr pos;
    match c with
    | 'i' -> TPlain KNot
    | 's' | 'u' -> TPlain KMay
    | 'f' | 'p' -> TFile None
    | 'x' -> let n = until '.' in TFile (Some n)
    | 'A' -> let d = Char.code s.[!pos] - 48 in incr pos;
      let e = typ () in
      let rec nest k t = if k <= 0 then t else nest (k - 1) (TArr t) in nest d e
    | 'M' -> TMap (typ ())
    | 'S' -> let _ = until '(' in decr pos; TStruct (members ())
    | _ -> failwith "bad type spec"
  and members () =
    incr pos; (* ( *)
    let ms = ref [] in
    while s.[!pos] <> ')' do
      let id = until ':' in
      let t = typ () in
      incr pos; (* : *)
      let o = until ';' in
      ms := ((id, t), o) :: !ms
    done;
    incr pos;
    List.rev !ms
  in members ()

let parse_fs (s : string) : (byte list list * node) list =
  if s = "-" then [] else
  List.filter_map (fun e ->
    let kind = e.[0] in
    let rest = String.sub e 1 (String.length e - 1) in
    let p, d = match String.index_opt rest ':' with
      | Some i -> String.sub rest 0 i, String.sub rest (i+1) (String.length rest - i - 1)
      | None -> rest, "" in
    let ub' x = bytes_of_string (u (if x = "" then "-" else x)) in
    match parse_abs (ub' p) with
    | None -> None
    | Some path ->
      Some (path, (match kind with
        | 'F' -> NFile (ub' d) | 'D' -> NDir | _ -> NLink (ub' d))))
    (String.split_on_char ',' s)

let hx0 l = let t = hb l in if t = "-" then "" else t

let starts_with (p : string) (s : string) =
  String.length s >= String.length p && String.sub s 0 (String.length p) = p

let handle (f : string array) : string =
  match f.(0) with
  | "c" ->
    let md = (match f.(1) with "a" -> MArray | "m" -> MMap | _ -> MSingle) in
    let params = parse_members f.(2) in
    let root = bytes_of_string "/R" in
    let ps = (match parse_abs (bytes_of_string "/R/ps") with Some p -> p | None -> failwith "ps") in
    (* the directories the harness always creates *)
    let base = List.filter_map (fun d -> match parse_abs (bytes_of_string d) with
        | Some p -> Some (p, NDir) | None -> None)
        ["/R"; "/R/ps"; "/R/ps/w"; "/R/ext"; "/R/ps2"] in
    ignore root;
    (* later entries of the case overwrite earlier ones on disk: first match wins in init_fs *)
    let entries = List.rev (base @ parse_fs f.(3)) in
    let v = json_of_line f.(4) in
    let (v', s) = post_process md ps params v (init_st entries) in
    if s.unm then "U" else begin
      let watched = ["/R/ps/w"; "/R/ps/outs"; "/R/ext"; "/R/ps2"] in
      let items = List.filter_map (fun (p, n) ->
          let ps = string_of_bytes (render p) in
          if List.exists (fun w -> ps = w || starts_with (w ^ "/") ps) watched then
            Some (match n with
              | NFile c -> "F" ^ hx0 (render p) ^ ":" ^ hx0 c
              | NDir -> "D" ^ hx0 (render p)
              | NLink t -> "L" ^ hx0 (render p) ^ ":" ^ hx0 t)
          else None) (dump s.fs) in
      let items = List.sort compare items in
      (if s.err then "E" else "-") ^ " " ^ line_of_json (json_canon v') ^ " " ^
      (if items = [] then "-" else String.concat "," items)
    end
  | "n" ->
    if names_distinct (parse_members f.(1)) then "accept" else "reject"
  | _ -> "?"

