(*#use json.ml*)
(* ---------------------------------------------------------------- C17 *)
(* type transport (harness/cmd/vh/c17.go tyEnc):
   b<k>  k in s i f b p F m      builtin
   u<hexname>;                   user file type
   A<dim>:<ty>                   ArrayType{Elem, Dim}
   M<ty>                         TypedMapType{Elem}
   S<hexname>(<hexid>:<ty>...)   StructType *)
let rec nat_of_int (i : int) : nat = if i <= 0 then O else S (nat_of_int (i - 1))

let ty_of_string (s : string) : ty =
  let pos = ref 0 in
  let until c = let st = !pos in
    while s.[!pos] <> c do incr pos done;
    let r = String.sub s st (!pos - st) in incr pos; r in
  let rec go () : ty =
    let c = s.[!pos] in incr pos;
    match c with
    | 'b' -> let k = s.[!pos] in incr pos;
      TB (match k with
          | 's' -> KString | 'i' -> KInt | 'f' -> KFloat | 'b' -> KBool
          | 'p' -> KPath | 'F' -> KFile | 'm' -> KMap
          | _ -> failwith "bad kind")
    | 'u' -> TU (ub (until ';'))
    | 'A' -> let d = int_of_string (until ':') in
      let e = go () in TArr (e, nat_of_int (d - 1))
    | 'M' -> TMap (go ())
    | 'S' -> let name = ub (until '(') in
      let ms = ref [] in
      while s.[!pos] <> ')' do
        let id = ub (until ':') in
        let t = go () in
        ms := (id, t) :: !ms
      done; incr pos;
      TS (name, List.rev !ms)
    | _ -> failwith ("bad type at " ^ string_of_int !pos)
  in go ()

let handle (f : string array) : string =
  match f.(0) with
  | "e" -> "e"
  | "c" ->
    (* c <env> <typeid> <ty> <jsontext> <json> *)
    let t = ty_of_string f.(3) in
    let v = json_of_line f.(5) in
    let (flags, o) = observe t v in
    String.concat "" (List.map string_of_z flags) ^ " " ^ line_of_json o
  | "a" ->
    (* a <env> <typeid1> <typeid2> <ty1> <ty2> *)
    let t1 = ty_of_string f.(4) and t2 = ty_of_string f.(5) in
    (if assignable t1 t2 then "1" else "0")
  | _ -> "?"
