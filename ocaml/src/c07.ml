(*#use ast.ml*)
(* ---------------------------------------------------------------- C07 *)
let hex_of_bytes = hb
let handle (f : string array) : string =
  match f.(0) with
  | "p" ->
    (* p <kind> <class> <must> <pid> <call> <bind> <src> <ast> *)
    let a = ast_of_string f.(8) in
    (match typecheck a with
     | RAccept -> "accept"
     | RUnsupported -> "unsup"
     | RReject locs ->
       let s = List.map (fun ((p, c), b) -> hex_of_bytes p ^ "/" ^ hex_of_bytes c ^ "/" ^ hex_of_bytes b) locs in
       "reject " ^ String.concat "," (List.sort_uniq compare s))
  | _ -> "?"
