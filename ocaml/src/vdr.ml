(* ---------------------------------------------------------------- C04 / C14: VDR model driver *)
let ni (s : string) : n = n_of_int (int_of_string s)
let split_on c s = if s = "-" || s = "" then [] else String.split_on_char c s

let vdr_mode = function
  | "rolling" -> Rolling | "post" -> Post | "strict" -> Strict | "disable" -> Disable
  | s -> failwith ("bad mode " ^ s)

let vdr_owner = function
  | "st" -> SplitTmp | "ct" -> ChunkTmp | "jt" -> JoinTmp
  | "sf" -> SplitFiles | "cf" -> ChunkFiles | "jf" -> JoinFiles
  | s -> failwith ("bad owner " ^ s)

let vdr_file (t : string) : file =
  match String.split_on_char ':' t with
  | [p; o; sz; names] ->
      { f_path = ni p; f_own = vdr_owner o; f_size = ni sz; f_names = List.map ni (split_on '.' names) }
  | _ -> failwith ("bad file " ^ t)

let vdr_fa (t : string) =
  List.map (fun e -> match String.split_on_char ':' e with
    | [a; "T"] -> (ni a, None)
    | [a; h] -> (ni a, Some (ni h))
    | _ -> failwith ("bad fa " ^ e)) (split_on '+' t)

let vdr_fp (t : string) =
  List.map (fun e -> match String.split_on_char ':' e with
    | [n; a] -> (ni n, ni a)
    | _ -> failwith ("bad fp " ^ e)) (split_on '+' t)

let vdr_fork (t : string) : n * fork =
  match String.split_on_char ',' t with
  | [id; sp; vol; sv; decl; valued; fa; fp; files] ->
      let fl = List.map vdr_file (split_on '/' files) in
      let fa = vdr_fa fa and fp = vdr_fp fp in
      (ni id,
       { k_split = (sp = "1"); k_vol = (vol = "1"); k_sv = (sv = "1"); k_decl = (decl = "1");
         files0 = fl; valued = List.map ni (split_on '+' valued);
         init_fa = fa; init_fp = fp; fa = fa; fp = fp; fpm = None; disk = fl; removed = [];
         partial = None; final = None; ph = PRun })
  | _ -> failwith ("bad fork " ^ t)

let vdr_op (t : string) : op =
  let rest = String.sub t 1 (String.length t - 1) in
  match t.[0] with
  | 'c' -> ConsumerFinished (ni rest)
  | 'a' -> Advance (ni rest)
  | 'h' -> Cache (ni rest)
  | 'k' -> PartialKill (ni rest)
  | 'w' -> FinalSweep
  | 'r' -> Restart
  | 'x' -> (match String.split_on_char ':' rest with
            | [s; d] -> CloneFork (ni s, ni d, [], [])
            | _ -> failwith "bad clone")
  | _ -> failwith ("bad op " ^ t)

let si (x : n) = string_of_int (int_of_n x)
let join_or_dash sep l = if l = [] then "-" else String.concat sep l

let vdr_pairs (l : (int * int) list) (snd_str : int -> string) : string =
  join_or_dash "+" (List.map (fun (a, b) -> string_of_int a ^ ":" ^ snd_str b) (List.sort_uniq compare l))

let vdr_rep = function None -> "~" | Some r -> si r.r_count ^ "/" ^ si r.r_size

let vdr_fork_obs ((id, k) : n * fork) : string =
  let fa = vdr_pairs (List.map (fun (a, h) -> (int_of_n a, match h with None -> -1 | Some x -> int_of_n x)) k.fa)
             (fun h -> if h < 0 then "T" else string_of_int h) in
  let fp = vdr_pairs (List.map (fun (x, a) -> (int_of_n x, int_of_n a)) k.fp) string_of_int in
  let fpm = match k.fpm with
    | None -> "~"
    | Some es ->
        join_or_dash "+"
          (List.map (fun (p, args) -> string_of_int p ^ "=" ^ join_or_dash "." (List.map string_of_int args))
             (List.sort compare
                (List.map (fun (f, args) -> (int_of_n f.f_path, List.sort_uniq compare (List.map int_of_n args))) es))) in
  let disk = join_or_dash "+" (List.map string_of_int (List.sort compare (List.map (fun f -> int_of_n f.f_path) k.disk))) in
  let part = match k.partial with
    | None -> "~"
    | Some p -> Printf.sprintf "%s/%s/%d%d%d" (si p.p_rep.r_count) (si p.p_rep.r_size)
                  (if p.p_split then 1 else 0) (if p.p_chunks then 1 else 0) (if p.p_join then 1 else 0) in
  Printf.sprintf "%s[%s][%s][%s][%s][%s][%s]" (si id) fa fp fpm disk part (vdr_rep k.final)

let vdr_obs (s : sys) : string =
  String.concat ";" (List.map vdr_fork_obs s.s_forks) ^ "|" ^ vdr_rep s.s_total

(* final state in the projection observable after a real run *)
let vdr_final_obs (s : sys) : string =
  String.concat ";"
    (List.map (fun (id, k) ->
       Printf.sprintf "%s[%s][%s]" (si id)
         (join_or_dash "+" (List.map string_of_int (List.sort compare (List.map (fun f -> int_of_n f.f_path) k.disk))))
         (vdr_rep k.final)) s.s_forks)
  ^ "|" ^ vdr_rep s.s_total

let comps (s : string) : byte list list =
  List.map bytes_of_string (List.filter (fun c -> c <> "" && c <> ".") (String.split_on_char '/' s))

let vdr_handle (f : string array) : string =
  match f.(0) with
  | "X" -> "skipped"
  | "S" | "E" ->
      let s0 = { s_mode = vdr_mode f.(1); s_forks = List.map vdr_fork (split_on ';' f.(2)); s_done = []; s_total = None } in
      let ops = List.map vdr_op (split_on ',' f.(3)) in
      if f.(0) = "E" then vdr_final_obs (run s0 ops)
      else begin
        let (_, obs) = List.fold_left (fun (s, acc) o -> let s' = step s o in (s', vdr_obs s' :: acc)) (s0, []) ops in
        if obs = [] then "-" else String.concat " " (List.rev obs)
      end
  | "i" -> if path_is_inside (comps (u f.(1))) (comps (u f.(2))) then "1" else "0"
  | "o" ->
      let l t = List.map (fun x -> comps (u x)) (String.split_on_char ',' t) in
      if any_overlap (l f.(1)) (l f.(2)) then "1" else "0"
  | "m" ->
      let rs = List.map (fun x -> match String.split_on_char ':' x with
        | [c; s; np] -> { r_paths = List.init (int_of_string np) (fun _ -> N0); r_count = ni c; r_size = ni s }
        | _ -> failwith "bad report") (String.split_on_char ',' f.(1)) in
      let m = merge_reports rs in
      Printf.sprintf "%s/%s/%d" (si m.r_count) (si m.r_size) (List.length m.r_paths)
  | k -> failwith ("bad case kind " ^ k)
