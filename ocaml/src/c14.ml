(*#use vdr.ml*)
(* C14 (same model as C04): the case may carry a leading program name (end-to-end cases) *)
let handle (f : string array) : string =
  if Array.length f > 0 && String.length f.(0) > 1 && f.(0).[0] = 'p'
  then vdr_handle (Array.sub f 1 (Array.length f - 1))
  else vdr_handle f
