
let () =
  let out = Buffer.create 65536 in
  (try
    while true do
      let line = input_line stdin in
      if line <> "" then begin
        let f = Array.of_list (String.split_on_char ' ' line) in
        Buffer.add_string out (handle f); Buffer.add_char out '\n';
        if Buffer.length out > 60000 then (print_string (Buffer.contents out); Buffer.clear out)
      end
    done
  with End_of_file -> ());
  print_string (Buffer.contents out)
