(* ---------------------------------------------------------------- C08 *)
let sb l = string_of_bytes l
let tok_name (t : tok) : string =
  match t with
  | TSkip -> "SKIP" | TComment -> "COMMENT" | TInvalid -> "INVALID"
  | TPunct c -> sb [c]
  | TKw name -> sb name
  | TId -> "ID" | TStr -> "LITSTRING" | TFloat -> "NUM_FLOAT" | TInt -> "NUM_INT"
let rec int_of_nat (n : nat) : int = match n with O -> 0 | S m -> 1 + int_of_nat m
let int_of_z (z : z) : int =
  match z with Z0 -> 0 | Zpos p -> int_of_pos p | Zneg p -> - (int_of_pos p)

let handle (f : string array) : string =
  match f.(0) with
  | "t" ->
    let ((t, n), a) = token_observation (ub f.(1)) in
    let base = tok_name t ^ " " ^ string_of_int (int_of_nat n) in
    (match a with
     | AInt z -> base ^ " I " ^ sb (dec_of_Z z)
     | AFloat -> base ^ " F"
     | AStr v -> base ^ " S " ^ hb v
     | ANone -> base
     | APanic -> base ^ " P")
  | "i" ->
    (match parse_int (ub f.(1)) with
     | IOk z -> "I " ^ sb (dec_of_Z z)
     | IPanic -> "P")
  | "f" -> if float_parses (ub f.(1)) then "F" else "P"
  | "u" ->
    (match unquote (ub f.(1)) with
     | Some v -> "S " ^ hb v
     | None -> "P")
  | "s" ->
    (match src_action (ub f.(1)) with
     | Some (p, args) -> "ok " ^ String.concat "," (List.map hb (p :: args))
     | None -> "E")
  | "p" ->
    (match lex_source (ub f.(2)) with
     | None -> "out-of-fuel"
     | Some l ->
       let nc = List.length (List.filter (fun r -> r.t_tok = TComment) l) in
       let b = Buffer.create 256 in
       Buffer.add_string b (string_of_int nc);
       List.iter (fun r ->
         if r.t_tok <> TComment then
           Buffer.add_string b (Printf.sprintf " %s:%d@%d:%d" (tok_name r.t_tok)
             (int_of_nat r.t_len) (int_of_z r.t_line) (int_of_z r.t_col))) l;
       Buffer.contents b)
  | _ -> "-"
