(* Reader for the transport form of Mro/Ast.v values produced by
   harness/internal/astdump (see the grammar there).  Use with
   (*#use ast.ml*) ; requires the extraction to contain the Mro.Ast types
   (ast, exp, call_stm ...) and Z / N.  Self-contained apart from common.ml. *)
type sx = SC of string * sx list | SL of sx list | SB of string | SZ of string | SN of string

let sx_of_string (s : string) : sx =
  let pos = ref 0 in
  let len = String.length s in
  let peek () = if !pos < len then s.[!pos] else '\000' in
  let is_atom c = (c >= 'a' && c <= 'z') || (c >= 'A' && c <= 'Z') || (c >= '0' && c <= '9') || c = '_' || c = '-' in
  let atom () = let st = !pos in
    while !pos < len && is_atom s.[!pos] do incr pos done;
    String.sub s st (!pos - st) in
  let rec value () : sx =
    match peek () with
    | '[' -> incr pos;
      if peek () = ']' then (incr pos; SL []) else SL (items ']')
    | '$' -> incr pos; SB (atom ())
    | '#' -> incr pos; SZ (atom ())
    | '%' -> incr pos; SN (atom ())
    | _ -> let name = atom () in
      if name = "" then failwith ("ast transport: unexpected character at " ^ string_of_int !pos);
      if peek () = '(' then (incr pos; SC (name, items ')')) else SC (name, [])
  and items close =
    let v = value () in
    match peek () with
    | ',' -> incr pos; v :: items close
    | c when c = close -> incr pos; [v]
    | _ -> failwith ("ast transport: expected , or closer at " ^ string_of_int !pos)
  in
  let v = value () in
  if !pos <> len then failwith "ast transport: trailing input";
  v

(* decimal -> positive / Z / N *)
let ast_pos_of_dec (s : string) : positive option =
  let d = Array.init (String.length s) (fun i -> Char.code s.[i] - 48) in
  let is_zero () = Array.for_all (fun x -> x = 0) d in
  let bits = ref [] in
  while not (is_zero ()) do
    let carry = ref 0 in
    for i = 0 to Array.length d - 1 do
      let cur = !carry * 10 + d.(i) in
      d.(i) <- cur / 2; carry := cur mod 2
    done;
    bits := !carry :: !bits
  done;
  match !bits with
  | [] -> None
  | _ :: rest -> Some (List.fold_left (fun p b -> if b = 1 then XI p else XO p) XH rest)
let ast_z_of_dec (s : string) : z =
  let neg = String.length s > 0 && s.[0] = '-' in
  let body = if neg then String.sub s 1 (String.length s - 1) else s in
  match ast_pos_of_dec body with
  | None -> Z0
  | Some p -> if neg then Zneg p else Zpos p
let ast_n_of_dec (s : string) : n =
  match ast_pos_of_dec s with None -> N0 | Some p -> Npos p

let bad what = failwith ("ast transport: bad " ^ what)
let a_bytes = function SB hx -> bytes_of_string (u (if hx = "" then "-" else hx)) | _ -> bad "bytes"
let a_z = function SZ d -> ast_z_of_dec d | _ -> bad "Z"
let a_n = function SN d -> ast_n_of_dec d | _ -> bad "N"
let a_bool = function SC ("true", []) -> true | SC ("false", []) -> false | _ -> bad "bool"
let a_list f = function SL l -> List.map f l | _ -> bad "list"
let a_opt f = function SC ("None", []) -> None | SC ("Some", [v]) -> Some (f v) | _ -> bad "option"
let a_pair f g = function SC ("P", [a; b]) -> (f a, g b) | _ -> bad "pair"

let a_kind = function
  | SC ("KindIsNotFile", []) -> KindIsNotFile
  | SC ("KindMayContainPaths", []) -> KindMayContainPaths
  | SC ("KindIsFile", []) -> KindIsFile
  | SC ("KindIsDirectory", []) -> KindIsDirectory
  | _ -> bad "file_kind"
let a_tid = function
  | SC ("mk_tid", [n; a; m]) -> { tid_name = a_bytes n; tid_arr = a_n a; tid_map = a_n m }
  | _ -> bad "type_id"
let a_member = function
  | SC ("mk_member", [i; t; o; h; k; c; b]) ->
    { sm_id = a_bytes i; sm_tname = a_tid t; sm_outname = a_bytes o; sm_help = a_bytes h;
      sm_isfile = a_kind k; sm_complex = a_bool c; sm_basefile = a_bool b }
  | _ -> bad "struct_member"
let a_struct = function
  | SC ("mk_struct", [i; m; k]) -> { sd_id = a_bytes i; sd_members = a_list a_member m; sd_isfile = a_kind k }
  | _ -> bad "struct_type"
let rec a_exp = function
  | SC ("EArray", [l]) -> EArray (a_list a_exp l)
  | SC ("EMap", [k; l]) ->
    EMap ((match k with SC ("MapKindMap", []) -> MapKindMap | SC ("MapKindStruct", []) -> MapKindStruct | _ -> bad "map_kind"),
          a_list (a_pair a_bytes a_exp) l)
  | SC ("EString", [s]) -> EString (a_bytes s)
  | SC ("EBool", [b]) -> EBool (a_bool b)
  | SC ("EInt", [z]) -> EInt (a_z z)
  | SC ("EFloat", [m; e]) -> EFloat (a_z m, a_z e)
  | SC ("ENull", []) -> ENull
  | SC ("ERef", [k; i; o]) ->
    ERef ((match k with SC ("RefSelf", []) -> RefSelf | SC ("RefCall", []) -> RefCall | _ -> bad "ref_kind"),
          a_bytes i, a_bytes o)
  | SC ("ESplit", [x]) -> ESplit (a_exp x)
  | _ -> bad "exp"
let a_bind = function
  | SC ("mk_bind", [i; e; t]) -> { b_id = a_bytes i; b_exp = a_exp e; b_tname = a_tid t }
  | _ -> bad "bind_stm"
let a_mode = function
  | SC ("ModeSingleCall", []) -> ModeSingleCall | SC ("ModeArrayCall", []) -> ModeArrayCall
  | SC ("ModeMapCall", []) -> ModeMapCall | SC ("ModeUnknownMapCall", []) -> ModeUnknownMapCall
  | SC ("ModeNullMapCall", []) -> ModeNullMapCall | _ -> bad "call_mode"
let a_mods = function
  | SC ("mk_mods", [b; l; p; v]) ->
    { m_bindings = a_list a_bind b; m_local = a_bool l; m_preflight = a_bool p; m_volatile = a_bool v }
  | _ -> bad "modifiers"
let a_call = function
  | SC ("mk_call", [i; d; m; b; md]) ->
    { c_id = a_bytes i; c_dec_id = a_bytes d; c_mods = a_opt a_mods m;
      c_bindings = a_list a_bind b; c_mode = a_mode md }
  | _ -> bad "call_stm"
let a_in = function
  | SC ("mk_in", [i; t; h; k; b]) ->
    { ip_id = a_bytes i; ip_tname = a_tid t; ip_help = a_bytes h; ip_isfile = a_kind k; ip_basefile = a_bool b }
  | _ -> bad "in_param"
let a_lang = function
  | SC ("LangUnknown", []) -> LangUnknown | SC ("LangPython", []) -> LangPython
  | SC ("LangExec", []) -> LangExec | SC ("LangCompiled", []) -> LangCompiled | _ -> bad "stage_lang"
let a_src = function
  | SC ("mk_src", [l; p; a]) -> { src_lang = a_lang l; src_path = a_bytes p; src_args = a_list a_bytes a }
  | _ -> bad "src_param"
let a_res = function
  | SC ("mk_res", [s; t; m; v; sv]) ->
    { r_special = a_bytes s; r_threads = a_pair a_z a_z t; r_mem_gb = a_pair a_z a_z m;
      r_vmem_gb = a_pair a_z a_z v; r_strict_volatile = a_bool sv }
  | _ -> bad "resources"
let a_callable = function
  | SC ("CStage", [SC ("mk_stage", [i; ins; outs; sp; ci; co; rt; src; res])]) ->
    CStage { st_id = a_bytes i; st_ins = a_list a_in ins; st_outs = a_list a_member outs;
             st_split = a_bool sp; st_chunk_ins = a_list a_in ci; st_chunk_outs = a_list a_member co;
             st_retain = a_list a_bytes rt; st_src = a_src src; st_resources = a_opt a_res res }
  | SC ("CPipeline", [SC ("mk_pipeline", [i; ins; outs; calls; ret; rt])]) ->
    CPipeline { pl_id = a_bytes i; pl_ins = a_list a_in ins; pl_outs = a_list a_member outs;
                pl_calls = a_list a_call calls; pl_ret = a_opt (a_list a_bind) ret;
                pl_retain = a_list a_exp rt }
  | _ -> bad "callable"
let ast_of_sx = function
  | SC ("mk_ast", [u; s; c; cp; call]) ->
    { a_user_types = a_list a_bytes u; a_struct_types = a_list a_struct s;
      a_callables = a_list a_callable c; a_compiled = a_bool cp; a_call = a_opt a_call call }
  | _ -> bad "ast"
let ast_of_string (s : string) : ast = ast_of_sx (sx_of_string s)
let exp_of_string (s : string) : exp = a_exp (sx_of_string s)
