(* Transport encoding of Json.json (see harness/internal/hx/json.go Enc):
   n t f  #<m>e<e>;  s<hex>;  [ ... ]  { <hexkey>:<value> ... }
   Requires the extraction to contain the json type and Z. *)
(* decimal string <-> positive, self-contained (digit arrays in OCaml ints) *)
let pos_of_string_dec (s : string) : positive option =
  let d = Array.init (String.length s) (fun i -> Char.code s.[i] - 48) in
  let is_zero () = Array.for_all (fun x -> x = 0) d in
  (* bits, least significant first, by repeated halving of the decimal digits *)
  let bits = ref [] in
  while not (is_zero ()) do
    let carry = ref 0 in
    for i = 0 to Array.length d - 1 do
      let cur = !carry * 10 + d.(i) in
      d.(i) <- cur / 2; carry := cur mod 2
    done;
    bits := !carry :: !bits   (* most significant ends up first *)
  done;
  match !bits with
  | [] -> None
  | _ :: rest ->  (* leading bit is 1 *)
    Some (List.fold_left (fun p b -> if b = 1 then XI p else XO p) XH rest)
let z_of_string (s : string) : z =
  if s = "" then Z0 else
  let neg = s.[0] = '-' in
  let body = if neg then String.sub s 1 (String.length s - 1) else s in
  match pos_of_string_dec body with
  | None -> Z0
  | Some p -> if neg then Zneg p else Zpos p
let string_of_pos (p : positive) : string =
  (* bits most significant first *)
  let rec bits p acc = match p with
    | XH -> 1 :: acc | XO q -> bits q (0 :: acc) | XI q -> bits q (1 :: acc) in
  let digits = ref [0] in  (* least significant first *)
  List.iter (fun b ->
    let carry = ref b in
    digits := List.map (fun d -> let v = d * 2 + !carry in carry := v / 10; v mod 10) !digits;
    if !carry > 0 then digits := !digits @ [!carry]) (bits p []);
  String.concat "" (List.rev_map string_of_int !digits)
let string_of_z (x : z) : string =
  match x with Z0 -> "0" | Zpos p -> string_of_pos p | Zneg p -> "-" ^ string_of_pos p
let string_of_n (x : n) : string =
  match x with N0 -> "0" | Npos p -> string_of_pos p

let json_of_line (s : string) : json =
  let pos = ref 0 in
  let len = String.length s in
  let until c = let st = !pos in
    while !pos < len && s.[!pos] <> c do incr pos done;
    let r = String.sub s st (!pos - st) in incr pos; r in
  let rec value () : json =
    let c = s.[!pos] in incr pos;
    match c with
    | 'n' -> JNull | 't' -> JBool true | 'f' -> JBool false
    | '#' -> let body = until ';' in
      let i = String.index body 'e' in
      JNum (z_of_string (String.sub body 0 i),
            z_of_string (String.sub body (i+1) (String.length body - i - 1)))
    | 's' -> let hx = until ';' in JStr (bytes_of_string (u (if hx = "" then "-" else hx)))
    | '[' -> let items = ref [] in
      while s.[!pos] <> ']' do items := value () :: !items done; incr pos;
      JArr (List.rev !items)
    | '{' -> let items = ref [] in
      while s.[!pos] <> '}' do
        let k = until ':' in
        let v = value () in
        items := (bytes_of_string (u (if k = "" then "-" else k)), v) :: !items done; incr pos;
      JObj (List.rev !items)
    | _ -> failwith ("bad json line at " ^ string_of_int !pos)
  in value ()

let rec line_of_json (j : json) : string =
  let hx l = let t = hb l in if t = "-" then "" else t in
  match j with
  | JNull -> "n" | JBool true -> "t" | JBool false -> "f"
  | JNum (m, e) -> "#" ^ string_of_z m ^ "e" ^ string_of_z e ^ ";"
  | JStr s -> "s" ^ hx s ^ ";"
  | JArr l -> "[" ^ String.concat "" (List.map line_of_json l) ^ "]"
  | JObj kvs -> "{" ^ String.concat "" (List.map (fun (k, v) -> hx k ^ ":" ^ line_of_json v) kvs) ^ "}"
