(*#use ast.ml*)
(* ---------------------------------------------------------------- C09 *)
let tf b = if b then "T" else "F"
let z_of_dec = ast_z_of_dec
let n_of_dec = ast_n_of_dec
let rec dec_of_n (x : n) : string = string_of_int (int_of_n x)
let handle (f : string array) : string =
  match f.(0) with
  | "q" -> hb (quote_string (ub f.(1)))
  | "i" -> hb (format_int (z_of_dec f.(1)))
  | "g" ->
    (* g <int part> <mb>: the model prints mbt = ip * 1024 + mb *)
    let ip = int_of_string f.(1) and mb = int_of_string f.(2) in
    hb (format_gb (n_of_dec (string_of_int (ip * 1024 + mb))))
  | "o" ->
    let n = int_of_string f.(1) in
    let unknown = n_of_int 1000 in
    let g = List.init n (fun i ->
      let ds = if f.(2 + i) = "-" then [] else
        List.map (fun d -> if d = "n" then unknown else n_of_int (int_of_string d))
          (String.split_on_char ',' f.(2 + i)) in
      (n_of_int i, ds)) in
    (match topo_sort g with
     | None -> "err"
     | Some [] -> "-"
     | Some l -> String.concat "," (List.map dec_of_n l))
  | "k" ->
    (* k <layout> <tree>: comment ids printed for a nested literal *)
    let toks = Array.of_list (String.split_on_char '.' f.(2)) in
    let pos = ref 0 and next = ref 0 in
    let rec tree () : cexp =
      let tk = toks.(!pos) in incr pos;
      if tk = "L" then CLeaf else begin
        let n = int_of_string (String.sub tk 1 (String.length tk - 1)) in
        let items = List.init n (fun _ ->
          let c = toks.(!pos) in incr pos;
          let k = int_of_string (String.sub c 1 (String.length c - 1)) in
          let cs = List.init k (fun _ -> let i = !next in incr next; n_of_int i) in
          let t = tree () in (cs, t)) in
        if tk.[0] = 'A' then CArr items else CMap items end in
    let t = tree () in
    (match fmt false t with
     | [] -> "-"
     | l -> String.concat "," (List.map dec_of_n l))
  | "v" ->
    (* v <ast src> <ast format(src)> <ast format(format(src))> *)
    let a0 = ast_of_string f.(1) and a1 = ast_of_string f.(2) and a2 = ast_of_string f.(3) in
    Printf.sprintf "same01=%s same12=%s same02=%s" (tf (ast_same a0 a1)) (tf (ast_same a1 a2)) (tf (ast_same a0 a2))
  | _ -> "-"
