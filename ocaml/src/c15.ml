(*#use ast.ml*)
(* ---------------------------------------------------------------- C15 *)
let tf b = if b then "T" else "F"
let handle (f : string array) : string =
  match f.(0) with
  | "p" ->
    (* p <class> <edit> <srcA> <srcB> <astA> <astB> : A original, B edited.
       Observation: EquivalentCall(new=B, old=A), EquivalentCall(A, B),
       then (model only) wf / cache / fuel facts *)
    let a = ast_of_string f.(5) and b = ast_of_string f.(6) in
    let ok_norm x y = match norm (fuel_of x y) x, norm (fuel_of x y) y with Some _, Some _ -> true | _ -> false in
    let fuel_ok x y = match equiv_call_opt x y with Some _ -> true | None -> false in
    Printf.sprintf "%s %s wf=%s%s cache=%s%s fuel=%s%s%s"
      (tf (equiv_call b a)) (tf (equiv_call a b))
      (tf (wf_ast a)) (tf (wf_ast b)) (tf (cache_ok a)) (tf (cache_ok b))
      (tf (ok_norm b a)) (tf (fuel_ok b a)) (tf (fuel_ok a b))
  | "e" ->
    (* e <litA> <litB> <expA> <expB> : Exp.equal through BindStm.Equals, both directions *)
    let a = exp_of_string f.(3) and b = exp_of_string f.(4) in
    Printf.sprintf "%s %s" (tf (exp_equal a b)) (tf (exp_equal b a))
  | _ -> "?"
