(*#use json.ml*)
(*#use ast.ml*)
(* ---------------------------------------------------------------- C16 *)
let c16_split c s = String.split_on_char c s
let c16_hexlist (s : string) : byte list list =
  if s = "-" then [] else List.map (fun x -> if x = "_" then [] else ub x) (c16_split ',' s)
let c16_hexlist_out (l : byte list list) : string =
  if l = [] then "-" else String.concat "," (List.map (fun x -> if x = [] then "_" else hb x) l)

exception C16_no_table of string

(* the float tables of a case instantiate the Section variables fparse / fprint *)
let c16_tables (s : string) =
  let p = Hashtbl.create 16 and f = Hashtbl.create 16 in
  if s <> "-" then
    List.iter (fun ent -> match c16_split ':' ent with
      | ["P"; m; e; m2; e2] -> Hashtbl.replace p (m, e) (z_of_string m2, z_of_string e2)
      | ["F"; m2; e2; m; e] -> Hashtbl.replace f (m2, e2) (z_of_string m, z_of_string e)
      | _ -> failwith "bad float table") (c16_split ',' s);
  let look t what a b =
    match Hashtbl.find_opt t (string_of_z a, string_of_z b) with
    | Some r -> r
    | None -> raise (C16_no_table (what ^ ":" ^ string_of_z a ^ ":" ^ string_of_z b)) in
  (look p "P", look f "F")

let c16_hx l = let t = hb l in if t = "-" then "" else t
let rec c16_exp (e : exp) : string =
  match e with
  | EArray l -> "EArray([" ^ String.concat "," (List.map c16_exp l) ^ "])"
  | EMap (k, l) ->
    "EMap(" ^ (match k with MapKindMap -> "MapKindMap" | MapKindStruct -> "MapKindStruct") ^ ",["
    ^ String.concat "," (List.map (fun (k, v) -> "P($" ^ c16_hx k ^ "," ^ c16_exp v ^ ")") l) ^ "])"
  | EString s -> "EString($" ^ c16_hx s ^ ")"
  | EBool b -> "EBool(" ^ (if b then "true" else "false") ^ ")"
  | EInt z -> "EInt(#" ^ string_of_z z ^ ")"
  | EFloat (m, e) -> "EFloat(#" ^ string_of_z m ^ ",#" ^ string_of_z e ^ ")"
  | ENull -> "ENull"
  | ERef (k, i, o) ->
    "ERef(" ^ (match k with RefSelf -> "RefSelf" | RefCall -> "RefCall") ^ ",$" ^ c16_hx i ^ ",$" ^ c16_hx o ^ ")"
  | ESplit x -> "ESplit(" ^ c16_exp x ^ ")"

let c16_params (a : ast) (name : byte list) : (byte list * type_id) list =
  let ins l = List.map (fun p -> (p.ip_id, p.ip_tname)) l in
  let rec go = function
    | [] -> failwith "c16: callable not found"
    | CStage s :: r -> if s.st_id = name then ins s.st_ins else go r
    | CPipeline p :: r -> if p.pl_id = name then ins p.pl_ins else go r in
  go a.a_callables

let handle (f : string array) : string =
  match f.(0) with
  | "v" ->
    (try
      let a = ast_of_string f.(6) in
      let te = { te_structs = (if f.(2) = "b" then [] else a.a_struct_types); te_known = c16_hexlist f.(7) } in
      let call = ub f.(8) in
      let args = match json_of_line f.(10) with JObj kvs -> kvs | _ -> failwith "c16: args not an object" in
      let inv = { inv_call = call; inv_args = args; inv_split = c16_hexlist f.(11); inv_include = ub f.(9) } in
      let (fparse, fprint) = c16_tables f.(12) in
      match build_call fparse te (c16_params a call) inv with
      | None -> "E"
      | Some c ->
        let d = data_for_ast fprint c in
        Printf.sprintf "ok [%s] %s %s %s %s"
          (String.concat "," (List.map (fun (k, e) -> "P($" ^ c16_hx k ^ "," ^ c16_exp e ^ ")") c.tc_binds))
          (hb d.inv_call) (hb d.inv_include) (line_of_json (JObj d.inv_args)) (c16_hexlist_out d.inv_split)
    with C16_no_table w -> "?notable " ^ w)
  | _ -> "?"
