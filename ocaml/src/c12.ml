(* ---------------------------------------------------------------- C12 *)
let z_of_int (i : int) : z =
  if i = 0 then Z0 else if i > 0 then Zpos (pos_of_int i) else Zneg (pos_of_int (- i))
let int_of_z (x : z) : int =
  match x with Z0 -> 0 | Zpos p -> int_of_pos p | Zneg p -> - (int_of_pos p)
let zs (x : z) : string = string_of_int (int_of_z x)
let zi (s : string) : z = z_of_int (int_of_string s)
let ni (s : string) : n = n_of_int (int_of_string s)

let c12_cop (t : string) : cop =
  match String.split_on_char ',' t with
  | ["a"; id; n] -> CAcquire (ni id, zi n)
  | ["r"; id] -> CRelease (ni id)
  | ["R"; n] -> CRawRelease (zi n)
  | ["ua"; n] -> CUpdateActual (zi n)
  | ["us"; n] -> CUpdateSize (zi n)
  | ["uf"; a; b] -> CUpdateFreeUsed (zi a, zi b)
  | _ -> failwith ("bad op " ^ t)

let c12_events (ev : event list) : string =
  let pick f = List.concat_map f ev in
  let toks =
    pick (function ERet z -> ["t" ^ zs z] | _ -> []) @
    pick (function EPanic -> ["p"] | _ -> []) @
    pick (function EError id -> ["e" ^ string_of_int (int_of_n id)] | _ -> []) @
    pick (function EEnqueue (id, _) -> ["q" ^ string_of_int (int_of_n id)] | _ -> []) @
    (List.map (fun i -> "g" ^ string_of_int i)
       (List.sort compare
          (pick (function EGrantNow (id, _) -> [int_of_n id]
                        | EGrantQ (id, _) -> [int_of_n id] | _ -> [])))) in
  if toks = [] then "-" else String.concat "," toks

let c12_obs (o : obs) : string =
  if o.o_dead then "dead" else
  Printf.sprintf "%s/%s,%s,%s,%s,%s" (c12_events o.o_events)
    (zs o.o_reserved) (zs o.o_cur) (zs o.o_avail) (zs o.o_inuse) (zs o.o_qlen)

let c12_mstate = function
  | "w" -> MWaiting | "q" -> MQueued | "r" -> MRunning
  | "c" -> MComplete | "f" -> MFailed | "d" -> MDisabled
  | s -> failwith ("bad state " ^ s)

let c12_mop (t : string) : mop =
  match String.split_on_char ',' t with
  | ["set"; md; st] -> MSet (ni md, c12_mstate st)
  | ["acq"; md; nb] -> MAcquire (ni md, nb = "1")
  | ["rel"; md] -> MRelease (ni md)
  | ["find"] -> MFindDone
  | ["clear"] -> MClear
  | _ -> failwith ("bad op " ^ t)

let c12_mobs ((ev, cur), parked) : string =
  let toks = List.sort compare (List.concat_map (function
    | MRet (md, true) -> ["T" ^ string_of_int (int_of_n md)]
    | MRet (md, false) -> ["F" ^ string_of_int (int_of_n md)]
    | MBlock _ -> []
    | MNondet -> ["N"]) ev) in
  Printf.sprintf "%s/%s,%s" (if toks = [] then "-" else String.concat "," toks) (zs cur) (zs parked)

let handle (f : string array) : string =
  match f.(0) with
  | "s" ->
    let ops = List.map c12_cop (List.tl (List.tl (Array.to_list f))) in
    let l = cobserve (client_init (zi f.(1))) ops in
    if l = [] then "-" else String.concat ";" (List.map c12_obs l)
  | "q" ->
    if f.(9) <> "d" then "skip" else begin
      let c = { max_cores = zi f.(1); max_mem_gb = zi f.(2); max_vmem_mb = zi f.(3);
                threads_per_job = zi f.(4); mem_gb_per_job = zi f.(5); extra_vmem_gb = zi f.(6) } in
      let ((cc, mb), vmb) = get_system_reqs c (zi f.(7)) (zi f.(8)) (zi f.(10)) (zi f.(11)) (zi f.(12)) in
      zs cc ^ " " ^ zs mb ^ " " ^ zs vmb
    end
  | "m" ->
    let ops = List.map c12_mop (List.tl (List.tl (Array.to_list f))) in
    let l = mobserve (mj_init (zi f.(1))) ops in
    if l = [] then "-" else String.concat ";" (List.map c12_mobs l)
  | "i" ->
    (* holders 1..k acquire, then request 0, then the concurrent operation
       (with the mutex held over the whole Acquire call that is the order) *)
    let nf = Array.length f in
    let held = List.init (nf - 4) (fun k -> CAcquire (n_of_int (k + 1), zi f.(4 + k))) in
    let x = match String.split_on_char ',' f.(3) with
      | ["r"; k] -> CRelease (ni k)
      | _ -> c12_cop f.(3) in
    let ops = held @ [CAcquire (N0, zi f.(2)); x] in
    let l = cobserve (client_init (zi f.(1))) ops in
    let nh = List.length held in
    let holders_ok = List.for_all (fun o ->
      List.exists (function EGrantNow _ -> true | _ -> false) o.o_events)
      (List.filteri (fun k _ -> k < nh) l) in
    if not holders_ok then "HOLDER" else begin
      let tail = List.filteri (fun k _ -> k >= nh) l in
      let evs = List.concat_map (fun o -> o.o_events) tail in
      let is0 id = int_of_n id = 0 in
      let outcome =
        if List.exists (function EError id -> is0 id | _ -> false) evs then "e"
        else if List.exists (function EGrantNow (id, _) -> is0 id | EGrantQ (id, _) -> is0 id | _ -> false) evs then "g"
        else "q" in
      let last = List.nth l (List.length l - 1) in
      Printf.sprintf "%s %s,%s,%s,%s" outcome (zs last.o_reserved) (zs last.o_cur) (zs last.o_avail) (zs last.o_qlen)
    end
  | "c" -> "done"
  | "j" ->
    let c = { max_cores = zi f.(1); max_mem_gb = zi f.(2); max_vmem_mb = zi f.(3);
              threads_per_job = zi f.(5); mem_gb_per_job = zi f.(6); extra_vmem_gb = zi f.(7) } in
    let has_v = int_of_string f.(3) > 0 and has_p = int_of_string f.(4) > 0 in
    let mem_cur = z_of_int (int_of_string f.(2) * 1024) in
    let n = int_of_string f.(8) in
    String.concat " " (List.init n (fun k ->
      let r = get_system_reqs c mem_cur (zi f.(3)) (zi f.(9 + 3*k)) (zi f.(10 + 3*k)) (zi f.(11 + 3*k)) in
      match enqueue_amounts r with
      | [cc; mb; vmb; pr] ->
        Printf.sprintf "c%s m%s v%s p%s" (zs cc) (zs mb) (if has_v then zs vmb else "-1") (if has_p then zs pr else "-1")
      | _ -> "?"))
  | _ -> "?"
