(*#use ast.ml*)
(* ---------------------------------------------------------------- C19 *)
(* P <idx> <files> <ast> <top>                       the program before the edits
   E <idx> <kind> <callable> <param> <new> <note> <status> <filesB> <astB>
   T <idx> ... same fields; astB is the program after the edit and its inverse
   Observation: the verdict of the Coq validator on (before, after):
   0 valid, 1 callable names collide, 2 a survivor refers to a removed
   element, 3 not the reference result; - when there is no edited Ast. *)
let cur : ast option ref = ref None
let code n = string_of_int (int_of_n n)
let handle (f : string array) : string =
  match f.(0) with
  | "P" ->
    let a = ast_of_string f.(3) in
    cur := Some a;
    (match denote a with Some _ -> "P denotes" | None -> "P nodenote")
  | "E" | "T" ->
    if f.(7) <> "ok" then f.(0) ^ " -" else begin
      let a = match !cur with Some a -> a | None -> failwith "c19: E before P" in
      let b = ast_of_string f.(9) in
      let den = match denote b with Some _ -> "" | None -> " nodenote" in
      if f.(0) = "T" then "T " ^ code (check_roundtrip a b) ^ den else
      if f.(2) = "combo" then begin
        (* the parts: kind,callable,param,new,note separated by ; *)
        let parts = List.map (fun p -> Array.of_list (String.split_on_char ',' p))
                      (String.split_on_char ';' (u f.(3))) in
        let renames = List.filter_map (fun p ->
          let c = ub p.(1) and x = ub p.(2) and y = ub p.(3) in
          match p.(0) with
          | "rename" -> Some (RenameCallable (c, y))
          | "rename_in" -> Some (RenameInput (c, x, y))
          | "rename_out" -> Some (RenameOutput (c, x, y))
          | _ -> None) parts in
        let rm = List.exists (fun p -> not (List.mem p.(0) ["rename"; "rename_in"; "rename_out"])) parts in
        "E " ^ code (check_combo renames rm a b) ^ den
      end else
      let c = ub f.(3) and x = ub f.(4) and y = ub f.(5) in
      let v = match f.(2) with
        | "rename" -> check_rename (RenameCallable (c, y)) a b
        | "rename_in" -> check_rename (RenameInput (c, x, y)) a b
        | "rename_out" -> check_rename (RenameOutput (c, x, y)) a b
        | _ -> check_removal a b in
      "E " ^ code v ^ den
    end
  | _ -> "?"
