(* ---------------------------------------------------------------- C10 *)
(* exp tokens in prefix form, see harness/cmd/vh/c10.go *)
let rec parse_exp (f : string array) (pos : int ref) : exp =
  let t = f.(!pos) in
  incr pos;
  match t with
  | "N" -> ENull
  | "T" -> EBool true
  | "F" -> EBool false
  | "I" -> let s = f.(!pos) in incr pos; EInt (parse_dec (bytes_of_string s))
  | "D" -> let s = f.(!pos) in incr pos; EFloat (ub s)
  | "S" -> let s = f.(!pos) in incr pos; EStr (ub s)
  | "R" ->
    let self = f.(!pos) = "s" in
    let id = ub f.(!pos + 1) and out = ub f.(!pos + 2) in
    pos := !pos + 3; ERef (self, id, out)
  | "P" -> let e = parse_exp f pos in ESplit e
  | "A" ->
    let n = int_of_string f.(!pos) in incr pos;
    let rec go k = if k = 0 then [] else let e = parse_exp f pos in e :: go (k - 1) in
    EArr (go n)
  | "M" ->
    let st = f.(!pos) = "s" in
    let n = int_of_string f.(!pos + 1) in
    pos := !pos + 2;
    let rec go k = if k = 0 then [] else begin
      let key = ub f.(!pos) in incr pos;
      let e = parse_exp f pos in
      (key, e) :: go (k - 1) end in
    EMap (st, go n)
  | _ -> failwith ("bad token " ^ t)

let part_str (p : part) : string =
  match p with
  | PIdx i -> "i" ^ string_of_bytes (n_dec i)
  | PKey k -> "k" ^ hb k

let handle (f : string array) : string =
  match f.(0) with
  | "e" ->
    let prefix = ub f.(1) in
    let pos = ref 2 in
    let e = parse_exp f pos in
    hb (format e prefix) ^ " " ^ hb (encode_json e)
  | "l" ->
    let n = int_of_string f.(1) in
    let l = List.init n (fun j ->
      (ub f.(2 + 2*j), if f.(3 + 2*j) = "~" then None else Some (ub f.(3 + 2*j)))) in
    hb (encode_lazy_args l)
  | "f" ->
    let nd = int_of_string f.(2) in
    let pos = ref 3 in
    let rec dims k = if k = 0 then [] else begin
      let kind = f.(!pos) in
      let n = int_of_string f.(!pos + 1) in
      pos := !pos + 2;
      let d =
        if kind = "a" then DArr (n_of_int n)
        else begin
          let ks = List.init n (fun j -> ub f.(!pos + j)) in
          pos := !pos + n; DMap ks end in
      d :: dims (k - 1) end in
    let ids = make_fork_ids (dims nd) in
    if ids = [] then "-" else
    String.concat ";" (List.map (fun id -> String.concat "," (List.map part_str id)) ids)
  | "p" -> "-"
  | _ -> "?"
