(* Runs the extracted Coq models on cases read from stdin (same line format
   as the Go harness) and prints one observation per case. *)
open Model

let rec pos_of_int (i : int) : positive =
  if i = 1 then XH
  else if i land 1 = 0 then XO (pos_of_int (i lsr 1))
  else XI (pos_of_int (i lsr 1))
let n_of_int (i : int) : n = if i = 0 then N0 else Npos (pos_of_int i)
let rec int_of_pos (p : positive) : int =
  match p with XH -> 1 | XO q -> 2 * int_of_pos q | XI q -> 2 * int_of_pos q + 1
let int_of_n (x : n) : int = match x with N0 -> 0 | Npos p -> int_of_pos p

let byte_tab : byte array = Array.init 256 (fun i -> n2b (n_of_int i))
let bytes_of_string (s : string) : byte list =
  List.init (String.length s) (fun i -> byte_tab.(Char.code s.[i]))
let string_of_bytes (l : byte list) : string =
  let b = Buffer.create 16 in
  List.iter (fun x -> Buffer.add_char b (Char.chr (int_of_n (b2n x)))) l;
  Buffer.contents b

let hexc = "0123456789abcdef"
let h (s : string) : string =
  if s = "" then "-" else begin
    let b = Buffer.create (2 * String.length s) in
    String.iter (fun c -> let k = Char.code c in
      Buffer.add_char b hexc.[k lsr 4]; Buffer.add_char b hexc.[k land 15]) s;
    Buffer.contents b end
let hv c = match c with
  | '0'..'9' -> Char.code c - 48 | 'a'..'f' -> Char.code c - 87
  | _ -> failwith "bad hex"
let u (s : string) : string =
  if s = "-" then "" else
    String.init (String.length s / 2) (fun i -> Char.chr (hv s.[2*i] * 16 + hv s.[2*i+1]))
let ub s = bytes_of_string (u s)
let hb l = h (string_of_bytes l)

