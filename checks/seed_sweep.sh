#!/bin/bash
# seed_sweep.sh <seeded dir> <PROP> <seed>...   (applies the patch to /repo, runs the quick check per VERIF_SEED, restores /repo)
d=$1; p=$2; shift 2
cd /repo && git status --porcelain --untracked-files=no | grep -q . && { echo "/repo dirty"; exit 2; }
git apply $d/patch.diff || exit 2
trap 'git -C /repo checkout -- .' EXIT
for s in "$@"; do
  r=$(cd /verif && VERIF_SEED=$s ${SWEEP_ENV:-} bin/check $p 2>&1 | grep "VIOLATION" | head -2 | cut -c1-160 | tr '\n' ' ')
  echo "seed $s: ${r:-MISSED}"
done
