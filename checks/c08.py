"""C08 - the parser/compiler is total: any input yields a tree or a located error."""
import os
import random
import subprocess

import lib

MANIFEST = {
 "category": "proof",
 "text": "Partial. Coq theorems (all inputs, no size bound) for the lexer and for the contract the property's mechanism names - the token rules bound what reaches parseInt / parseFloat / unquote / the src_stm action, which panic on anything else: C08_lexer_progress and C08_lex_terminates (every byte string yields a token or INVALID, SKIP/COMMENT are never empty, the scanner loop ends within length+1 steps), C08_lex_locations_valid (every token handed to the parser carries line >= 1 and column >= 1), C08_int_token_parses (whatever is labelled NUM_INT is a decimal literal that parseInt's wrapping uint64 loop converts without a panic to its value, within int64), C08_string_token_unquotes (whatever is labelled LITSTRING, any combination of escape forms, is unquoted without an index or hex panic), C08_float_token_parses_partial, C08_src_action_total, plus _refuted lemmas showing the same statements false for the code before the repairs. The model is tied to /repo on every run: the keywordToken dispatch table, the keyword literals and the four regular-expression texts are regenerated from the Go AST (a lemma states the modelled texts are the current ones), and nextToken+converter, parseInt, parseFloat, unquoteBytes, the src action and the whole scanner loop with line/column are compared with the Go code on exhaustive short inputs, boundary literals and generated near-valid programs (extracted OCaml + a kernel vm_compute sample). The LALR driver, the other grammar actions and the compiler are not modelled: they are exercised by a crash search (grammar-aware near-valid programs, every string/number position swept, truncation at every token, keywords as identifiers, include cycles, scaling shapes; every entry point under recover, a timeout and a restartable child process) whose outcome classes are tree / located error / unlocated error / panic / process crash / timeout / superlinear; the thorough tier also runs the mro check and mro format commands on generated files and include sets (exit status 0/1, no Go panic or fatal error trace, no hang).",
 "note": "Partial: proof level for the lexer and the token->converter contracts only; parser driver, grammar actions other than src_stm/float_32/arr_list and compile passes are searched, not proved; 'time and memory in proportion to input' is measured on scaling shapes (8x size step, 3x slack), not proved. Trusted: Coq kernel; extraction cross-checked in-kernel on a sample; extractconsts; hand-modelled Go regexp semantics for four anchored patterns, unicode.IsSpace, utf8.DecodeRune, strconv.ParseFloat (decimal syntax and overflow threshold 2^1024-2^970, literals up to 800 significant digits) - all tied by correspondence. Known findings: compile time superlinear in literal nesting depth and in the number of chained calls.",
 "technique": "Coq proof (induction over the token text; invariant relating the string rule's recogniser to the unquote loop; arithmetic of the uint64 overflow test) + differential correspondence on regenerated constants + implementation-side crash/scaling oracle",
}


def same(case, impl, model):
    k = case[0]
    if k in "zc":
        return True
    if k == "p" and len(case) > 16000:
        return True
    return impl == model


def case_text(c):
    """The input of a case line, decoded for a human reader."""
    f = c.split()
    try:
        if f[0] in "tifus":
            return bytes.fromhex("" if f[1] == "-" else f[1]).decode("utf-8", "backslashreplace")
        if f[0] == "p":
            return bytes.fromhex("" if f[2] == "-" else f[2]).decode("utf-8", "backslashreplace")
        if f[0] == "c":
            return " | ".join(bytes.fromhex("" if x == "-" else x).decode("utf-8", "backslashreplace") for x in f[2:])
    except ValueError:
        pass
    return c[:300]


def mro_cli(ctx, clines, env):
    """mro check and mro format on generated files: exit status 0 or 1, no Go
    panic / fatal error trace on stderr, no hang."""
    exe = os.path.join(ctx.scratch, "mro")
    p = lib.run(["go", "build", "-o", exe, "./cmd/mro"], cwd=lib.REPO, env=env, timeout=900)
    if not ctx.oblige("cmd/mro builds", p.returncode == 0, p.stdout[-1500:]):
        return 0
    rnd = random.Random(ctx.seed + 8)
    progs = [c for c in clines if c.startswith("p m ")]
    sample = progs[:120] + rnd.sample(progs, min(500, len(progs)))
    sets = [c for c in clines if c.startswith("c ")]
    d = os.path.join(ctx.scratch, "cli")
    os.makedirs(d, exist_ok=True)
    runs = 0
    jobs = []
    for i, c in enumerate(sample):
        f = c.split()
        path = os.path.join(d, "p%d.mro" % i)
        with open(path, "wb") as fh:
            fh.write(bytes.fromhex("" if f[2] == "-" else f[2]))
        jobs.append((c, path, d))
    for i, c in enumerate(sets):
        f = c.split()
        sd = os.path.join(d, "set%d" % i)
        os.makedirs(sd, exist_ok=True)
        ok = True
        for j in range(int(f[1])):
            name = bytes.fromhex(f[2 + 2 * j]).decode()
            with open(os.path.join(sd, name), "wb") as fh:
                fh.write(bytes.fromhex("" if f[3 + 2 * j] == "-" else f[3 + 2 * j]))
        jobs.append((c, os.path.join(sd, bytes.fromhex(f[2]).decode()), sd))
    for c, path, mropath in jobs:
        for sub in ("check", "format"):
            e2 = dict(env, MROPATH=mropath)
            try:
                p = subprocess.run([exe, sub, path], env=e2, stdout=subprocess.PIPE, stderr=subprocess.PIPE, timeout=20, cwd=mropath)
            except subprocess.TimeoutExpired:
                ctx.fail("mro_%s_hangs" % sub, "no exit after 20 s", {"case": c[:600000], "input_text": case_text(c)[:3000], "how": "mro %s <file> with MROPATH=<dir of the file>" % sub})
                continue
            runs += 1
            err = p.stderr.decode("utf-8", "replace")
            if p.returncode not in (0, 1) or "panic:" in err or "fatal error:" in err or "goroutine " in err:
                first = [l for l in err.splitlines() if l.startswith("panic:") or l.startswith("fatal error:")]
                ctx.fail("mro_%s_crashes" % sub, "exit %d %s" % (p.returncode, (first or [err[:200]])[0]),
                         {"case": c[:600000], "input_text": case_text(c)[:3000], "observed": err[:1500], "how": "mro %s <file> with MROPATH=<dir of the file>" % sub})
    return runs


def coq_bytes(hexs):
    return lib.coq_string("" if hexs == "-" else hexs)


def check(ctx, args):
    ctx.trusted_base = [
        "Coq 8.16.1 kernel (coqc, vm_compute; no native_compute)",
        "axioms: none (Print Assumptions: Closed under the global context for every theorem of Properties/C08.v)",
        "extraction: ExtrOcamlBasic only, OCaml 4.13.1; cross-checked on a sample against vm_compute in the kernel",
        "harness/cmd/extractconsts/lexer.go (keywordToken dispatch classes, keyword literals with token names, the four regular-expression texts copied from the Go AST; fails loudly on a changed shape)",
        "hand-written recognisers for Go regexp leftmost-first semantics of the four anchored token patterns (K/Lexer.v), unicode.IsSpace, utf8.DecodeRune (Lib/Utf8.v), strconv.ParseFloat decimal syntax and overflow threshold (K/ParseNum.v): modelled, tied by correspondence, not verified against the Go standard library source",
        "goyacc LALR driver, grammar actions other than src_stm, compiler passes: not modelled; exercised by the crash search only",
        "harness: recover + timeout + restartable child process (a Go fatal error kills only the child); located-error test is textual (file:line or 'line N' in the message)",
    ]
    ctx.assumptions = [
        "the property as a whole is partial: the theorems cover the lexer and the token->converter contracts; parser driver, remaining grammar actions and compile passes are searched only",
        "resource proportionality is measured (time/allocation at sizes n and 8n, slack factor 3), not proved",
        "strconv.ParseFloat is modelled for base-10 literals without underscores and with at most 800 significant digits (the token rule admits nothing else but longer mantissas)",
        "a byte >= 0x80 is copied one byte at a time in the unquote model (the code copies the rune's bytes at once; same output)",
    ]
    # replay files of earlier runs of this property are stale
    rdir = os.path.join(lib.VERIF, "replays", ctx.prop)
    if os.path.isdir(rdir):
        for fn in os.listdir(rdir):
            if fn.startswith("violation_") or fn in ("broken_obligation.json", "check_error.json"):
                os.remove(os.path.join(rdir, fn))
    okb = ctx.build_harness()
    oke = ctx.extract_consts(["Lexer"])
    okc = ctx.coq_build()
    if okc:
        ctx.property_theorems()
    s = ctx.scratch
    cases, impl, model, oracle = (os.path.join(s, n) for n in ("cases.txt", "impl.txt", "model.txt", "oracle.txt"))
    if not okb:
        return ctx.finish("proof")
    env = dict(lib.GOENV, VERIF_REPO=lib.REPO)
    with open(cases, "wb") as f:
        subprocess.run([ctx.vh, "c08", "gen", ctx.tier, str(ctx.seed)], stdout=f, env=env, check=True, timeout=600)
    # the implementation-side oracle runs while the model is evaluated
    fo = open(oracle, "wb")
    fe = open(os.path.join(s, "oracle.err"), "wb")
    po = subprocess.Popen([ctx.vh, "c08", "oracle", s], stdin=open(cases, "rb"), stdout=fo, stderr=fe, env=env)
    with open(impl, "wb") as f, open(os.path.join(s, "impl.err"), "wb") as fe2:
        subprocess.run([ctx.vh, "c08", "impl", s], stdin=open(cases, "rb"), stdout=f, stderr=fe2, env=env, timeout=1800)
    clines = open(cases).read().splitlines()
    ilines = open(impl).read().splitlines()
    ctx.oblige("implementation produced an observation for every case (%d)" % len(clines), len(ilines) == len(clines),
               "cases %d, observations %d: the harness died on case %s" % (len(clines), len(ilines), clines[len(ilines)][:300] if len(ilines) < len(clines) else ""))
    if okc:
        # -- correspondence, volume: extracted model
        ctx.model_run("c08", cases, model)
        n, mism = lib.diff_lines(impl, model, cases, same)
        ctx.oblige("correspondence: nextToken+converter, parseInt, parseFloat, unquoteBytes, src_stm action, mmLexInfo.Lex token stream with line/column == K.Lexer / K.ParseNum / K.Unquote (%d cases, extracted model)" % n,
                   not mism, "; ".join("case %s impl=%s model=%s" % (m[1][:160], m[2][:120], m[3][:120]) for m in mism[:5] if m))
        for m in [m for m in mism if m][:3]:
            ctx.notes.append("mismatch: %s" % (m,))
        # -- correspondence, kernel: a sample evaluated by vm_compute
        rnd = random.Random(ctx.seed)
        pairs = list(zip(clines, ilines))
        ts = [(c.split()[1], o.split()) for c, o in pairs if c.startswith("t ") and len(c) < 200 and o]
        is_ = [(c.split()[1], o) for c, o in pairs if c.startswith("i ") and len(c) < 200]
        us = [(c.split()[1], o) for c, o in pairs if c.startswith("u ") and len(c) < 200]
        tsample = ts[:150] + rnd.sample(ts, min(350, len(ts)))
        isample = rnd.sample(is_, min(150, len(is_)))
        usample = rnd.sample(us, min(150, len(us)))
        tbody = ";\n".join('(%s, %s, %s%%nat)' % (coq_bytes(h), lib.coq_string(o[0]), o[1]) for h, o in tsample)
        ibody = ";\n".join('(%s, %s)' % (coq_bytes(h), lib.coq_string(o)) for h, o in isample)
        ubody = ";\n".join('(%s, %s)' % (coq_bytes(h), lib.coq_string(o)) for h, o in usample)
        v = ("From Coq Require Import String.\nFrom Martian Require Import Lib.Bytes K.ParseNum K.Unquote K.Lexer.\nOpen Scope string_scope.\n"
             "Definition sob (l : bytes) : string := string_of_list_byte l.\n"
             "Definition tname (t : tok) : string := match t with TSkip => \"SKIP\" | TComment => \"COMMENT\" | TInvalid => \"INVALID\""
             " | TPunct c => sob [c] | TKw n => sob n | TId => \"ID\" | TStr => \"LITSTRING\" | TFloat => \"NUM_FLOAT\" | TInt => \"NUM_INT\" end.\n"
             "Definition tcases : list (string * string * nat) := [\n%s].\n"
             "Definition tbad := filter (fun c => match c with (h, nm, n) => let '(t, k) := next_token (unhex h) in negb (String.eqb (tname t) nm && Nat.eqb k n) end) tcases.\n"
             "Definition icases : list (string * string) := [\n%s].\n"
             "Definition ibad := filter (fun c => negb (String.eqb (match parse_int (unhex (fst c)) with IOk z => \"I \" ++ sob (dec_of_Z z) | IPanic => \"P\" end) (snd c))) icases.\n"
             "Definition ucases : list (string * string) := [\n%s].\n"
             "Definition ubad := filter (fun c => negb (String.eqb (match unquote (unhex (fst c)) with Some u => \"S \" ++ (match u with nil => \"-\" | _ => hex u end) | None => \"P\" end) (snd c))) ucases.\n"
             "Definition M := Eval vm_compute in (map (fun c => fst (fst c)) tbad ++ map fst ibad ++ map fst ubad)%%list.\nPrint M.\n") % (tbody, ibody, ubody)
        rc, out = ctx.coq_eval(v, "c08_cases")
        nk = len(tsample) + len(isample) + len(usample)
        okk = rc == 0 and "M = []" in out.replace("\n", " ")
        ctx.oblige("correspondence: kernel vm_compute of next_token / parse_int / unquote on %d sampled cases equals the implementation" % nk, okk, out[-800:])
        ctx.coverage["kernel_sample"] = nk
    # -- the property read directly on the implementation
    try:
        po.wait(timeout=3000)
    finally:
        fo.close()
        fe.close()
    olines = open(oracle).read().splitlines()
    ctx.oblige("oracle produced a verdict for every case", len(olines) == len(clines) and po.returncode == 0,
               "cases %d, verdicts %d, exit %s" % (len(clines), len(olines), po.returncode))
    n_ok = n_fail = n_skip = 0
    fail_classes = {}
    for o, c in zip(olines, clines):
        if o == "ok":
            n_ok += 1
        elif o.startswith("FAIL"):
            n_fail += 1
            f = (o.split(" ", 2) + ["", ""])[:3]
            fail_classes[f[1]] = fail_classes.get(f[1], 0) + 1
            ctx.fail(f[1], f[2][:400], {"case": c[:600000], "input_text": case_text(c)[:3000], "observed": f[2][:2000],
                                         "how": "vh c08 oracle: every entry point (UncheckedParse, ParseSourceBytes, FormatSrcBytes, ParseValExp, Compile) under recover, a timeout and a child process; token converters on the lexer's own tokens; scaling at sizes n and 8n. Case line format: see harness/cmd/vh/c08.go"})
        else:
            n_skip += 1
    # -- thorough: the exit behaviour of the mro check / mro format commands
    if ctx.tier == "thorough":
        cli_runs = mro_cli(ctx, clines, env)
        ctx.coverage["mro_cli_runs"] = cli_runs
    kinds = {}
    for c in clines:
        kinds[c[0]] = kinds.get(c[0], 0) + 1
    pk = {}
    for c in clines:
        if c[0] == "p":
            pk[c[2]] = pk.get(c[2], 0) + 1
    ctx.coverage.update({
        "evaluations": len(clines),
        "distinct_nontrivial": lib.distinct_count(cases, lambda l: len(l) > 8),
        "rule": "t: every 1-byte input, all 2-byte inputs over a 50-byte token alphabet, all 3-byte (4 thorough) inputs over 12 critical bytes, every pool literal alone and before each of 21 tail bytes, seeded mutations of boundary literals (64-bit / float64 / float32 limits, every escape form, truncated escapes, keywords); i/f/u: converters on arbitrary near-valid bytes; s: src strings over unicode spaces; p: skeleton program with every string and number position swept, truncated at every token, keywords in every identifier position, generated programs and value expressions with token-level mutations, mutated repository fixtures, byte soup; z: scaling shapes; c: include sets. distinct by case text, non-trivial = at least 3 input bytes",
        "case_kinds": {"next_token+converter": kinds.get("t", 0), "parseInt": kinds.get("i", 0), "parseFloat": kinds.get("f", 0),
                       "unquote": kinds.get("u", 0), "src_action": kinds.get("s", 0), "whole_inputs": kinds.get("p", 0),
                       "whole_inputs_mro": pk.get("m", 0), "whole_inputs_valexp": pk.get("v", 0),
                       "scaling_shapes": kinds.get("z", 0), "include_sets": kinds.get("c", 0)},
        "oracle_ok": n_ok, "oracle_fail": n_fail, "oracle_not_applicable": n_skip,
        "oracle_fail_classes": fail_classes,
        "exhaustive": False,
        "notes": ctx.notes[:6],
    })
    ctx.samples = [clines[i][:300] for i in (300, 9000, 14000)] + [c[:300] for c in clines if c.startswith("p m")][40:43] + \
                  [c[:200] for c in clines if c.startswith("z ")][:2]
    return ctx.finish("proof")
