"""C10 - compilation, formatting and call-graph resolution are deterministic."""
import binascii
import collections
import json
import os
import random
import subprocess

import lib

MANIFEST = {
 "category": "proof",
 "text": "Coq theorems (Properties/C10.v): for any two insertion orders of the same finite map (Permutation l l' with NoDup keys, no size bound) the models of every emitting function give identical bytes / lists / choices: C10_sort_keys_perm_invariant (sort.Strings after ranging over a map), C10_format_perm_invariant and C10_format_deep_invariant (MapExp.format incl. key alignment, at any nesting depth via canonical forms), C10_encode_json_perm_invariant / _deep_invariant (EncodeJSON), C10_encode_lazy_args_perm_invariant (core argument maps), C10_encode_binding_map_perm_invariant, C10_map_source_json_perm_invariant, C10_fork_ids_perm_invariant (makeForkIdParts + MakeForkIds product order), C10_expand_fork_keys_perm_invariant, C10_merge_sources_perm_invariant (unifyMapSources for any merge step, guarded by distinct split locations; C10_merge_sources_same_line_refuted shows the guard is needed), C10_find_merge_fork_node_perm_invariant, C10_first_missing_key_refuted / _sorted_perm_invariant. Tied to the repository on every run by (1) a go/types map-range inventory of martian/syntax and martian/core: every range over a map must be in the audited table checks/c10_inventory.json naming the covering theorem or the reason it is order-insensitive; (2) correspondence: FormatExp / EncodeJSON / LazyArgumentMap.EncodeJSON / ForkIdSet.MakeForkIds vs the extracted model on generated expressions, argument maps and nested map-call programs (+ kernel vm_compute sample); (3) byte comparison: every case incl. whole generated programs (wide literals, several splits, several errors at once, the repository's fixtures) is compiled / formatted / call-graphed / fork-enumerated 20 times in one process and in 5 fresh processes.",
 "note": "partial: proof on the models + checked inventory; absence of order dependence in code outside martian/syntax and martian/core, and in goroutine scheduling, is shown only by repetition. Float printing (strconv) is carried as text. Run-time diagnostics order (_errors/_alarms/_perf lines) is outside the property's observables and is listed in the inventory as leak_runtime_out_of_scope. Pipestance directory listings are compared only through fork ids and resolved inputs per node (no mrp run).",
 "technique": "Coq proof (uniqueness of strictly sorted permutations; structural induction over expressions with canonical forms) + go/types map-range inventory + differential correspondence + in-process and cross-process byte repetition",
}

PKGS = ["./martian/syntax", "./martian/core"]
FRESH_PROCESSES = 5


def same(case, impl, model):
    if case.startswith("p ") or impl.startswith("SKIP"):
        return True
    return impl == model


def coq_exp(tok, pos):
    """exp tokens -> Coq term (see harness/cmd/vh/c10.go tokens)."""
    def b(h):
        return '(unhex %s)' % lib.coq_string("" if h == "-" else h)
    t = tok[pos[0]]
    pos[0] += 1
    if t == "N":
        return "ENull"
    if t in ("T", "F"):
        return "(EBool %s)" % ("true" if t == "T" else "false")
    if t == "I":
        v = tok[pos[0]]
        pos[0] += 1
        return "(EInt (%s)%%Z)" % v
    if t in ("D", "S"):
        v = tok[pos[0]]
        pos[0] += 1
        return "(%s %s)" % ("EFloat" if t == "D" else "EStr", b(v))
    if t == "R":
        k, i, o = tok[pos[0]:pos[0] + 3]
        pos[0] += 3
        return "(ERef %s %s %s)" % ("true" if k == "s" else "false", b(i), b(o))
    if t == "P":
        return "(ESplit %s)" % coq_exp(tok, pos)
    if t == "A":
        n = int(tok[pos[0]])
        pos[0] += 1
        return "(EArr [%s])" % "; ".join(coq_exp(tok, pos) for _ in range(n))
    if t == "M":
        st = tok[pos[0]] == "s"
        n = int(tok[pos[0] + 1])
        pos[0] += 2
        items = []
        for _ in range(n):
            k = tok[pos[0]]
            pos[0] += 1
            items.append("(%s, %s)" % (b(k), coq_exp(tok, pos)))
        return "(EMap %s [%s])" % ("true" if st else "false", "; ".join(items))
    raise ValueError(t)


def check_inventory(ctx, theorems):
    """Obligation: every range over a map in martian/syntax and martian/core is
    in the audited table."""
    table = json.load(open(os.path.join(lib.VERIF, "checks", "c10_inventory.json")))["sites"]
    by_key = {(s["file"], s["func"], s["type"], s["ordinal"]): s for s in table}
    p = subprocess.run([ctx.vh, "c10", "inventory", lib.REPO] + PKGS, stdout=subprocess.PIPE,
                       stderr=subprocess.PIPE, text=True, env=lib.GOENV, timeout=600)
    if p.returncode != 0:
        ctx.oblige("map-range inventory: go/types scan of martian/syntax and martian/core runs", False, p.stderr[-1500:])
        return
    found = []
    ords = collections.Counter()
    for line in p.stdout.splitlines():
        f = line.split("\t")
        kk = (f[0], f[1], f[5])
        # key: file, function, map type, ordinal among the ranges over that type in that function
        found.append(((f[0], f[1], f[5], ords[kk]), int(f[4]), f[2]))
        ords[kk] += 1
    new = [(k, ln, ty) for k, ln, ty in found if k not in by_key]
    seen = set(k for k, _, _ in found)
    stale = [k for k in by_key if k not in seen]
    ctx.oblige("map-range inventory: all %d ranges over map-typed expressions in martian/syntax and martian/core are in the audited table" % len(found),
               not new,
               "unaudited traversal(s): " + "; ".join("%s:%d %s range %s (%s)" % (k[0], ln, k[1], ex, k[2]) for k, ln, ex in new[:12]))
    bad_lemma = [s for s in table if s["class"] == "sorted" and s.get("covered_by") not in theorems]
    ctx.oblige("map-range inventory: every 'sorted' site names a theorem of Properties/C10.v", not bad_lemma,
               "; ".join("%s %s -> %s" % (s["file"], s["func"], s.get("covered_by")) for s in bad_lemma[:8]))
    classes = collections.Counter(by_key[k]["class"] for k, _, _ in found if k in by_key)
    for k, ln, ex in found:
        s = by_key.get(k)
        if s and s["class"] == "leak":
            ctx.fail("unsorted_traversal:%s:%s" % (k[0], k[1].lstrip("*")),
                     "iteration order of %s in %s reaches an observable: %s" % (ex, k[1], s["reason"][:300]),
                     {"site": "%s:%d" % (k[0], ln), "func": k[1], "range": ex, "audit": s["reason"],
                      "trigger": s.get("trigger", ""), "observable": s.get("observable", ""),
                      "how": "checks/c10_inventory.json class=leak; run vh c10 oracle on a program of the trigger shape"})
    ctx.coverage["inventory"] = {"sites": len(found), "classes": dict(classes), "stale_table_entries": len(stale),
                                 "unaudited": len(new)}


def check(ctx, args):
    ctx.trusted_base = [
        "Coq 8.16.1 kernel (coqc, vm_compute; no native_compute)",
        "axioms: none (Print Assumptions: Closed under the global context)",
        "extraction: ExtrOcamlBasic only, OCaml 4.13.1; cross-checked on a sample against vm_compute in the kernel",
        "the map-range scanner (harness/cmd/vh/c10_inventory.go: go/parser + go/types, imports from go list -export) and the audit recorded in checks/c10_inventory.json (human classification of each site)",
        "Go's sort.Strings / sort.Slice / sort.Sort return the sorted permutation (modelled by insertion sort; equal for distinct keys by the uniqueness lemma)",
        "strconv float printing is carried as text, encoding/json string escaping of keys is modelled (go_json_string) and compared",
    ]
    ctx.assumptions = [
        "keys of one Go map are pairwise distinct (NoDup hypothesis of every theorem)",
        "unifyMapSources: no two split expressions of one call share (file, line) - otherwise refuted in the model; tie broken by the fix commit",
        "code outside martian/syntax and martian/core, goroutine scheduling and the OS are covered by repetition only",
        "order of lines in run-time diagnostics (_errors, _alarms, _perf, logs) is not an observable of this property",
    ]
    okb = ctx.build_harness()
    okc = ctx.coq_build()
    theorems = ctx.property_theorems() if okc else []
    s = ctx.scratch
    cases, impl, model, oracle = (os.path.join(s, n) for n in ("cases.txt", "impl.txt", "model.txt", "oracle.txt"))
    if not okb:
        return ctx.finish("proof")
    os.environ["VERIF_REPO"] = lib.REPO
    lib.GOENV["VERIF_REPO"] = lib.REPO
    if args.replay:
        # re-run the in-process repetition oracle on the case of a replay file
        import shutil
        rp = json.load(open(args.replay))
        case = rp.get("minimal", {}).get("replay", {}).get("case")
        rc = 0
        if case:
            open(cases, "w").write(case + "\n")
            ctx.vh_run(["c10", "oracle"], stdin_path=cases, out_path=oracle)
            res = open(oracle).read()
            print(res[:3000])
            rc = 0 if res.startswith("ok") else 1
        else:
            print("replay file names no input case (broken obligation / inventory site): %s" %
                  json.dumps(rp.get("minimal", {}).get("replay", rp.get("no_longer_checks", "")))[:2000])
            rc = 1
        shutil.rmtree(ctx.scratch, ignore_errors=True)
        return rc
    # -- (1) inventory obligation
    check_inventory(ctx, set(theorems))
    # -- (2) correspondence
    ctx.vh_run(["c10", "gen", ctx.tier, str(ctx.seed)], out_path=cases)
    ctx.vh_run(["c10", "impl"], stdin_path=cases, out_path=impl)
    lines = open(cases).read().splitlines()
    impl_lines = open(impl).read().splitlines()
    ctx.oblige("implementation observed on every case", len(lines) == len(impl_lines) and len(lines) > 0,
               "%d cases, %d observations" % (len(lines), len(impl_lines)))
    skipped = sum(1 for l in impl_lines if l.startswith("SKIP"))
    if okc:
        ctx.model_run("c10", cases, model)
        n, mism = lib.diff_lines(impl, model, cases, same)
        ctx.oblige("correspondence: FormatExp/EncodeJSON/LazyArgumentMap.EncodeJSON/MakeForkIds == K.Determinism.format/encode_json/encode_lazy_args/make_fork_ids (%d cases, extracted model)" % n,
                   not mism, "; ".join("case %s impl=%s model=%s" % (m[1][:120], m[2][:120], m[3][:120]) for m in mism[:4] if m))
        # kernel sample
        es = [(c, o) for c, o in zip(lines, impl_lines) if c.startswith("e ") and not o.startswith("SKIP") and len(c) < 700]
        rnd = random.Random(ctx.seed)
        sample = es[:40] + rnd.sample(es, min(160, len(es)))
        items = []
        for c, o in sample:
            f = c.split(" ")
            term = coq_exp(f, [2])
            fo, jo = o.split(" ")
            items.append("(%s, unhex %s, %s, %s)" % (term, lib.coq_string("" if f[1] == "-" else f[1]),
                                                     lib.coq_string("" if fo == "-" else fo), lib.coq_string("" if jo == "-" else jo)))
        v = ("From Coq Require Import String.\nFrom Martian Require Import Lib.Bytes Lib.Utf8 Json.Json K.Determinism.\nOpen Scope string_scope.\n"
             "Definition cases : list (exp * bytes * string * string) := [\n%s].\n"
             "Definition bad := filter (fun c => match c with (e, p, fo, jo) => "
             "negb (String.eqb (hex (format e p)) fo && String.eqb (hex (encode_json e)) jo && exp_wf e) end) cases.\n"
             "Definition M := Eval vm_compute in map (fun c => match c with (_, _, fo, _) => fo end) bad.\nPrint M.\n") % ";\n".join(items)
        rc, out = ctx.coq_eval(v, "c10_cases")
        ctx.oblige("correspondence: kernel vm_compute of format/encode_json (and exp_wf) on %d sampled expressions equals the implementation" % len(sample),
                   rc == 0 and "M = []" in out.replace("\n", " "), out[-800:])
        ctx.coverage["kernel_sample"] = len(sample)
    # -- (3) byte comparison: 20 repetitions in one process
    ctx.vh_run(["c10", "oracle"], stdin_path=cases, out_path=oracle)
    n_ok = n_fail = n_skip = 0
    olines = open(oracle).read().splitlines()
    ctx.oblige("oracle ran on every case", len(olines) == len(lines), "%d of %d" % (len(olines), len(lines)))
    for o, c in zip(olines, lines):
        if o == "ok":
            n_ok += 1
        elif o == "skip":
            n_skip += 1
        elif o.startswith("FAIL"):
            n_fail += 1
            f = o.split(" ", 2)
            detail = f[2] if len(f) > 2 else ""
            shown = detail
            parts = detail.split(" ")
            if c.startswith("p ") and len(parts) >= 3:
                try:
                    a = binascii.unhexlify(parts[1].split("=", 1)[1]).decode("utf-8", "replace")
                    b = binascii.unhexlify(parts[2].split("=", 1)[1]).decode("utf-8", "replace")
                    shown = "%s differs between two runs in one process:\n--- run A\n%s\n--- run B\n%s" % (parts[0], a[:1500], b[:1500])
                except Exception:
                    pass
            rp = {"case": c, "observed": shown[:4000],
                  "how": "echo '<case>' | vh c10 oracle   (compiles/formats/call-graphs the program %d times in one process and compares bytes); vh c10 show prints the observations" % 20}
            if c.startswith("p "):
                ff = c.split(" ")
                rp["program_name"] = binascii.unhexlify(ff[1]).decode()
                rp["program"] = binascii.unhexlify(ff[2]).decode("utf-8", "replace")[:6000]
            ctx.fail(f[1], shown[:600], rp)
    # -- cross-process: fresh processes must agree with each other
    digests = []
    for i in range(FRESH_PROCESSES):
        dp = os.path.join(s, "digest%d.txt" % i)
        ctx.vh_run(["c10", "digest"], stdin_path=cases, out_path=dp)
        digests.append(open(dp).read().splitlines())
    ctx.oblige("digest runs cover every case", all(len(d) == len(lines) for d in digests), str([len(d) for d in digests]))
    n_cross = 0
    for idx, c in enumerate(lines):
        ds = set(d[idx] for d in digests if idx < len(d))
        if len(ds) > 1 and olines[idx:idx + 1] == ["ok"]:
            n_cross += 1
            kind = {"e": "exp", "l": "argument_map", "f": "fork_ids", "p": "program"}[c[0]]
            ctx.fail("nondet_across_processes:" + kind, "digests of %d fresh processes differ" % FRESH_PROCESSES,
                     {"case": c[:6000], "digests": sorted(ds), "how": "run `vh c10 digest` on the case in several fresh processes"})
    kinds = collections.Counter(c[0] for c in lines)
    progs = collections.Counter()
    for c in lines:
        if c.startswith("p "):
            nm = binascii.unhexlify(c.split(" ")[1]).decode()
            progs[nm.split("_")[0] if not nm.startswith("err_") else "err"] += 1
    ctx.coverage.update({
        "evaluations": len(lines) * (20 + FRESH_PROCESSES + 1),
        "distinct_nontrivial": lib.distinct_count(cases, lambda l: len(l) > 40),
        "rule": "seeded random value expressions (depth <= 4, literals up to 40 entries, keys with quotes/control/non-ASCII/U+2028, entries in random insertion order), argument maps up to 60 keys, nested map-call programs over array/map literals (1-3 fork dimensions), whole programs: repository fixtures, wide struct/typed-map literals, 2-6 split arguments (arrays or maps, on separate lines or on one line, 1-3 nesting levels), nested map calls sharing an alias, nine families of programs with several errors at once; distinct by case text, non-trivial = more than 40 characters",
        "case_kinds": {"expressions": kinds.get("e", 0), "argument_maps": kinds.get("l", 0), "fork_id_programs": kinds.get("f", 0), "whole_programs": kinds.get("p", 0)},
        "program_families": dict(progs),
        "skipped_by_parser": skipped,
        "repetitions_in_process": 20, "fresh_processes": FRESH_PROCESSES,
        "oracle_ok": n_ok, "oracle_fail": n_fail, "oracle_skip": n_skip, "cross_process_fail": n_cross,
        "exhaustive": False,
    })
    ctx.samples = [l[:240] for l in lines[:2]] + [l[:240] for l in lines if l.startswith("l ")][:2] + \
                  [l[:240] for l in lines if l.startswith("f ")][:1]
    return ctx.finish("proof")
