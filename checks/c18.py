"""C18 - cluster job scripts reproduce commands, paths and environment values exactly."""
import os
import random

import lib

MANIFEST = {
 "category": "proof",
 "text": "Coq theorems C18_quote_roundtrip and C18_format_args_roundtrip: for every valid-UTF-8 string (no length bound) the model of the POSIX sh double-quote/simple-command fragment evaluates the model of appendShellSafeQuote/formatArgs back to exactly the original strings and never reaches an expansion. The model is tied to /repo on every run: the escape set and separator are regenerated from the Go AST (so the proofs are re-checked against the code's case labels), quote/format_args are compared with the Go functions on all 1-2 byte strings, all short strings over the shell-significant alphabet and seeded random strings (extracted OCaml + a kernel vm_compute sample), the sh model is compared with /bin/sh, and the property is read directly on the implementation with /bin/sh as the search for a failing input.",
 "note": "Trusted: Coq kernel; extraction (ExtrOcamlBasic) cross-checked in-kernel on a sample; extractconsts; dash as reference sh; K/Sh.v covers only the fragment the templates put values into. Guard: valid UTF-8 (invalid bytes are the recorded known finding C18-invalid-utf8-octal), env names are shell names. Scheduler directive lines of the templates are not modelled.",
 "technique": "Coq proof (induction over the string with a UTF-8 skip invariant, exhaustive 256-way byte case analysis) + differential correspondence + /bin/sh oracle",
}


def same(case, impl, model):
    if case.startswith("d "):
        # the shell model only claims a result where it says Lit; Expansion and
        # Malformed mean "outside the modelled fragment"
        return not model.startswith("L ") or impl == model
    return impl == model


def check(ctx, args):
    ctx.trusted_base = [
        "Coq 8.16.1 kernel (coqc, vm_compute; no native_compute)",
        "axioms: none (Print Assumptions: Closed under the global context)",
        "extraction: ExtrOcamlBasic only, OCaml 4.13.1; cross-checked on a sample against vm_compute in the kernel",
        "harness/cmd/extractconsts (escape set and separator literal copied from the Go AST)",
        "K/Sh.v: model of the POSIX sh double-quote / simple-command fragment, tied to /bin/sh (dash) on generated words",
        "/bin/sh (dash) as the reference POSIX shell for the implementation-side oracle",
    ]
    ctx.assumptions = [
        "values contain no NUL byte (cannot be passed to a process at all)",
        "theorems are stated for valid UTF-8 values; bytes outside valid UTF-8 are the recorded known finding",
        "environment variable names are shell names ([A-Za-z_][A-Za-z0-9_]*)",
        "template lines other than __MRO_CMD__ (scheduler directives in comments) are not modelled",
    ]
    okb = ctx.build_harness()
    oke = ctx.extract_consts(["Shell"])
    okc = ctx.coq_build()
    if okc:
        ctx.property_theorems()
    s = ctx.scratch
    cases, impl, model, oracle = (os.path.join(s, n) for n in ("cases.txt", "impl.txt", "model.txt", "oracle.txt"))
    if not okb:
        return ctx.finish("proof")
    ctx.vh_run(["c18", "gen", ctx.tier, str(ctx.seed)], out_path=cases)
    ctx.vh_run(["c18", "impl", s], stdin_path=cases, out_path=impl)
    # -- correspondence, volume: extracted model
    if okc:
        ctx.model_run("c18", cases, model)
        n, mism = lib.diff_lines(impl, model, cases, same)
        ctx.oblige("correspondence: appendShellSafeQuote/formatArgs/jobScript == K.ShellQuote.quote/format_args, K.JobScript.replace_all; K.Sh == /bin/sh (%d cases, extracted model)" % n,
                   not mism, "; ".join("case %s impl=%s model=%s" % (m[1][:80], m[2][:80], m[3][:80]) for m in mism[:5] if m))
        # -- correspondence, kernel: a sample evaluated by vm_compute
        lines = list(zip(open(cases).read().splitlines(), open(impl).read().splitlines()))
        qs = [(c.split()[1], o) for c, o in lines if c.startswith("q ")]
        rnd = random.Random(ctx.seed)
        sample = qs[:300] + rnd.sample(qs, 500)
        body = ";\n".join('(%s, %s)' % (lib.coq_string("" if a == "-" else a), lib.coq_string("" if b == "-" else b)) for a, b in sample)
        v = ("From Coq Require Import String.\nFrom Martian Require Import Lib.Bytes K.ShellQuote.\nOpen Scope string_scope.\n"
             "Definition cases : list (string * string) := [\n%s].\n"
             "Definition bad := filter (fun c => negb (String.eqb (hex (quote (unhex (fst c)))) (snd c))) cases.\n"
             "Definition M := Eval vm_compute in map fst bad.\nPrint M.\n") % body
        rc, out = ctx.coq_eval(v, "c18_cases")
        okk = rc == 0 and "M = []" in out.replace("\n", " ")
        ctx.oblige("correspondence: kernel vm_compute of quote on %d sampled cases equals the implementation" % len(sample), okk, out[-600:])
        ctx.coverage["kernel_sample"] = len(sample)
    # -- the property read directly on the implementation
    ctx.vh_run(["c18", "oracle", s], stdin_path=cases, out_path=oracle)
    n_ok = n_fail = 0
    with open(oracle) as fo, open(cases) as fc:
        for o, c in zip(fo, fc):
            o = o.rstrip("\n")
            if o == "ok":
                n_ok += 1
            elif o.startswith("FAIL"):
                n_fail += 1
                f = o.split(" ", 2)
                ctx.fail(f[1], f[2][:400], {"case": c.strip()[:2000], "observed": f[2][:2000],
                                             "how": "vh c18 oracle: /bin/sh evaluates martian's quoted form; recovered string differs"})
    kinds = {}
    with open(cases) as fc:
        for c in fc:
            kinds[c[0]] = kinds.get(c[0], 0) + 1
    ctx.coverage.update({
        "evaluations": sum(kinds.values()),
        "distinct_nontrivial": lib.distinct_count(cases, lambda l: len(l) > 6),
        "rule": "all 1- and 2-byte strings (exhaustive), all strings over 30 shell-significant bytes up to length 3 (4 thorough), seeded random UTF-8 / raw byte strings, random command lines with environment; distinct by case text, non-trivial = at least 2 bytes",
        "case_kinds": {"quote": kinds.get("q", 0), "command_lines": kinds.get("f", 0), "job_scripts": kinds.get("j", 0), "sh_model_words": kinds.get("d", 0)},
        "oracle_ok": n_ok, "oracle_fail": n_fail,
        "exhaustive": False,
    })
    ctx.samples = [l.strip()[:200] for l in open(cases).read().splitlines()[70000:70003]] + \
                  [l.strip()[:300] for l in open(cases).read().splitlines() if l.startswith("f ")][:3]
    return ctx.finish("proof")
