"""Shared machinery of the two VDR checks (C04, C14): one model (coq/Mro/Vdr.v),
one harness (cmd/vh/c04*.go), one repository hook
(martian/core/verif_export_c04.go).

run_all(ctx) performs, on the repository's current tree:
  (i)  op-sequence correspondence: generated file-passing pipelines are
       instantiated as real Pipestance objects (no job runs), the stage files
       are written, and random sequences of the storage steps (phase advance,
       removeEmptyFileArgs, cacheParamFileMap, partialVdrKill, Pipestance.VDRKill,
       restart) are applied to the real Fork objects; fileArgs, filePostNodes,
       fileParamMap, the files on disk and the kill reports are compared with
       the extracted model after EVERY step;
  (ii) end-to-end: the same kind of pipelines run under the real mrp+mrjob in
       the four VDR modes with consumers delayed; every stage checks at start
       that every path in its arguments exists with its content; the final
       tree and the _vdrkill files are compared with the model's prediction
       (books taken from the implementation's own static structure);
  (iii) pure kernels pathIsInside / anyOverlap / mergeVDRKillReports;
  (iv) a kernel (vm_compute) re-evaluation of a sample of the model cases.
Failures are returned by class; c04.py and c14.py each report their own.
"""
import json
import os
import random
import re

import lib
import pipelib

HARNESS_FILES = ["c04.go", "c04_files.go", "c04_gen.go"] + pipelib.PIPE_FILES

C04_CLASSES = {
    "argument_file_missing_at_start", "argument_file_corrupt_at_start", "top_or_retained_file_removed",
    "final_output_content_changed", "final_output_missing_or_changed", "books_representation",
    "cloned_fork_books_differ",
}
C14_CLASSES = {
    "temp_file_survives", "chunk_file_of_split_stage_survives", "volatile_unreferenced_file_survives",
    "reported_path_exists", "reported_path_outside_pipestance", "fork_report_totals",
    "pipestance_report_totals", "no_final_report", "outside_directory_touched",
    "report_bytes_symlink_counted_as_target",
}
# a run that does not complete, or a harness crash, concerns both
BOTH = {"run_failed", "harness_crash"}

TRUSTED = [
    "Coq 8.16.1 kernel (coqc, vm_compute; no native_compute)",
    "axioms: none (Print Assumptions: Closed under the global context)",
    "extraction: ExtrOcamlBasic only, OCaml 4.13.1; cross-checked against vm_compute in the kernel on a sample of the cases",
    "harness/cmd/vh/c04*.go: program generator, stage executable hook (writes files, checks argument paths at start), "
    "computation of which arguments name which file (own re-implementation of jsonPath/getMaybeFileNames/overlap, "
    "compared with the implementation's fileParamMap after every step), transport encoders",
    "martian/core/verif_export_c04.go (build tag verif): replays the storage-related lines of doChunks/doComplete "
    "(cleanSplitTemp on a volatile fork; post mode: cache + partialVdrKill before the completion marker; removeEmptyFileArgs)",
    "the books (fileArgs/filePostNodes) given to the model are read from the implementation's own pipestance graph; "
    "that they bind the right consumers is checked only by the end-to-end existence checks of every consuming stage",
]
ASSUMPTIONS = [
    "stage contract of the property: a stage's file outputs name files it wrote itself under its own files directory "
    "(static_ok in the theorems: temporary files and chunk files of a splitting stage are not named by fork outputs)",
    "every locked Fork method is one atomic step; the goroutines running them asynchronously are explored by real runs "
    "with delayed consumers, not enumerated (partial)",
    "symbolic links: only links to a file of the same stage are generated; getLogicalFileNames' other expansions are not modelled (partial)",
    "os.RemoveAll / directory walk errors, force-volatile overrides and failed forks are not modelled (partial)",
    "file sizes are the sizes the runtime's walk reports (for a symbolic link: its target's size - recorded known finding)",
]


def _split_verdict(v):
    """'FAIL cls detail ;; FAIL cls2 detail2' -> [(cls, detail)]"""
    out = []
    for part in v.split(" ;; "):
        part = part.strip()
        if part.startswith("FAIL "):
            f = part.split(" ", 2)
            out.append((f[1], f[2] if len(f) > 2 else ""))
    return out


# ---------------------------------------------------------------- transport -> Coq term
def _coq_list(items):
    return "[" + "; ".join(items) + "]"


def _n(x):
    return "%s%%N" % x


def case_to_coq(fields):
    """fields: [kind, mode, forks, ops] -> (sys term, ops term)"""
    mode = {"rolling": "Rolling", "post": "Post", "strict": "Strict", "disable": "Disable"}[fields[1]]
    own = {"st": "SplitTmp", "ct": "ChunkTmp", "jt": "JoinTmp", "sf": "SplitFiles", "cf": "ChunkFiles", "jf": "JoinFiles"}
    forks = []
    for ft in ([] if fields[2] == "-" else fields[2].split(";")):
        fid, sp, vol, sv, decl, valued, fa, fp, files = ft.split(",")
        b = lambda x: "true" if x == "1" else "false"
        fl = []
        for t in ([] if files == "-" else files.split("/")):
            p, o, sz, names = t.split(":")
            fl.append("mkFile %s %s %s %s" % (_n(p), own[o], _n(sz), _coq_list([_n(a) for a in names.split(".")] if names != "-" else [])))
        fal = []
        for e in ([] if fa == "-" else fa.split("+")):
            a, h = e.split(":")
            fal.append("(%s, %s)" % (_n(a), "None" if h == "T" else "Some " + _n(h)))
        fpl = []
        for e in ([] if fp == "-" else fp.split("+")):
            n, a = e.split(":")
            fpl.append("(%s, %s)" % (_n(n), _n(a)))
        files_t, fa_t, fp_t = _coq_list(fl), _coq_list(fal), _coq_list(fpl)
        vals = _coq_list([_n(a) for a in valued.split("+")] if valued != "-" else [])
        forks.append("(%s, mkFork %s %s %s %s %s %s %s %s %s %s None %s [] None None PRun)" % (
            _n(fid), b(sp), b(vol), b(sv), b(decl), files_t, vals, fa_t, fp_t, fa_t, fp_t, files_t))
    ops = []
    for o in ([] if fields[3] == "-" else fields[3].split(",")):
        k, r = o[0], o[1:]
        ops.append({"c": "ConsumerFinished %s", "a": "Advance %s", "h": "Cache %s", "k": "PartialKill %s"}.get(k, "") % _n(r)
                   if k in "cahk" else {"w": "FinalSweep", "r": "Restart"}[k])
    return "mkSys %s %s [] None" % (mode, _coq_list(forks)), _coq_list(ops)


def expected_to_coq(obs):
    """final projection 'id[disk][count/size];...|total' -> Coq term"""
    forks, total = obs.rsplit("|", 1)
    items = []
    for f in forks.split(";"):
        m = re.match(r'(\d+)\[([^\]]*)\]\[([^\]]*)\]$', f)
        if not m:
            return None
        disk = [] if m.group(2) == "-" else [_n(x) for x in m.group(2).split("+")]
        fin = "None" if m.group(3) == "~" else "Some (%s, %s)" % tuple(_n(x) for x in m.group(3).split("/"))
        items.append("(%s, %s, %s)" % (_n(m.group(1)), _coq_list(disk), fin))
    tot = "None" if total == "~" else "Some (%s, %s)" % tuple(_n(x) for x in total.split("/"))
    return "(%s, %s)" % (_coq_list(items), tot)


KERNEL_HEADER = """From Martian Require Import Lib.Bytes Mro.Vdr.
Local Open Scope N_scope.
Definition sortN (l : list N) : list N :=
  fold_right (fun x acc => (fix ins (l : list N) := match l with [] => [x] | y :: r => if (x <=? y)%N then x :: l else y :: ins r end) acc) [] l.
Definition obsT := (list (N * list N * option (N * N)) * option (N * N))%type.
Definition proj (s : sys) : obsT :=
  (map (fun e => (fst e, sortN (map f_path (disk (snd e))),
                  option_map (fun r => (r_count r, r_size r)) (final (snd e)))) (s_forks s),
   option_map (fun r => (r_count r, r_size r)) (s_total s)).
"""


def kernel_check(ctx, lines_and_expected, name):
    """Evaluate run in the kernel on the given (case fields, expected projection) pairs."""
    defs, names = [], []
    for i, (fields, exp) in enumerate(lines_and_expected):
        e = expected_to_coq(exp)
        if e is None:
            continue
        s, ops = case_to_coq(fields)
        defs.append("Definition c%d : obsT * obsT := (proj (run (%s) %s), %s)." % (i, s, ops, e))
        names.append("c%d" % i)
    if not names:
        return True, 0, ""
    body = KERNEL_HEADER + "\n".join(defs) + "\n"
    # equality is decided by vm_compute + reflexivity on each case, collected as a list of failing indices
    checks = []
    for i, n in enumerate(names):
        checks.append("Goal fst %s = snd %s. Proof. vm_compute. reflexivity. Qed." % (n, n))
    body += "\n".join(checks) + "\nDefinition M : list nat := []. Print M.\n"
    rc, out = ctx.coq_eval(body, name)
    return rc == 0 and "M = []" in out.replace("\n", " "), len(names), out[-800:]


# ---------------------------------------------------------------- the runs
def run_all(ctx):
    """Returns dict(failures=[(class, detail, replay)], stats=..., ok flags are recorded as obligations)."""
    s = ctx.scratch
    quick = ctx.tier == "quick"
    res = {"failures": [], "stats": {}}
    fails = res["failures"]

    # ---- (iii) pure kernels
    pc, pi, pm = (os.path.join(s, n) for n in ("pure_cases.txt", "pure_impl.txt", "pure_model.txt"))
    ctx.vh_run(["c04", "pure", "gen", str(ctx.seed)], out_path=pc)
    ctx.vh_run(["c04", "pure", "impl"], stdin_path=pc, out_path=pi)
    ctx.model_run(ctx.prop.lower(), pc, pm)
    n, mism = lib.diff_lines(pi, pm, pc)
    ctx.oblige("correspondence: pathIsInside / anyOverlap / mergeVDRKillReports == model (%d cases)" % n, n > 0 and not mism,
               "; ".join("case %s impl=%s model=%s" % (m[1][:100], m[2], m[3]) for m in mism[:4] if m))
    res["stats"]["pure_cases"] = n

    # ---- (i) in-process op sequences on real Fork objects
    cases, impl, mc, orc, model = (os.path.join(s, n) for n in ("seq_cases.txt", "seq_impl.txt", "seq_mc.txt", "seq_or.txt", "seq_model.txt"))
    work = os.path.join(s, "seqwork")
    os.makedirs(work, exist_ok=True)
    ctx.vh_run(["c04", "gen", ctx.tier, str(ctx.seed)], out_path=cases)
    p = ctx.vh_run(["c04", "impl", work, mc, orc], stdin_path=cases, out_path=impl, timeout=3000)
    ctx.model_run(ctx.prop.lower(), mc, model)
    n, mism = lib.diff_lines(impl, model, mc)
    nsteps = sum(len(l.split(" ")) for l in open(impl))
    skipped = sum(1 for l in open(orc) if l.startswith("skip"))
    ctx.oblige("correspondence (op sequences on real Fork objects): fileArgs, filePostNodes, fileParamMap, files on disk, "
               "partial and final kill reports, pipestance totals equal the model after every step (%d sequences, %d steps)" % (n, nsteps),
               n > 0 and not mism and skipped < n // 2,
               "; ".join("case %d: %s" % (m[0], first_diff(m[2], m[3], m[1])) for m in mism[:3] if m) + (" skipped=%d" % skipped))
    seq_lines = open(mc).read().splitlines()
    case_lines = open(cases).read().splitlines()
    for i, v in enumerate(open(orc).read().splitlines()):
        for cls, detail in _split_verdict(v):
            fails.append((cls, "op-sequence case %s: %s" % (case_lines[i], detail),
                          {"how": "vh c04 impl <dir> <modelcases> <oracle> on the case line; VH_KEEP=1 keeps the directory",
                           "case": case_lines[i], "model_case": seq_lines[i][:4000], "verdict": v[:600]}))
    if mism:
        # not a property failure by itself (section 3 of DESIGN.md): kept as a
        # replay of the broken correspondence obligation
        ctx.write_replay("mismatch_op_sequences.json", [
            {"case": case_lines[m[0]], "first_difference": first_diff(m[2], m[3], m[1]), "model_case": m[1][:4000],
             "impl": m[2][:3000], "model": m[3][:3000]} for m in mism[:5] if m])
    res["stats"].update({"sequences": n, "sequence_steps": nsteps, "sequences_skipped": skipped})

    # ---- (ii) end to end
    nprog = 20 if quick else 160
    progs = os.path.join(s, "vdrprogs")
    p = ctx.vh_run(["c04", "genprogs", progs, str(nprog), str(ctx.seed + 40), ctx.vh + " __stage", "1"])
    try:
        shape = json.loads(p.stdout.decode().strip().splitlines()[-1])
    except (IndexError, ValueError):
        shape = {}
    res["stats"]["program_features"] = shape
    e2e_pairs = []
    runs = ok_runs = 0
    scheds = {"rolling": "%d:400" % (ctx.seed * 7 + 1), "post": "%d:150" % (ctx.seed * 7 + 2),
              "strict": "%d:400" % (ctx.seed * 7 + 3), "disable": "%d:100" % (ctx.seed * 7 + 4)}
    mism_total = 0
    mism_notes = []
    side_panics = []
    for mode in ("rolling", "strict", "post", "disable"):
        psid = "ps_" + mode
        ctx.vh_run(["c04", "run", progs, ctx.mart, "12", psid, mode, scheds[mode]], timeout=3000)
        emc, eio, eor, emo = (os.path.join(s, "e2e_%s_%s.txt" % (mode, n)) for n in ("mc", "io", "or", "model"))
        ctx.vh_run(["c04", "e2e", progs, psid, emc, eio, eor])
        ctx.model_run(ctx.prop.lower(), emc, emo)
        n, mism = lib.diff_lines(eio, emo, emc)
        runs += n
        mcl = open(emc).read().splitlines()
        iol = open(eio).read().splitlines()
        for i, v in enumerate(open(eor).read().splitlines()):
            name = mcl[i].split(" ")[0]
            if v.startswith("ok") or "report_bytes_symlink" in v and not [c for c, _ in _split_verdict(v) if c != "report_bytes_symlink_counted_as_target"]:
                ok_runs += 1
            if "panic_in_immortalize" in v:
                side_panics.append("%s mode=%s" % (name, mode))
            if v.startswith("skip"):
                continue
            for cls, detail in _split_verdict(v):
                rp = pipelib.save_replay(ctx, os.path.join(progs, name), "%s_%s" % (name, psid),
                                         {"program": name, "mode": mode, "schedule": scheds[mode], "class": cls, "detail": detail,
                                          "how": "mrp pipeline.mro %s --vdrmode=%s with VH_SPEC=spec.json, VH_SCHED=%s (vh c04 run); then vh c04 e2e" % (psid, mode, scheds[mode])})
                fails.append((cls, "%s mode=%s: %s" % (name, mode, detail), {"replay_dir": os.path.dirname(rp)}))
            if iol[i] not in ("run-failed",) and not v.startswith("skip"):
                e2e_pairs.append((mcl[i].split(" ")[1:], iol[i]))
        for m in [m for m in mism if m]:
            if m[2] in ("run-failed", "no-books") or m[2].startswith("no-books"):
                continue
            mism_total += 1
            name = m[1].split(" ")[0]
            rp = pipelib.save_replay(ctx, os.path.join(progs, name), "%s_%s_model" % (name, psid),
                                     {"program": name, "mode": mode, "impl_final_state": m[2][:3000], "model_final_state": m[3][:3000]})
            mism_notes.append("%s mode=%s: %s (replay %s)" % (name, mode, first_diff(m[2], m[3], ""), os.path.dirname(rp)))
    ctx.oblige("correspondence (real mrp runs, 4 VDR modes): surviving files, per-fork and pipestance kill totals equal the model's prediction (%d runs)" % runs,
               runs > 0 and mism_total == 0, "%d runs differ: %s" % (mism_total, "; ".join(mism_notes[:4])))
    res["stats"].update({"e2e_runs": runs, "e2e_runs_clean": ok_runs, "programs": nprog, "modes": 4, "schedules": scheds,
                         # not a VDR matter: mrp panicked in Pipestance.Immortalize (serializing the final state) after
                         # VDRKill and post-processing were done; the final tree of such a run is still evaluated
                         "runs_where_mrp_panicked_serializing_final_state_after_vdr": side_panics[:20]})

    # ---- (iv) kernel sample
    rnd = random.Random(ctx.seed)
    sample = rnd.sample(e2e_pairs, min(len(e2e_pairs), 12 if quick else 60))
    okk, nk, out = kernel_check(ctx, sample, "vdr_kernel")
    ctx.oblige("correspondence: kernel vm_compute of Vdr.run on %d sampled end-to-end cases equals the observed final state" % nk,
               okk and nk > 0, out)
    res["stats"]["kernel_sample"] = nk
    ctx.samples = [" ".join(p[0])[:300] for p in sample[:2]] + case_lines[:3]
    return res


def first_diff(a, b, case):
    sa, sb = a.split(" "), b.split(" ")
    ops = case.split(" ")[3].split(",") if case.count(" ") >= 3 else []
    for k, (x, y) in enumerate(zip(sa, sb)):
        if x != y:
            fx, fy = x.split(";"), y.split(";")
            for u, v in zip(fx, fy):
                if u != v:
                    return "step %d (%s): impl %s model %s" % (k, ops[k] if k < len(ops) else "?", u[:300], v[:300])
            return "step %d: impl %s model %s" % (k, x[-200:], y[-200:])
    return "lengths differ: %d vs %d steps" % (len(sa), len(sb))


def report(ctx, res, mine):
    """ctx.fail for the classes of this property (and the shared ones)."""
    n = 0
    for cls, detail, replay in res["failures"]:
        if cls in mine or cls in BOTH:
            ctx.fail(cls, detail, replay)
            n += 1
    return n
