#!/usr/bin/env python3
"""Prints the table of seeded changes and which checks caught them (DESIGN.md section 12)."""
import glob
import json
import os

VERIF = os.path.dirname(os.path.dirname(os.path.abspath(__file__)))
rows = []
for d in sorted(glob.glob(os.path.join(VERIF, "seeded", "*"))):
    try:
        meta = json.load(open(os.path.join(d, "meta.json")))
    except Exception:
        continue
    res = {}
    if os.path.exists(os.path.join(d, "result.json")):
        res = json.load(open(os.path.join(d, "result.json")))["results"]
    caught = [p + (" (" + (r.get("replay_class") or "obligation") + ")") for p, r in res.items() if r["caught"]]
    missed = [p for p, r in res.items() if not r["caught"]]
    rows.append("| %s | %s | %s | %s | %s |" % (os.path.basename(d), meta["property"], meta.get("summary", "")[:140].replace("|", "/"),
                                             ", ".join(caught) or "-", ", ".join(missed) or "-"))
print("| seeded change | property | what it does | caught by | missed by |")
print("|---|---|---|---|---|")
print("\n".join(rows))
