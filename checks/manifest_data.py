CHECKS = {
 "C18": {
  "category": "proof",
  "text": "Coq theorems C18_quote_roundtrip and C18_format_args_roundtrip: for every valid-UTF-8 string (no length bound) the model of the POSIX sh double-quote/simple-command fragment evaluates the model of appendShellSafeQuote/formatArgs back to exactly the original strings and never reaches an expansion. The model is tied to /repo on every run: the escape set and separator are regenerated from the Go AST (so the proofs are re-checked against the code's case labels), quote/format_args are compared with the Go functions on all 1-2 byte strings, all short strings over the shell-significant alphabet and seeded random strings (extracted OCaml + a kernel vm_compute sample), the sh model is compared with /bin/sh, and the property is read directly on the implementation with /bin/sh as the search for a failing input.",
  "note": "Trusted: Coq kernel; extraction (ExtrOcamlBasic) cross-checked in-kernel on a sample; extractconsts; dash as reference sh; K/Sh.v covers only the fragment the templates put values into. Guard: valid UTF-8 (invalid bytes are the recorded known finding C18-invalid-utf8-octal), env names are shell names. Scheduler directive lines of the templates are not modelled.",
  "technique": "Coq proof (induction over the string with a UTF-8 skip invariant, exhaustive 256-way byte case analysis) + differential correspondence + /bin/sh oracle",
 },
}
NOT_YET = {}
