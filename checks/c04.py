"""C04 - volatile data removal never deletes a file that is still needed."""
import lib
import pipelib
import vdrlib

MANIFEST = {
 "category": "proof",
 "text": "Coq theorems over Mro/Vdr.v (the fileArgs / filePostNodes / fileParamMap bookkeeping of storage.go, stage.go, node.go as a state machine over an abstract file set), for ALL well-formed initial systems, ALL operation sequences (producer phases, asynchronous caching and partial kills at any time, consumers finishing in any order incl. long after the producer, final sweep, dynamic fork cloning, restarts) and all four VDR modes: C04_books_consistent, C04_top_holder_never_removed, C04_no_kill_while_needed (a file has left the disk only if every argument naming it has no top-level/retain holder and all its bound consumers have finished), C04_top_and_retained_never_removed, C04_args_present_at_start, C04_final_outputs_intact. Tie, on every run: (i) generated file-passing pipelines are instantiated as real Pipestance objects and random sequences of the storage steps are applied to the real Fork objects through a verif-tagged hook; books, fileParamMap, files on disk and kill reports equal the extracted model after every step; (ii) the same kind of pipelines (files directly, in structs/arrays/typed maps, strings and untyped maps with paths, sub-pipelines, several consumers, static and run-time mapped calls, volatile/strict/retain, disabled consumers) run under the real mrp in rolling/post/strict/disable with consumers delayed; every stage verifies at start that each path in its arguments exists with its original content, final outputs and retained files are verified at completion, and the final tree equals the model's prediction; (iii) a kernel vm_compute sample.",
 "note": "Partial: each locked Fork method is one atomic model step - the goroutines that run them asynchronously are exercised by real runs, not enumerated; symlink name expansion only for links to the stage's own files; os.RemoveAll/walk errors, overrides and failed forks not modelled. The books given to the model come from the implementation's own graph (attachToFileParents); that they bind the right consumers is established by the end-to-end existence checks, not by a theorem. Stage contract assumed as in the property (own files only).",
 "technique": "Coq proof (one invariant over all op sequences: needed holders are never dropped, unreferenced-entry kills only) + op-sequence correspondence on real Fork objects + trace validation of real mrp runs",
}


def check(ctx, args):
    ctx.trusted_base = vdrlib.TRUSTED
    ctx.assumptions = vdrlib.ASSUMPTIONS
    okb = ctx.build_harness(extra=vdrlib.HARNESS_FILES)
    okm = pipelib.build_martian(ctx)
    okc = ctx.coq_build()
    if okc:
        ctx.property_theorems()
    if not (okb and okm and okc):
        return ctx.finish("proof")
    res = vdrlib.run_all(ctx)
    nf = vdrlib.report(ctx, res, vdrlib.C04_CLASSES)
    st = res["stats"]
    ctx.coverage.update({
        "evaluations": st.get("sequence_steps", 0) + st.get("e2e_runs", 0),
        "distinct_nontrivial": st.get("sequences", 0) + st.get("e2e_runs", 0),
        "rule": "one evaluation per compared step of an op sequence on real Fork objects plus one per real mrp run; distinct = op sequences (seeded program x mode x op order) + (program, mode) runs; non-trivial: at least one stage fork with files",
        "traces_validated_against_impl": st.get("e2e_runs", 0),
        "property_failures_reported": nf,
    })
    ctx.coverage.update(st)
    return ctx.finish("proof")
