"""C17 - JSON validation and filtering agree with the type system."""
import os

import lib

MANIFEST = {
 "category": "proof",
 "text": "Coq theorems about an executable model (K/JsonTypes.v) of Type.IsValidJson / FilterJson / IsAssignableFrom over all type trees and all JSON values: C17_filter_idempotent, C17_filter_only_drops (the output is the input except for dropped undeclared struct fields and numbers with an integral float64 value respelled as integers where the type is int), C17_filter_valid_of_assignable (guarded: no struct-to-typed-map coercion, filename rule on directory-map keys set aside; full when the target has no directory-like map), the two refutation lemmas for exactly those guards, C17_valid_null, C17_valid_exact_shape, C17_assignable_refl / _array_iff / _map_iff / _struct_iff. The model is tied to /repo on every run: builtin type names and the IsLegalUnixFilename limits are regenerated from the Go AST; generated MRO declarations are compiled by the real compiler, the resulting Type objects dumped into the model's type trees, and validate/filter/assignable of implementation and model compared on type-directed values with near misses (extracted OCaml for volume, kernel vm_compute on a sample); the property is also read directly on the implementation (independent shape / only-drops / component-wise assignability oracle) as the search for a failing input.",
 "note": "Trusted: Coq kernel; extraction (ExtrOcamlBasic) cross-checked in-kernel on a sample; extractconsts; the harness JSON reader (encoding/json tokens, number literals kept as written). Modelled, not verified: encoding/json tokenisation and byte-level re-serialisation (values are compared after parsing), binary64 rounding of number literals (K/JsonTypes.f64_round_int, f64_overflow; amd64 float-to-int conversion). Known findings (recorded, not repaired): typed map filtered from a struct value with undeclared fields; directory-like typed map assigned from a map whose keys are not file names.",
 "technique": "Coq proof (structural induction over type trees with a nested-list induction principle; array dimension by inner induction) + differential correspondence on compiled types + implementation-side oracle",
}


def same(case, impl, model):
    """Observations agree.  When both report a fatal filter error the returned
    bytes are not meaningful to any caller (resolve.go returns the error), so
    only the four flags validErr, alarm, fatal, err are compared then."""
    if impl == model:
        return True
    if case.startswith("c ") and len(impl) > 7 and len(model) > 7 and impl[2] == "1" and model[2] == "1":
        return impl[:4] == model[:4]
    return False


def check(ctx, args):
    ctx.trusted_base = [
        "Coq 8.16.1 kernel (coqc, vm_compute; no native_compute)",
        "axioms: none (Print Assumptions: Closed under the global context)",
        "extraction: ExtrOcamlBasic only, OCaml 4.13.1; cross-checked on a sample against vm_compute in the kernel",
        "harness/cmd/extractconsts (Kind* names, IsLegalUnixFilename limits copied from the Go AST; fails on a changed shape)",
        "harness JSON reader: encoding/json Decoder tokens with UseNumber, number literals kept as written",
        "type dump: exported fields of syntax.BuiltinType/UserType/ArrayType/TypedMapType/StructType reached from Ast.TypeTable",
    ]
    ctx.assumptions = [
        "JSON texts are syntactically valid (malformed text is rejected by encoding/json before any of the modelled code looks at it)",
        "numbers: integer-syntax literals are int64 candidates, every other literal is read as binary64 (round to nearest even); amd64 semantics for float64->int64 conversion out of range",
        "struct types are declared before use (enforced by the compiler), so every type is a finite tree; member names of a struct are distinct (wf)",
        "the filter result is compared as a value (after parsing); which bytes are reused (sameSlice fast path) is modelled by the ch flag but not observed",
        "theorem C17_filter_valid_of_assignable is guarded: the struct-to-typed-map coercion and the file-name rule for keys of directory-like maps are the two recorded known findings",
        "map iteration order / key order of rebuilt objects is not observed (objects are compared with sorted keys, last duplicate wins)",
    ]
    okb = ctx.build_harness()
    oke = ctx.extract_consts(["JsonTypes"])
    okc = ctx.coq_build()
    if okc:
        ctx.property_theorems()
    if okc and ctx.tier == "thorough":
        # independent re-check of the compiled development
        with lib.Lock():
            p = lib.run(["coqchk", "-silent", "-o", "-Q", ".", "Martian", "Martian.Properties.C17"], cwd=lib.COQ, timeout=1800)
        axioms = "Axioms: <none>" in " ".join(p.stdout.split())
        ctx.oblige("coqchk re-checks Properties/C17.vo and its dependencies (no axioms)", p.returncode == 0 and axioms, p.stdout[-800:])
    s = ctx.scratch
    cases, impl, model, oracle = (os.path.join(s, n) for n in ("cases.txt", "impl.txt", "model.txt", "oracle.txt"))
    if not okb:
        return ctx.finish("proof")
    p = ctx.vh_run(["c17", "gen", ctx.tier, str(ctx.seed)], out_path=cases)
    ctx.oblige("case generation (every generated MRO environment compiles with the real compiler)", p.returncode == 0,
               p.stderr.decode(errors="replace")[-800:])
    p = ctx.vh_run(["c17", "impl"], stdin_path=cases, out_path=impl)
    ctx.oblige("implementation runs on every case", p.returncode == 0, p.stderr.decode(errors="replace")[-800:])
    bad_obs = [l for l in open(impl) if l.split(" ")[0] in ("PANIC", "BADJSON", "INPUT-MODIFIED", "TYPE-DUMP-DIFFERS")]
    ctx.oblige("implementation observations are well formed (no panic, output parses, input slice not modified, type dump stable)",
               not bad_obs, "; ".join(b.strip()[:200] for b in bad_obs[:5]))
    kinds = {}
    envsrc = {}
    with open(cases) as fc:
        for c in fc:
            kinds[c[0]] = kinds.get(c[0], 0) + 1
            if c[0] == "e":
                f = c.split(" ")
                envsrc[f[1]] = bytes.fromhex(f[2]).decode(errors="replace") if f[2] != "-" else ""

    def describe(case_line):
        cf = case_line.strip().split(" ")
        d = {"case": case_line.strip()[:3000], "mro": envsrc.get(cf[1], "")}
        if cf[0] == "c":
            d["type (name:arraydim:mapdim)"] = cf[2]
            d["json"] = bytes.fromhex(cf[4]).decode(errors="replace") if cf[4] != "-" else ""
        elif cf[0] == "a":
            d["target <- source (name:arraydim:mapdim)"] = cf[2] + " <- " + cf[3]
        return d
    if okc:
        # -- correspondence, volume: extracted model
        ctx.model_run("c17", cases, model)
        n, mism = lib.diff_lines(impl, model, cases, same)
        ctx.oblige("correspondence: IsValidJson/FilterJson/IsAssignableFrom == K.JsonTypes.valid/filter/assignable "
                   "(%d cases, extracted model; flags, canonical filtered value, re-validation and re-filtering of the result)" % n,
                   not mism, "; ".join("case %s impl=%s model=%s" % (m[1][:300], m[2][:160], m[3][:160]) for m in mism[:5] if m))
        for m in [m for m in mism if m][:3]:
            f = m[1].split(" ")
            rep = describe(m[1])
            rep.update({"implementation": m[2][:2000], "model": m[3][:2000],
                        "how": "vh c17 impl vs ocaml/c17/model on this case line. Observation = 7 flags (IsValidJson error, alarm; FilterJson fatal, "
                               "err; error, alarm of validating the filtered value; filtering it again gives the same value) + the canonical filtered value. "
                               "Replay by hand: vh c17 probe <file.mro> '<type>' '<json>'"})
            ctx.fail("model_mismatch", "impl=%s model=%s" % (m[2][:200], m[3][:200]), rep)
        # -- correspondence, kernel: a sample evaluated by vm_compute
        nsample = 150 if ctx.tier == "quick" else 600
        step = max(1, (kinds.get("c", 0) + kinds.get("a", 0)) // (2 * nsample) - 1)
        kv = os.path.join(s, "kernel.v")
        ctx.vh_run(["c17", "kernel", str(nsample), str(step)], stdin_path=cases, out_path=kv)
        text = open(kv).read()
        rc, out = ctx.coq_eval(text, "c17_cases", timeout=900)
        okk = rc == 0 and "M = []" in out.replace("\n", " ")
        nk = text.count("%N, ")
        ctx.oblige("correspondence: kernel vm_compute of observe/assignable on %d sampled cases equals the implementation" % nk, okk, out[-600:])
        ctx.coverage["kernel_sample"] = nk
    # -- the property read directly on the implementation
    p = ctx.vh_run(["c17", "oracle"], stdin_path=cases, out_path=oracle)
    ctx.oblige("oracle runs on every case", p.returncode == 0, p.stderr.decode(errors="replace")[-800:])
    n_ok = n_fail = 0
    classes = {}
    with open(oracle) as fo, open(cases) as fc:
        for o, c in zip(fo, fc):
            o = o.rstrip("\n")
            if o == "ok":
                n_ok += 1
            elif o.startswith("FAIL"):
                n_fail += 1
                f = o.split(" ", 2)
                classes[f[1]] = classes.get(f[1], 0) + 1
                rep = describe(c)
                rep.update({"observed": f[2][:3000],
                            "how": "vh c17 oracle: exported Type.IsValidJson/FilterJson/IsAssignableFrom on the compiled types of this MRO; "
                                   "replay by hand with: vh c17 probe <file.mro> '<type>' '<json>' ['<source type>']"})
                ctx.fail(f[1], f[2][:400], rep)
    cflags = {}
    with open(impl) as fi, open(cases) as fc:
        for o, c in zip(fi, fc):
            if c[0] == "c":
                k = o[:7]
                cflags[k] = cflags.get(k, 0) + 1
    ctx.coverage.update({
        "evaluations": kinds.get("c", 0) + kinds.get("a", 0),
        "distinct_nontrivial": lib.distinct_count(cases, lambda l: l[0] in "ca" and len(l) > 40),
        "rule": "fixed environments for the known families + seeded random MRO environments (0-2 file types, 1-5 structs incl. variants of earlier structs, "
                "members over builtins/file types/earlier structs with array dim 0-3, typed maps, maps of arrays, arrays of maps); per type: values generated "
                "type-directed (also from other types of the environment) with near misses (null anywhere, wrong depth, number as string, float/out-of-range/rounding "
                "literals for int, missing/undeclared/duplicate fields, keys that are not file names) rendered with varied whitespace, key order, escapes; "
                "assignability on all ordered pairs of the environment's types; distinct by case text",
        "case_kinds": {"environments": kinds.get("e", 0), "validate_filter": kinds.get("c", 0), "assignable_pairs": kinds.get("a", 0)},
        "observation_flag_histogram(validErr,alarm,fatal,err,resultErr,resultAlarm,idempotent)": dict(sorted(cflags.items(), key=lambda kv: -kv[1])[:16]),
        "oracle_ok": n_ok, "oracle_fail": n_fail, "oracle_fail_classes": classes,
        "exhaustive": False,
    })
    lines = open(cases).read().splitlines()
    cl = [l for l in lines if l.startswith("c ")]
    ctx.samples = []
    for l in cl[:2] + cl[len(cl) // 2:len(cl) // 2 + 3]:
        f = l.split(" ")
        ctx.samples.append("type %s value %s" % (f[2], bytes.fromhex(f[4]).decode(errors="replace")[:160] if f[4] != "-" else ""))
    return ctx.finish("proof")
