"""Builds cases.v for trace acceptance (Mro/TraceCheck.v) from the stage event
logs of real mrp runs."""
import os
import re

import semcases


def hexs(s):
    return s.encode().hex()


def parse_id(jid):
    path, forks, chunk, phase = [], [], None, "chunk"
    for c in jid.split("."):
        if c in ("split", "join"):
            phase = c
        elif c.startswith("chnk"):
            chunk = int(c[4:])
        elif c.startswith("fork"):
            forks.append(c)
        else:
            path.append(c)
    return ".".join(path), ".".join(forks), chunk, phase


def read_events(path):
    evs = []
    if not os.path.exists(path):
        return evs
    for n, line in enumerate(open(path)):
        f = line.split()
        if len(f) < 3:
            continue
        evs.append((int(f[0]), n, f[1], f[2], f[3:]))
    evs.sort()
    return evs


CONTENT_FAULTS = ("truncated", "invalid", "missing_key", "wrong_type")


def trace_of(d, psids, splits, resets_at_restart=True):
    """Jobs and model events from the event logs of one or more consecutive
    mrp incarnations on one pipestance directory.
    Returns (jobs {id: (path, fork, kind)}, events [(kind, id)]).

    * a stage's 'end' record is a completion only if the completion marker of
      that attempt exists on disk (<events>.complete, written by the driver at
      the end of the scenario): the monitor, not the stage, records completion;
    * all incarnations are merged in time order (a job orphaned by a crash may
      finish while the next mrp is already running);
    * a job that was running or failed when an incarnation ended and is started
      again later was reset by the restart: the reset is placed right before
      that start (a done job can never be reset, Sched.enabled);
    * bad content of a chunk's outs is noticed by mrp only when it assembles
      the join of the same call; that call's join events in the same
      incarnation are left out so that nothing outside the call is blamed."""
    jobs, events = {}, []
    merged = []
    for inc, psid in enumerate(psids):
        evs = read_events(os.path.join(d, psid + ".events"))
        cpath = os.path.join(d, psid + ".events.complete")
        recorded = set(open(cpath).read().split()) if os.path.exists(cpath) else None
        skip_join = set()
        for t, n, kind, jid, rest in evs:
            if kind == "fault" and len(rest) >= 3 and rest[2] in CONTENT_FAULTS \
                    and rest[1] == "main" and rest[0] in splits:
                path, fork, _, _ = parse_id(jid)
                skip_join.add((path, fork))
        for t, n, kind, jid, rest in evs:
            merged.append((t, inc, n, kind, jid, rest, recorded, skip_join))
    merged.sort(key=lambda e: (e[0], e[1], e[2]))
    state, epoch_started = {}, {}
    faulted = set()           # (inc, jid): this attempt wrote bad outputs / failed
    for t, inc, n, kind, jid, rest, recorded, skip_join in merged:
        path, fork, chunk, phase = parse_id(jid)
        if phase == "join" and (path, fork) in skip_join:
            continue
        if kind == "start":
            stage = rest[0]
            if phase == "split":
                k = "KSplit"
            elif phase == "join":
                k = "KJoin"
            elif stage in splits:
                k = "KChunk"
            else:
                k = "KMain"
            jobs[jid] = (path, fork, k)
            if resets_at_restart and state.get(jid) in ("running", "failed") and epoch_started.get(jid, inc) < inc:
                events.append(("EReset", jid))
            events.append(("EStart", jid))
            state[jid] = "running"
            epoch_started[jid] = inc
            faulted.discard((inc, jid))      # a new attempt (in-process retry)
        elif kind == "end":
            if (inc, jid) in faulted:
                continue
            if recorded is not None and jid not in recorded:
                continue
            events.append(("EDone", jid))
            state[jid] = "done"
        elif kind == "fault":
            events.append(("EFail", jid))
            state[jid] = "failed"
            faulted.add((inc, jid))
    return jobs, events


def case_text(i, d, jobs, events):
    prog = open(os.path.join(d, "prog.v")).read()
    jl = ";\n  ".join('{| ji_id := unhex "%s"; ji_path := unhex "%s"; ji_fork := unhex "%s"; ji_kind := %s |}'
                      % (hexs(j), hexs(p), hexs(f), k) for j, (p, f, k) in sorted(jobs.items()))
    el = "; ".join('%s (unhex "%s")' % (k, hexs(j)) for k, j in events)
    return ("Definition prog_%d : program := %s.\nDefinition jobs_%d : list jobinfo := [%s].\n"
            "Definition evs_%d : list ev := [%s].\n"
            "Definition t_%d := Eval vm_compute in check_trace prog_%d jobs_%d evs_%d.\n"
            % (i, prog, i, jl, i, el, i, i, i, i))


HEADER = ("From Coq Require Import String.\n"
          "From Martian Require Import Lib.Bytes Json.Json Mro.Sem Mro.Deps Mro.Sched Mro.TraceCheck.\n"
          "Open Scope string_scope.\n")


def build(cases):
    """cases: list of (dir, jobs, events)."""
    parts = [HEADER]
    for i, (d, jobs, events) in enumerate(cases):
        parts.append(case_text(i, d, jobs, events))
    parts.append("Definition R := Eval vm_compute in [%s].\nPrint R.\n" % "; ".join(
        "(tv_valid t_%d, tv_first_bad t_%d, tv_once t_%d, tv_all_done t_%d)" % (i, i, i, i) for i in range(len(cases))))
    return "\n".join(parts)


def parse(out):
    m = re.search(r'R\s*=\s*\[(.*)\]\s*:', out, re.S)
    if not m:
        return None
    res = []
    for t in re.findall(r'\(\s*(true|false),\s*(None|Some \d+),\s*(true|false),\s*(true|false)\s*\)', m.group(1)):
        res.append({"valid": t[0] == "true", "first_bad": None if t[1] == "None" else int(t[1].split()[1]),
                    "once": t[2] == "true", "all_done": t[3] == "true"})
    return res
