#!/bin/bash
# confirm_seed.sh <cNN> "<demo command run from the worktree root>"
# Confirms in the scratch worktree /tmp/seed_<cNN>: the patch applies, the code
# builds, the existing test suite passes, the demo fails with the patch and
# passes without it.  Prints one line per step.
set -u
id=$1; demo=$2
wt=/tmp/seed_$id; out=/tmp/seedout_$id
export GOFLAGS=-mod=mod GOPROXY=off GOSUMDB=off GOTOOLCHAIN=local
cd $wt || exit 2
git checkout -q -- . ; git status --porcelain --untracked-files=no | grep -q . && { echo "worktree dirty"; exit 2; }
git apply $out/patch.diff && echo "apply: ok" || { echo "apply: FAILED"; exit 1; }
go build ./... && echo "build: ok" || echo "build: FAILED"
if go test -vet=off -count=1 ./... > /tmp/seedtest_$id.log 2>&1; then echo "tests with patch: pass"; else echo "tests with patch: FAIL"; grep -v "^ok\|no test files" /tmp/seedtest_$id.log | head -5; fi
( eval "$demo" ) > /tmp/seeddemo_$id.with 2>&1; echo "demo with patch: exit $?"
git checkout -q -- .
( eval "$demo" ) > /tmp/seeddemo_$id.without 2>&1; echo "demo without patch: exit $?"
git status --porcelain | head -3
