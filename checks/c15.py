"""C15 - re-attach is refused iff the invocation's meaning (not merely its text) changed."""
import json
import os
import random
import re
import subprocess

import lib

MANIFEST = {
 "category": "proof",
 "text": "Coq theorems C15_equiv_sound / C15_equiv_complete: for ALL pairs of compiled programs (any size, any nesting of pipelines, no bound) the model of Ast.EquivalentCall (K/Equiv.v: CallStm/Pipeline/Stage.EquivalentTo, BindStms.Equals, Modifiers.EquivalentTo, In/OutParams.Equals, Exp.equal incl. an exact model of the float64 tolerance arithmetic) accepts the pair iff their normal forms have the same content, where norm erases exactly formatting/comments/include structure (not in the Ast), file-type names, the callable name behind an alias, volatile/help/src/resources/retain, and keeps call names, argument values, parameter names and types, split flag, return bindings, local/preflight and the disabled binding. C15_lock_exclusion: in every interleaving of lock events, an instance whose check follows another instance's lock write is refused and never holds the pipestance; read-only attach is always admitted. The model is tied to /repo on every run: modifier name, wildcard id and the tolerance literal are regenerated from the Go AST; EquivalentCall (both directions) is compared with the model on Asts dumped from martian's own compiler for generated program pairs (original, one edit from a catalogue of ~60 cosmetic/semantic/unclassified edits at a random site of the transitive closure) and Exp.equal on thousands of literal pairs dense around the tolerance and 2^53; a kernel vm_compute sample; and the property is read directly on the implementation (cosmetic edit accepted, semantic edit refused). When implementation and model disagree on a case, a property-level failing input is searched: complete program pairs are built from the disagreeing cases (a literal becomes a stage argument in a library pipeline) and the property is decided on the implementation alone (meaning = martian's resolved call graph, decision = EquivalentCall as called by reattachToPipestance). Real mrp start/attach sequences (edited library, second instance against a live lock, --inspect admitted, --inspect refused leaving the live lock).",
 "note": "Trusted: Coq kernel; extraction cross-checked in-kernel on a sample; extractconsts; astdump (walks exported fields of syntax.Ast). Hypotheses wf_ast (distinct names, bindings cover the callee's parameters - evaluated on every dumped Ast) and existence of the normal form (evaluated on every pair). Guards, each a recorded known finding with a refutation theorem: float literals within the 1e-15 relative tolerance compare equal (C15_float_tolerance_refuted); struct types are compared by name only (C15_struct_member_refuted). Not modelled: the byte comparison of the invocation file with _invocation that precedes the Ast comparison (exercised end to end; it refuses even a reformatted invocation file), the TOCTOU window between lock check and lock write (C15_lock_toctou, outside the statement), MergeExp/DisabledExp/RefExp.Forks (do not occur in a compiled Ast).",
 "technique": "Coq proof (induction on fuel over the call tree, nested induction on expressions, pigeonhole on duplicate-free name lists) + differential correspondence on compiler-dumped Asts + edit-catalogue oracle",
}


def same(case, impl, model):
    return impl.split()[:2] == model.split()[:2]


def check(ctx, args):
    ctx.trusted_base = [
        "Coq 8.16.1 kernel (coqc, vm_compute; no native_compute)",
        "axioms: none (Print Assumptions: Closed under the global context for every theorem)",
        "extraction: ExtrOcamlBasic only, OCaml 4.13.1; cross-checked on a sample against vm_compute in the kernel",
        "harness/cmd/extractconsts equiv.go (disabled modifier name, wildcard id, tolerance literal as exact float64)",
        "harness/internal/astdump: renders martian's compiled syntax.Ast as Mro/Ast.v values (Coq term and OCaml transport from one tree)",
        "martian's own parser/compiler produces the Asts both sides are run on",
    ]
    ctx.assumptions = [
        "programs are compiled Asts (wf_ast: duplicate-free names, bindings cover the callee's parameters, Modifiers non-nil); evaluated on every dumped Ast",
        "numeric literals are compared up to the implementation's tolerance (recorded known finding C15-float-tolerance)",
        "struct types are compared by name (recorded known finding C15-struct-definition)",
        "the lock theorem orders the first instance's write before the second instance's check (the check-then-write window is outside the statement)",
        "the byte comparison with _invocation is not modelled (exercised in the thorough tier)",
    ]
    okb = ctx.build_harness()
    oke = ctx.extract_consts(["Equiv"])
    okc = ctx.coq_build()
    if okc:
        ctx.property_theorems()
    s = ctx.scratch
    cases, impl, model, oracle = (os.path.join(s, n) for n in ("cases.txt", "impl.txt", "model.txt", "oracle.txt"))
    if not okb:
        return ctx.finish("proof")
    p = ctx.vh_run(["c15", "gen", ctx.tier, str(ctx.seed)], out_path=cases)
    gen_log = p.stderr.decode(errors="replace")
    skipped = gen_log.count("does not compile")
    ctx.vh_run(["c15", "impl", s], stdin_path=cases, out_path=impl)
    case_lines = open(cases).read().splitlines()
    impl_lines = open(impl).read().splitlines()
    ctx.oblige("generator produced program pairs and literal pairs (%d cases)" % len(case_lines),
               len([c for c in case_lines if c.startswith("p ")]) > 100 and len(impl_lines) == len(case_lines),
               gen_log[-600:])
    # -- correspondence, volume: extracted model on the dumped Asts
    if okc:
        ctx.model_run("c15", cases, model)
        n, mism = lib.diff_lines(impl, model, cases, same, limit=600)
        def brief(m):
            f = m[1].split(" ")
            return "%s impl=%s model=%s" % (" ".join(f[:3]) if f[0] == "p" else " ".join(f[:3]), m[2][:20], m[3][:40])
        ctx.oblige("correspondence: Ast.EquivalentCall / Exp.equal (both directions) == K.Equiv.equiv_call / exp_equal on %d cases (extracted model on compiler-dumped Asts)" % n,
                   not mism, "; ".join(brief(m) for m in mism[:6] if m))
        if mism:
            search(ctx, [m for m in mism if m])
        model_lines = open(model).read().splitlines()
        bad_wf = [i for i, (c, m) in enumerate(zip(case_lines, model_lines))
                  if c.startswith("p ") and not m.endswith("wf=TT cache=TT fuel=TTT")]
        ctx.oblige("every dumped Ast satisfies the theorems' hypotheses (wf_ast, normal form exists, comparison decides) and the cached file kinds agree with the type table",
                   not bad_wf, "; ".join("%s -> %s" % (" ".join(case_lines[i].split(" ")[:3]), model_lines[i]) for i in bad_wf[:5]))
        # -- correspondence, kernel: a sample evaluated by vm_compute
        np_, ne_ = (40, 300) if ctx.tier != "thorough" else (120, 1500)
        pk = ctx.vh_run(["c15", "coq", cases, impl, str(np_), str(ne_)])
        rc, out = ctx.coq_eval(pk.stdout.decode(), "c15_cases", timeout=1500)
        flat = out.replace("\n", " ")
        okk = rc == 0 and "M = []" in flat and "COUNT = (%d, %d)" % (np_, ne_) in flat
        ctx.oblige("correspondence: kernel vm_compute of equiv_call / exp_equal on %d program pairs and %d literal pairs equals the implementation" % (np_, ne_),
                   okk, out[-600:])
        ctx.coverage["kernel_sample"] = np_ + ne_
    # -- the property read directly on the implementation
    ctx.vh_run(["c15", "oracle", s], stdin_path=cases, out_path=oracle)
    n_ok = n_fail = n_skip = 0
    for o, c in zip(open(oracle).read().splitlines(), case_lines):
        if o == "ok":
            n_ok += 1
        elif o == "skip":
            n_skip += 1
        elif o.startswith("FAIL"):
            n_fail += 1
            f = o.split(" ", 2)
            cf = c.split(" ")
            src_a = json.loads(bytes.fromhex(cf[3]).decode())
            src_b = json.loads(bytes.fromhex(cf[4]).decode())
            ctx.fail(f[1], f[2][:400], {"edit": cf[2], "class": cf[1], "original": src_a, "edited": src_b,
                                         "observed": f[2],
                                         "how": "compile both with martian, newAst.EquivalentCall(oldAst) as in Runtime.reattachToPipestance; replay: echo <case line> | vh c15 oracle"})
    # -- real mrp runs
    e2e(ctx)
    kinds, edits = {}, {}
    for c in case_lines:
        f = c.split(" ", 3)
        kinds[f[0]] = kinds.get(f[0], 0) + 1
        if f[0] == "p":
            edits.setdefault(f[1], {}).setdefault(f[2], 0)
            edits[f[1]][f[2]] += 1
    ctx.coverage.update({
        "evaluations": len(case_lines),
        "distinct_nontrivial": lib.distinct_count(cases, lambda l: l.startswith("p ") or len(l) > 40),
        "rule": "random MRO programs (2-3 file types, structs, 3-4 stages with random typed params incl. T[], map<T>, structs, split stages, nested + aliased + mapped pipeline calls, wildcard bindings, disabled/local/preflight/volatile) x one edit per catalogue entry at a random site; literal pairs: floats 0..12 ulps apart incl. subnormal/huge, ints around 2^53/2^63 vs floats, nested arrays/maps; distinct by case text",
        "case_kinds": {"program_pairs": kinds.get("p", 0), "literal_pairs": kinds.get("e", 0)},
        "edits": {"cosmetic": edits.get("c", {}), "semantic": edits.get("s", {}), "unclassified": edits.get("u", {})},
        "skipped_did_not_compile": skipped,
        "oracle_ok": n_ok, "oracle_fail": n_fail, "oracle_skip": n_skip,
        "exhaustive": False,
    })
    ctx.samples = [" ".join(c.split(" ")[:3]) for c in case_lines if c.startswith("p ")][:6] + \
                  [" ".join(bytes.fromhex(x).decode() for x in c.split(" ")[1:3]) for c in case_lines if c.startswith("e ")][200:204]
    return ctx.finish("proof")


def lit_kind(hexlit):
    t = bytes.fromhex(hexlit).decode(errors="replace") if hexlit != "-" else ""
    if re.fullmatch(r"-?\d+", t):
        return "int"
    if re.fullmatch(r"-?[\d.]+([eE][+-]?\d+)?", t):
        return "float"
    return t[:1] or "empty"


def search(ctx, mism):
    """The implementation and the model disagree on some correspondence cases:
    look for a PROPERTY-LEVEL failing input.  For a diverse sample of those
    cases `vh c15 search` builds a pair of complete programs (the two program
    texts of an Ast pair; for a literal pair an invocation whose library
    pipeline binds the literal to a stage parameter), and decides the property
    on the implementation alone: the meaning (resolved call graph built by
    martian: node ids, resolved argument values, disabled expressions,
    split/local/preflight, parameter types) changed yet
    newAst.EquivalentCall(oldAst) - the call reattachToPipestance makes -
    accepts, or the meaning is the same yet it refuses."""
    groups = {}
    for idx, case, a, b in mism:
        f = case.split(" ")
        ia, ib = (a.split() + ["?", "?"])[:2], (b.split() + ["?", "?"])[:2]
        if "?" in ia + ib:
            continue
        if f[0] == "p":
            key = ("p", f[2], tuple(ia), tuple(ib))
        elif f[0] == "e":
            key = ("e", lit_kind(f[1]), lit_kind(f[2]), tuple(ia), tuple(ib))
        else:
            continue
        groups.setdefault(key, []).append("%s %s %s %s %s" % (ia[0], ia[1], ib[0], ib[1], case))
    picked = []
    for key in sorted(groups):
        picked += groups[key][:3]
    picked = picked[:90]
    if not picked:
        return
    inp = os.path.join(ctx.scratch, "search_in.txt")
    with open(inp, "w") as f:
        f.write("\n".join(picked) + "\n")
    q = ctx.vh_run(["c15", "search"], stdin_path=inp, timeout=900)
    nfound = 0
    for l in q.stdout.decode(errors="replace").splitlines():
        if not l.startswith("FOUND "):
            continue
        _, cls, hx = l.split(" ", 2)
        rep = json.loads(bytes.fromhex(hx).decode())
        nfound += 1
        detail = "%s; meaning changed: %s" % (rep.get("decision", ""), rep.get("meaning_changed"))
        if "literal_original" in rep:
            detail += "; argument %s -> %s (parameter type %s)" % (rep["literal_original"], rep["literal_edited"], rep["parameter_type"])
        ctx.fail(cls, detail[:400], rep)
    ctx.coverage["property_search"] = {"disagreeing_cases": len(mism), "groups": len(groups),
                                       "pairs_built_from": len(picked), "failing_inputs_found": nfound}


def e2e(ctx):
    """Real mrp on a real directory: start, re-attach with edited library,
    second instance against a live lock, --inspect."""
    d = os.path.join(ctx.scratch, "e2e")
    os.makedirs(d, exist_ok=True)
    p = lib.run(["go", "build", "-o", os.path.join(d, "bin") + "/", "./cmd/mrp", "./cmd/mrjob"],
                cwd=lib.REPO, env=lib.GOENV, timeout=900)
    if not ctx.oblige("mrp and mrjob build from the repository", p.returncode == 0, p.stdout[-800:]):
        return
    for n in ("jobmanagers", "adapters"):
        os.symlink(os.path.join(lib.REPO, n), os.path.join(d, n))
    q = ctx.vh_run(["c15", "e2e", d, str(ctx.seed)], timeout=1500)
    out = q.stdout.decode(errors="replace")
    lines = [l for l in out.splitlines() if l.startswith(("ok ", "FAIL ", "skip "))]
    fails = [l for l in lines if l.startswith("FAIL ")]
    ctx.oblige("end to end: %d mrp start/attach scenarios ran" % len(lines), len(lines) >= 6 and q.returncode == 0,
               (out + q.stderr.decode(errors="replace"))[-1200:])
    for l in fails:
        f = l.split(" ", 2)
        ctx.fail(f[1], f[2][:400], {"scenario": f[1], "observed": f[2], "how": "vh c15 e2e <dir with bin/mrp> <seed>"})
    ctx.coverage["e2e_scenarios"] = [l[:160] for l in lines]
