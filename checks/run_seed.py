#!/usr/bin/env python3
"""Run the checks against a seeded change.

  checks/run_seed.py <seeded/ID dir> [PROP ...]

Applies <dir>/patch.diff to /repo's working tree (git apply), runs the quick
check of the property named in meta.json (and any extra PROP given), records
the outcome in <dir>/result.json, and ALWAYS restores /repo (git checkout -- .).
"""
import json
import os
import subprocess
import sys
import time

VERIF = os.path.dirname(os.path.dirname(os.path.abspath(__file__)))
REPO = "/repo"


def main():
    d = os.path.abspath(sys.argv[1])
    meta = json.load(open(os.path.join(d, "meta.json")))
    props = [meta["property"]] + sys.argv[2:]
    st = subprocess.run(["git", "-C", REPO, "status", "--porcelain", "--untracked-files=no"], capture_output=True, text=True).stdout
    if st.strip():
        sys.exit("refusing: /repo working tree is not clean:\n" + st)
    results = {}
    try:
        subprocess.run(["git", "-C", REPO, "apply", os.path.join(d, "patch.diff")], check=True)
        for p in props:
            t0 = time.time()
            r = subprocess.run([os.path.join(VERIF, "bin", "check"), p, "--tier", os.environ.get("SEED_TIER", "quick")],
                               capture_output=True, text=True, cwd=VERIF)
            lines = [l for l in r.stdout.splitlines() if l.startswith(("VIOLATION", "KNOWN-FINDING")) or " quick:" in l or " thorough:" in l]
            viol = [l for l in lines if l.startswith("VIOLATION")]
            replay = None
            if viol:
                path = viol[0].split("replay=")[1].split()[0]
                try:
                    replay = json.load(open(path))
                except Exception:
                    replay = None
            results[p] = {"exit": r.returncode, "caught": r.returncode == 1 and bool(viol),
                          "violation_lines": viol, "wall_s": round(time.time() - t0, 1),
                          "replay_class": (replay or {}).get("class"),
                          "replay_minimal": json.dumps((replay or {}).get("minimal", (replay or {}).get("no_longer_checks")))[:1500]}
            print(p, "caught" if results[p]["caught"] else "MISSED", viol[:2])
    finally:
        subprocess.run(["git", "-C", REPO, "checkout", "--", "."], check=True)
    json.dump({"ran": props, "results": results, "at_repo_commit": subprocess.run(["git", "-C", REPO, "rev-parse", "--short", "HEAD"], capture_output=True, text=True).stdout.strip()},
              open(os.path.join(d, "result.json"), "w"), indent=1)
    # evidence files were rewritten by the mutated run: regenerate on the clean tree
    for p in props:
        subprocess.run([os.path.join(VERIF, "bin", "check"), p, "--tier", "quick"], capture_output=True, text=True, cwd=VERIF)


if __name__ == "__main__":
    main()
