#!/usr/bin/env python3
"""Regenerates MANIFEST.json from checks/manifest_data.py (kept valid at all times)."""
import json
import os
import sys

sys.path.insert(0, os.path.dirname(os.path.abspath(__file__)))
import glob
import importlib

CHECKS = {}
NOT_YET = {}
# checks/claimed.txt: the properties whose check is integrated (hooks merged
# into /repo, passes on the unchanged tree); one id per line
CLAIMED = set(open(os.path.join(os.path.dirname(os.path.abspath(__file__)), "claimed.txt")).read().split())
for path in sorted(glob.glob(os.path.join(os.path.dirname(os.path.abspath(__file__)), "c[0-9][0-9].py"))):
    name = os.path.basename(path)[:-3]
    mod = importlib.import_module(name)
    if hasattr(mod, "MANIFEST") and name.upper() in CLAIMED:
        CHECKS[name.upper()] = mod.MANIFEST

VERIF = os.path.dirname(os.path.dirname(os.path.abspath(__file__)))
ids = [json.loads(l)["id"] for l in open(os.path.join(VERIF, "properties.jsonl"))]
checks = []
for pid in ids:
    if pid not in CHECKS:
        continue
    c = CHECKS[pid]
    checks.append({
        "property_id": pid,
        "quick_cmd": "bin/check %s --tier quick" % pid,
        "thorough_cmd": "bin/check %s --tier thorough" % pid,
        "evidence_file": "/verif/evidence/%s.json" % pid,
        "replay_cmd_template": "bin/check %s --replay {path}" % pid,
        "engine": "coq-proof+correspondence",
        "level_claimed": {"category": c["category"], "text": c["text"], "design_ref": c.get("design_ref", "DESIGN.md section 6, " + pid)},
        "level_note": c["note"],
        "technique": c["technique"],
    })
man = {
    "version": 1,
    "setup_cmd": "make -C /verif build && cd /verif/harness && cp /repo/go.sum . && GOFLAGS=-mod=mod GOPROXY=off GOSUMDB=off GOTOOLCHAIN=local go build -tags verif github.com/martian-lang/martian/martian/... github.com/martian-lang/martian/cmd/... ./internal/... ./cmd/extractconsts",
    "hooks": {
        "guard": "verif",
        "enable": "go build -tags verif (add-only files martian/*/verif_export*.go guarded by //go:build verif)",
        "baseline_off_cmd": "cd /repo && GOFLAGS=-mod=mod GOPROXY=off GOSUMDB=off GOTOOLCHAIN=local go test -vet=off -count=1 ./...",
        "source_commits": open(os.path.join(VERIF, "checks", "hook_commits.txt")).read().split(),
        "add_only": True,
    },
    "engines": [{
        "name": "coq-proof+correspondence",
        "path": "/verif/coq (models, proofs, Properties/Cxx.v), /verif/harness (Go harness against /repo), /verif/ocaml (extracted model drivers), /verif/checks",
        "serves_properties": [c["property_id"] for c in checks],
        "kind_free_text": "machine-checked proof in Coq 8.16.1 about hand-written executable models; models tied to /repo on every run by constants regenerated from the Go AST and by a correspondence check (implementation vs extracted model vs kernel vm_compute) plus an implementation-side property oracle",
    }],
    "checks": checks,
    "notes": "See DESIGN.md. known_findings.json lists recorded and fixed defects.",
    "not_applicable": [{"property_id": p, "reason": NOT_YET.get(p, "not yet built in this round; see DESIGN.md section 6 for the plan")} for p in ids if p not in CHECKS],
}
with open(os.path.join(VERIF, "MANIFEST.json"), "w") as f:
    json.dump(man, f, indent=1)
print("MANIFEST.json: %d checks, %d not claimed" % (len(checks), len(man["not_applicable"])))
