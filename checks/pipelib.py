"""Shared pipeline-run machinery for the runtime properties
(C01 C02 C03 C05 C06 C04 C14): building mrp/mrjob from the repository under
test, generating programs, running them, and evaluating the Coq model."""
import glob
import json
import os
import re
import shutil
import subprocess

import lib
import semcases

PIPE_FILES = ["stage.go", "pipe.go"]


def build_martian(ctx):
    """mrp and mrjob from the repository's current tree, laid out the way
    util.RelPath expects (<d>/bin, <d>/jobmanagers, <d>/adapters)."""
    d = os.path.join(ctx.scratch, "mart")
    os.makedirs(os.path.join(d, "bin"), exist_ok=True)
    p = lib.run(["go", "build", "-o", os.path.join(d, "bin") + "/", "./cmd/mrp", "./cmd/mrjob"],
                cwd=lib.REPO, env=lib.GOENV, timeout=900)
    ok = p.returncode == 0
    ctx.oblige("mrp and mrjob build from the repository's current tree", ok, p.stdout[-1500:])
    for n in ("jobmanagers", "adapters"):
        dst = os.path.join(d, n)
        if not os.path.lexists(dst):
            os.symlink(os.path.join(lib.REPO, n), dst)
    ctx.mart = d
    return ok


def gen_programs(ctx, n, seed, sub="progs"):
    out = os.path.join(ctx.scratch, sub)
    p = ctx.vh_run(["c01", "genprogs", out, str(n), str(seed), ctx.vh + " __stage"])
    stats = json.loads(p.stdout.decode().strip().splitlines()[-1])
    return out, stats


def run_programs(ctx, progs, psid, sched=None, par=12, timeout=3000):
    args = ["c01", "run", progs, ctx.mart, str(par), psid]
    if sched:
        args.append(sched)
    p = ctx.vh_run(args, timeout=timeout)
    res = {}
    for line in p.stdout.decode().splitlines():
        m = re.match(r'(\S+) exit=(-?\d+) jobs=(\d+) ms=(\d+)', line)
        if m:
            res[m.group(1)] = {"exit": int(m.group(2)), "jobs": int(m.group(3)), "ms": int(m.group(4))}
    return res


def classify_bad_run(logtext, info):
    """A run that did not complete: what kind."""
    if info["exit"] == -2:
        if "%2F" in logtext:
            return "hang_nested_forks"
        return "hang"
    m = re.search(r'^panic: (.*)$', logtext, re.M)
    if m:
        msg = re.sub(r'0x[0-9a-f]+', 'X', m.group(1))[:80]
        where = re.search(r'martian/(?:core|syntax)\.[^\n]*\n\s*/\S+/martian/(\S+?\.go):\d+', logtext[m.end():])
        return "panic: %s @%s" % (msg, where.group(1) if where else "?")
    if info["jobs"] == 0 and re.search(r'^MRO \w+Error', logtext, re.M):
        return "compile_reject"
    if "Could not write jobinfo file" in logtext and "%2F" in logtext:
        return "abort_nested_forks"
    return "failed_run"


def coq_compare(ctx, dirs, obsfile, shard=25, par=8):
    """Evaluate Sem on every program and compare with the observations.
    Returns {dir: True/False} and the list of coq failures."""
    procs = []
    results, errors = {}, []
    root = os.path.join(ctx.scratch, "coq_" + obsfile.replace(".", "_"))
    shards = [dirs[k:k + shard] for k in range(0, len(dirs), shard)]
    running = []

    def reap(item):
        sh, p, d = item
        out, err = p.communicate()
        ok = semcases.parse_ok(out)
        if ok is None or len(ok) != len(sh):
            errors.append((d, (out + err)[-1500:]))
            return
        for dd, o in zip(sh, ok):
            results[dd] = o
    for k, sh in enumerate(shards):
        d = os.path.join(root, "sh%d" % k)
        os.makedirs(d, exist_ok=True)
        with open(os.path.join(d, "cases.v"), "w") as f:
            f.write(semcases.build(sh, obsfile))
        running.append((sh, subprocess.Popen(["timeout", "900", "coqc", "-Q", lib.COQ, "Martian", os.path.join(d, "cases.v")],
                                             stdout=subprocess.PIPE, stderr=subprocess.PIPE, text=True, cwd=d), d))
        if len(running) >= par:
            reap(running.pop(0))
    for item in running:
        reap(item)
    return results, errors


def coq_detail(ctx, d, obsfile):
    """Human-readable diff (missing/extra observations, model outs) for one program."""
    txt = semcases.HEADER + semcases.case_text(0, d, obsfile) + semcases.detail(0)
    rc, out = ctx.coq_eval(txt, "detail_" + os.path.basename(d))
    out = re.sub(r'\s+', ' ', out)

    def dec(m):
        try:
            return '"' + bytes.fromhex(m.group(1)).decode('utf8', 'replace') + '"'
        except ValueError:
            return m.group(0)
    return re.sub(r'"([0-9a-f]*)"(?:%string)?', dec, out)[:3000]


def mismatch_paths(ctx, d, obsfile):
    """(missing paths, extra paths, model paths, outs_ok) of a mismatching run."""
    txt = semcases.HEADER + semcases.case_text(0, d, obsfile) + semcases.paths(0)
    rc, out = ctx.coq_eval(txt, "paths_" + os.path.basename(d))
    m = re.search(r'P_0\s*=\s*\((.*)\)\s*:', out, re.S)
    if not m:
        return None
    body = m.group(1)
    lists = re.findall(r'\[(.*?)\]', body, re.S)
    if len(lists) < 3:
        return None

    def dec(l):
        return [bytes.fromhex(x).decode() for x in re.findall(r'"([0-9a-f]*)"', l)]
    return dec(lists[0]), dec(lists[1]), dec(lists[2]), body.strip().endswith("true")


def classify_mismatch(ctx, d, obsfile):
    """Narrow class for one recorded behaviour: a stage inside a pipeline that is
    mapped over a collection with no elements at run time still runs (once) when
    its arguments do not depend on the element.  Returns the known class or None."""
    r = mismatch_paths(ctx, d, obsfile)
    if not r:
        return None
    missing, extra, model, outs_ok = r
    if missing or not extra or not outs_ok:
        return None
    try:
        mapped = [l.strip() for l in open(os.path.join(d, "mapped_pipelines.txt")) if l.strip()]
    except OSError:
        return None
    for x in extra:
        ok = False
        for mp in mapped:
            if x.startswith(mp + ".") and not any(y == mp or y.startswith(mp + ".") for y in model):
                ok = True
        if not ok:
            return None
    return "independent_stage_runs_under_empty_map"


def save_replay(ctx, d, name, extra):
    """Copy a program directory (source, spec, observations, logs) as a replay."""
    dst = os.path.join(lib.VERIF, "replays", ctx.prop, name)
    shutil.rmtree(dst, ignore_errors=True)
    os.makedirs(dst, exist_ok=True)
    for f in glob.glob(os.path.join(d, "*")):
        if os.path.isfile(f) and os.path.getsize(f) < 2_000_000:
            shutil.copy(f, dst)
    with open(os.path.join(dst, "replay.json"), "w") as f:
        json.dump(extra, f, indent=1)
    return os.path.join(dst, "replay.json")


def trace_check(ctx, cases, tag, shard=30, par=8):
    """cases: list of (dir, jobs, events). Returns list of verdict dicts (None where coq failed)."""
    import schedcases
    root = os.path.join(ctx.scratch, "coqtr_" + tag)
    shards = [cases[k:k + shard] for k in range(0, len(cases), shard)]
    out_res = []
    running = []
    errors = []

    def reap(item):
        sh, p, d = item
        out, err = p.communicate()
        r = schedcases.parse(out)
        if r is None or len(r) != len(sh):
            errors.append((out + err)[-1200:])
            out_res.extend([None] * len(sh))
        else:
            out_res.extend(r)
    for k, sh in enumerate(shards):
        d = os.path.join(root, "sh%d" % k)
        os.makedirs(d, exist_ok=True)
        with open(os.path.join(d, "cases.v"), "w") as f:
            f.write(schedcases.build(sh))
        running.append((sh, subprocess.Popen(["timeout", "900", "coqc", "-Q", lib.COQ, "Martian", os.path.join(d, "cases.v")],
                                             stdout=subprocess.PIPE, stderr=subprocess.PIPE, text=True, cwd=d), d))
        if len(running) >= par:
            reap(running.pop(0))
    for item in running:
        reap(item)
    return out_res, errors


def splits_of(d):
    return set(open(os.path.join(d, "splits.txt")).read().split())


PIPE_FILES = ["stage.go", "pipe.go", "pipe_faults.go"]


def scenario(ctx, kind, args, timeout=400):
    """Run one crash/fault scenario driver (vh c05 crashrun / vh c06 faultrun)."""
    p = ctx.vh_run([kind[0], kind[1]] + [str(a) for a in args], timeout=timeout)
    out = p.stdout.decode().strip().splitlines()
    try:
        return json.loads(out[-1])
    except (IndexError, ValueError):
        return {"incarnations": [], "outs": "", "driver_error": (p.stdout + p.stderr).decode()[-800:]}


def clean_jobs(d, psid="ps0"):
    """Job ids (in start order), stage and phase of each, from a clean run's event log."""
    jobs = []
    for line in open(os.path.join(d, psid + ".events")):
        f = line.split()
        if len(f) >= 5 and f[1] == "start":
            jobs.append((f[2], f[3], f[4]))
    return jobs


def clean_outs(d, psid="ps0"):
    for line in open(os.path.join(d, psid + ".obs")):
        if line.startswith("outs "):
            return line.split()[1]
    return ""


def parallel(fn, items, par=8):
    from concurrent.futures import ThreadPoolExecutor
    with ThreadPoolExecutor(max_workers=par) as ex:
        return list(ex.map(fn, items))


def run_known_corpus(ctx):
    """Programs kept for recorded (not repaired) defects of the runtime
    (corpus/known/<id>/).  Each is run with the current mrp: if it completes
    with the correct result the defect is gone and nothing is reported; if it
    fails the way the finding says, that is the KNOWN-FINDING; any other
    failure is a violation."""
    n = 0
    def ls(kind):
        d = os.path.join(lib.VERIF, "corpus", kind)
        return sorted(x for x in os.listdir(d) if os.path.isdir(os.path.join(d, x))) if os.path.isdir(d) else []
    entries = [("known", x) for x in ls("known")] + [("regress", x) for x in ls("regress")]
    for kind, name in entries:
        root = os.path.join(lib.VERIF, "corpus", kind)
        meta = json.load(open(os.path.join(root, name, "meta.json")))
        if ctx.prop not in meta["properties"]:
            continue
        d = os.path.join(ctx.scratch, "known_" + name)
        os.makedirs(d, exist_ok=True)
        src = open(os.path.join(root, name, "pipeline.mro")).read().replace("@STAGE@", ctx.vh + " __stage")
        open(os.path.join(d, "pipeline.mro"), "w").write(src)
        shutil.copy(os.path.join(root, name, "spec.json"), d)
        env = dict(os.environ, MROPATH=d, VH_SPEC=os.path.join(d, "spec.json"), VH_EVENTS=os.path.join(d, "ps.events"))
        if meta.get("sched"):
            env["VH_SCHED"] = meta["sched"]
        try:
            p = subprocess.run([os.path.join(ctx.mart, "bin", "mrp"), "pipeline.mro", "ps", "--localcores=4", "--localmem=4",
                                "--disable-ui", "--nopreflight"], cwd=d, env=env, stdout=subprocess.PIPE,
                               stderr=subprocess.STDOUT, text=True, timeout=40)
            out, rc = p.stdout, p.returncode
        except subprocess.TimeoutExpired as e:
            out, rc = (e.stdout or b"").decode() if isinstance(e.stdout, bytes) else (e.stdout or ""), -2
        n += 1
        outs = ""
        try:
            outs = lib.run([ctx.vh, "c01", "topouts", d, "ps"], timeout=30).stdout.strip()
        except Exception:
            pass
        jobs_ok = True
        jobs = {}
        if meta.get("expect_main_jobs"):
            try:
                for line in open(os.path.join(d, "ps.events")):
                    f = line.split()
                    if len(f) >= 5 and f[1] == "start" and f[4] == "main":
                        jobs[f[3]] = jobs.get(f[3], 0) + 1
            except OSError:
                pass
            jobs_ok = all(jobs.get(k, 0) == v for k, v in meta["expect_main_jobs"].items())
        if rc == 0 and outs == meta["expect_outs"] and jobs_ok:
            continue        # repaired / still correct
        if kind == "regress":
            # a minimal program for a defect that was repaired: it must stay correct
            ctx.fail("regression:" + name, "%s: exit %d, outs %s, expected %s; main jobs run %s, expected %s" % (
                         meta["what"], rc, outs, meta["expect_outs"], json.dumps(jobs, sort_keys=True),
                         json.dumps(meta.get("expect_main_jobs"), sort_keys=True)),
                     {"program": "corpus/regress/" + name, "exit": rc, "log_tail": out[-1500:], "outs": outs, "main_jobs": jobs})
            continue
        if re.search(meta["expect_regex"], out) or (rc == 0 and outs and outs == meta.get("expect_wrong_outs")):
            ctx.fail("corpus:" + name, meta["what"], {"program": name, "exit": rc, "log_tail": out[-800:]})
        else:
            ctx.fail("corpus_unexpected:" + name, "known-finding program %s fails differently (exit %d)" % (name, rc),
                     {"program": name, "exit": rc, "log_tail": out[-1500:], "outs": outs})
    return n
