"""C06 - a failing job fails the pipestance, blocks only its dependents, is reported."""
import json
import os
import random

import lib
import pipelib
import schedcases

MANIFEST = {
 "category": "proof",
 "text": "Over Mro/Sched.v, for every dependency relation and every history (unbounded, any interleaving): C06_failed_blocks_dependents (while a failed job is not reset, no job depending on it is ever started and it stays idle), C06_failed_never_complete (a failed job is never done, so the pipestance cannot be complete), C06_done_never_restarted (work completed before the failure is not re-executed after the restart), C06_restart_only_resets_unfinished (a reset is only ever enabled for a failed or running job). Tie (fault enumeration on the real mrp+mrjob): for generated programs, every job of a clean run is a candidate failure site x every manifestation (error message, assertion, non-zero exit, death by signal, truncated / unparseable _outs, missing output key, wrong JSON type; at split, chunk and join jobs; bad _stage_defs at splits, a split that fails after writing a different chunk list), with auto-retry off and on (persistent and one-shot transient faults). Checked on each run: mrp exits non-zero and never prints success, the failure report names the failing stage's directory, the observed history (start/fault/end records + incarnation boundaries) is accepted by Sched.valid_trace in the kernel (so no dependent started, nothing done was re-run), and after the fault is removed a restart completes with the outs of the clean run.",
 "note": "Proof about the scheduler model + fault enumeration against it. Known finding (recorded, not repaired): when a job exits successfully but its _outs is unparseable / lacks a key / is ill-typed, the failure is stored at fork (or chunk) level and a plain restart reports it again without re-executing anything. The retry classification (which error texts are transient) is exercised, not modelled. Missing keys in _stage_defs and in chunk outs of splitting stages are accepted by martian by design (treated as no chunks / null) and are not injected.",
 "technique": "Coq invariant proofs over all histories of a scheduler state machine + fault enumeration on real mrp with kernel-evaluated trace acceptance",
}

CONTENT = ("truncated", "invalid", "missing_key", "wrong_type", "null_value")
KINDS = ("error", "assert", "exit", "signal") + CONTENT


def check(ctx, args):
    ctx.trusted_base = [
        "Coq 8.16.1 kernel (coqc, vm_compute; no native_compute)",
        "axioms: none (Print Assumptions: Closed under the global context)",
        "vh __stage (fault injection and event log), vh c06 faultrun (scenario driver), checks/schedcases.py",
    ]
    ctx.assumptions = [
        "a fault is armed through a marker file; 'the fault is removed' = the driver deletes the marker before the restart",
        "the stage executable reproduces each manifestation the way real stage code / mrjob would (fd 4 error pipe, ASSERT: prefix, exit status, self-kill, bad file content)",
    ]
    okb = ctx.build_harness(extra=pipelib.PIPE_FILES)
    okm = pipelib.build_martian(ctx)
    okc = ctx.coq_build()
    if okc:
        ctx.property_theorems()
    if not (okb and okm):
        return ctx.finish("proof")
    quick = ctx.tier == "quick"
    nprog = 14 if quick else 120
    per_prog = 8 if quick else 24
    rnd = random.Random(ctx.seed)
    progs, stats = pipelib.gen_programs(ctx, nprog, ctx.seed + 6000)
    res = pipelib.run_programs(ctx, progs, "ps0")
    # the family "preflight gates everything" (pgen/chain.go): a failing
    # preflight job must hold back every call, at any nesting depth
    lib.GOENV["VH_GEN_MODE"] = "preflight_nested"
    try:
        progs_pf, _ = pipelib.gen_programs(ctx, 2 if quick else 12, ctx.seed + 6500, sub="progs_pf")
    finally:
        del lib.GOENV["VH_GEN_MODE"]
    res_pf = pipelib.run_programs(ctx, progs_pf, "ps0")
    scen = []
    nstale = 0
    allprogs = [(os.path.join(progs, n), n, i) for n, i in sorted(res.items())] + \
        [(os.path.join(progs_pf, n), "pf_" + n, i) for n, i in sorted(res_pf.items())]
    for d, name, info in allprogs:
        if info["exit"] != 0 or info["jobs"] < 2:
            continue
        jobs = pipelib.clean_jobs(d)
        splits = pipelib.splits_of(d)
        spec = json.load(open(os.path.join(d, "spec.json")))["stages"]
        noouts = {n for n, b in spec.items() if not b.get("outs")}
        # a split job that writes a shorter chunk list and then exits non-zero
        # (only telling where the clean run has at least two chunks)
        for jid, stage, phase in jobs:
            if phase == "split" and nstale < (6 if quick else 60) and \
                    sum(1 for j in jobs if j[0].startswith(jid[:-len("split")] + "chnk")) >= 2:
                nstale += 1
                scen.append({"dir": d, "prog": name, "site": jid, "stage": stage, "phase": phase,
                             "kind": "stale_defs", "retry": "0", "once": False, "psid": "f%d" % len(scen)})
        for k in range(per_prog):
            jid, stage, phase = rnd.choice(jobs)
            pfj = [j for j in jobs if j[1] == "PFCHECK"]
            if name.startswith("pf_") and pfj and k % 2 == 0:
                jid, stage, phase = pfj[0]
            kind = KINDS[(k + rnd.randrange(len(KINDS))) % len(KINDS)]
            if kind in ("missing_key", "wrong_type") and (phase == "split" or (phase == "main" and stage in splits)):
                # chunk definitions and chunk outs are validated against the declared
                # types only under --strict (Chunk.verifyOutput returns early at the
                # default enforcement level): by design, see MANIFEST note
                kind = "invalid"
            if kind == "null_value" and phase == "main" and stage in splits:
                kind = "invalid"      # chunk outs are not validated at the default enforcement level: a null is accepted
            if kind in CONTENT and stage in noouts:
                kind = "exit"         # a stage without output parameters: the content of _outs is never read
            retry, once = "0", False
            r = rnd.random()
            if kind == "signal" and r < 0.5:
                retry, once = "2", r < 0.25
            scen.append({"dir": d, "prog": name, "site": jid, "stage": stage, "phase": phase,
                         "kind": kind, "retry": retry, "once": once, "psid": "f%d" % len(scen)})

    def run(s):
        a = [s["dir"], ctx.mart, s["psid"], s["site"], s["kind"], s["retry"]] + (["once"] if s["once"] else [])
        s["res"] = pipelib.scenario(ctx, ("c06", "faultrun"), a)
        return s
    pipelib.parallel(run, scen, par=8)
    cases = []
    nchecked = 0
    kinds_seen = {}
    for s in scen:
        r = s["res"]
        incs = r.get("incarnations", [])
        tag = "%s at %s job" % (s["kind"], "chunk" if (s["phase"] == "main" and s["stage"] in pipelib.splits_of(s["dir"])) else s["phase"])
        kinds_seen[tag] = kinds_seen.get(tag, 0) + 1
        if not incs:
            ctx.fail("scenario_driver_error", str(r)[:300], {"scenario": {k: v for k, v in s.items() if k != "res"}})
            continue
        nchecked += 1
        rep = {"program": s["prog"], "site": s["site"], "kind": s["kind"], "autoretry": s["retry"], "once": s["once"],
               "exits": [i["exit"] for i in incs], "report": r.get("error_names"), "tail": incs[0]["tail"][-600:]}

        def fail(cls, msg):
            rp = pipelib.save_replay(ctx, s["dir"], s["prog"] + "_" + s["psid"], rep)
            ctx.fail(cls, "%s: %s (%s)" % (s["prog"], msg, tag), {"replay_dir": os.path.dirname(rp), "scenario": rep})
        transient_ok = s["once"] and s["retry"] != "0"
        first = incs[0]
        if transient_ok:
            if first["exit"] != 0:
                fail("transient_fault_not_retried", "one-shot signal with autoretry=%s did not complete" % s["retry"])
        else:
            if first["exit"] == 0 or "completed successfully" in first["tail"]:
                fail("failure_not_reported", "mrp exited %d / reported success although job %s failed" % (first["exit"], s["site"]))
                continue
            stage_dir = "/".join(p for p in s["site"].split(".") if not p.startswith(("chnk", "split", "join")))
            names = " ".join(r.get("error_names") or [])
            stage_path = stage_dir.rsplit("/fork", 1)[0]
            if stage_path not in names and stage_path.replace("/", ".") not in names:
                fail("error_does_not_name_failing_stage", "report %r does not name %s" % (names[-200:], stage_dir))
            last = incs[-1]
            if last["exit"] == 0 and r.get("outs") != pipelib.clean_outs(s["dir"]):
                fail("restart_after_fix_wrong_result", "restart completes but the outs differ from the clean run")
            elif last["exit"] == 0:
                # every job of the clean run was executed in some incarnation
                ran = set()
                for i in range(len(incs)):
                    try:
                        for l in open(os.path.join(s["dir"], "%s.inc%d.events" % (s["psid"], i))):
                            f = l.split()
                            if len(f) > 2 and f[1] == "start":
                                ran.add(f[2])
                    except OSError:
                        pass
                skipped = sorted(j[0] for j in pipelib.clean_jobs(s["dir"]) if j[0] not in ran)
                if skipped:
                    rep["jobs_never_executed"] = skipped
                    fail("restart_after_fix_skips_work", "restart completes, but jobs of the uninterrupted run were never executed: %s" % " ".join(skipped[:6]))
            elif last["exit"] != 0:
                evf = os.path.join(s["dir"], "%s.inc1.events" % s["psid"])
                rerun = os.path.exists(evf) and any(
                    l.split()[1:3] == ["start", s["site"]] for l in open(evf) if len(l.split()) > 2)
                if s["kind"] in CONTENT and len(incs) >= 2 and not rerun:
                    sitekind = "chunk" if (s["phase"] == "main" and s["stage"] in pipelib.splits_of(s["dir"])) else s["phase"]
                    fail("restart_after_invalid_outs_does_not_rerun:%s@%s" % (s["kind"], sitekind),
                         "restart after removing the fault exits %d" % last["exit"])
                else:
                    fail("restart_after_fix_fails", "restart after removing the fault exits %d / outs differ" % last["exit"])
        psids = ["%s.inc%d" % (s["psid"], i) for i in range(len(incs))]
        jobs, evs = schedcases.trace_of(s["dir"], psids, pipelib.splits_of(s["dir"]))
        if s["retry"] != "0":
            # in-process retries reset the failed job without a new incarnation
            evs2, failed = [], set()
            for k, j in evs:
                if k == "EFail":
                    failed.add(j)
                if k == "EReset":
                    failed.discard(j)
                if k == "EStart" and j in failed:
                    evs2.append(("EReset", j))
                    failed.discard(j)
                evs2.append((k, j))
            evs = evs2
            nstarts = sum(1 for k, j in evs if k == "EStart" and j == s["site"])
            if nstarts > 1 + int(s["retry"]) + 1:
                fail("retry_not_bounded", "job %s started %d times with autoretry=%s" % (s["site"], nstarts, s["retry"]))
        cases.append((s, jobs, evs))
    if okc and cases:
        verdicts, errors = pipelib.trace_check(ctx, [(s["dir"], j, e) for s, j, e in cases], "faults")
        ctx.oblige("fault histories evaluate in the kernel", not errors, "; ".join(errors[:2]))
        for (s, jobs, evs), v in zip(cases, verdicts):
            if v is None or v["valid"]:
                continue
            i = v["first_bad"]
            kind, jid = evs[i] if i is not None and i < len(evs) else ("?", "?")
            cls = {"EStart": "dependent_or_finished_job_started_after_failure"}.get(kind, "history_not_accepted_" + kind)
            rp = pipelib.save_replay(ctx, s["dir"], s["prog"] + "_" + s["psid"],
                                     {"scenario": {k: x for k, x in s.items() if k != "res"}, "rejected": [kind, jid], "history": evs[:i + 1]})
            ctx.fail(cls, "%s: event %s %s not enabled after failure of %s" % (s["prog"], kind, jid, s["site"]),
                     {"replay_dir": os.path.dirname(rp)})
    ctx.oblige("fault enumeration ran (%d scenarios)" % nchecked, nchecked > 0 and okc)
    ctx.samples = [{k: v for k, v in s.items() if k not in ("res", "dir")} for s in scen[:4]]
    ctx.coverage.update({
        "evaluations": nchecked, "distinct_nontrivial": len({(s["prog"], s["site"], s["kind"], s["retry"], s["once"]) for s in scen}),
        "rule": "scenario = (program, failing job, manifestation, autoretry, one-shot); sites drawn uniformly from the jobs of a clean run; distinct by that tuple",
        "traces_validated_against_impl": len(cases), "manifestation_sites": kinds_seen, "programs": nprog,
        "shape_distribution": stats,
    })
    return ctx.finish("proof")
