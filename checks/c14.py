"""C14 - VDR reclaims what it may and reports exactly what it removed."""
import lib
import pipelib
import vdrlib

MANIFEST = {
 "category": "proof",
 "text": "Coq theorems over Mro/Vdr.v (same model as C04), for ALL well-formed initial systems, ALL operation sequences (incl. restarts between partial and final clean-up) and all VDR modes; see coq/Properties/C14.v for the exact list (temporary directories gone after a partial kill of a complete fork, chunk files of splitting stages and unreferenced files of volatile/strict stages gone after the final sweep, every reported path removed, per-fork count and byte totals equal to what left the disk, kill paths inside the fork's own directories). Tie as for C04: op-sequence correspondence on real Fork objects after every step (incl. partial/final reports and the pipestance total), real mrp runs in the four modes whose final tree, per-fork _vdrkill and pipestance _vdrkill are compared with the model and with what the stages logged they wrote, a sentinel directory outside the pipestance, and a kernel sample.",
 "note": "Partial in the same ways as C04 (asynchronous goroutines exercised not enumerated, direct symlinks only, no RemoveAll/walk errors). Known finding: a symbolic link is accounted with its target's size. The collapsed path list of a report is checked on the implementation (every listed path is gone and inside the pipestance); the model lists every removed path.",
 "technique": "Coq proof (accounting invariant: current report = multiset of files that left the disk) + op-sequence correspondence on real Fork objects + trace validation of real mrp runs",
}


def check(ctx, args):
    ctx.trusted_base = vdrlib.TRUSTED
    ctx.assumptions = vdrlib.ASSUMPTIONS
    okb = ctx.build_harness(extra=vdrlib.HARNESS_FILES)
    okm = pipelib.build_martian(ctx)
    okc = ctx.coq_build()
    if okc:
        ctx.property_theorems()
    if not (okb and okm and okc):
        return ctx.finish("proof")
    res = vdrlib.run_all(ctx)
    nf = vdrlib.report(ctx, res, vdrlib.C14_CLASSES)
    st = res["stats"]
    ctx.coverage.update({
        "evaluations": st.get("sequence_steps", 0) + st.get("e2e_runs", 0),
        "distinct_nontrivial": st.get("sequences", 0) + st.get("e2e_runs", 0),
        "rule": "one evaluation per compared step of an op sequence on real Fork objects plus one per real mrp run; distinct = op sequences (seeded program x mode x op order) + (program, mode) runs; non-trivial: at least one stage fork with files",
        "traces_validated_against_impl": st.get("e2e_runs", 0),
        "property_failures_reported": nf,
    })
    ctx.coverage.update(st)
    return ctx.finish("proof")
