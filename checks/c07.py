"""C07 - accepted programs are type-safe at run time; ill-typed bindings are rejected."""
import json
import os

import lib
import pipelib

MANIFEST = {
 "category": "proof",
 "text": "Mro/Typing.v is an executable Coq model of the binding type rules of the MRO compiler (IsValidExpression of every type, RefExp.resolveType incl. fieldType projection through arrays and typed maps and the dimension a mapped call adds, IsAssignableFrom = C17's assignable on the type trees TypeLookup.Get builds, BindStms.compile incl. wildcard expansion and missing/unknown/duplicate parameters, checkMappings with the mode and known length of every split source, the phases of Ast.compile) that returns accept or the set of located errors (pipeline, call / return, parameter). Coq theorems (Properties/C07.v, all closed): C07_literal_sound - for ALL programs, types and reference-free expressions (no bound on nesting), an expression the checker accepts at a parameter type evaluates to a JSON value that IsValidJson accepts cleanly (int->float, string->file types, integral float->int, struct / typed-map / array literals of any depth); C07_split_elements_sound - the same for every element of a split literal; C07_ref_coercion_sound_partial - an accepted reference's resolved type is assignable to the parameter type, hence (C17's filter theorem) a conforming source value is delivered by FilterJson without a fatal error as a conforming value (guards: no struct->typed-map coercion, file-name rule of directory-map keys left out, closure of the type universe as a hypothesis; conformance of projected values to fieldType's result not proved); the rejection theorems, each for ALL calls in ALL contexts: C07_accepted_ref_same_dims / C07_assignable_same_dims (an accepted reference never differs from the parameter in an array depth, outer or of a typed map's values, nor trades array for typed map; away from the untyped map), C07_reject_unknown_param, C07_reject_illtyped_binding, C07_reject_duplicate_binding (located at the binding), C07_reject_missing_param (located at the call), lifted to the whole program by C07_reject_located; and the expression rules that make a mutated binding ill-typed: C07_reject_map_for_array / array_for_map (array versus map), C07_reject_array_for_scalar / scalar_for_array / C07_array_literal_elementwise (array depth), C07_builtin_literal_table + the four *_literal_only_for tables (wrong base type), C07_reject_struct_missing_field / extra_field, C07_reject_unresolved_ref with C07_no_such_call / no_such_output / no_such_field, C07_split_array_vs_map / length_mismatch / keys_mismatch / C07_reject_inconsistent_split_located / C07_reject_split_scalar. Tie on every run: generated programs over the full type language and every class of single-point ill-typed mutation are compiled by martian's own compiler and checked by the extracted model on the Ast dumped from martian's parser; verdict and the set of error locations must be equal (a kernel vm_compute sample as well); the property is read directly on the implementation (guaranteed-ill-typed mutations rejected with an error located in the mutated binding / call; accepted programs resolve to a call graph without error or panic); and accepted programs are run by the real mrp with --strict=error with stages emitting conforming outputs: no failure, no alarm, every delivered argument record validates against the declared input types.",
 "note": "Trusted: Coq kernel; extraction cross-checked in-kernel on a sample; astdump (walks exported fields of the parser-built syntax.Ast); hook VerifErrorLines (error tree -> source lines); the line -> (pipeline, call, parameter) table built from the parsed Ast. Model scope (anything else is reported as unsupported and counted): programs whose declarations are well formed, calls already in dependency order, no preflight/retain, no map call that adds a known length to a length-unknown mapping shared with another call (one MapCallSet object in the implementation). The static resolver (resolve_*.go) is not modelled: it is exercised (MakeCallGraph on every accepted program, real mrp runs). Inconsistent collection sizes between a top-level call's literals and the split arguments inside the called pipeline are found when the call graph is resolved (before anything runs), not by Ast.compile; the oracle accepts that as a located static rejection.",
 "technique": "Coq proof (structural induction on expressions nested with induction on type dimensions; C17's filter/validate theorems for the coercions) + differential correspondence on parser-dumped Asts + mutation-catalogue oracle + real mrp runs",
}


def same(case, impl, model):
    if model == "unsup":
        return True
    return impl == model


def check(ctx, args):
    ctx.trusted_base = [
        "Coq 8.16.1 kernel (coqc, vm_compute; no native_compute)",
        "axioms: none (Print Assumptions: Closed under the global context for every theorem)",
        "extraction: ExtrOcamlBasic only, OCaml 4.13.1; cross-checked on a sample against vm_compute in the kernel",
        "harness/cmd/extractconsts jsontypes.go (Kind names, IsLegalUnixFilename limits used by the typed-map key rule)",
        "harness/internal/astdump: renders the parser-built syntax.Ast (Parser.UncheckedParse) as Mro/Ast.v values",
        "martian/syntax/verif_export_c07.go VerifErrorLines (error tree -> source lines) and the line table of the parsed Ast",
        "vh __stage (stage executable emitting the spec's constants), the real mrp/mrjob built from the repository",
    ]
    ctx.assumptions = [
        "stages produce outputs conforming to their declared output types (the run-time half generates such outputs, incl. nulls, empty collections, undeclared struct fields, ints for floats)",
        "numeric literals are int64 / finite float64 values (hypothesis nums_ok of the soundness theorem; the parser guarantees it)",
        "model scope: well-formed declarations, calls in dependency order, no preflight/retain, no known length added to a shared length-unknown mapping (reported as unsupported, counted)",
        "reference soundness is stated without the struct->typed-map coercion and modulo the file-name rule on directory-like typed-map keys (C17's recorded findings)",
    ]
    okb = ctx.build_harness(extra=["stage.go", "pipe.go"])
    oke = ctx.extract_consts(["JsonTypes"])
    okc = ctx.coq_build()
    if okc:
        ctx.property_theorems()
    s = ctx.scratch
    cases, impl, model, oracle = (os.path.join(s, n) for n in ("cases.txt", "impl.txt", "model.txt", "oracle.txt"))
    if not okb:
        return ctx.finish("proof")
    p = ctx.vh_run(["c07", "gen", ctx.tier, str(ctx.seed)], out_path=cases)
    gen_log = p.stderr.decode(errors="replace")
    stats = {}
    for l in gen_log.splitlines():
        if l.startswith("c07 stats "):
            stats = json.loads(l[len("c07 stats "):])
    unparsed = gen_log.count("does not parse")
    ctx.vh_run(["c07", "impl"], stdin_path=cases, out_path=impl)
    case_lines = open(cases).read().splitlines()
    impl_lines = open(impl).read().splitlines()
    nbase = len([c for c in case_lines if c.startswith("p base ")])
    nacc = len([1 for c, i in zip(case_lines, impl_lines) if c.startswith("p base ") and i == "accept"])
    ctx.oblige("generator: %d cases, %d base programs of which %d compile, %d generated texts did not parse" % (
        len(case_lines), nbase, nacc, unparsed),
        len(case_lines) > 300 and len(impl_lines) == len(case_lines) and nacc * 10 >= nbase * 8 and unparsed * 20 <= len(case_lines),
        gen_log[-600:])
    n_unsup = 0
    if okc:
        ctx.model_run("c07", cases, model)
        n, mism = lib.diff_lines(impl, model, cases, same)
        model_lines = open(model).read().splitlines()
        n_unsup = model_lines.count("unsup")

        def brief(m):
            f = m[1].split(" ")
            return "%s %s impl=%s model=%s" % (f[1], f[2], m[2][:80], m[3][:80])
        ctx.oblige("correspondence: compile verdict and error locations == Mro.Typing.typecheck on %d cases (extracted model on parser-dumped Asts)" % n,
                   not mism and len(model_lines) == len(case_lines), "; ".join(brief(m) for m in mism[:6] if m))
        for m in [m for m in mism if m][:5]:
            f = m[1].split(" ")
            ctx.fail("typing_model_mismatch", brief(m),
                     {"kind": f[1], "class": f[2], "source": bytes.fromhex(f[7]).decode(), "implementation": m[2], "model": m[3],
                      "how": "echo <case line> | vh c07 impl ; ocaml/c07/model"})
        ctx.oblige("model scope: at most 3%% of the cases are outside the modelled fragment (%d of %d)" % (n_unsup, len(case_lines)),
                   n_unsup * 100 <= 3 * len(case_lines))
        nk = 120 if ctx.tier != "thorough" else 400
        pk = ctx.vh_run(["c07", "coq", cases, impl, str(nk)])
        rc, out = ctx.coq_eval(pk.stdout.decode(), "c07_cases", timeout=1500)
        flat = " ".join(out.split())
        okk = rc == 0 and flat.startswith("= 0 : nat")
        ctx.oblige("correspondence: kernel vm_compute of typecheck on a sample of %d cases equals the implementation" % nk,
                   okk, out[-600:])
        ctx.coverage["kernel_sample"] = nk
    # -- the property read directly on the implementation
    ctx.vh_run(["c07", "oracle"], stdin_path=cases, out_path=oracle)
    n_ok = n_fail = n_skip = n_late = 0
    classes = {}
    for o, c in zip(open(oracle).read().splitlines(), case_lines):
        cf = c.split(" ")
        classes.setdefault(cf[2], [0, 0])
        classes[cf[2]][0] += 1
        if o.startswith("ok"):
            n_ok += 1
            n_late += o.endswith("late_split_reject")
            if cf[1] == "mut" and cf[3] == "1":
                classes[cf[2]][1] += 1
        elif o == "skip":
            n_skip += 1
        elif o.startswith("FAIL"):
            n_fail += 1
            f = o.split(" ", 2)
            ctx.fail(f[1], f[2][:400] if len(f) > 2 else "",
                     {"kind": cf[1], "mutation": cf[2], "site": [bytes.fromhex(x).decode() if x != "-" else "" for x in cf[4:7]],
                      "source": bytes.fromhex(cf[7]).decode(), "observed": o,
                      "how": "compile the source with martian (mro check / mrp); replay: echo <case line> | vh c07 oracle"})
    # -- run-time half: accepted programs under the real mrp, --strict=error
    run_stats = {}
    if pipelib.build_martian(ctx):
        nrun = 24 if ctx.tier != "thorough" else 300
        progs = os.path.join(s, "run")
        q = ctx.vh_run(["c07", "genprogs", progs, str(nrun), str(ctx.seed), ctx.vh + " __stage"])
        try:
            run_stats = json.loads(q.stdout.decode().strip().splitlines()[-1])
        except (IndexError, ValueError):
            run_stats = {}
        r = ctx.vh_run(["c07", "run", progs, ctx.mart, "12"], timeout=3000)
        lines = [l for l in r.stdout.decode(errors="replace").splitlines() if l.strip()]
        good = [l for l in lines if l.split(" ")[1:2] == ["ok"]]
        jobs = sum(int(l.split("jobs=")[1].split()[0]) for l in good)
        nargs = sum(int(l.split("args=")[1].split()[0]) for l in good)
        ctx.oblige("run-time half: %d accepted programs run by the real mrp with --strict=error (%d jobs, %d delivered arguments validated)" % (
            len(lines), jobs, nargs), len(lines) == nrun and jobs > 0, (r.stdout + r.stderr).decode(errors="replace")[-800:])
        for l in lines:
            f = l.split(" ", 3)
            if f[1] == "FAIL":
                d = os.path.join(progs, f[0])
                detail = f[3] if len(f) > 3 else ""
                rp = pipelib.save_replay(ctx, d, "run_" + f[0], {"class": f[2], "detail": detail,
                                                                "how": "cd <dir>; MROPATH=$PWD VH_SPEC=$PWD/spec.json VH_EVENTS=$PWD/ev mrp pipeline.mro ps --strict=error --disable-ui --nopreflight (stage command: vh __stage)"})
                ctx.fail(f[2], detail[:400], {"program": f[0], "replay_dir": os.path.dirname(rp),
                                              "source": open(os.path.join(d, "pipeline.mro")).read(),
                                              "spec": open(os.path.join(d, "spec.json")).read()})
        flaky = [l for l in good if " flaky=" in l]
        ctx.coverage["runtime_failures_not_repeated_on_rerun"] = [l[:80] for l in flaky]
        ctx.coverage.update({"runtime_programs": len(lines), "runtime_ok": len(good), "runtime_jobs": jobs,
                             "runtime_arguments_validated": nargs, "runtime_generator": run_stats})
    ctx.coverage.update({
        "evaluations": len(case_lines),
        "distinct_nontrivial": lib.distinct_count(cases),
        "rule": "random MRO programs (0-2 file types, 0-4 structs incl. wider siblings, 2-4 stages with params over builtins/file types/structs x [] [][] map<> map<[]> map<>[], 0-2 sub-pipelines + top pipeline, single/array/map calls with literal and reference split sources, projections, conversions int->float string<->file types struct->narrower struct struct->map, wildcard, disabled, aliases, top-level call with literal arguments) + up to N single-point mutations per program, evenly over the classes; distinct by case text",
        "generator": stats,
        "mutation_classes": {k: {"cases": v[0], "rejected_and_located": v[1]} for k, v in sorted(classes.items())},
        "model_unsupported": n_unsup,
        "oracle_ok": n_ok, "oracle_fail": n_fail, "oracle_skip": n_skip,
        "late_static_split_rejections": n_late,
        "exhaustive": False,
    })
    ctx.samples = [bytes.fromhex(c.split(" ")[7]).decode()[:1200] for c in case_lines if c.startswith("p base ")][:2]
    return ctx.finish("proof")
