#!/bin/bash
# integrate_seed.sh <wave> <prop-lowercase>
# Copies a confirmed seeded change from its scratch directory
# (/tmp/seedout<wave>_<prop>) to /verif/seeded/<PROP>_agent<wave>, rewriting the
# scratch paths in its text files, then runs the property's quick check
# against it (checks/run_seed.py: applies the patch to /repo, restores it).
set -u
wave=$1; p=$2
P=$(echo $p | tr a-z A-Z)
d=/verif/seeded/${P}_agent${wave}
out=/tmp/seedout${wave}_$p; wt=/tmp/seed${wave}_$p
rm -rf $d; mkdir -p $d; cp -r $out/* $d/
python3 - "$d" "$out" "$wt" <<'PY'
import os, sys
d, old_out, old_wt = sys.argv[1:4]
for root, _, files in os.walk(d):
    for f in files:
        p = os.path.join(root, f)
        if f == 'patch.diff' or f.endswith('.log'):
            continue
        try:
            s = open(p).read()
        except Exception:
            continue
        t = s.replace(old_out + '/', d + '/').replace(old_out, d).replace(old_wt + '/', '<worktree>/').replace(old_wt, '<worktree>')
        if t != s:
            open(p, 'w').write(t)
PY
cd /verif && python3 checks/run_seed.py seeded/${P}_agent${wave}
