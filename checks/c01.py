"""C01 - stage arguments and pipeline outputs equal the MRO dataflow semantics."""
import glob
import os

import lib
import pipelib

MANIFEST = {
 "category": "translation_validation",
 "text": "Mro/Sem.v is the source-level dataflow semantics of core MRO as a Coq function (program, arguments, stage oracle) -> (top-level outs, every job's arguments); it contains no schedule. Coq theorems (Properties/C01.v, all closed) state what that function delivers for all programs and all stage oracles: no job and null for disabled calls (for a disabled mapped call, within the stated latitude, null or a collection of nulls: nullify v = null; the latitude is a component of the oracle and the comparison searches its assignments), independence of how calls are aliased (C01_alias_invariance: any injective renaming of call ids, consistent in the references, changes no output value, no job argument and no job, only the names in call paths), exactly the denoted binding values for single calls, element i of every split argument for fork i of a mapped call with results collected in order, the chunk definitions/outputs complete and in order at the join, return bindings for pipeline outputs, struct narrowing and projection through arrays/typed maps. The implementation is tied to the function on every run: seeded generated programs (three generator modes, one with everything at once; nesting depth <= 3, ragged inner sizes, single/array/map calls over static and run-time sized collections incl. empty and null, disabled via inputs and stage outputs, projections, struct narrowing, splitting stages with 0..3 chunks, aliases) are compiled and run by the real mrp+mrjob built from /repo under several adversarial completion orders; the harness's stage executable records what every job read; the Coq kernel evaluates Sem on the same program term (vm_compute) and compares job arguments and final outs.",
 "note": "Proof about the model + differential validation of the real runtime against it; the static resolver (resolve_*.go) is not modelled clause by clause, it is the implementation under test. Latitude: collections consisting only of nulls are identified with null on both sides; the runtime forks a stage only over the mapped dimensions its arguments depend on, so the comparison is set equality of (call path, phase, arguments) with multiplicity bounded by the semantics. Trusted: Coq kernel (vm_compute), the generator printing the same program as MRO text and as a Gallina term (a discrepancy shows up as a mismatch), the stage executable, hx JSON transport. Schedule independence of the real runtime is shown on explored schedules only.",
 "technique": "Coq denotational semantics with proved structure theorems + translation validation of real mrp runs against the kernel-evaluated semantics",
}


def check(ctx, args):
    ctx.trusted_base = [
        "Coq 8.16.1 kernel (coqc, vm_compute; no native_compute)",
        "axioms: none (Print Assumptions: Closed under the global context for every theorem)",
        "harness/internal/pgen: prints one program as MRO text, Gallina term and stage spec",
        "vh __stage (stage executable), hx JSON transport, checks/semcases.py (cases.v builder)",
    ]
    ctx.assumptions = [
        "stages behave as the recorded deterministic function of (stage, phase, arguments)",
        "null, empty collections and collections of nulls are identified (the property's latitude), on both sides",
        "multiplicity: several source-level invocations with identical arguments may be served by one job (forks only over dimensions a stage depends on)",
    ]
    okb = ctx.build_harness(extra=pipelib.PIPE_FILES)
    okm = pipelib.build_martian(ctx)
    okc = ctx.coq_build()
    if okc:
        ctx.property_theorems()
    if not (okb and okm):
        return ctx.finish("translation_validation")
    nknown = pipelib.run_known_corpus(ctx)
    quick = ctx.tier == "quick"
    nprog = 64 if quick else 1200
    scheds = [None, "%d:120" % (ctx.seed * 7 + 1)] if quick else \
        [None] + ["%d:%d" % (ctx.seed * 7 + k, 60 * k) for k in (1, 2, 3)]
    progs, stats = pipelib.gen_programs(ctx, nprog, ctx.seed)
    total_runs = good_runs = compared = 0
    rejects = 0
    njobs = 0
    for si, sched in enumerate(scheds):
        psid = "ps%d" % si
        res = pipelib.run_programs(ctx, progs, psid, sched)
        okdirs = []
        for name, info in sorted(res.items()):
            d = os.path.join(progs, name)
            total_runs += 1
            if info["exit"] == 0:
                okdirs.append(d)
                good_runs += 1
                njobs += info["jobs"]
                continue
            cls = pipelib.classify_bad_run(open(os.path.join(d, psid + ".log")).read(), info)
            if cls == "compile_reject":
                rejects += 1
                continue
            ctx.fail(cls, "%s schedule=%s exit=%d" % (name, sched, info["exit"]),
                     {"program": name, "schedule": sched, "dir": d, "psid": psid})
        if okc:
            results, errors = pipelib.coq_compare(ctx, okdirs, psid + ".obs")
            ctx.oblige("cases.v shards for schedule %s evaluate in the kernel" % sched, not errors,
                       "; ".join(e[1][-300:] for e in errors[:2]))
            for d, ok in results.items():
                compared += 1
                if not ok:
                    ctx.fail(pipelib.classify_mismatch(ctx, d, psid + ".obs") or "semantics_mismatch", pipelib.coq_detail(ctx, d, psid + ".obs"),
                             {"program": os.path.basename(d), "schedule": sched, "dir": d, "psid": psid})
    # replays for failures: copy the program directories
    for f in ctx.failures:
        r = f["replay"]
        if "dir" in r:
            r["replay_dir"] = os.path.dirname(pipelib.save_replay(ctx, r.pop("dir"), r["program"] + "_" + r["psid"], dict(r, detail=f["detail"])))
    ctx.oblige("generator: at most 15%% of programs rejected by the compiler (%d of %d runs)" % (rejects, total_runs),
               rejects * 100 <= 15 * max(total_runs, 1))
    ctx.oblige("correspondence: every completed run compared with Sem in the kernel (%d runs)" % compared,
               okc and compared == good_runs)
    sample = sorted(glob.glob(os.path.join(progs, "p0000", "pipeline.mro")))
    ctx.samples = [open(sample[0]).read()[:1500]] if sample else []
    ctx.coverage.update({
        "programs": nprog, "disagreements_checked": compared,
        "evaluations": total_runs, "distinct_nontrivial": len([1 for _ in range(nprog)]) if nprog else 0,
        "rule": "programs from harness/internal/pgen (seeded); each is a distinct random draw; non-trivial: every program has at least one stage call; runs = programs x schedules; jobs observed = %d" % njobs,
        "schedules": [s or "none" for s in scheds],
        "runs_completed": good_runs, "compile_rejects": rejects, "jobs_observed": njobs,
        "shape_distribution": stats,
        "traces_validated_against_impl": compared,
    })
    return ctx.finish("translation_validation")
