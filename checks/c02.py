"""C02 - jobs start only after everything they depend on has finished."""
import os

import lib
import pipelib
import schedcases

MANIFEST = {
 "category": "proof",
 "text": "Mro/Sched.v models job scheduling (idle/running/done/failed per job, start enabled only when every dependency is done, completions, failures, resets of non-done jobs). Coq theorem C02_start_after_deps: in EVERY valid history, for every dependency relation, when a job starts each dependency has an earlier completion event, is done at that moment and stays done - by induction over unbounded histories with arbitrary interleavings, failures, crashes and resets. C02_accepted_history transfers this to any observed history the executable checker accepts with the dependency relation Mro/Deps.v derives from the program source (argument data, disabling conditions incl. enclosing calls', mapped-over collections, through pipeline inputs/returns; split < chunks < join inside a fork, C02_phase_order_deps). Tie: generated programs are run by the real mrp+mrjob under adversarial per-job delays; the stage processes themselves record start/end instants; the kernel replays each history (vm_compute of valid_trace).",
 "note": "Proof about the scheduler model + trace acceptance of real runs (fault_enumeration-style validation); goroutine interleavings inside mrp, journal-scan timing and filesystem visibility are exercised, not modelled. Preflight calls are generated (a pipeline may start with one, also inside sub-pipelines), and Mro/Deps.v makes every other call of the pipeline and everything nested in it wait for them. The dependency relation is the source-level lower bound: the runtime may wait for more. Trusted: Coq kernel, event log written by the stage executable (O_APPEND, timestamps from one clock), pgen printing MRO text and Gallina term of the same program.",
 "technique": "Coq invariant proof over all event histories of a scheduler state machine + kernel-evaluated trace acceptance of real mrp histories",
}


def check(ctx, args):
    ctx.trusted_base = [
        "Coq 8.16.1 kernel (coqc, vm_compute; no native_compute)",
        "axioms: none (Print Assumptions: Closed under the global context)",
        "vh __stage event log (start/end instants recorded by the stage processes themselves)",
        "harness/internal/pgen (program as MRO text and Gallina term), checks/schedcases.py",
    ]
    ctx.assumptions = [
        "a job's 'end' record precedes the completion marker mrjob writes, its 'start' record follows its launch",
        "dependencies are Mro/Deps.v's source-level relation (a lower bound on what the runtime must wait for)",
    ]
    okb = ctx.build_harness(extra=pipelib.PIPE_FILES)
    okm = pipelib.build_martian(ctx)
    okc = ctx.coq_build()
    if okc:
        ctx.property_theorems()
    if not (okb and okm):
        return ctx.finish("proof")
    quick = ctx.tier == "quick"
    nprog = 60 if quick else 800
    scheds = ["%d:150" % (ctx.seed * 11 + 3), "%d:400" % (ctx.seed * 11 + 4)] if quick else \
        ["%d:%d" % (ctx.seed * 11 + k, 100 * k) for k in (1, 2, 4, 6)]
    progs, stats = pipelib.gen_programs(ctx, nprog, ctx.seed + 1000)
    # a dedicated batch of the family "merged output of a map call nested in a
    # map call, both sized at run time" (one of the two producers is slow)
    lib.GOENV["VH_GEN_MODE"] = "nested_dynamic_merge"
    try:
        progs_ndm, _ = pipelib.gen_programs(ctx, 6 if quick else 40, ctx.seed + 1500, sub="progs_ndm")
    finally:
        del lib.GOENV["VH_GEN_MODE"]
    ntr = nev = nstart_with_deps = 0
    batches = [(progs, "ps%d" % si, sched) for si, sched in enumerate(scheds)] + [(progs_ndm, "pn0", scheds[0])]
    for progs_b, psid, sched in batches:
        res = pipelib.run_programs(ctx, progs_b, psid, sched)
        cases = []
        for name, info in sorted(res.items()):
            d = os.path.join(progs_b, name)
            jobs, evs = schedcases.trace_of(d, [psid], pipelib.splits_of(d))
            if jobs:
                cases.append((d, jobs, evs))
                nev += len(evs)
        if not okc:
            continue
        verdicts, errors = pipelib.trace_check(ctx, cases, psid)
        ctx.oblige("trace cases for schedule %s evaluate in the kernel" % sched, not errors, "; ".join(errors[:2]))
        for (d, jobs, evs), v in zip(cases, verdicts):
            if v is None:
                continue
            ntr += 1
            if not v["valid"]:
                i = v["first_bad"]
                kind, jid = evs[i] if i is not None and i < len(evs) else ("?", "?")
                cls = "start_before_dependency_finished" if kind == "EStart" else "history_not_accepted_" + kind
                rp = pipelib.save_replay(ctx, d, os.path.basename(d) + "_" + psid,
                                         {"program": os.path.basename(d), "schedule": sched, "psid": psid,
                                          "first_rejected_event": [kind, jid], "index": i,
                                          "history": evs[:i + 1] if i is not None else evs})
                ctx.fail(cls, "%s: event %s %s is not enabled (a dependency is not done or the job is not idle)" % (os.path.basename(d), kind, jid),
                         {"replay_dir": os.path.dirname(rp), "event": [kind, jid]})
    # histories with an automatic retry: one job dies once of a signal (a
    # transient failure), mrp resets and re-runs it; the order inside the fork
    # (every chunk finished before the join starts, a preflight job finished
    # before anything else starts) must hold across the reset as well
    nretry = retry_histories(ctx, progs, okc)
    ntr += nretry
    ctx.oblige("trace acceptance: every observed history replayed through Sched.valid_trace in the kernel (%d histories)" % ntr, okc and ntr > 0)
    ctx.samples = []
    if ntr:
        ctx.samples = [{"history_prefix": evs[:12]} for (_, _, evs) in cases[:2]]
    ctx.coverage.update({
        "evaluations": ntr, "distinct_nontrivial": ntr,
        "rule": "one history per (generated program, schedule); non-trivial: at least one job ran; distinct programs by construction, distinct schedules by seed; total events %d" % nev,
        "traces_validated_against_impl": ntr, "events": nev, "programs": nprog,
        "schedules": scheds, "shape_distribution": stats, "retry_histories": nretry,
    })
    return ctx.finish("proof")


def retry_histories(ctx, progs, okc):
    import random
    rnd = random.Random(ctx.seed + 77)
    quick = ctx.tier == "quick"
    res = pipelib.run_programs(ctx, progs, "ps0")
    scen = []
    for name, info in sorted(res.items()):
        d = os.path.join(progs, name)
        if info["exit"] != 0 or info["jobs"] < 2:
            continue
        jobs = pipelib.clean_jobs(d)
        splits = pipelib.splits_of(d)
        # chunk jobs of splitting stages and preflight jobs first
        pref = [j for j in jobs if (j[2] == "main" and j[1] in splits) or j[1] == "PFCHECK"]
        # ... and among them jobs of stages without output parameters (nothing
        # but the order keeps a skipped job from going unnoticed)
        import json
        spec = json.load(open(os.path.join(d, "spec.json")))["stages"]
        strong = [j for j in pref if not spec.get(j[1], {}).get("outs")]
        if strong and rnd.random() < 0.9:
            pick = rnd.choice(strong)
        else:
            pick = rnd.choice(pref) if pref and rnd.random() < 0.8 else rnd.choice(jobs)
        scen.append({"dir": d, "prog": name, "site": pick[0], "psid": "r%d" % len(scen), "strong": pick in strong})
    rnd.shuffle(scen)
    scen.sort(key=lambda s: not s["strong"])
    nstrong = sum(1 for s in scen if s["strong"])
    scen = scen[:min(len(scen), max(16 if quick else 150, min(nstrong, 24 if quick else 200)))]

    def run(s):
        s["res"] = pipelib.scenario(ctx, ("c06", "faultrun"), [s["dir"], ctx.mart, s["psid"], s["site"], "signal", "2", "once"])
        return s
    pipelib.parallel(run, scen, par=8)
    cases = []
    for s in scen:
        incs = s["res"].get("incarnations", [])
        if not incs:
            continue
        psids = ["%s.inc%d" % (s["psid"], i) for i in range(len(incs))]
        jobs, evs = schedcases.trace_of(s["dir"], psids, pipelib.splits_of(s["dir"]))
        evs2, failed = [], set()
        for k, j in evs:
            if k == "EFail":
                failed.add(j)
            if k == "EReset":
                failed.discard(j)
            if k == "EStart" and j in failed:
                evs2.append(("EReset", j))
                failed.discard(j)
            evs2.append((k, j))
        if jobs:
            cases.append((s, jobs, evs2))
    if not (okc and cases):
        return 0
    verdicts, errors = pipelib.trace_check(ctx, [(s["dir"], j, e) for s, j, e in cases], "retry")
    ctx.oblige("retry histories evaluate in the kernel", not errors, "; ".join(errors[:2]))
    n = 0
    for (s, jobs, evs), v in zip(cases, verdicts):
        if v is None:
            continue
        n += 1
        if not v["valid"]:
            i = v["first_bad"]
            kind, jid = evs[i] if i is not None and i < len(evs) else ("?", "?")
            rp = pipelib.save_replay(ctx, s["dir"], s["prog"] + "_" + s["psid"],
                                     {"program": s["prog"], "transient_failure_at": s["site"], "autoretry": 2,
                                      "first_rejected_event": [kind, jid], "index": i,
                                      "history": evs[:i + 1] if i is not None else evs})
            ctx.fail("start_before_dependency_finished_after_retry" if kind == "EStart" else "retry_history_not_accepted_" + kind,
                     "%s: after the transient failure of %s, event %s %s is not enabled" % (s["prog"], s["site"], kind, jid),
                     {"replay_dir": os.path.dirname(rp), "event": [kind, jid]})
    return n
