"""C02 - jobs start only after everything they depend on has finished."""
import os

import lib
import pipelib
import schedcases

MANIFEST = {
 "category": "proof",
 "text": "Mro/Sched.v models job scheduling (idle/running/done/failed per job, start enabled only when every dependency is done, completions, failures, resets of non-done jobs). Coq theorem C02_start_after_deps: in EVERY valid history, for every dependency relation, when a job starts each dependency has an earlier completion event, is done at that moment and stays done - by induction over unbounded histories with arbitrary interleavings, failures, crashes and resets. C02_accepted_history transfers this to any observed history the executable checker accepts with the dependency relation Mro/Deps.v derives from the program source (argument data, disabling conditions incl. enclosing calls', mapped-over collections, through pipeline inputs/returns; split < chunks < join inside a fork, C02_phase_order_deps). Tie: generated programs are run by the real mrp+mrjob under adversarial per-job delays; the stage processes themselves record start/end instants; the kernel replays each history (vm_compute of valid_trace).",
 "note": "Proof about the scheduler model + trace acceptance of real runs (fault_enumeration-style validation); goroutine interleavings inside mrp, journal-scan timing and filesystem visibility are exercised, not modelled. Preflight calls are generated (a pipeline may start with one, also inside sub-pipelines), and Mro/Deps.v makes every other call of the pipeline and everything nested in it wait for them. The dependency relation is the source-level lower bound: the runtime may wait for more. Trusted: Coq kernel, event log written by the stage executable (O_APPEND, timestamps from one clock), pgen printing MRO text and Gallina term of the same program.",
 "technique": "Coq invariant proof over all event histories of a scheduler state machine + kernel-evaluated trace acceptance of real mrp histories",
}


def check(ctx, args):
    ctx.trusted_base = [
        "Coq 8.16.1 kernel (coqc, vm_compute; no native_compute)",
        "axioms: none (Print Assumptions: Closed under the global context)",
        "vh __stage event log (start/end instants recorded by the stage processes themselves)",
        "harness/internal/pgen (program as MRO text and Gallina term), checks/schedcases.py",
    ]
    ctx.assumptions = [
        "a job's 'end' record precedes the completion marker mrjob writes, its 'start' record follows its launch",
        "dependencies are Mro/Deps.v's source-level relation (a lower bound on what the runtime must wait for)",
    ]
    okb = ctx.build_harness(extra=pipelib.PIPE_FILES)
    okm = pipelib.build_martian(ctx)
    okc = ctx.coq_build()
    if okc:
        ctx.property_theorems()
    if not (okb and okm):
        return ctx.finish("proof")
    quick = ctx.tier == "quick"
    nprog = 60 if quick else 800
    scheds = ["%d:150" % (ctx.seed * 11 + 3), "%d:400" % (ctx.seed * 11 + 4)] if quick else \
        ["%d:%d" % (ctx.seed * 11 + k, 100 * k) for k in (1, 2, 4, 6)]
    progs, stats = pipelib.gen_programs(ctx, nprog, ctx.seed + 1000)
    ntr = nev = nstart_with_deps = 0
    for si, sched in enumerate(scheds):
        psid = "ps%d" % si
        res = pipelib.run_programs(ctx, progs, psid, sched)
        cases = []
        for name, info in sorted(res.items()):
            d = os.path.join(progs, name)
            jobs, evs = schedcases.trace_of(d, [psid], pipelib.splits_of(d))
            if jobs:
                cases.append((d, jobs, evs))
                nev += len(evs)
        if not okc:
            continue
        verdicts, errors = pipelib.trace_check(ctx, cases, psid)
        ctx.oblige("trace cases for schedule %s evaluate in the kernel" % sched, not errors, "; ".join(errors[:2]))
        for (d, jobs, evs), v in zip(cases, verdicts):
            if v is None:
                continue
            ntr += 1
            if not v["valid"]:
                i = v["first_bad"]
                kind, jid = evs[i] if i is not None and i < len(evs) else ("?", "?")
                cls = "start_before_dependency_finished" if kind == "EStart" else "history_not_accepted_" + kind
                rp = pipelib.save_replay(ctx, d, os.path.basename(d) + "_" + psid,
                                         {"program": os.path.basename(d), "schedule": sched, "psid": psid,
                                          "first_rejected_event": [kind, jid], "index": i,
                                          "history": evs[:i + 1] if i is not None else evs})
                ctx.fail(cls, "%s: event %s %s is not enabled (a dependency is not done or the job is not idle)" % (os.path.basename(d), kind, jid),
                         {"replay_dir": os.path.dirname(rp), "event": [kind, jid]})
    ctx.oblige("trace acceptance: every observed history replayed through Sched.valid_trace in the kernel (%d histories)" % ntr, okc and ntr > 0)
    ctx.samples = []
    if ntr:
        ctx.samples = [{"history_prefix": evs[:12]} for (_, _, evs) in cases[:2]]
    ctx.coverage.update({
        "evaluations": ntr, "distinct_nontrivial": ntr,
        "rule": "one history per (generated program, schedule); non-trivial: at least one job ran; distinct programs by construction, distinct schedules by seed; total events %d" % nev,
        "traces_validated_against_impl": ntr, "events": nev, "programs": nprog,
        "schedules": scheds, "shape_distribution": stats,
    })
    return ctx.finish("proof")
