"""C11 - fork identities are unique and job notifications reach exactly their owner."""
import os
import random

import lib

MANIFEST = {
 "category": "proof",
 "text": "Coq theorems (Properties/C11.v) about hand-written Gallina models of makeKeySafe (url.PathEscape), ForkId.ForkIdString/forkId/writeForkIndex, encodeJournalName, journal file naming (Fork.updateId, NewChunk, Metadata.journalFile, mrjob) and the journal routing of Node.refreshState (jobJournalRe, parseRunFilename, getFork, getChunk, Metadata.cache). C11_path_escape_inj / C11_journal_encode_inj: key escaping and the journal encoding are prefix codes, hence injective on all byte strings, and journal tokens never contain '.' or '/'. C11_fork_id_inj / C11_fork_journal_token_inj: two forks of one call (any nesting depth, static or dynamic arrays of any length, maps over any keys, ranges depending on the indices above) with equal id string - equal directory, equal journal token - have equal indices and keys. C11_parse_print_journal: the model of jobJournalRe applied to the name a job writes returns exactly the writer's node name (any bytes), fork token, chunk, uniquifier and file. C11_get_fork_exact / C11_routing_exact_within_node: for every order of the fork list getFork returns the fork owning the parsed token, and chunk, attempt and file are the writer's. C11_stale_uniquifier_ignored: an update of another attempt is not recorded. C11_attempt_attribution_exact / C11_attempt_uniquifiers_distinct: in the attempt state machine of a job (start, reset, notifications by the process of any attempt incl. stragglers, journal reads; histories of any length) every recorded notification was written by the current attempt and no two attempts share a uniquifier; C11_attempt_reuse_refuted shows a reset that keeps the uniquifier breaks it. Tied to the Go code on every run: replacer pairs, the journal regular expression, prefixes and journaled file names are regenerated from the Go AST and the proofs re-checked against them (C11_constants_as_modelled); model and implementation are compared on exhaustive short keys, enumerated fork-id shapes, structured and malformed journal names, attempt op sequences (real Metadata.uniquify / uncheckedReset / UpdateJournal / journal read with Metadata.cache in real directories) and generated pipestance skeletons built from real Node/Fork/Chunk/Metadata objects whose journal files are really created (extracted OCaml + kernel vm_compute sample); the property is read directly on the implementation (distinct directories / journal names, route(name written) = writer) as the search for a failing input; the thorough tier runs real mrp pipestances over adversarial key sets, array lengths crossing decimal widths, chunk counts and nestings and checks completion, exact keys and fork directories.",
 "note": "Trusted: Coq kernel; extraction cross-checked in-kernel on a sample; extractconsts; the hook's VerifTree.Route repeats the parse/find/getFork/getChunk sequence of Node.refreshState (the real refreshState runs in the end-to-end tier). Not proved: the node lookup Node.find (name equality over the node tree; needs node fqids distinct and none equal to top-fqname.fqid of another - tested by the oracle only) and the corollary 'a mapped call returns exactly its keys' (observed end to end only). Guards: fork ranges non-empty (a fork over an empty collection runs no job; ForkIdString can return the empty string for it); source call mode not single; journal names without newline and within the 255-byte file name limit; Go regexp modelled for the one pattern only; '$' in invocation source is subject to mrp's environment expansion and is excluded from end-to-end keys.",
 "technique": "Coq proof (prefix-code injectivity by kernel computation over all byte pairs, mixed-radix/digit-run induction over fork part lists, recogniser correctness for the journal pattern) + differential correspondence + implementation-side routing oracle",
}


def check(ctx, args):
    thorough = ctx.tier == "thorough"
    ctx.trusted_base = [
        "Coq 8.16.1 kernel (coqc, vm_compute; no native_compute)",
        "axioms: none (Print Assumptions: Closed under the global context)",
        "extraction: ExtrOcamlBasic only, OCaml 4.13.1; cross-checked on a sample against vm_compute in the kernel",
        "harness/cmd/extractconsts/journal.go (replacer pairs, jobJournalRe text, Split/Join prefixes, journaled file names copied from the Go AST)",
        "hook martian/core/verif_export_c11.go: builds real Node/Fork/Chunk/Metadata objects without a runtime; Route repeats refreshState's parse/find/getFork/getChunk sequence",
        "K/Attempt.v models makeUniquifier as a strictly increasing counter (pid + time + per-process count); tied by correspondence on op sequences (uniquifier equality classes, recorded names)",
        "Go regexp semantics hand-modelled for jobJournalRe only (K/Journal.v parse_journal), tied by correspondence on generated names",
    ]
    ctx.assumptions = [
        "fork ranges are non-empty in the injectivity theorem (a fork over an empty array/map runs no job; its id may be the empty string - see notes)",
        "node fqids of a pipestance are pairwise distinct and none equals top-fqname.fqid of another",
        "journal file names contain no newline and fit the 255-byte file name limit (the documented restriction on keys)",
        "uniquifiers are 10 lower-case hex digits (makeUniquifier); metadata file names contain no dot (checked for the journaled names extracted from the source)",
        "attempts of one job are made by one mrp process within 2^24 seconds / uniquifiers (the 24-bit time field of the uniquifier wraps)",
        "array indices and lengths below 2^63 (Go int); util.WidthForInt uses floating-point log10 above 10^5, compared up to 10^7",
    ]
    okb = ctx.build_harness()
    oke = ctx.extract_consts(["Journal"])
    okc = ctx.coq_build()
    if okc:
        ctx.property_theorems()
    s = ctx.scratch
    cases, impl, model, oracle = (os.path.join(s, n) for n in ("cases.txt", "impl.txt", "model.txt", "oracle.txt"))
    if not okb:
        return ctx.finish("proof")
    ctx.vh_run(["c11", "gen", ctx.tier, str(ctx.seed)], out_path=cases)
    p = ctx.vh_run(["c11", "impl", s], stdin_path=cases, out_path=impl)
    ctx.oblige("implementation harness ran on all cases", p.returncode == 0, (p.stderr or b"").decode()[-800:])
    case_lines = open(cases).read().splitlines()
    impl_lines = open(impl).read().splitlines()
    if okc:
        ctx.model_run("c11", cases, model)
        n, mism = lib.diff_lines(impl, model, cases)
        ctx.oblige("correspondence: makeKeySafe/encodeJournalName/ForkIdString/parseRunFilename/journal naming+routing/uniquifier/attempt lifecycle == K.ForkName, K.Journal, K.Attempt (%d cases, extracted model)" % n,
                   not mism, "; ".join("case %s impl=%s model=%s" % (m[1][:160], m[2][:160], m[3][:160]) for m in mism[:4] if m))
        for m in mism[:3]:
            if m:
                ctx.samples.append("MISMATCH " + m[1][:200])
        # kernel sample
        rnd = random.Random(ctx.seed)
        pairs = list(zip(case_lines, impl_lines))
        ks = [(c.split()[1], o) for c, o in pairs if c.startswith("k ")]
        js = [(c.split()[1], o) for c, o in pairs if c.startswith("j ")]
        ps = [(c.split()[1], o) for c, o in pairs if c.startswith("p ") and o != "none"]
        ks = ks[:257] + rnd.sample(ks, min(200, len(ks)))
        js = js[:100] + rnd.sample(js, min(150, len(js)))
        ps = rnd.sample(ps, min(120, len(ps)))

        def lst(xs):
            return ";\n".join('(%s, %s)' % (lib.coq_string(a), lib.coq_string(b)) for a, b in xs)
        v = ("From Coq Require Import String.\nFrom Martian Require Import Lib.Bytes K.ForkName K.Journal.\nOpen Scope string_scope.\n"
             "Definition kcases : list (string * string) := [\n%s].\n"
             "Definition jcases : list (string * string) := [\n%s].\n"
             "Definition pcases : list (string * string) := [\n%s].\n"
             "Definition hexd (s : bytes) : string := match s with [] => \"-\" | _ => hex s end.\n"
             "Definition nstr (n : N) : string := string_of_list_byte (print_dec n).\n"
             "Definition pshow (s : bytes) : string := match parse_journal s with\n"
             "  | Some p => hexd (jp_fq p) ++ \" \" ++ hexd (jp_idx p) ++ \" \" ++ (match chunk_index p with Some c => nstr c | None => \"-1\" end) ++ \" \" ++ hexd (jp_uniq p) ++ \" \" ++ hexd (jp_state p)\n"
             "  | None => \"none\" end.\n"
             "Definition bad := List.app (filter (fun c => negb (String.eqb (hexd (path_escape (unhex (fst c)))) (snd c))) kcases)\n"
             "  (List.app (filter (fun c => negb (String.eqb (hexd (journal_encode (unhex (fst c)))) (snd c))) jcases)\n"
             "  (filter (fun c => negb (String.eqb (pshow (unhex (fst c))) (snd c))) pcases)).\n"
             "Definition M := Eval vm_compute in map fst bad.\nPrint M.\n") % (lst(ks), lst(js), lst(ps))
        acs = [(c.split(), o) for c, o in pairs if c.startswith("a ") and "err" not in o]
        acs = rnd.sample(acs, min(60, len(acs)))

        def aops(f):
            out = []
            for t in f[7:7 + int(f[6])]:
                if t == "S":
                    out.append("OStart")
                elif t == "R":
                    out.append("OReset")
                elif t == "F":
                    out.append("ORefresh")
                else:
                    _, k, fl = t.split(":")
                    out.append('OWrite %s%%nat (unhex %s)' % (k, lib.coq_string(fl)))
            return "[" + "; ".join(out) + "]"

        def aobs(o):
            out = []
            for step in o.split(";"):
                c, n, names = step.split(",")
                out.append("((%s)%%Z, %s%%nat, [%s])" % (c, n, "; ".join(lib.coq_string(x) for x in names.split("+") if x)))
            return "[" + "; ".join(out) + "]"
        v += ("From Martian Require Import K.Attempt.\n"
              "Definition ashow (ops : list aop) := map (fun x => match x with (c, n, names) => ((match c with Some i => Z.of_nat i | None => (-1)%%Z end), n, map hexd names) end) (atrace false s_init ops).\n"
              "Fixpoint leq {A} (e : A -> A -> bool) (a b : list A) : bool := match a, b with [] , [] => true | x :: a', y :: b' => e x y && leq e a' b' | _, _ => false end.\n"
              "Definition oeq (x y : Z * nat * list string) : bool := match x, y with (c1, n1, l1), (c2, n2, l2) => Z.eqb c1 c2 && Nat.eqb n1 n2 && leq String.eqb l1 l2 end.\n"
              "Definition acases : list (list aop * list (Z * nat * list string)) := [\n%s].\n"
              "Definition MA := Eval vm_compute in length (filter (fun c => negb (leq oeq (ashow (fst c)) (snd c))) acases).\nPrint MA.\n") % (
                  ";\n".join("(%s, %s)" % (aops(f), aobs(o)) for f, o in acs))
        rc, out = ctx.coq_eval(v, "c11_cases")
        okk = rc == 0 and "M = []" in out.replace("\n", " ") and "MA = 0" in out.replace("\n", " ")
        ctx.oblige("correspondence: kernel vm_compute of path_escape / journal_encode / parse_journal / attempt traces on %d sampled cases equals the implementation" % (len(ks) + len(js) + len(ps) + len(acs)), okk, out[-800:])
        ctx.coverage["kernel_sample"] = len(ks) + len(js) + len(ps) + len(acs)
    # -- the property read directly on the implementation
    p = ctx.vh_run(["c11", "oracle", s], stdin_path=cases, out_path=oracle)
    ctx.oblige("implementation-side oracle ran on all cases", p.returncode == 0, (p.stderr or b"").decode()[-800:])
    n_ok = n_fail = 0
    with open(oracle) as fo:
        for o, c in zip(fo, case_lines):
            o = o.rstrip("\n")
            if o == "ok":
                n_ok += 1
            elif o.startswith("FAIL"):
                n_fail += 1
                f = o.split(" ", 2)
                ctx.fail(f[1], f[2][:600], {"case": c[:6000], "observed": f[2][:2000],
                                             "how": "vh c11 oracle < case : real Node/Fork/Chunk/Metadata objects, real journal file creation, then parseRunFilename/find/getFork/getChunk (and Metadata.cache for attempt sequences)"})
    e2e = {}
    e2e = run_e2e(ctx)
    kinds = {}
    for c in case_lines:
        kinds[c[0]] = kinds.get(c[0], 0) + 1
    nforks = sum(int(c.split()[2]) for c in case_lines if c.startswith("t "))
    ctx.coverage.update({
        "evaluations": len(case_lines),
        "distinct_nontrivial": lib.distinct_count(cases, lambda l: len(l) > 5),
        "rule": "all 1-byte keys, all keys of length<=2 (3 thorough) over 26 significant byte strings, adversarial pool and its pairs, seeded random keys; every fork-id part list of length<=3 over a 23-entry menu (static/dynamic arrays, maps, empty, undetermined, error shapes), lengths crossing 10..10^7; structured and malformed journal names; attempt op sequences of 4-13 ops (start / reset / notify by any attempt / journal read) on chunk, split and join jobs; pipestance skeletons (1-4 nodes, fork families of depth<=3 with prefix-dependent ranges, permuted fork order, 0-101 chunks, split/join/main writers); distinct by case text",
        "case_kinds": {"key_escape": kinds.get("k", 0), "journal_encode": kinds.get("j", 0), "key_pairs": kinds.get("q", 0),
                       "fork_ids": kinds.get("i", 0), "journal_parse": kinds.get("p", 0), "uniquifier": kinds.get("u", 0),
                       "pipestance_skeletons": kinds.get("t", 0), "attempt_op_sequences": kinds.get("a", 0)},
        "oracle_ok": n_ok, "oracle_fail": n_fail,
        "end_to_end": e2e,
        "exhaustive": False,
    })
    tl = [c for c in case_lines if c.startswith("t ")]
    ctx.samples += [l[:240] for l in tl[:2]] + [l[:200] for l in case_lines if l.startswith("i 3")][500:502] + \
                   [l[:200] for l in case_lines if l.startswith("p ")][:2]
    return ctx.finish("proof")


def run_e2e(ctx):
    """Real mrp runs of mapped pipelines over adversarial key sets and nestings."""
    s = ctx.scratch
    d = os.path.join(s, "e2e")
    os.makedirs(os.path.join(d, "bin"), exist_ok=True)
    p = lib.run(["go", "build", "-o", os.path.join(d, "bin") + "/", "./cmd/mrp", "./cmd/mrjob"], cwd=lib.REPO, env=lib.GOENV, timeout=900)
    if not ctx.oblige("mrp and mrjob build from the repository", p.returncode == 0, p.stdout[-1500:]):
        return {}
    for n in ("jobmanagers", "adapters"):
        os.symlink(os.path.join(lib.REPO, n), os.path.join(d, n))
    n = 40 if ctx.tier == "thorough" else (6 if os.environ.get("C11_E2E") == "1" else 2)
    p = ctx.vh_run(["c11", "e2e", d, str(ctx.seed), str(n)], timeout=3000)
    out = p.stdout.decode(errors="replace")
    runs = ok = 0
    for line in out.splitlines():
        if line.startswith("E2E "):
            runs += 1
            f = line.split(" ", 3)
            if f[1] == "ok":
                ok += 1
            else:
                ctx.fail(f[1], f[3][:600] if len(f) > 3 else "", {"pipeline": f[2], "observed": (f[3] if len(f) > 3 else "")[:4000],
                                                                    "how": "vh c11 e2e <dir with bin/mrp> <seed> <n> : the mro source is hex in the replay"})
    ctx.oblige("end-to-end driver ran (%d pipestances)" % runs, p.returncode == 0 and runs > 0, (p.stderr or b"").decode()[-800:])
    return {"pipestances": runs, "completed_with_exact_keys": ok}
