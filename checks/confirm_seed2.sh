#!/bin/bash
# confirm_seed2.sh <worktree> <outdir>
# Confirms a seeded change in its scratch worktree: the patch applies, the code
# builds, the existing test suite passes, the demo fails with the patch and
# passes without it.  Prints one line per step.
set -u
wt=$1; out=$2
demo=$(cat $out/demo_command.txt)
export GOFLAGS=-mod=mod GOPROXY=off GOSUMDB=off GOTOOLCHAIN=local
cd $wt || exit 2
git checkout -q -- . ; git status --porcelain --untracked-files=no | grep -q . && { echo "worktree dirty"; exit 2; }
git apply $out/patch.diff && echo "apply: ok" || { echo "apply: FAILED"; exit 1; }
go build ./... && echo "build: ok" || echo "build: FAILED"
log=$(mktemp)
if go test -vet=off -count=1 ./... > $log 2>&1; then echo "tests with patch: pass"; else
  if go test -vet=off -count=1 ./... > $log 2>&1; then echo "tests with patch: pass (second run)"; else echo "tests with patch: FAIL"; grep -v "^ok\|no test files" $log | head -5; fi; fi
rm -f $log
( eval "$demo" ) > $out/demo.with.log 2>&1; echo "demo with patch: exit $?"
git checkout -q -- .
( eval "$demo" ) > $out/demo.without.log 2>&1; echo "demo without patch: exit $?"
git status --porcelain | head -3
