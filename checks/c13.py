"""C13 - final outputs are materialised faithfully under outs/."""
import os
import re

import lib

MANIFEST = {
 "category": "proof",
 "text": "Coq model K/PostProcess.v of Fork.postProcess / processStructOuts / handleOuts / moveOutFiles / moveOutDir / moveOutArrayDir / moveOutFile / copyOutSymlink, GetOutFilename and IsLegalUnixFilename over an abstract file system (path -> file | directory | link; rename of whole subtrees, mkdir -p, symlink). Theorems, for all types, values and file-system states, no size bound: C13_file_leaf_materialised_partial (a regular file or directory inside the pipestance whose destination is free is afterwards readable under outs/ at the derived path with exactly its nodes, the rewritten value names that location, the old location links to it, no error is flagged and nothing else changes but the directories on the way to the destination); the record keeps its shape at every level of move_val: C13_nonfile_values_unchanged, C13_file_leaf_stays_leaf (null / unchanged / a path string), C13_array_length_preserved, C13_map_keys_preserved (no key lost or invented), C13_struct_members_by_name, C13_top_level_keys_preserved; C13_null_stays_null, C13_missing_file_to_null (nothing at its place under outs/ either), C13_interrupted_move_resumed (a file missing because an interrupted run already moved it to its place under outs/ is linked back and reported there); C13_derived_names_distinct and C13_map_entry_names_injective (the compiler's duplicate-name rejection makes the entries of one outs/ directory pairwise different). Tied to /repo on every run: the outs directory name, the legal-file-name rule and the bound of the link-following loop are regenerated from the Go AST; the real postProcess is run (verif export building a fork over a prepared directory, as TestPostProcess does) on generated output signatures (file, user file types, path, arrays incl. multi-dimensional, typed maps, structs, nesting, explicit out names, null / missing / empty / ill-typed values, symlinks relative, absolute, chained, cyclic, dangling, to outside, files outside the pipestance, array- and map-called top-level pipelines) and the rewritten _outs, the error flag and the resulting tree are compared with the extracted model (plus a kernel vm_compute sample); the compiler's accept/reject of structs with clashing out names is compared with names_distinct; the property is also read directly on the implementation (valid JSON, shape, other values unchanged, content readable under outs/ at the derived path and through the rewritten value).",
 "note": "Partial with respect to the whole record: the per-leaf theorem is not composed over the traversal into one statement about every leaf of a record at once (its frame conjuncts are what that composition needs; the composition additionally needs pairwise disjoint sources), and the shape theorems are stated level by level rather than as one recursive relation. Trusted: Coq kernel; extraction (ExtrOcamlBasic) cross-checked in-kernel on a sample; extractconsts; the harness' tree dump and JSON canonicaliser. Abstracted: the POSIX file system (no permissions, cross-device renames, I/O errors; no symlinked directory on a looked-up path), the printed summary (printOutParam) is not modelled, typed-map forks of a map-called top-level pipeline are visited in key order (Go: random order). Outside the modelled fragment (flag unm, counted): relative or unclean path strings, a non-directory in the way of an out directory (stale outs/).",
 "technique": "Coq proof (frame reasoning over an abstract file system with subtree rename, list inductions over the traversal combinators) + differential correspondence on generated trees + implementation-side oracle",
}


def same(case, impl, model):
    if model == "U" or impl.startswith("X"):
        # outside the modelled fragment / the case could not be set up
        return True
    return impl == model


def check(ctx, args):
    ctx.trusted_base = [
        "Coq 8.16.1 kernel (coqc, vm_compute; no native_compute)",
        "axioms: none (Print Assumptions: Closed under the global context)",
        "extraction: ExtrOcamlBasic only, OCaml 4.13.1; cross-checked on a sample against vm_compute in the kernel",
        "harness/cmd/extractconsts (outs directory name, IsLegalUnixFilename limit / reserved names / forbidden characters copied from the Go AST)",
        "harness: tree dump (lstat / readlink / read), JSON parse and canonicalisation (hx.ParseJSON / Canon), generation of the .mro source for a type",
        "abstract file system of K/PostProcess.v (rename, mkdir -p, symlink, lstat/stat on a path -> node map)",
    ]
    ctx.assumptions = [
        "file-typed values are absolute clean path strings (others are flagged outside the modelled fragment and counted)",
        "no directory component of a path that is looked up is a symbolic link",
        "outs/ does not contain a non-directory in the way of an out directory (fresh completion); such cases are run for correspondence of the modelled part but the oracle makes no claim on them",
        "file system errors other than ENOENT / EEXIST / ENOTDIR-on-mkdir / rename-into-own-subtree do not occur",
        "the printed summary of outputs (printOutParam) is not modelled; values under typed-map keys that are not file names are generated well-typed because its errors reach the error flag",
        "ill-typed values (a number where a file is declared ...) are in the generated inputs although ValidateOutputs rejects them before a pipestance completes",
    ]
    okb = ctx.build_harness()
    oke = ctx.extract_consts(["PostProcess"])
    okc = ctx.coq_build()
    if okc:
        ctx.property_theorems()
    s = ctx.scratch
    cases, impl, model, oracle = (os.path.join(s, n) for n in ("cases.txt", "impl.txt", "model.txt", "oracle.txt"))
    if not okb:
        return ctx.finish("proof")
    p = ctx.vh_run(["c13", "gen", ctx.tier, str(ctx.seed)], out_path=cases)
    dist = {}
    m = re.search(r"C13-DISTRIBUTION (.*)", p.stderr.decode(errors="replace"))
    if m:
        dist = {k: int(v) for k, v in (kv.split("=") for kv in m.group(1).split())}
    work = os.path.join(s, "work")
    os.makedirs(work, exist_ok=True)
    pi = ctx.vh_run(["c13", "impl", work], stdin_path=cases, out_path=impl)
    ctx.oblige("implementation harness ran on every case", pi.returncode == 0, pi.stderr.decode(errors="replace")[-800:])
    n_unm = n_x = 0
    if okc:
        ctx.model_run("c13", cases, model)
        n, mism = lib.diff_lines(impl, model, cases, same)
        ctx.oblige("correspondence: rewritten _outs, error flag and resulting tree of the real postProcess == K.PostProcess.post_process; compiler accept/reject == names_distinct (%d cases, extracted model)" % n,
                   not mism, "; ".join("case#%d %s impl=%s model=%s" % (m[0], m[1][:300], m[2][:300], m[3][:300]) for m in mism[:3] if m))
        with open(model) as fm, open(impl) as fi:
            for a, b in zip(fm, fi):
                n_unm += a.strip() == "U"
                n_x += b.startswith("X")
        # kernel sample
        ksize = 120 if ctx.tier == "quick" else 600
        pk = ctx.vh_run(["c13", "coq", cases, impl, str(ksize)])
        rc, out = ctx.coq_eval(pk.stdout.decode(), "c13_cases", timeout=1500)
        okk = rc == 0 and "M = []" in out.replace("\n", " ")
        ctx.oblige("correspondence: kernel vm_compute of post_process on %d sampled cases equals the implementation (record and error flag)" % ksize, okk, out[-600:])
        ctx.coverage["kernel_sample"] = ksize
    # the property read directly on the implementation
    po = ctx.vh_run(["c13", "oracle", work], stdin_path=cases, out_path=oracle)
    ctx.oblige("oracle harness ran on every case", po.returncode == 0, po.stderr.decode(errors="replace")[-800:])
    n_ok = n_fail = n_skip = 0
    with open(oracle) as fo, open(cases) as fc:
        for o, c in zip(fo, fc):
            o = o.rstrip("\n")
            if o == "ok":
                n_ok += 1
            elif o.startswith("FAIL"):
                n_fail += 1
                f = o.split(" ", 2)
                detail = f[2] if len(f) > 2 else ""
                try:
                    detail = bytes.fromhex(detail).decode(errors="replace")
                except ValueError:
                    pass
                ctx.fail(f[1], detail[:400], {"case": c.strip()[:6000], "observed": detail[:2000],
                                              "how": "echo '<case>' | vh c13 oracle <scratch dir>  (harness built with -tags verif against the repository); case format in harness/cmd/vh/c13.go"})
            else:
                n_skip += 1
    kinds = {}
    with open(cases) as fc:
        for c in fc:
            kinds[c[0]] = kinds.get(c[0], 0) + 1
    ctx.coverage.update({
        "evaluations": sum(kinds.values()),
        "distinct_nontrivial": lib.distinct_count(cases, lambda l: len(l) > 60),
        "rule": "seeded random output signatures (depth <= 3, 1-4 parameters) with matching trees on disk; one third of the cases only regular files / directories / null, the rest the full leaf mix; 10% array-mapped and 10% map-mapped top-level calls; plus structs with clashing out names for the compiler; distinct by case text, non-trivial = at least one parameter with a value",
        "case_kinds": {"post_process": kinds.get("c", 0), "naming": kinds.get("n", 0)},
        "input_distribution": dist,
        "outside_modelled_fragment": int(n_unm),
        "not_runnable": int(n_x),
        "oracle_ok": n_ok, "oracle_fail": n_fail, "oracle_no_claim": n_skip,
        "exhaustive": False,
    })
    lines = open(cases).read().splitlines()
    ctx.samples = [l[:300] for l in lines[:3]] + [l[:200] for l in lines if l.startswith("n ")][:2]
    return ctx.finish("proof")
