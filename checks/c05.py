"""C05 - an interrupted pipestance resumes to the same result, not redoing finished work."""
import os
import random

import lib
import pipelib
import schedcases

MANIFEST = {
 "category": "proof",
 "text": "Over Mro/Sched.v, for every dependency relation and every history (unbounded; crashes, failures and restarts are arbitrary resets of jobs that are not done): C05_done_stable (a recorded completion is never lost), C05_done_never_restarted (a job whose completion was recorded before an interruption is never started again in any continuation), C05_restart_converges (from any state a restart can leave - every job idle or done - there is a continuation that completes every job, starts nothing that was done and everything else exactly once), C05_no_stall. The final outputs are Mro/Sem.v's function of the program, which knows no schedule or interruption. Tie (crash-point enumeration on the real mrp+mrjob): for generated programs mrp is interrupted at the k-th recorded event plus a small offset, k ranging over the whole run - SIGKILL of mrp alone (jobs orphaned), SIGKILL of mrp and its jobs, SIGTERM and SIGINT (handled) - the stale lock is removed after SIGKILL as documented, and mrp is restarted with the same invocation. Checked: the restart completes, the final outs equal those of the uninterrupted run, the merged history of all incarnations (completion = the completion marker on disk, not the process's own end record) is accepted by Sched.valid_trace in the kernel (no job with a recorded completion is executed again, nothing starts before its dependencies), and a handled signal leaves no _lock. Syscall-level crash points (mrp killed entering its K-th rename/symlink/mkdir/unlink, on a pipeline with file outputs): the restart completes, the rewritten outs and the contents of every file they name equal the uninterrupted run's, and no stage with a recorded completion runs again.",
 "note": "Proof about the scheduler model + crash-point enumeration against it. Crash points are sampled at event boundaries with millisecond offsets (before/after a job starts, after its outputs, after the completion marker and before mrp noticed it, during fork expansion and post-processing), and, on a fixed pipeline with file-typed final outputs (corpus/c05_postprocess), at mrp's own rename / symlink / mkdir / unlink system calls (strace injection of SIGKILL on entering the K-th such call of a thread, K enumerated), which covers post-processing (move to outs/, link back, rewrite of _outs). Goroutine interleavings inside mrp, filesystem visibility delays and pid reuse are not modelled. Interruption during VDR is exercised by the C04/C14 checks' modes, not here.",
 "technique": "Coq invariant and convergence proofs over all histories of a scheduler state machine + crash-point enumeration on real mrp with kernel-evaluated trace acceptance",
}


SYSCALL_CLASSES = (("symlink", "symlink,symlinkat"), ("rename", "rename,renameat,renameat2"),
                   ("mkdir", "mkdir,mkdirat"), ("unlink", "unlink,unlinkat"))


def syscall_crashes(ctx, quick):
    """mrp killed at its own filesystem effects (strace -f -b execve: only mrp's
    threads are traced; SIGKILL injected on entering the K-th rename / symlink /
    mkdir / unlink of a thread), on a pipeline whose final outputs are files, so
    that post-processing (move to outs/, link back, rewrite of _outs) is among
    the crash points.  Then the stale lock is removed and mrp restarted."""
    import glob
    import json
    import re
    import shutil
    import subprocess
    import time
    if not shutil.which("strace"):
        ctx.oblige("syscall-level crash points: strace available", False, "strace not found")
        return {}
    src = os.path.join(lib.VERIF, "corpus", "c05_postprocess")
    d = os.path.join(ctx.scratch, "pp")
    os.makedirs(d, exist_ok=True)
    open(os.path.join(d, "pipeline.mro"), "w").write(open(os.path.join(src, "pipeline.mro")).read().replace("@DIR@", src))
    mrp = os.path.join(ctx.mart, "bin", "mrp")
    env = dict(os.environ, MROPATH=d, C05PP_LOG=os.path.join(d, "runs.log"))
    base = [mrp, "pipeline.mro"]
    opts = ["--localcores=4", "--localmem=4", "--disable-ui"]

    def outs_of(ps):
        try:
            o = json.load(open(os.path.join(d, ps, "TOP", "fork0", "_outs")))
        except Exception as e:
            return "unreadable: %s" % e, {}
        contents = {}

        def walk(v):
            if isinstance(v, str) and v.startswith("/"):
                try:
                    contents[v.replace("/" + ps + "/", "/PS/")] = open(v).read()
                except Exception as e:
                    contents[v.replace("/" + ps + "/", "/PS/")] = "unreadable: %s" % type(e).__name__
            elif isinstance(v, list):
                for x in v:
                    walk(x)
            elif isinstance(v, dict):
                for x in v.values():
                    walk(x)
        walk(o)
        return json.dumps(o, sort_keys=True).replace("/" + ps + "/", "/PS/"), contents

    p = subprocess.run(base + ["ref"] + opts, cwd=d, env=env, capture_output=True, text=True, timeout=120)
    ref, refc = outs_of("ref")
    ok = p.returncode == 0 and '"report": "' in ref and all("unreadable" not in c for c in refc.values())
    ctx.oblige("syscall-level crash points: the uninterrupted reference run of corpus/c05_postprocess completes with its files under outs/", ok,
               (p.stdout + p.stderr)[-600:] + ref)
    if not ok:
        return {}
    scen = []
    kmax = {"symlink": 10, "rename": 10, "mkdir": 14 if quick else 40, "unlink": 8 if quick else 30}
    for cname, calls in SYSCALL_CLASSES:
        for k in range(1, kmax[cname] + 1):
            scen.append({"class": cname, "calls": calls, "k": k, "psid": "x%s%d" % (cname, k)})

    def pgone(pgid, maxs=10.0):
        t0 = time.time()
        while time.time() - t0 < maxs:
            alive = False
            for e in os.listdir("/proc"):
                if e.isdigit():
                    try:
                        st = open("/proc/%s/stat" % e).read()
                        if int(st[st.rindex(")") + 2:].split()[2]) == pgid:
                            alive = True
                            break
                    except Exception:
                        pass
            if not alive:
                return
            time.sleep(0.01)

    def run(s):
        ps = s["psid"]
        tr = os.path.join(d, ps + ".trace")
        cmd = ["strace", "-f", "-b", "execve", "-o", tr, "-e", "trace=" + s["calls"],
               "-e", "inject=%s:signal=SIGKILL:when=%d" % (s["calls"], s["k"])] + base + [ps] + opts
        pr = subprocess.Popen(cmd, cwd=d, env=env, stdout=subprocess.PIPE, stderr=subprocess.STDOUT, text=True, start_new_session=True)
        try:
            out1, _ = pr.communicate(timeout=120)
        except subprocess.TimeoutExpired:
            os.killpg(pr.pid, 9)
            out1, _ = pr.communicate()
        s["exit0"] = pr.returncode
        pgone(pr.pid)
        last = ""
        try:
            lines = [l for l in open(tr) if not re.match(r"^\d+ +[-+]", l)]
            last = lines[-1].strip()[:220] if lines else ""
        except OSError:
            pass
        s["killed_at"] = last
        s["killed"] = pr.returncode != 0 and "Pipestance completed successfully" not in out1
        done_before = {st: bool(glob.glob(os.path.join(d, ps, "TOP", st, "fork0", "chnk0*", "_complete"))) for st in ("MAKE", "COUNT")}
        log = os.path.join(d, "runs_%s.log" % ps)
        try:
            os.remove(os.path.join(d, ps, "_lock"))
        except OSError:
            pass
        env2 = dict(env, C05PP_LOG=log)
        p2 = subprocess.run(base + [ps] + opts, cwd=d, env=env2, capture_output=True, text=True, timeout=120)
        s["exit1"] = p2.returncode
        s["tail1"] = (p2.stdout + p2.stderr)[-700:]
        s["outs"], s["contents"] = outs_of(ps)
        reruns = open(log).read() if os.path.exists(log) else ""
        s["rerun_of_completed"] = [st for st, dn in done_before.items() if dn and ("start " + st) in reruns]
        return s
    pipelib.parallel(run, scen, par=8)
    stats = {"scenarios": len(scen), "killed_live_mrp": 0, "by_class": {}}
    init_rx = r"(open \S*/_(mrosource|invocation|versions|tags|uuid|timestamp|jobmode): no such file|ParseError: [^\n]* at \S*/_mrosource|unexpected end of JSON input|is not a pipestance directory)"
    for s in scen:
        if not s["killed"]:
            continue
        stats["killed_live_mrp"] += 1
        stats["by_class"][s["class"]] = stats["by_class"].get(s["class"], 0) + 1
        rep = {"program": "corpus/c05_postprocess", "syscall_class": s["calls"], "when": s["k"], "killed_entering": s["killed_at"],
               "restart_exit": s["exit1"], "restart_tail": s["tail1"][-400:], "outs": s["outs"], "reference_outs": ref}
        where = "mrp killed entering %s" % (s["killed_at"] or "?")
        if s["exit1"] != 0 and re.search(init_rx, s["tail1"]):
            ctx.fail("killed_during_pipestance_initialisation", "mrp was killed while creating the pipestance directory; the restart refuses it (%s)" % where, rep)
        elif s["exit1"] != 0:
            ctx.fail("restart_does_not_complete", "corpus/c05_postprocess: %s; the restart exits %d" % (where, s["exit1"]), rep)
        elif s["outs"] != ref or s["contents"] != refc:
            ctx.fail("outs_differ_from_uninterrupted_run", "corpus/c05_postprocess: %s; the restarted pipestance completes with outputs %s, the uninterrupted run has %s" % (
                where, s["outs"], ref), rep)
        elif s["rerun_of_completed"]:
            ctx.fail("completed_job_executed_again_or_started_early", "corpus/c05_postprocess: %s; %s had a recorded completion and ran again" % (
                where, ",".join(s["rerun_of_completed"])), rep)
    ctx.oblige("syscall-level crash points ran (%d scenarios, %d killed a live mrp; post-processing renames and links among them)" % (
        len(scen), stats["killed_live_mrp"]),
        stats["by_class"].get("symlink", 0) >= 3 and stats["by_class"].get("rename", 0) >= 3)
    return stats

def env_reference_restart(ctx):
    """An invocation file that refers to environment variables ($NAME, ${NAME},
    here in a comment and in an argument): mrp is stopped (SIGTERM) while the
    first stage runs and restarted with the very same command and file."""
    import json
    import signal
    import subprocess
    import time
    src = os.path.join(lib.VERIF, "corpus", "c05_postprocess")
    d = os.path.join(ctx.scratch, "envref")
    os.makedirs(d, exist_ok=True)
    text = open(os.path.join(src, "pipeline.mro")).read().replace("@DIR@", src)
    text = "# started by $C05_WHO in ${C05_WHERE}\n" + text.replace("seed = 7", "seed = $C05_SEED")
    if "$C05_SEED" not in text:
        text = text.replace("call TOP(", "# seed $C05_SEED\ncall TOP(")
    open(os.path.join(d, "pipeline.mro"), "w").write(text)
    env = dict(os.environ, MROPATH=d, C05PP_LOG=os.path.join(d, "runs.log"), C05_WHO="someone", C05_WHERE="/some/where", C05_SEED="7")
    cmd = [os.path.join(ctx.mart, "bin", "mrp"), "pipeline.mro", "envref", "--localcores=4", "--localmem=4", "--disable-ui"]
    p = subprocess.Popen(cmd, cwd=d, env=env, stdout=subprocess.PIPE, stderr=subprocess.STDOUT, text=True, start_new_session=True)
    t0 = time.time()
    while time.time() - t0 < 20 and not os.path.exists(os.path.join(d, "envref", "_invocation")):
        time.sleep(0.02)
    time.sleep(0.15)
    try:
        os.killpg(p.pid, signal.SIGTERM)
    except OSError:
        pass
    try:
        out0 = p.communicate(timeout=60)[0]
    except subprocess.TimeoutExpired:
        os.killpg(p.pid, signal.SIGKILL)
        out0 = p.communicate()[0]
    try:
        os.remove(os.path.join(d, "envref", "_lock"))
    except OSError:
        pass
    p1 = subprocess.run(cmd, cwd=d, env=env, capture_output=True, text=True, timeout=120)
    ok = p1.returncode == 0 and os.path.exists(os.path.join(d, "envref", "TOP", "fork0", "_outs"))
    if not ok:
        ctx.fail("restart_refused_invocation_with_environment_reference" if "different invocation" in (p1.stdout + p1.stderr) else "restart_does_not_complete",
                 "corpus/c05_postprocess with '$NAME' references in the invocation file: restart with the same file and environment exits %d" % p1.returncode,
                 {"invocation_file_head": text[:300], "environment": {"C05_WHO": "someone", "C05_WHERE": "/some/where", "C05_SEED": "7"},
                  "first_run_exit": p.returncode, "first_run_tail": out0[-300:], "restart_exit": p1.returncode, "restart_tail": (p1.stdout + p1.stderr)[-500:]})
    ctx.oblige("restart of a pipestance whose invocation file refers to environment variables ran", True)
    return {"first_exit": p.returncode, "restart_exit": p1.returncode}


MODES = ("killgroup", "killgroup", "kill", "term", "int")


def check(ctx, args):
    ctx.trusted_base = [
        "Coq 8.16.1 kernel (coqc, vm_compute; no native_compute)",
        "axioms: none (Print Assumptions: Closed under the global context)",
        "vh __stage event log, vh c05 crashrun (crash driver: signals, lock removal, restarts, completion markers), checks/schedcases.py",
    ]
    ctx.assumptions = [
        "jobs run under the job monitor mrjob (which records its pid in _jobinfo)",
        "after SIGKILL the operator removes the stale _lock (the driver does)",
        "completion of a job = its _complete marker exists on disk when the scenario ends",
    ]
    okb = ctx.build_harness(extra=pipelib.PIPE_FILES)
    okm = pipelib.build_martian(ctx)
    okc = ctx.coq_build()
    if okc:
        ctx.property_theorems()
    if not (okb and okm):
        return ctx.finish("proof")
    quick = ctx.tier == "quick"
    nprog = 12 if quick else 100
    per_prog = 7 if quick else 30
    rnd = random.Random(ctx.seed)
    progs, stats = pipelib.gen_programs(ctx, nprog, ctx.seed + 5000)
    sched = "%d:60" % (ctx.seed + 17)
    res = pipelib.run_programs(ctx, progs, "ps0", sched)
    scen = []
    for name, info in sorted(res.items()):
        d = os.path.join(progs, name)
        if info["exit"] != 0 or info["jobs"] < 2:
            continue
        nev = sum(1 for _ in open(os.path.join(d, "ps0.events")))
        for k in range(per_prog):
            scen.append({"dir": d, "prog": name, "k": rnd.randrange(0, nev + 1), "off": rnd.choice((0, 0, 2, 8, 30)),
                         "mode": MODES[(k + rnd.randrange(len(MODES))) % len(MODES)], "psid": "c%d" % len(scen)})

    def run(s):
        s["res"] = pipelib.scenario(ctx, ("c05", "crashrun"), [s["dir"], ctx.mart, s["psid"], s["k"], s["off"], s["mode"], sched])
        return s
    pipelib.parallel(run, scen, par=8)
    cases = []
    nint = 0
    modes = {}
    for s in scen:
        r = s["res"]
        incs = r.get("incarnations", [])
        rep = {"program": s["prog"], "event_index": s["k"], "offset_ms": s["off"], "mode": s["mode"],
               "exits": [i["exit"] for i in incs], "locks": [i["lock_after"] for i in incs],
               "tails": [i["tail"][-500:] for i in incs]}

        def fail(cls, msg):
            rp = pipelib.save_replay(ctx, s["dir"], s["prog"] + "_" + s["psid"], rep)
            ctx.fail(cls, "%s: %s (mode %s at event %d +%dms)" % (s["prog"], msg, s["mode"], s["k"], s["off"]),
                     {"replay_dir": os.path.dirname(rp), "scenario": rep})
        if not incs:
            fail("scenario_driver_error", str(r)[:300])
            continue
        interrupted = bool(incs[0].get("signal")) and incs[0]["exit"] != 0
        modes[s["mode"] + ("" if interrupted else " (too late)")] = modes.get(s["mode"] + ("" if interrupted else " (too late)"), 0) + 1
        if interrupted:
            nint += 1
            if s["mode"] in ("term", "int") and incs[0]["lock_after"]:
                fail("lock_left_after_handled_signal", "mrp exited on %s but _lock is still there" % s["mode"])
        last = incs[-1]
        import re
        init_rx = r"(open \S*/_(mrosource|invocation|versions|tags|uuid|timestamp|jobmode): no such file|ParseError: [^\n]* at \S*/_mrosource|unexpected end of JSON input|is not a pipestance directory|already exists with different invocation file)"
        # (the last alternative: _invocation itself was being written when mrp
        # was stopped - its content is compared byte for byte on restart; only
        # counted here when no job had started yet, events == 0)
        if last["exit"] != 0 and incs[0]["events"] == 0 and s["mode"] in ("kill", "killgroup") and re.search(init_rx, last["tail"]):
            fail("killed_during_pipestance_initialisation", "mrp was killed while writing the top-level metadata files; the restart refuses the half-initialised directory")
        elif last["exit"] != 0 and incs[0]["events"] == 0 and s["mode"] in ("term", "int") and re.search(init_rx, last["tail"]):
            fail("terminated_during_pipestance_initialisation", "mrp caught the signal while creating the pipestance directory; the restart refuses the half-initialised directory")
        elif last.get("timed_out") and r.get("stuck") and all(j["pid"] == 0 for j in r["stuck"]) \
                and s["mode"] == "killgroup":
            rep["stuck"] = r["stuck"]
            fail("job_killed_before_monitor_recorded_pid", "the restart waits for %s, killed together with mrp before mrjob had written its pid into _jobinfo" % ", ".join(j["id"] for j in r["stuck"]))
        elif last["exit"] != 0:
            rep["stuck"] = r.get("stuck")
            fail("restart_does_not_complete", "after the interruption the restarts end with exit %d" % last["exit"])
        elif r.get("outs") != pipelib.clean_outs(s["dir"]):
            fail("outs_differ_from_uninterrupted_run", "final outs differ from those of the uninterrupted run")
        psids = ["%s.inc%d" % (s["psid"], i) for i in range(len(incs))]
        jobs, evs = schedcases.trace_of(s["dir"], psids, pipelib.splits_of(s["dir"]))
        if jobs:
            cases.append((s, jobs, evs))
    if okc and cases:
        verdicts, errors = pipelib.trace_check(ctx, [(s["dir"], j, e) for s, j, e in cases], "crash")
        ctx.oblige("crash histories evaluate in the kernel", not errors, "; ".join(errors[:2]))
        for (s, jobs, evs), v in zip(cases, verdicts):
            if v is None or v["valid"]:
                continue
            i = v["first_bad"]
            kind, jid = evs[i] if i is not None and i < len(evs) else ("?", "?")
            cls = {"EStart": "completed_job_executed_again_or_started_early"}.get(kind, "history_not_accepted_" + kind)
            rp = pipelib.save_replay(ctx, s["dir"], s["prog"] + "_" + s["psid"],
                                     {"scenario": {k: x for k, x in s.items() if k != "res"}, "rejected": [kind, jid], "history": evs[:i + 1]})
            ctx.fail(cls, "%s: event %s %s not enabled (mode %s at event %d)" % (s["prog"], kind, jid, s["mode"], s["k"]),
                     {"replay_dir": os.path.dirname(rp)})
    ctx.oblige("crash-point enumeration ran (%d scenarios, %d interrupted a live mrp)" % (len(scen), nint), nint > 0 and okc)
    sysstats = syscall_crashes(ctx, quick)
    sysstats["environment_reference_restart"] = env_reference_restart(ctx)
    ctx.samples = [{k: v for k, v in s.items() if k not in ("res", "dir")} for s in scen[:5]]
    ctx.coverage.update({
        "evaluations": len(scen), "distinct_nontrivial": nint,
        "rule": "scenario = (program, event index, offset, signal mode); non-trivial = the signal hit a live mrp (it had not exited yet)",
        "traces_validated_against_impl": len(cases), "modes": modes, "programs": nprog, "shape_distribution": stats,
        "syscall_level_crash_points": sysstats,
    })
    return ctx.finish("proof")
