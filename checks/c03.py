"""C03 - every enabled job runs exactly once; disabled calls never run."""
import os

import lib
import pipelib
import schedcases

MANIFEST = {
 "category": "proof",
 "text": "Two Coq results decide it. (1) Over Mro/Sched.v, for every dependency relation and every interleaving: C03_no_double_start (no job starts twice in a failure-free history), C03_exactly_once (every job done at the end was started exactly once), C03_progress (while something is not done and nothing runs, some job is startable: no stall). (2) Over Mro/Sem.v, for all programs and stage oracles: which jobs exist - one fork per element/key of a mapped call (per combination by nesting), none for a disabled call (own condition or enclosing pipeline), none for a mapped call over an empty or null collection, split + one chunk per returned definition (incl. 0) + join for a splitting stage. Tie: generated programs run under the real mrp+mrjob with adversarial delays; the observed history is replayed through Sched.valid_trace in the kernel (each job id started exactly once, all done) and the observed job set is compared with Sem's job set (nothing skipped, nothing extra).",
 "note": "Proof about the models + trace acceptance/differential validation of real runs. The runtime forks a stage only over the mapped dimensions its arguments depend on, so 'nothing skipped' is set equality of (call path, phase, arguments) with multiplicity bounded by the semantics; per-job-id exactly-once is checked on the history itself. Goroutine interleavings inside mrp are exercised, not modelled. Cluster job managers are not exercised here.",
 "technique": "Coq proofs over all histories (scheduler model) and all programs (fork enumeration in the semantics) + kernel-evaluated trace acceptance and job-set comparison of real mrp runs",
}


def check(ctx, args):
    ctx.trusted_base = [
        "Coq 8.16.1 kernel (coqc, vm_compute; no native_compute)",
        "axioms: none (Print Assumptions: Closed under the global context)",
        "vh __stage event log and recorded arguments; harness/internal/pgen; checks/schedcases.py, semcases.py",
    ]
    ctx.assumptions = [
        "runs are failure-free and crash-free (no fault is injected in this check)",
        "null, empty collections and collections of nulls are identified when comparing job arguments",
    ]
    okb = ctx.build_harness(extra=pipelib.PIPE_FILES)
    okm = pipelib.build_martian(ctx)
    okc = ctx.coq_build()
    if okc:
        ctx.property_theorems()
    if not (okb and okm):
        return ctx.finish("proof")
    nknown = pipelib.run_known_corpus(ctx)
    quick = ctx.tier == "quick"
    nprog = 60 if quick else 800
    scheds = [None, "%d:200" % (ctx.seed * 13 + 5)] if quick else \
        [None] + ["%d:%d" % (ctx.seed * 13 + k, 80 * k) for k in (1, 2, 4)]
    progs, stats = pipelib.gen_programs(ctx, nprog, ctx.seed + 2000)
    ntr = njobs = ncmp = rejects = 0
    for si, sched in enumerate(scheds):
        psid = "ps%d" % si
        res = pipelib.run_programs(ctx, progs, psid, sched)
        cases, okdirs = [], []
        for name, info in sorted(res.items()):
            d = os.path.join(progs, name)
            if info["exit"] != 0:
                cls = pipelib.classify_bad_run(open(os.path.join(d, psid + ".log")).read(), info)
                if cls == "compile_reject":
                    rejects += 1
                    continue
                rp = pipelib.save_replay(ctx, d, name + "_" + psid, {"program": name, "schedule": sched, "class": cls})
                ctx.fail(cls, "%s schedule=%s: a failure-free run did not complete (exit %d)" % (name, sched, info["exit"]),
                         {"replay_dir": os.path.dirname(rp)})
                continue
            okdirs.append(d)
            jobs, evs = schedcases.trace_of(d, [psid], pipelib.splits_of(d))
            cases.append((d, jobs, evs))
            njobs += len(jobs)
        if not okc:
            continue
        verdicts, errors = pipelib.trace_check(ctx, cases, psid)
        ctx.oblige("trace cases for schedule %s evaluate in the kernel" % sched, not errors, "; ".join(errors[:2]))
        for (d, jobs, evs), v in zip(cases, verdicts):
            if v is None:
                continue
            ntr += 1
            if not (v["valid"] and v["once"] and v["all_done"]):
                cls = "job_started_twice" if not v["once"] else ("job_never_finished" if not v["all_done"] else "history_not_accepted")
                rp = pipelib.save_replay(ctx, d, os.path.basename(d) + "_" + psid,
                                         {"program": os.path.basename(d), "schedule": sched, "verdict": v, "history": evs})
                ctx.fail(cls, "%s: %s" % (os.path.basename(d), v), {"replay_dir": os.path.dirname(rp)})
        results, cerr = pipelib.coq_compare(ctx, okdirs, psid + ".obs")
        ctx.oblige("job-set cases for schedule %s evaluate in the kernel" % sched, not cerr, "; ".join(e[1][-300:] for e in cerr[:2]))
        for d, ok in results.items():
            ncmp += 1
            if not ok:
                rp = pipelib.save_replay(ctx, d, os.path.basename(d) + "_" + psid,
                                         {"program": os.path.basename(d), "schedule": sched,
                                          "detail": pipelib.coq_detail(ctx, d, psid + ".obs")})
                ctx.fail(pipelib.classify_mismatch(ctx, d, psid + ".obs") or "job_set_differs_from_semantics", os.path.basename(d), {"replay_dir": os.path.dirname(rp)})
    ctx.oblige("trace acceptance + job-set comparison ran on every completed run (%d histories, %d comparisons)" % (ntr, ncmp),
               okc and ntr > 0 and ntr == ncmp)
    ctx.samples = [{"history_prefix": evs[:10]} for (_, _, evs) in cases[:2]] if ntr else []
    ctx.coverage.update({
        "evaluations": ntr, "distinct_nontrivial": ntr,
        "rule": "one history per (generated program, schedule) that completed; non-trivial: at least one job; jobs observed %d" % njobs,
        "traces_validated_against_impl": ntr, "jobs_observed": njobs, "programs": nprog,
        "compile_rejects": rejects, "schedules": [s or "none" for s in scheds], "shape_distribution": stats,
    })
    return ctx.finish("proof")
