"""Builds cases.v for the Sem/Obs comparison from program directories written
by `vh c01 genprogs` + `vh c01 run`, runs it through coqc and parses verdicts."""
import os
import re


def jv_coq(enc):
    """Transport-encoded json (hx.JV.Enc) -> Gallina term."""
    pos = 0

    def until(c):
        nonlocal pos
        st = pos
        while enc[pos] != c:
            pos += 1
        r = enc[st:pos]
        pos += 1
        return r

    def value():
        nonlocal pos
        c = enc[pos]
        pos += 1
        if c == 'n':
            return "JNull"
        if c == 't':
            return "(JBool true)"
        if c == 'f':
            return "(JBool false)"
        if c == '#':
            body = until(';')
            m, e = body.split('e')
            return "(JNum (%s)%%Z (%s)%%Z)" % (m, e)
        if c == 's':
            return '(JStr (unhex "%s"))' % until(';')
        if c == '[':
            items = []
            while enc[pos] != ']':
                items.append(value())
            pos += 1
            return "(JArr [" + "; ".join(items) + "])"
        if c == '{':
            items = []
            while enc[pos] != '}':
                k = until(':')
                items.append('(unhex "%s", %s)' % (k, value()))
            pos += 1
            return "(JObj [" + "; ".join(items) + "])"
        raise ValueError("bad transport json at %d" % pos)
    return value()


def hexs(s):
    return s.encode().hex()


def case_text(i, d, obsfile="ps.obs"):
    prog = open(os.path.join(d, "prog.v")).read()
    spec = open(os.path.join(d, "specterm.v")).read()
    obs, outs = [], "None"
    for line in open(os.path.join(d, obsfile)):
        f = line.split()
        if not f:
            continue
        if f[0] == "inv":
            obs.append('(unhex "%s", unhex "%s", %s)' % (hexs(f[1]), hexs(f[2]), jv_coq(f[3])))
        elif f[0] == "outs":
            outs = "(Some %s)" % jv_coq(f[1])
    return ("Definition prog_%d : program := %s.\nDefinition spec_%d : spec := %s.\n"
            "Definition seen_%d : list obs := [%s].\nDefinition outs_%d : option json := %s.\n"
            "Definition v_%d := Eval vm_compute in check_run prog_%d spec_%d seen_%d outs_%d.\n"
            % (i, prog, i, spec, i, ";\n  ".join(obs), i, outs, i, i, i, i, i))


HEADER = ("From Coq Require Import String.\n"
          "From Martian Require Import Lib.Bytes Json.Json Json.Enc Mro.Sem Mro.StageSpec Mro.Obs.\n"
          "Open Scope string_scope.\n"
          "Definition show_obs (o : obs) := (hex (fst (fst o)), hex (snd (fst o)), hex (enc (snd o))).\n"
          "Definition show (v : verdict) := (run_ok v, map show_obs (v_missing v), map show_obs (v_extra v), v_outs_ok v, hex (enc (v_model_outs v))).\n")


def build(dirs, obsfile="ps.obs"):
    parts = [HEADER]
    for i, d in enumerate(dirs):
        parts.append(case_text(i, d, obsfile))
    parts.append("Definition OK := Eval vm_compute in [%s].\nPrint OK.\n" % "; ".join("run_ok v_%d" % i for i in range(len(dirs))))
    return "\n".join(parts)


def paths(i):
    """Structured summary of a mismatch: hex call paths of the missing, the
    extra and all the semantics' observations, and whether the outs agree."""
    return ("Definition P_%d := Eval vm_compute in (map (fun o => hex (fst (fst o))) (v_missing v_%d), "
            "map (fun o => hex (fst (fst o))) (v_extra v_%d), "
            "map (fun i => hex (join_path (i_path i))) (snd (eval_program prog_%d (spec_oracle spec_%d) fuel_default fuel_default)), "
            "v_outs_ok v_%d).\nPrint P_%d.\n" % (i, i, i, i, i, i, i))


def detail(i):
    return "Definition D_%d := Eval vm_compute in show v_%d.\nPrint D_%d.\n" % (i, i, i)


def parse_ok(out):
    m = re.search(r'OK\s*=\s*\[(.*?)\]', out, re.S)
    if not m:
        return None
    return [x.strip() == "true" for x in m.group(1).split(";") if x.strip()]
