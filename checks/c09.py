"""C09 - formatting is idempotent and preserves the program (incl. include-expanded form)."""
import json
import os

import lib

MANIFEST = {
 "category": "proof",
 "text": "Coq theorems: C09_quote_roundtrip (for every valid UTF-8 string of any length, the model of quoteString writes exactly one string token of the lexer model and the model of unquoteBytes gives the string back), C09_int_format_parse (FormatInt then parseInt is the identity on int64), C09_formatGB_roundtrip_partial / C09_formatGB_fraction (the text formatGB prints denotes, rounded up to MB, the amount it was printed from: all 1023 fractions by kernel computation, any integer part), C09_toposort_perm / C09_toposort_stable (the model of topoSort only rearranges calls and leaves calls that are already in dependency order where they are), C09_literal_comments_exactly_once (the model of ArrayExp.formatNested / MapExp.format prints every comment attached to an element of a collection literal exactly once and in order, for any nesting, incl. single-element arrays inside single-element arrays), C09_ast_same_sound (the validator ast_same accepts two compiled Asts only if they have the same declarations, parameters, types, help/outname strings, src, resources, retains, return bindings and top-level call, and the same calls with the same bindings, exact literal values, modifiers and modes up to a permutation under which both orders respect the dependencies). Tied to /repo on every run: quoteString, IntExp.format, formatGB (below 256 GB) and topoSort are compared with the models on exhaustive small domains plus seeded cases (extracted OCaml, and a kernel vm_compute sample); for generated programs that use every literal form, optional clause and both modifier syntaxes the real compiled Ast of src, format(src) and format(format(src)) - and of the include-expanded source mrp records for multi-file programs (diamonds, nested directories), compiled on its own - are dumped from martian's compiler and the proved validator is run on each pair; and the property is read directly on the implementation: the formatted text parses and compiles, format(format(src)) == format(src) byte for byte, EquivalentCall both ways, number / resource literals re-read to the same value, every comment inserted at element boundaries is printed exactly once, comments at arbitrary token boundaries are not lost.",
 "note": "Partial for comments and the byte-level fixed point: lexer.go attachComments/compileComments and the printer's layout are not modelled; exactly-once / not-lost / fixed-point are checked on the implementation's bytes over generated programs only. Float printing (strconv 'g' shortest) and the float32 re-parse of formatGB's text are not modelled (oracle on the implementation). Trusted: Coq kernel; extraction cross-checked in-kernel on a sample; astdump; martian's own parser/compiler builds the Asts. Guards, each a recorded known finding: string literals whose value is not valid UTF-8 are rewritten to U+FFFD (C09_quote_invalid_utf8_refuted); the number of blank lines around a comment block that stands apart from the next element depends on source line distances, so a second format can move blank lines; a comment on the line of an empty using () block is dropped.",
 "technique": "Coq proof (induction over the string with a UTF-8 skip invariant and exhaustive byte case analysis; finite-domain vm_compute lifted with forallb_forall; permutation/stability of the sort loop by induction on fuel) + translation validation with a validator proved sound + differential correspondence + implementation-side oracle",
}


def check(ctx, args):
    ctx.trusted_base = [
        "Coq 8.16.1 kernel (coqc, vm_compute; no native_compute)",
        "axioms: none (Print Assumptions: Closed under the global context for every theorem)",
        "extraction: ExtrOcamlBasic only, OCaml 4.13.1; cross-checked on a sample against vm_compute in the kernel",
        "harness/internal/astdump: renders martian's compiled syntax.Ast as Mro/Ast.v values (Coq term and OCaml transport from one tree)",
        "martian's own parser/compiler produces the Asts the validator is run on; K/Lexer.v, K/Unquote.v, K/ParseNum.v (string token rule, unquoteBytes, parseInt) are the models tied to the code by check C08",
        "strconv float printing/parsing and the float32 re-parse of memory amounts: not modelled, exercised by the oracle",
    ]
    ctx.assumptions = [
        "string literals are valid UTF-8 (otherwise: recorded known finding C09-invalid-utf8-literal)",
        "programs compared by the validator are accepted by martian's compiler; parser-level texts (src / include strings, mutated programs) are checked for re-parse and fixed point only",
        "comment claims (exactly once, fixed point) are for comments that precede a declaration, parameter, binding, call, return, resource entry or collection element; other positions: not lost",
        "the attachment of comments to nodes is not modelled (checked on the implementation's bytes)",
    ]
    okb = ctx.build_harness()
    okc = ctx.coq_build()
    if okc:
        ctx.property_theorems()
    s = ctx.scratch
    cases, impl, merged, model, oracle = (os.path.join(s, n) for n in ("cases.txt", "impl.txt", "merged.txt", "model.txt", "oracle.txt"))
    if not okb:
        return ctx.finish("proof")
    ctx.vh_run(["c09", "gen", ctx.tier, str(ctx.seed)], out_path=cases)
    ctx.vh_run(["c09", "impl", s], stdin_path=cases, out_path=impl)
    case_lines = open(cases).read().splitlines()
    impl_lines = open(impl).read().splitlines()
    kinds = {}
    for c in case_lines:
        kinds[c[0]] = kinds.get(c[0], 0) + 1
    prog_idx = [i for i, c in enumerate(case_lines) if c[0] in "pcn"]
    accepted = [i for i in prog_idx if impl_lines[i].startswith("A ")] if len(impl_lines) == len(case_lines) else []
    ctx.oblige("generator and implementation runs: %d cases, %d of %d generated programs accepted by the compiler" % (
        len(case_lines), len(accepted), len(prog_idx)),
        len(impl_lines) == len(case_lines) and len(accepted) > 0.6 * len(prog_idx) and kinds.get("q", 0) > 1000, "")
    if len(impl_lines) != len(case_lines):
        return ctx.finish("proof")
    # -- the property read directly on the implementation
    ctx.vh_run(["c09", "oracle", s], stdin_path=cases, out_path=oracle)
    oracle_lines = open(oracle).read().splitlines()
    n_ok = n_fail = n_skip = 0
    failed = set()

    def replay(i, what):
        f = case_lines[i].split(" ")
        r = {"case_kind": f[0], "observed": what,
             "how": "echo '<case line>' | vh c09 oracle   (harness built with -tags verif against the repository)"}
        if f[0] in "pcu":
            r["source"] = bytes.fromhex(f[2]).decode(errors="replace")[:6000]
        elif f[0] == "n":
            r["files"] = json.loads(bytes.fromhex(f[2]).decode())
        elif f[0] == "k":
            r["case"] = case_lines[i]
        elif f[0] in "qfr":
            r["input"] = bytes.fromhex(f[-1]).decode(errors="replace") if f[-1] != "-" else ""
            r["input_hex"] = f[-1]
        else:
            r["case"] = case_lines[i][:300]
        return r

    for i, o in enumerate(oracle_lines):
        if o == "ok":
            n_ok += 1
        elif o == "skip":
            n_skip += 1
        elif o.startswith("FAIL"):
            n_fail += 1
            failed.add(i)
            f = o.split(" ", 2)
            detail = f[2] if len(f) > 2 else ""
            try:
                detail = bytes.fromhex(detail).decode(errors="replace")
            except ValueError:
                pass
            ctx.fail(f[1], detail[:300], replay(i, f[1] + ": " + detail[:3000]))
    ctx.oblige("oracle ran on every case", len(oracle_lines) == len(case_lines), "")
    # formatted text of an accepted program must compile
    for i in prog_idx:
        if impl_lines[i].startswith("F ") and i not in failed:
            failed.add(i)
            ctx.fail(impl_lines[i][2:], "", replay(i, impl_lines[i]))
    # -- correspondence and translation validation: extracted model
    if okc:
        with open(merged, "w") as fm:
            for c, o in zip(case_lines, impl_lines):
                if c[0] in "pcn":
                    fm.write(("v " + o[2:] if o.startswith("A ") else "x") + "\n")
                else:
                    fm.write(c + "\n")
        ctx.model_run("c09", merged, model)
        model_lines = open(model).read().splitlines()
        mism = []
        n_kernel = n_valid = 0
        for i, (c, o, m) in enumerate(zip(case_lines, impl_lines, model_lines)):
            k = c[0]
            if k in "qiok" or (k == "g" and int(c.split(" ")[1]) < 256):
                n_kernel += 1
                if o != m:
                    mism.append("case %s impl=%s model=%s" % (c[:60], o[:60], m[:60]))
            elif k in "pcn" and o.startswith("A "):
                n_valid += 1
                if m != "same01=T same12=T same02=T" and i not in failed:
                    failed.add(i)
                    ctx.fail("ast-differs", m, replay(i, "validator: " + m + " (0 = source, 1 = format(source), 2 = format(format(source)); for include graphs 1 = the expanded source compiled alone)"))
        ctx.oblige("correspondence: quoteString / IntExp.format / formatGB (< 256 GB) / topoSort / comments printed inside nested literals == K.FormatExp.quote_string / format_int / K.FormatGB.format_gb / K.TopoSort.topo_sort / K.ExpComments.fmt on %d cases (extracted model)" % n_kernel,
                   not mism and len(model_lines) == len(case_lines), "; ".join(mism[:5]))
        ctx.oblige("translation validation: ast_same run on the dumped Asts of %d accepted programs (source, formatted, re-formatted / include-expanded)" % n_valid,
                   n_valid == len(accepted), "")
        # -- kernel sample
        nq, np_ = (400, 12) if ctx.tier != "thorough" else (1500, 60)
        pk = ctx.vh_run(["c09", "coq", cases, str(nq), str(np_)])
        got = pk.stderr.decode().split()
        rc, out = ctx.coq_eval(pk.stdout.decode(), "c09_cases", timeout=1500)
        flat = out.replace("\n", " ")
        okk = rc == 0 and "M = []" in flat and len(got) == 2 and "COUNT = (%s, %s)" % (got[0], got[1]) in flat
        ctx.oblige("kernel vm_compute: quote_string / format_int equal the implementation on %s sampled cases and ast_same accepts %s (source, formatted) Ast pairs" % (got[0] if got else "?", got[1] if len(got) > 1 else "?"),
                   okk, out[-600:])
        ctx.coverage["kernel_sample"] = sum(int(x) for x in got) if len(got) == 2 else 0
    classes = {}
    for c in case_lines:
        if c[0] in "pcnur":
            t = c[0] + ":" + c.split(" ")[1]
            classes[t] = classes.get(t, 0) + 1
    ctx.coverage.update({
        "evaluations": len(case_lines),
        "distinct_nontrivial": lib.distinct_count(cases, lambda l: len(l) > 8),
        "rule": "quoteString: all 1-byte strings, all 2-byte (3-byte thorough) strings over 24 significant bytes, seeded UTF-8 and raw byte strings; ints: boundaries + seeded; formatGB: all 1024 fractions x integer parts in every float32 binade up to 8191, sampled fractions up to 2^40; comments in literals: every chain of single-element array/map levels up to depth 4 with every subset of commented levels, seeded trees to depth 5, two layouts; nested-literal programs (class L) with comments before elements of every level; topoSort: every graph up to 4 calls with at most one dependency each, seeded DAGs and cyclic graphs up to 9 calls incl. unknown ids; number literals: table of edge forms + seeded doubles in e/E/g notation + exponent sweep; resource literals; programs: random filetypes, structs, stages (split in both syntaxes, using, retain, help/outname, keyword-like names), pipelines (shuffled call order, aliases, map calls over self/literal, both modifier syntaxes, disabled, struct projections, retain), top-level call with literals of every type, two layouts (random whitespace, tidy); comments at element boundaries (F), at any token boundary (A), with empty using blocks (E); include graphs; parser-level texts (src/include strings needing quotes, token-mutated programs)",
        "case_kinds": kinds, "program_classes": classes,
        "programs_accepted": len(accepted), "programs_generated": len(prog_idx),
        "oracle_ok": n_ok, "oracle_fail": n_fail, "oracle_skip": n_skip,
        "exhaustive": False,
    })
    ctx.samples = [bytes.fromhex(case_lines[i].split(" ")[2]).decode(errors="replace")[:400] for i in accepted[:2]] + \
                  [c[:80] for c in case_lines if c[0] == "o"][100:102] + [c[:80] for c in case_lines if c[0] == "g"][500:502]
    return ctx.finish("proof")
