"""C19 - semantic edits (mro edit) preserve behaviour."""
import json
import os

import lib

MANIFEST = {
 "category": "proof",
 "text": "Translation validation with a validator proved sound in Coq, plus a reference implementation proved correct for ALL programs. K/Refactor.v defines the resolved call tree of the top-level call (every call statement paired with the definition its DecId resolves to, recursively), the reference edits on the compiled Ast (rename_ast: callable names, call ids per pipeline, input and output names in declarations, DecIds, bindings, returns, stage retains, and inside every expression of bindings / modifiers / returns / retains / wildcard sources, with struct projections kept; restrict_ast: removed inputs, outputs and calls with the bindings that supplied or returned them) and the renaming Go chooses (an affected call keeps or gets an alias when it is aliased already or the new name is a call id of the pipeline). Theorems, no size bound: C19_rename_denote (for every program and every renaming that keeps callable names distinct, the call tree of the renamed program is the renamed call tree), C19_restrict_denote, C19_same_up_to_sound (validator accepts => call tree after = call tree before with the identifiers renamed and the removed elements dropped), C19_check_removal_sound (additionally nothing that survives referred to a removed element), C19_alias_insertion_preserves / C19_rename_tree_ids (qualified names unchanged when every call keeps its id; otherwise renamed per pipeline), C19_roundtrip_sound, C19_check_combo_sound / C19_check_combo_removal_sound (several edits in one request: the composed renaming, then the restriction). Tie on every run: generated compiling file sets (1-3 files tied by @include) x every applicable edit on every callable and parameter (fresh names, names colliding with call aliases, names colliding with a parameter of the other direction, wildcard bindings from self and from calls, struct projections, disabled modifiers, retains, mapped calls, the same callable called twice): the edit is performed exactly as cmd/mro/edit does, the result recompiled, the compiled Asts before/after dumped from martian's own compiler; the extracted validator must accept every pair the implementation-side oracle accepts (for renames this is full function correspondence: Go's result equals the proved reference result), a kernel vm_compute sample cross-checks the extraction, and the oracle reads the property on the implementation (edited files compile; MakeCallGraph JSON equal up to the renaming / with removed elements dropped; X->Y->X restores the call graph).",
 "note": "Trusted: Coq kernel; extraction (cross-checked in-kernel on a sample); astdump; martian's parser/compiler/formatter produce the Asts. The denotation keeps references symbolic (renamed consistently in the scope of the enclosing pipeline); the type-directed resolution of references done by MakeCallGraph is compared on the implementation side only. C19_rename_involutive_partial / C19_rename_param_involutive_partial are identifier-level; the lift to whole programs is validated per dumped pair (check_roundtrip), not proved. remove-output of an output that is still consumed is outside the property (documented to bind null) and only exercised for crashes. Known findings (recorded, narrow classes): parameters bound by name through wildcard bindings are not followed by rename-input / rename-output; a removed input that a map call split over leaves the map call with nothing to split; in a combined request an edit is not replayed when a later part renames the pipeline name / call id / binding id it uses as lookup key.",
 "technique": "Coq proof (induction on resolution fuel, injectivity of the renaming on callable names, nested induction on expressions for decidable equality) + translation validation of every dumped (before, after) Ast pair + function correspondence with the reference edits + call-graph oracle on the implementation",
}

REMOVALS = ("remove_in", "remove_out", "unused_outs", "unused_calls", "unused_both")


def check(ctx, args):
    ctx.trusted_base = [
        "Coq 8.16.1 kernel (coqc, vm_compute; no native_compute)",
        "axioms: none (Print Assumptions: Closed under the global context for every theorem)",
        "extraction: ExtrOcamlBasic only, OCaml 4.13.1; cross-checked on a sample against vm_compute in the kernel",
        "harness/internal/astdump: renders martian's compiled syntax.Ast as Mro/Ast.v values (Coq term and OCaml transport from one tree)",
        "martian's own parser, compiler and formatter produce the Asts both sides are run on; the edit is applied the way cmd/mro/edit/main.go applies it",
    ]
    ctx.assumptions = [
        "the renaming keeps callable names distinct (ren_ok, evaluated by the validator on every pair)",
        "the original program resolves (denote a = Some t; evaluated on every dumped Ast)",
        "remove-input is applicable to stage inputs; remove-output is inside the property only when no surviving consumer refers to the output",
        "references stay symbolic in the Coq denotation; their type-directed resolution is compared through MakeCallGraph on the implementation side",
    ]
    okb = ctx.build_harness()
    okc = ctx.coq_build()
    if okc:
        ctx.property_theorems()
    s = ctx.scratch
    cases, impl, model, oracle = (os.path.join(s, n) for n in ("cases.txt", "impl.txt", "model.txt", "oracle.txt"))
    if not okb:
        return ctx.finish("proof")
    p = ctx.vh_run(["c19", "gen", ctx.tier, str(ctx.seed)], out_path=cases, timeout=3000)
    gen_log = p.stderr.decode(errors="replace")
    ctx.vh_run(["c19", "impl"], stdin_path=cases, out_path=impl, timeout=3000)
    ctx.vh_run(["c19", "oracle"], stdin_path=cases, out_path=oracle, timeout=3000)
    case_lines = open(cases).read().splitlines()
    impl_lines = open(impl).read().splitlines()
    oracle_lines = open(oracle).read().splitlines()
    heads = [c.split(" ", 8)[:8] for c in case_lines]
    nprog = len([h for h in heads if h[0] == "P"])
    ctx.oblige("generator produced compiling programs and edits (%d programs, %d edit cases); implementation re-run gave one observation per case" % (nprog, len(case_lines) - nprog),
               p.returncode == 0 and nprog >= 5 and len(case_lines) > 300 and len(impl_lines) == len(case_lines) == len(oracle_lines),
               gen_log[-800:])
    # the edit is deterministic: redoing it from the sources reproduces the dumped Ast
    nondet = [i for i, (h, o) in enumerate(zip(heads, impl_lines))
              if h[0] in "ET" and (o.split()[1:2] != [h[7]] or (h[7] == "ok" and not o.endswith(" same")))]
    ctx.oblige("redoing every edit from the sources reproduces status and dumped Ast", not nondet,
               "; ".join("%s -> %s" % (" ".join(heads[i][:7]), impl_lines[i]) for i in nondet[:5]))

    def describe(i):
        h = heads[i]
        if h[2] == "combo":
            parts = []
            for part in lib_u(h[3]).split(";"):
                k, c, x, y, _ = part.split(",")
                parts.append("%s %s.%s -> %s" % (k, lib_u(c), lib_u(x), lib_u(y)))
            return "%s prog %s: ONE request [%s] (%s)" % (h[0], h[1], "; ".join(parts), h[6])
        return "%s prog %s: %s %s.%s -> %s (%s)" % (h[0], h[1], h[2], lib_u(h[3]), lib_u(h[4]), lib_u(h[5]), h[6])

    progs = {}
    for c in case_lines:
        if c.startswith("P "):
            f = c.split(" ")
            progs[f[1]] = json.loads(bytes.fromhex(f[2]).decode())

    def replay(i, observed):
        h = heads[i]
        f = case_lines[i].split(" ")
        edited = json.loads(bytes.fromhex(f[8]).decode()) if f[8] != "-" else None
        return {"case": describe(i), "edit": {"kind": h[2], "callable": lib_u(h[3]), "param": lib_u(h[4]), "new": lib_u(h[5]), "note": h[6],
                                               "round_trip": h[0] == "T"},
                "original": progs.get(h[1]), "edited": edited, "observed": observed,
                "how": "write the original files, run `mro edit -w` with the matching flag on all of them (--rename A=B / --rename-input C.x=y / --rename-output C.x=y / --remove-input C.x / --remove-output C.x / --remove-unused-calls / --top-calls TOP), then `mro check main.mro`; or: grep the case out of `vh c19 gen <tier> <seed>` and pipe it (after its P line) to `vh c19 oracle`"}

    # -- the Coq validator on every dumped pair
    verdicts = {}
    if okc:
        ctx.model_run("c19", cases, model)
        model_lines = open(model).read().splitlines()
        ok_len = len(model_lines) == len(case_lines)
        bad_den = [i for i, m in enumerate(model_lines) if "nodenote" in m]
        ctx.oblige("every dumped Ast resolves (denote = Some t: hypothesis of the theorems)", ok_len and not bad_den,
                   "; ".join(describe(i) if heads[i][0] != "P" else "P " + heads[i][1] for i in bad_den[:5]))
        # correspondence: validator verdict vs implementation-side oracle
        mism = []
        n_valid = n_pairs = 0
        for i, (h, m, o) in enumerate(zip(heads, model_lines, oracle_lines)):
            if h[0] not in "ET":
                continue
            v = m.split()[1] if len(m.split()) > 1 else "?"
            verdicts[i] = v
            if v == "-":
                continue
            n_pairs += 1
            if v == "0":
                n_valid += 1
            if o.startswith("ok_wildcard") and v != "0":
                # the validator sees what the call-graph comparison cannot: the wildcard now binds
                # another same-named value (recorded family)
                ctx.fail((o.split() + [heads[i][2] + "_wildcard"])[1], "%s: compiles, but the Coq validator rejects the result (verdict %s): a wildcard binding now supplies a different parameter" % (describe(i), v),
                         replay(i, "validator verdict %s" % v))
            elif o.startswith("ok") and v != "0":
                mism.append((i, "oracle accepts, validator verdict %s" % v))
            elif o.startswith("FAIL") and v == "0" and "_callgraph" not in o:
                # the validator does not see type-directed reference resolution;
                # any other oracle failure on a pair the validator accepts is a disagreement
                mism.append((i, "validator accepts, oracle: %s" % o[:120]))
        ctx.oblige("correspondence: the proved validator (same_up_to on the reference edit; for renames: Go's result == rename_ast of the renaming Go chooses) agrees with the implementation-side oracle on %d dumped (before, after) pairs (%d valid)" % (n_pairs, n_valid),
                   ok_len and not mism and n_valid > 200,
                   "; ".join("%s: %s" % (describe(i), w) for i, w in mism[:6]))
        for i, w in mism[:20]:
            if oracle_lines[i].startswith("ok"):
                ctx.fail("validator_rejects_%s" % heads[i][2], "%s: %s" % (describe(i), w), replay(i, w))
        # kernel sample
        nk = 24 if ctx.tier != "thorough" else 80
        pk = ctx.vh_run(["c19", "coq", cases, model, str(nk)])
        rc, out = ctx.coq_eval(pk.stdout.decode(), "c19_cases", timeout=1500)
        flat = " ".join(out.split())
        okk = rc == 0 and "M = []" in flat and "COUNT = (%d," % nk in flat
        ctx.oblige("kernel vm_compute of the validator on %d sampled pairs equals the extracted validator's verdicts" % nk, okk, out[-600:])
        ctx.coverage["kernel_sample"] = nk
    # -- the property read on the implementation
    n_ok = n_fail = n_skip = 0
    classes = {}
    for i, o in enumerate(oracle_lines):
        if heads[i][0] == "P":
            continue
        if o.startswith("ok"):
            n_ok += 1
        elif o == "skip":
            n_skip += 1
        elif o.startswith("FAIL"):
            n_fail += 1
            f = o.split(" ", 2)
            classes[f[1]] = classes.get(f[1], 0) + 1
            ctx.fail(f[1], f[2][:500], replay(i, f[2]))
    kinds = {}
    for h in heads:
        if h[0] != "P":
            k = ("roundtrip_" if h[0] == "T" else "") + h[2] + ("_" + h[6] if h[6] not in ("-", "") else "")
            kinds[k] = kinds.get(k, 0) + 1
    ctx.coverage.update({
        "evaluations": len(case_lines) - nprog,
        "programs": nprog,
        "distinct_nontrivial": lib.distinct_count(cases, lambda l: not l.startswith("P ")),
        "rule": "random compiling MRO file sets (layouts: one file / main+stages / main+pipes+stages; 3-4 stages with 1-3 typed ins/outs from a small name pool so that names collide across callables and between ins and outs; user file type, struct Pair with projections, stage retains, split stages; 2-3 nested pipelines with 2-4 calls each: aliases, the same callable twice, mapped calls, wildcard from self / from a call, disabled bound to self / call outputs, local/volatile, array / struct / map literals containing references, pipeline retains) x EVERY edit: rename callable -> fresh and -> each alias in use; rename input/output -> fresh and -> a name of the other direction; remove input (stages); remove output; remove unused outputs / calls / both; round trip for fresh renames; COMBINED requests (one Refactor call, as mro edit allows): each callable rename (fresh / onto an alias in use) + rename-output / rename-input / both / remove-input / remove-output / remove-unused-calls / remove-unused (both) / rename-output + remove-unused, input + output rename of one callable, output rename + remove-unused, two callable renames (the second onto the old name of the first), validated against the composed reference (check_combo)",
        "edit_kinds": kinds,
        "oracle_ok": n_ok, "oracle_fail": n_fail, "oracle_skip_outside_property": n_skip,
        "oracle_fail_classes": classes,
        "validator_verdicts": {v: list(verdicts.values()).count(v) for v in sorted(set(verdicts.values()))},
        "generated_programs_rejected_by_compiler": gen_log.count("skipped") and gen_log.strip().splitlines()[-1],
        "exhaustive": False,
    })
    ctx.samples = [describe(i) for i in range(len(heads)) if heads[i][0] != "P"][:400:40]
    return ctx.finish("proof")


def lib_u(s):
    return "" if s == "-" else bytes.fromhex(s).decode(errors="replace")
