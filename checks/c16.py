"""C16 - MRO call text and invocation JSON convert into each other without loss."""
import os
import random
import re

import lib

MANIFEST = {
 "category": "proof",
 "text": "Coq theorems (Properties/C16.v, all closed under the global context) about K/Invocation.v, the value-level model of InvocationData.BuildCallAst (ParseValExp + fixExpressionTypes + possibleStructType + the split wrapper) and BuildDataForAst/EncodeJSON: C16_json_exp_json (JSON -> expression -> JSON is the identity on values, at every declared type, for all JSON values), C16_exp_json_exp (expression -> JSON -> expression gives back every struct literal where the type declares a struct), C16_struct_map_decision_correct (an object becomes a struct literal exactly where the declared type is a struct, at every depth through arrays, typed maps, members and the split collection), C16_split_status_preserved and C16_call_json_roundtrip (a typed invocation always builds a call whose invocation data is the given one: callable, include, every argument value, the same arguments split), C16_exp_json_parses, C16_split_keys_agree (the split key written equals the key read; both regenerated from the Go AST on every run). The model is tied to /repo on every run: generated callable signatures (nested structs, typed maps, multi-dimensional arrays, file types) x type-directed JSON argument texts (nulls, int64 boundary integers, floats in every spelling, strings with every JSON escape incl. surrogate pairs and non-BMP text, shuffled/duplicate keys, split over arrays and maps) are given to core.BuildCallAst / BuildDataForAst and to the extracted model (plus a kernel vm_compute sample); the implementation-side oracle runs the complete text path BuildCallSource -> InvocationDataFromSource -> BuildCallSource, compiles the text and re-checks the struct/map decision against TypeLookup independently. Thorough tier: _invocation files of finished pipestances of the real mrp are compiled as calls of their stage and compared with the fork's _args.",
 "note": "Value level: the MRO text between the two conversions (ast.Format, the parser) is not modelled, it is exercised by the oracle on every case (C09 owns the formatter). Floats enter through two explicit hypotheses (float_print_parse, float_print_token) about strconv, instantiated in the runs by tables computed by strconv itself and sampled by the oracle. Guards visible in the statements: no duplicate keys, float literals are printed forms of float64 values, split arguments are non-empty collections (an empty or null split has no MRO text), valid UTF-8. Recorded known finding: an integer literal beyond int64 given for a float parameter is rejected.",
 "technique": "Coq proof (structural induction over JSON values / expressions with nested-list induction principles, insertion-sort commutation lemmas) + differential correspondence (extracted OCaml and kernel vm_compute) + implementation-side round-trip/compile oracle",
}


def fail_lines(ctx, oracle, cases, how):
    n_ok = n_fail = n_skip = 0
    with open(oracle) as fo, open(cases) as fc:
        for o, c in zip(fo, fc):
            o = o.rstrip("\n")
            if o == "ok":
                n_ok += 1
            elif o == "skip":
                n_skip += 1
            elif o.startswith("FAIL"):
                n_fail += 1
                f = o.split(" ", 2)
                cf = c.split(" ")
                try:
                    detail = bytes.fromhex(f[2]).decode("utf8", "replace") if len(f) > 2 and f[2] != "-" else ""
                except ValueError:
                    detail = f[2]
                ctx.fail(f[1], detail[:400], {
                    "invocation_json": bytes.fromhex(cf[5]).decode("utf8", "replace")[:3000],
                    "include_file": bytes.fromhex(cf[3]).decode("utf8", "replace"),
                    "mro": bytes.fromhex(cf[4]).decode("utf8", "replace")[:3000],
                    "observed": detail[:3000],
                    "how": how})
    return n_ok, n_fail, n_skip


def check(ctx, args):
    ctx.trusted_base = [
        "Coq 8.16.1 kernel (coqc, vm_compute; no native_compute)",
        "axioms: none (Print Assumptions: Closed under the global context for every theorem)",
        "hypotheses float_print_parse (parse(print x) = x) and float_print_token (a float printed without fraction/exponent is an in-range integer token of the same value) about strconv.ParseFloat / AppendFloat 'g' -1: universally quantified premises of the theorems, instantiated in every run by tables computed by strconv on the numbers of each case; the oracle re-reads every printed float",
        "extraction: ExtrOcamlBasic only, OCaml 4.13.1; cross-checked on a sample against vm_compute in the kernel",
        "harness/cmd/extractconsts (split key literals of SplitExp.MarshalJSON/encodeJSON, the struct tag of convertToExp, InvocationData json tags)",
        "harness: encoding/json to turn texts into values (hx JV transport, numbers keep their syntax class), astdump of the built Ast and of the compiled include file",
    ]
    ctx.assumptions = [
        "strings are valid UTF-8 (quoteString replaces other bytes by U+FFFD)",
        "float literals are within float64 range; negative zero is not generated",
        "json.Unmarshal's case folding of the split key is modelled for ASCII only",
        "the TypeLookup is non-nil (every caller in the repository passes one)",
        "the MRO text layer (ast.Format / parser) is exercised by the oracle, not modelled (C09)",
    ]
    okb = ctx.build_harness()
    oke = ctx.extract_consts(["Invocation"])
    okc = ctx.coq_build()
    if okc:
        ctx.property_theorems()
    if not okb:
        return ctx.finish("proof")
    s = ctx.scratch
    cases, impl, model, oracle = (os.path.join(s, n) for n in ("cases.txt", "impl.txt", "model.txt", "oracle.txt"))
    p = ctx.vh_run(["c16", "gen", ctx.tier, str(ctx.seed)], out_path=cases)
    ctx.oblige("generator: every generated signature compiles and every invocation is JSON", p.returncode == 0,
               p.stderr.decode()[-800:])
    p = ctx.vh_run(["c16", "impl", s], stdin_path=cases, out_path=impl)
    ctx.oblige("implementation harness ran on all cases", p.returncode == 0, p.stderr.decode()[-800:])
    ncases = 0
    if okc:
        ctx.model_run("c16", cases, model)
        ncases, mism = lib.diff_lines(impl, model, cases)
        detail = []
        for m in mism[:3]:
            if m:
                cf = m[1].split(" ")
                detail.append("invocation %s impl=%s model=%s" % (
                    bytes.fromhex(cf[5]).decode("utf8", "replace")[:300], m[2][:300], m[3][:300]))
        ctx.oblige("correspondence: BuildCallAst bindings and BuildDataForAst == K.Invocation build_call / data_for_ast (%d cases, extracted model)" % ncases,
                   not mism, "; ".join(detail))
        # kernel sample
        lines = open(cases).read().splitlines()
        rnd = random.Random(ctx.seed)
        k = 150 if ctx.tier == "quick" else 600
        sample = lines[:12] + rnd.sample(lines[12:], min(k, len(lines) - 12))
        sp = os.path.join(s, "sample.txt")
        open(sp, "w").write("\n".join(sample) + "\n")
        body = os.path.join(s, "body.v")
        ctx.vh_run(["c16", "coq", s], stdin_path=sp, out_path=body)
        v = ("From Coq Require Import String.\n"
             "From Martian Require Import Lib.Bytes Json.Json Mro.Ast K.Invocation K.InvocationEq.\n"
             "Open Scope string_scope.\n" + open(body).read() +
             "\nDefinition M := Eval vm_compute in bad_cases 0 cases.\nPrint M.\n")
        rc, out = ctx.coq_eval(v, "c16_cases")
        okk = rc == 0 and "M = []" in out.replace("\n", " ")
        ctx.oblige("correspondence: kernel vm_compute of build_call/data_for_ast on %d sampled cases equals the implementation" % len(sample),
                   okk, out[-600:])
        ctx.coverage["kernel_sample"] = len(sample)
    # the property read directly on the implementation
    p = ctx.vh_run(["c16", "oracle", s], stdin_path=cases, out_path=oracle)
    ctx.oblige("oracle harness ran on all cases", p.returncode == 0, p.stderr.decode()[-800:])
    n_ok, n_fail, n_skip = fail_lines(
        ctx, oracle, cases,
        "vh c16 oracle: InvocationData.BuildCallSource -> InvocationDataFromSource -> BuildCallSource on the invocation; values, split status, text stability, compilation and struct/map decision checked")
    ctx.oblige("oracle: the well-typed stream is not empty", n_ok + n_fail > 100)
    cov_e2e = {}
    if ctx.tier != "quick":
        cov_e2e = e2e(ctx)
    impl_kinds = {}
    with open(impl) as f:
        for l in f:
            impl_kinds[l.split(" ", 1)[0].strip()] = impl_kinds.get(l.split(" ", 1)[0].strip(), 0) + 1
    txt = open(cases).read()
    ctx.coverage.update({
        "evaluations": ncases or len(txt.splitlines()),
        "distinct_nontrivial": lib.distinct_count(cases, lambda l: len(l) > 400),
        "rule": "seeded signatures (0-3 nested structs, file types, 1-5 parameters of base/array/typed-map types) x type-directed invocation texts: 2/3 well-typed (oracle + correspondence), 1/3 malformed (wrong shapes, extra/duplicate keys, out-of-range integers, broken split wrappers, builtin-only lookup; correspondence only), 1/5 with the JSON-only string escapes; 12 fixed corpus cases first; distinct by case text",
        "implementation_results": impl_kinds,
        "oracle_ok": n_ok, "oracle_fail": n_fail, "oracle_skipped_malformed": n_skip,
        "split_cases": len(re.findall(r'(?m)^v \S+ \S+ \S+ \S+ \S+ \S+ \S+ \S+ \S+ \S+ [0-9a-f_]', txt)),
        "exhaustive": False,
    })
    ctx.coverage.update(cov_e2e)
    ls = txt.splitlines()
    ctx.samples = [bytes.fromhex(l.split(" ")[5]).decode("utf8", "replace")[:300] for l in ls[4:7] + ls[40:43]]
    return ctx.finish("proof")


def e2e(ctx):
    """Thorough: _invocation files of finished pipestances (real mrp)."""
    import pipelib
    # a second harness binary with the pipeline machinery
    vh_c16 = ctx.vh
    ctx.prop_saved = ctx.prop
    okb = ctx.build_harness(extra=pipelib.PIPE_FILES)
    okm = pipelib.build_martian(ctx)
    if not (okb and okm):
        return {}
    progs, stats = pipelib.gen_programs(ctx, 160, ctx.seed, sub="c16progs")
    res = pipelib.run_programs(ctx, progs, "ps0")
    done = [n for n, i in sorted(res.items()) if i["exit"] == 0]
    out = os.path.join(ctx.scratch, "e2e.txt")
    p = ctx.vh_run(["c16", "e2e", progs, "ps0"] + done, out_path=out)
    ctx.oblige("e2e harness ran", p.returncode == 0, p.stderr.decode()[-800:])
    n_ok = n_fail = 0
    for l in open(out):
        f = l.rstrip("\n").split(" ", 3)
        if f[0] == "ok":
            n_ok += 1
        elif f[0] == "FAIL":
            n_fail += 1
            detail = bytes.fromhex(f[3]).decode("utf8", "replace") if len(f) > 3 else ""
            ctx.fail("e2e-" + f[1], f[2] + ": " + detail[:300],
                     {"fork_dir": f[2], "observed": detail[:3000],
                      "how": "vh c16 e2e: the fork's _invocation compiled as a call of its stage and compared with the fork's _args"})
    ctx.oblige("e2e: per-fork _invocation files found and checked (%d)" % n_ok, n_ok > 50)
    return {"e2e_pipestances": len(done), "e2e_invocation_files_ok": n_ok, "e2e_invocation_files_fail": n_fail}
