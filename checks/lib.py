"""Shared machinery of the /verif checks.

A check decides a property in three parts (DESIGN.md section 3):
  1. proof obligations: constants regenerated from /repo, the Coq development
     rebuilt (full .vo), the property file re-checked with Print Assumptions;
  2. correspondence: the implementation (Go harness built from /repo's current
     tree with -tags verif) and the model (extracted OCaml for volume, the Coq
     kernel's vm_compute on a sample) run on the same cases and are compared;
  3. the property's direct reading on the implementation (oracle), which is the
     search for a concrete failing input.
"""
import fcntl
import hashlib
import json
import os
import re
import shutil
import subprocess
import sys
import tempfile
import time

VERIF = os.path.dirname(os.path.dirname(os.path.abspath(__file__)))
REPO = os.environ.get("VERIF_REPO", "/repo")
COQ = os.path.join(VERIF, "coq")
OCAML = os.path.join(VERIF, "ocaml")
HARNESS = os.path.join(VERIF, "harness")

GOENV = dict(os.environ, GOFLAGS="-mod=mod", GOPROXY="off", GOSUMDB="off",
             GOTOOLCHAIN="local", CGO_ENABLED="0")


def run(cmd, timeout=1200, cwd=None, env=None, stdin=None, check=False):
    """Run a command, capture stdout+stderr (text)."""
    p = subprocess.run(cmd, cwd=cwd, env=env, input=stdin, timeout=timeout,
                       stdout=subprocess.PIPE, stderr=subprocess.STDOUT,
                       text=isinstance(stdin, str) or stdin is None,
                       shell=isinstance(cmd, str))
    if check and p.returncode != 0:
        raise RuntimeError("command failed: %s\n%s" % (cmd, p.stdout))
    return p


class Lock:
    """Serialises builds in /verif/coq and /verif/ocaml across checks."""

    def __init__(self):
        self.path = os.path.join(VERIF, ".build.lock")

    def __enter__(self):
        self.f = open(self.path, "w")
        fcntl.flock(self.f, fcntl.LOCK_EX)
        return self

    def __exit__(self, *a):
        fcntl.flock(self.f, fcntl.LOCK_UN)
        self.f.close()


class Obligation:
    def __init__(self, name, ok, detail=""):
        self.name, self.ok, self.detail = name, ok, detail


class Ctx:
    def __init__(self, prop, tier, seed):
        self.prop = prop            # "C18"
        self.tier = tier
        self.seed = seed
        self.t0 = time.time()
        self.scratch = tempfile.mkdtemp(prefix="verif_%s_" % prop)
        # every temporary file or directory of the harness, the compilers and
        # the tools they start goes under the scratch directory, which is
        # removed when the check ends (os.MkdirTemp("", ...) honours TMPDIR)
        tmp = os.path.join(self.scratch, "tmp")
        os.makedirs(tmp, exist_ok=True)
        os.environ["TMPDIR"] = tmp
        GOENV["TMPDIR"] = tmp
        # replay files of earlier runs of this property are stale
        shutil.rmtree(os.path.join(VERIF, "replays", prop), ignore_errors=True)
        self.obligations = []       # Obligation
        self.failures = []          # dicts: {class, detail, replay}
        self.known_hits = {}        # finding id -> count
        self.coverage = {}
        self.assumptions = []
        self.trusted_base = []
        self.samples = []
        self.vh = None
        self.notes = []

    # ------------------------------------------------------------ building
    def oblige(self, name, ok, detail=""):
        self.obligations.append(Obligation(name, ok, detail))
        return ok

    def gomod(self):
        """A go.mod for the harness whose replace directive points at the
        repository under test (VERIF_REPO, default /repo), with its go.sum."""
        mod = os.path.join(self.scratch, "go.mod")
        if not os.path.exists(mod):
            txt = open(os.path.join(HARNESS, "go.mod")).read()
            txt = re.sub(r'=> /repo\b', "=> " + REPO, txt)
            open(mod, "w").write(txt)
            shutil.copy(os.path.join(REPO, "go.sum"), os.path.join(self.scratch, "go.sum"))
        return mod

    def build_harness(self, extra=()):
        """Build the Go harness against the repository's current tree (hooks on).
        Only main.go, this property's files (cmd/vh/<prop>.go, <prop>_*.go) and
        the named extra files are compiled, so that one property's harness (and
        the repository hooks it needs) never affects another's."""
        import glob
        self.vh = os.path.join(self.scratch, "vh")
        d = os.path.join(HARNESS, "cmd", "vh")
        lp = self.prop.lower()
        files = [os.path.join(d, "main.go"), os.path.join(d, lp + ".go")] + \
            sorted(glob.glob(os.path.join(d, lp + "_*.go"))) + [os.path.join(d, e) for e in extra]
        files = [f for f in dict.fromkeys(files) if os.path.exists(f)]
        p = run(["go", "build", "-modfile=" + self.gomod(), "-tags", "verif", "-o", self.vh] + files,
                cwd=HARNESS, env=GOENV, timeout=900)
        ok = p.returncode == 0
        self.oblige("harness builds against the repository with -tags verif", ok, p.stdout[-2000:])
        return ok

    def extract_consts(self, topics):
        """Regenerate coq/Extracted/<topic>.v from /repo's current sources."""
        exe = os.path.join(self.scratch, "extractconsts")
        p = run(["go", "build", "-modfile=" + self.gomod(), "-o", exe, "./cmd/extractconsts"], cwd=HARNESS,
                env=GOENV, timeout=600)
        if p.returncode != 0:
            self.oblige("constant extractor builds", False, p.stdout[-2000:])
            return False
        with Lock():
            p = run([exe, REPO, os.path.join(COQ, "Extracted")] + list(topics), timeout=120)
        fails = [l for l in p.stdout.splitlines() if l.startswith("EXTRACT-FAIL")]
        ok = p.returncode == 0
        self.oblige("constants regenerated from /repo (coq/Extracted/%s.v)" % ",".join(topics), ok,
                    "\n".join(fails) or p.stdout[-1000:])
        return ok

    def coq_build(self, timeout=1500):
        """Full .vo build of what this property depends on (and nothing else,
        so another property's broken obligation cannot raise an alarm here),
        then extraction and the OCaml model driver."""
        with Lock():
            p = run(["make", "-C", VERIF, "-j16", "prop", "P=" + self.prop.lower()], timeout=timeout)
        ok = p.returncode == 0
        detail = ""
        if not ok:
            m = re.findall(r'File "([^"]+)", line (\d+)[^\n]*\n(Error[^\n]*(?:\n[^\n]+){0,6})', p.stdout)
            detail = "; ".join("%s:%s %s" % (f, l, e.replace("\n", " ")[:300]) for f, l, e in m) or p.stdout[-1500:]
        self.oblige("Coq development for %s builds (its theorems and everything they depend on re-checked)" % self.prop, ok, detail)
        self.build_log = p.stdout
        return ok

    def property_theorems(self):
        """Re-check Properties/<id>.v, return (theorems, assumptions text)."""
        path = os.path.join(COQ, "Properties", self.prop + ".v")
        src = open(path).read()
        theorems = re.findall(r'^(?:Theorem|Example)\s+(\w+)', src, re.M)
        with Lock():
            p = run(["coqc", "-Q", COQ, "Martian", path], timeout=600, cwd=COQ)
        ok = p.returncode == 0
        out = p.stdout
        closed = out.count("Closed under the global context")
        axioms = sorted(set(re.findall(r'^(\w[\w.]*)\s*:', out, re.M))) if "Axioms:" in out else []
        for t in theorems:
            self.oblige("theorem " + t, ok, "" if ok else out[-800:])
        self.print_assumptions = {"closed": closed, "axioms": axioms}
        if ok and self.tier == "thorough":
            # independent re-check of the compiled statements file and of
            # everything it depends on, standard library included
            with Lock():
                q = run(["coqchk", "-silent", "-o", "-Q", ".", "Martian", "Martian.Properties." + self.prop],
                        cwd=COQ, timeout=2700)
            flat = " ".join(q.stdout.split())
            clean = all(x in flat for x in ("Axioms: <none>", "type-in-type: <none>",
                                            "unsafe (co)fixpoints: <none>", "positivity is assumed: <none>"))
            self.oblige("coqchk re-checks Properties/%s.vo and all its dependencies: no axioms, no type-in-type, "
                        "no unsafe fixpoints, no assumed positivity" % self.prop, q.returncode == 0 and clean, q.stdout[-900:])
            self.print_assumptions["coqchk"] = "clean" if (q.returncode == 0 and clean) else "not clean"
        return theorems

    def coq_eval(self, text, name="cases", timeout=600):
        """Compile a generated .v file against the development, return output."""
        d = os.path.join(self.scratch, "coq_" + name)
        os.makedirs(d, exist_ok=True)
        path = os.path.join(d, name + ".v")
        with open(path, "w") as f:
            f.write(text)
        # the model files the text requires may not be among the dependencies of
        # this property's statements file: build them (no-op when up to date)
        mods = set()
        for line in re.findall(r'(?m)^From Martian Require Import (.*)\.[ \t]*$', text):
            for m in line.split():
                mods.add(m.replace(".", "/") + ".vo")
        if mods:
            with Lock():
                run(["make", "-C", COQ, "-j16"] + sorted(mods), timeout=timeout)
        p = run(["coqc", "-Q", COQ, "Martian", path], timeout=timeout, cwd=d)
        return p.returncode, p.stdout

    # ------------------------------------------------------------ harness
    def vh_run(self, args, stdin_path=None, out_path=None, timeout=1800):
        fin = open(stdin_path, "rb") if stdin_path else None
        fout = open(out_path, "wb") if out_path else subprocess.PIPE
        p = subprocess.run([self.vh] + args, stdin=fin, stdout=fout,
                           stderr=subprocess.PIPE, timeout=timeout, env=GOENV)
        if fin:
            fin.close()
        if out_path:
            fout.close()
        return p

    def model_run(self, prop_key, stdin_path, out_path, timeout=1800):
        with open(stdin_path, "rb") as fin, open(out_path, "wb") as fout:
            p = subprocess.run([os.path.join(OCAML, prop_key, "model")], stdin=fin,
                               stdout=fout, stderr=subprocess.PIPE, timeout=timeout)
        return p

    # ------------------------------------------------------------ findings
    def known_findings(self):
        try:
            kf = json.load(open(os.path.join(VERIF, "known_findings.json")))
        except FileNotFoundError:
            return []
        return [f for f in kf.get("findings", []) if f["property"] == self.prop]

    def fail(self, cls, detail, replay_obj):
        """Record a property failure found on the implementation."""
        for kf in self.known_findings():
            if kf["class"] == cls:
                self.known_hits.setdefault(kf["id"], [kf, 0])[1] += 1
                return
        self.failures.append({"class": cls, "detail": detail, "replay": replay_obj})

    def write_replay(self, name, obj):
        d = os.path.join(VERIF, "replays", self.prop)
        os.makedirs(d, exist_ok=True)
        path = os.path.join(d, name)
        with open(path, "w") as f:
            json.dump(obj, f, indent=1)
        return path

    # ------------------------------------------------------------ finish
    def finish(self, level, extra_cov=None, checker_cmd=None):
        broken = [o for o in self.obligations if not o.ok]
        for kf, n in self.known_hits.values():
            print("KNOWN-FINDING: property=%s %s (%d cases)" % (self.prop, kf["what"], n))
        rc = 0
        nviol = 0
        if self.failures:
            # group by class, one VIOLATION line per class with a minimal replay
            by = {}
            for f in self.failures:
                by.setdefault(f["class"], []).append(f)
            for cls, fs in sorted(by.items()):
                fs.sort(key=lambda f: len(json.dumps(f["replay"])))
                path = self.write_replay("violation_%s.json" % re.sub(r'\W+', '_', cls),
                                         {"property": self.prop, "class": cls, "count": len(fs),
                                          "minimal": fs[0], "more": fs[1:5],
                                          "broken_obligations": [o.name for o in broken]})
                print("VIOLATION property=%s replay=%s" % (self.prop, path))
                nviol += 1
            rc = 1
        elif broken:
            path = self.write_replay("broken_obligation.json",
                                     {"property": self.prop,
                                      "no_longer_checks": [{"obligation": o.name, "detail": o.detail} for o in broken],
                                      "note": "no concrete failing input was found by the search; the property is no longer shown to hold"})
            print("VIOLATION property=%s replay=%s no-failing-input-found" % (self.prop, path))
            nviol += 1
            rc = 1
        cov = {
            "obligations": len(self.obligations),
            "discharged": len([o for o in self.obligations if o.ok]),
            "checker_cmd": checker_cmd or "make -C /verif prop P=%s (coq_makefile full .vo build of Properties/%s.v and all it depends on, coqc 8.16.1) ; coqc Properties/%s.v" % (self.prop.lower(), self.prop, self.prop),
            "trusted_base": self.trusted_base,
            "obligation_list": [{"name": o.name, "ok": o.ok} for o in self.obligations],
            "samples": self.samples[:12],
            "known_findings_hit": {k: v[1] for k, v in self.known_hits.items()},
            "print_assumptions": getattr(self, "print_assumptions", None),
        }
        cov.update(self.coverage)
        if extra_cov:
            cov.update(extra_cov)
        ev = {
            "property_id": self.prop,
            "tier": self.tier,
            "seed": self.seed,
            "level": level,
            "coverage": cov,
            "assumptions": self.assumptions,
            "wall_s": round(time.time() - self.t0, 2),
            "violations": nviol,
        }
        os.makedirs(os.path.join(VERIF, "evidence"), exist_ok=True)
        with open(os.path.join(VERIF, "evidence", self.prop + ".json"), "w") as f:
            json.dump(ev, f, indent=1)
        if os.environ.get("VERIF_KEEP") == "1":
            sys.stderr.write("scratch kept: %s\n" % self.scratch)
        else:
            shutil.rmtree(self.scratch, ignore_errors=True)
        print("%s %s: obligations %d/%d, failures %d, known-finding classes %d, %.1fs" % (
            self.prop, self.tier, cov["discharged"], cov["obligations"], len(self.failures),
            len(self.known_hits), time.time() - self.t0))
        return rc


def diff_lines(impl_path, model_path, cases_path, same=None, limit=50):
    """Compare impl and model observations line by line.
    Returns (n_cases, mismatches[(idx, case, impl, model)])."""
    mism = []
    n = 0
    with open(impl_path) as fi, open(model_path) as fm, open(cases_path) as fc:
        for idx, case in enumerate(fc):
            a = fi.readline().rstrip("\n")
            b = fm.readline().rstrip("\n")
            case = case.rstrip("\n")
            n += 1
            eq = (a == b) if same is None else same(case, a, b)
            if not eq and len(mism) < limit:
                mism.append((idx, case, a, b))
            elif not eq:
                mism.append(None)
    return n, mism


def distinct_count(path, pred=None):
    seen = set()
    with open(path) as f:
        for line in f:
            if pred is None or pred(line):
                seen.add(hashlib.blake2b(line.encode(), digest_size=8).digest())
    return len(seen)


def coq_string(s):
    return '"' + s.replace('"', '""') + '"'


def main(check_fn, prop):
    import argparse
    ap = argparse.ArgumentParser()
    ap.add_argument("--tier", default=os.environ.get("VERIF_TIER", "quick"))
    ap.add_argument("--replay")
    a = ap.parse_args(sys.argv[2:])
    seed = int(os.environ.get("VERIF_SEED", "1") or "1")
    ctx = Ctx(prop, a.tier, seed)
    try:
        rc = check_fn(ctx, a)
    except Exception as e:
        # The machinery itself failed on this tree (a harness crash, a timeout):
        # the property is no longer shown to hold, and that is reported.
        import traceback
        tb = traceback.format_exc()
        sys.stderr.write(tb)
        path = ctx.write_replay("check_error.json", {"property": prop, "no_longer_checks": "the check itself failed", "traceback": tb})
        shutil.rmtree(ctx.scratch, ignore_errors=True)
        print("VIOLATION property=%s replay=%s no-failing-input-found" % (prop, path))
        sys.exit(1)
    sys.exit(rc)
