#!/bin/bash
# wave.sh <wave> <prop-lowercase>...  : confirm each seeded change in its scratch
# worktree (confirm_seed2.sh), then integrate it (integrate_seed.sh); one
# summary line per seed.
wave=$1; shift
for p in "$@"; do
  c=$(bash /verif/checks/confirm_seed2.sh /tmp/seed${wave}_$p /tmp/seedout${wave}_$p 2>&1 | tail -5 | tr '\n' ';')
  case "$c" in
    *"apply: ok"*"build: ok"*"tests with patch: pass"*"demo with patch: exit 1"*"demo without patch: exit 0"*) ;;
    *) echo "$p NOT CONFIRMED: $c"; continue;;
  esac
  r=$(/verif/checks/integrate_seed.sh $wave $p 2>&1 | tail -1 | cut -c1-220)
  echo "$p confirmed; $r"
done
