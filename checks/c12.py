"""C12 - resource limits are never exceeded and never stall the pipestance."""
import os
import random
import re

import lib

MANIFEST = {
 "category": "proof",
 "text": "Coq theorems over ALL operation histories (induction on the op list, no bound) of a Gallina model that mirrors the locked bodies of ResourceSemaphore one method = one atomic step: C12_reserved_le_max (the amounts held by granted-and-not-released requests sum to reserved, Release never panics, the sum is within [0, limit]), C12_grant_fifo (grant history = prefix of the request history, the rest is the queue), C12_head_blocked_inv (no lost wake-up: after any interleaving of acquire / release / growing or shrinking availability updates the queue is empty or its head does not fit), C12_acquire_outcome / C12_acquire_error_iff, C12_sysreqs_clamped (every amount Enqueue derives from GetSystemReqs for any request - fractional, zero, negative adaptive, above the limit - lies within the limit of its semaphore, so it is never refused), C12_maxjobs_card_le_limit (the running set of the max-jobs semaphore never exceeds --maxjobs, one slot per metadata object), and the liveness results C12_local_jobs_progress / C12_local_jobs_terminate for jobs that take the semaphores in the fixed order cores, memory, vmem, processes and release them in reverse (deadlock freedom + a decreasing measure: every schedule finishes). The model is tied to /repo on every run: constants and call-site inventories (unit multipliers, procsPerJob, the acquisition order inside Enqueue, the single UpdateSize call site) are regenerated from the Go AST; the real ResourceSemaphore / MaxJobsSemaphore / GetSystemReqs / LocalJobManager.Enqueue are driven with seeded random op sequences (each blocking Acquire on its own goroutine, quiescence after every op) and compared with the extracted model and with a kernel vm_compute sample; the property is read directly on the implementation as the search for a failing input. Because the theorems are about atomic method calls (C12_enqueue_must_be_atomic shows on the model that the no-lost-wake-up invariant fails if Acquire's decision and its enqueue are separate critical sections), the check also lands a Release / size increase INSIDE a running Acquire through the exported Formatter callback (compared with the model's Acquire-then-operation order) and runs bounded-time contention rounds (goroutines doing acquire/release ping-pong on a tight semaphore, optionally with concurrent UpdateSize) that must all finish: these support the search for a failing schedule, the theorems stay statements about atomic steps.",
 "note": "Trusted: Coq kernel; extraction (ExtrOcamlBasic) cross-checked in-kernel on a sample; extractconsts; mutex atomicity of each Go method (one method call = one model step); int64 arithmetic modelled in Z (no overflow: generated amounts stay below 2^61). float64 conversions at the boundary of GetSystemReqs/Enqueue are not modelled: the model takes dyadic requests for which they are exact, other requests (0.07, 1e19) are covered by the implementation-side oracle only. Liveness assumes availability updates never leave curSize below a job's request (otherwise the job waits for the machine, by design). sync.Cond wake-up order of the max-jobs semaphore is not modelled (safety theorem holds for every order).",
 "technique": "Coq proof (inductive invariants over op histories; ordered-acquisition deadlock-freedom argument with a decreasing measure) + differential correspondence against the running Go semaphores + implementation-side property oracle",
}

KINDS = {"s": "ResourceSemaphore op histories", "q": "GetSystemReqs requests",
         "m": "MaxJobsSemaphore op histories", "j": "LocalJobManager.Enqueue runs",
         "i": "operation landing inside a running Acquire (Formatter callback)",
         "c": "concurrent acquire/release stress rounds (bounded time)"}


def same(case, impl, model):
    if case.startswith("j "):
        # cores: ceil(float64(cc)/100*100) may be cc or cc+1 (float64 product);
        # everything else is exact
        a, b = impl.split(), model.split()
        if len(a) != len(b):
            return False
        for x, y in zip(a, b):
            if x == y:
                continue
            mx, my = re.fullmatch(r'c(\d+)', x), re.fullmatch(r'c(\d+)', y)
            if mx and my and int(mx.group(1)) == int(my.group(1)) + 1:
                continue
            return False
        return True
    if case.startswith("q ") and model == "skip":
        # non-dyadic float64 request: outside the model, judged by the oracle
        return True
    if case.startswith("m "):
        # compare op by op up to the first Broadcast that woke several callers
        # (the order in which they get the lock is the Go scheduler's choice)
        for a, b in zip(impl.split(";"), model.split(";")):
            if "N" in b.split("/")[0].split(","):
                return True
            if a != b:
                return False
        return len(impl.split(";")) == len(model.split(";"))
    return impl == model


def z(n):
    return "(%d)" % n


def coq_cop(tok):
    p = tok.split(",")
    k = p[0]
    if k == "a":
        return "CAcquire %s%%N %s" % (p[1], z(int(p[2])))
    if k == "r":
        return "CRelease %s%%N" % p[1]
    if k == "R":
        return "CRawRelease %s" % z(int(p[1]))
    if k == "ua":
        return "CUpdateActual %s" % z(int(p[1]))
    if k == "us":
        return "CUpdateSize %s" % z(int(p[1]))
    if k == "uf":
        return "CUpdateFreeUsed %s %s" % (z(int(p[1])), z(int(p[2])))
    raise ValueError(tok)


def coq_sem_case(case, impl):
    """One s case and the implementation's observation as a Coq term:
    (size, ops, [(dead, [reserved; cur; avail; inuse; qlen], [granted ids])])."""
    f = case.split()
    ops = "; ".join(coq_cop(t) for t in f[2:])
    exp = []
    for o in (impl.split(";") if impl != "-" else []):
        if o == "dead":
            exp.append("(true, [], [])")
            continue
        ev, nums = o.split("/")
        g = [t[1:] for t in ev.split(",") if re.fullmatch(r'g\d+', t)]
        exp.append("(false, [%s], [%s])" % ("; ".join(z(int(x)) for x in nums.split(",")),
                                             "; ".join(x + "%N" for x in g)))
    return "(%s, [%s], [%s])" % (z(int(f[1])), ops, "; ".join(exp))


def check(ctx, args):
    ctx.trusted_base = [
        "Coq 8.16.1 kernel (coqc, vm_compute; no native_compute)",
        "axioms: none (Print Assumptions: Closed under the global context)",
        "extraction: ExtrOcamlBasic only, OCaml 4.13.1; cross-checked on a sample against vm_compute in the kernel",
        "harness/cmd/extractconsts topic Resources (unit multipliers, procsPerJob, acquisition order of Enqueue, UpdateSize call-site inventory copied from the Go AST)",
        "each ResourceSemaphore / MaxJobsSemaphore method holds its mutex for the whole body: one call = one atomic model step (Go memory model, sync.Mutex)",
        "int64 modelled as Z (no overflow), float64 request conversions not modelled (dyadic requests only; others by the implementation-side oracle)",
        "quiescence detection of the harness (queue length / bounded waits) when observing the real semaphores",
        "concurrent kinds i/c: goroutine schedules are sampled, not enumerated (time bounds 3-4 s per round; a stall is reported when a round does not finish); they search for a schedule that breaks atomicity, they are not part of any theorem",
    ]
    ctx.assumptions = [
        "requests handed to Acquire are non-negative (proved for every amount derived by GetSystemReqs/Enqueue: C12_sysreqs_clamped)",
        "UpdateSize is only called with a value <= the hard limit (single call site procsSem.UpdateSize(rlimCur), semaphore created with rlimMax; inventory regenerated on every run)",
        "liveness: availability updates never leave curSize below a waiting job's request forever (a job that does not fit the machine's free memory waits for it, by design)",
        "vmem bound needs maxVmemMB >= maxMemGB*1024 (otherwise the vmem >= mem adjustment exceeds the vmem limit and the job is refused: C12_vmem_misconfigured)",
        "cluster mode: the wake-up order of sync.Cond is not modelled; the safety theorem holds for every order",
    ]
    okb = ctx.build_harness()
    oke = ctx.extract_consts(["Resources"])
    okc = ctx.coq_build()
    if okc:
        ctx.property_theorems()
    if okc and ctx.tier == "thorough":
        # independent re-check of the compiled development by coqchk
        with lib.Lock():
            p = lib.run(["coqchk", "-silent", "-o", "-Q", lib.COQ, "Martian", "Martian.Properties.C12"], timeout=1500, cwd=lib.COQ)
        out = p.stdout
        ctx.oblige("coqchk re-checks Properties.C12 and its dependencies: no axioms, no type-in-type, no assumed positivity/guardedness",
                   p.returncode == 0 and out.count("<none>") >= 4, out[-800:])
    s = ctx.scratch
    cases, impl, model, oracle = (os.path.join(s, n) for n in ("cases.txt", "impl.txt", "model.txt", "oracle.txt"))
    if not okb:
        return ctx.finish("proof")
    ctx.vh_run(["c12", "gen", ctx.tier, str(ctx.seed)], out_path=cases)
    p = ctx.vh_run(["c12", "impl", s], stdin_path=cases, out_path=impl)
    ctx.oblige("implementation driver ran to completion", p.returncode == 0, (p.stderr or b"").decode(errors="replace")[-1500:])
    case_lines = open(cases).read().splitlines()
    impl_lines = open(impl).read().splitlines()
    mism = []
    # -- correspondence, volume: extracted model
    if okc:
        ctx.model_run("c12", cases, model)
        n, mism = lib.diff_lines(impl, model, cases, same)
        ctx.oblige("correspondence: ResourceSemaphore / GetSystemReqs / MaxJobsSemaphore / Enqueue == K.Semaphore / K.SysReqs / K.MaxJobs / K.LocalJobs (%d cases, extracted model)" % n,
                   not mism, "; ".join("case %s impl=%s model=%s" % (m[1][:300], m[2][:300], m[3][:300]) for m in mism[:3] if m))
        # -- correspondence, kernel: a sample evaluated by vm_compute
        sc = [(c, o) for c, o in zip(case_lines, impl_lines) if c.startswith("s ") and len(c) < 700]
        rnd = random.Random(ctx.seed)
        sample = sc[:40] + rnd.sample(sc, min(len(sc), 260))
        body = ";\n".join(coq_sem_case(c, o) for c, o in sample)
        v = ("From Martian Require Import K.Semaphore.\nLocal Open Scope Z_scope.\n"
             "Definition is_g (e : event) : list N := match e with EGrantNow i _ => [i] | EGrantQ i _ => [i] | _ => [] end.\n"
             "Definition proj (o : obs) : bool * list Z * list N :=\n"
             "  if o_dead o then (true, [], []) else\n"
             "  (false, [o_reserved o; o_cur o; o_avail o; o_inuse o; o_qlen o], flat_map is_g (o_events o)).\n"
             "Definition leq (a b : bool * list Z * list N) : bool :=\n"
             "  Bool.eqb (fst (fst a)) (fst (fst b)) && (if list_eq_dec Z.eq_dec (snd (fst a)) (snd (fst b)) then true else false)\n"
             "  && (if list_eq_dec N.eq_dec (snd a) (snd b) then true else false).\n"
             "Fixpoint all2 (a b : list (bool * list Z * list N)) : bool :=\n"
             "  match a, b with [], [] => true | x :: a', y :: b' => leq x y && all2 a' b' | _, _ => false end.\n"
             "Definition cases : list (Z * list cop * list (bool * list Z * list N)) := [\n%s].\n"
             "Definition bad := filter (fun c => negb (all2 (map proj (cobserve (client_init (fst (fst c))) (snd (fst c)))) (snd c))) cases.\n"
             "Definition M := Eval vm_compute in map (fun c => fst (fst c)) bad.\nPrint M.\n") % body
        rc, out = ctx.coq_eval(v, "c12_cases")
        okk = rc == 0 and "M = []" in out.replace("\n", " ")
        ctx.oblige("correspondence: kernel vm_compute of cobserve on %d sampled semaphore histories equals the implementation" % len(sample), okk, out[-600:])
        ctx.coverage["kernel_sample"] = len(sample)
    # -- the property read directly on the implementation
    p = ctx.vh_run(["c12", "oracle", s], stdin_path=cases, out_path=oracle)
    ctx.oblige("implementation-side oracle ran to completion", p.returncode == 0, (p.stderr or b"").decode(errors="replace")[-1500:])
    n_ok = n_fail = n_skip = 0
    failing_idx = set()
    with open(oracle) as fo:
        for idx, o in enumerate(fo):
            o = o.rstrip("\n")
            c = case_lines[idx] if idx < len(case_lines) else ""
            if o == "ok":
                n_ok += 1
            elif o.startswith("FAIL"):
                n_fail += 1
                failing_idx.add(idx)
                f = o.split(" ", 2)
                detail = f[2] if len(f) > 2 else ""
                rep = {"case": c[:3000],
                       "implementation_trace": (impl_lines[idx] if idx < len(impl_lines) else "")[:3000],
                       "state_when_violated": detail[:2000],
                       "how": "vh c12 oracle < case : the property read on the implementation's own trace (real ResourceSemaphore / MaxJobsSemaphore / LocalJobManager), independent of the model"}
                m = re.match(r'op (\d+) ', detail)
                if m and c[:1] in "sm":
                    k = int(m.group(1))
                    toks = c.split()
                    rep["failing_op_index"] = k
                    rep["op_sequence_up_to_violation"] = " ".join(toks[:3 + k])
                ctx.fail(f[1], detail[:600], rep)
            else:
                n_skip += 1
    # a correspondence mismatch that the oracle does not explain is reported
    # through the broken obligation (no-failing-input-found)
    kinds = {}
    nops = 0
    for c in case_lines:
        kinds[c[0]] = kinds.get(c[0], 0) + 1
        if c[0] in "sm":
            nops += len(c.split()) - 2
    ctx.coverage.update({
        "evaluations": len(case_lines),
        "distinct_nontrivial": lib.distinct_count(cases, lambda l: len(l.split()) > 4),
        "rule": "seeded random op histories (2-60 ops; limits 0..65536; amounts 0, small, fractions of, equal to and above the limit, negative in the malformed stream; shrinking and growing availability updates; releases of held / queued / already released requests), GetSystemReqs on a grid of dyadic and non-dyadic requests x configurations, max-jobs histories with metadata state changes, Enqueue runs; distinct by case text, non-trivial = at least 3 ops/fields",
        "case_kinds": {KINDS.get(k, k): v for k, v in sorted(kinds.items())},
        "semaphore_ops_driven": nops,
        "oracle_ok": n_ok, "oracle_fail": n_fail, "oracle_skip": n_skip,
        "exhaustive": False,
    })
    ctx.samples = [l[:240] for l in case_lines[4:7]] + [[l[:240] for l in case_lines if l.startswith(k + " ")][1] for k in "qmjic"]
    ctx.coverage["end_to_end"] = e2e(ctx)
    return ctx.finish("proof")


E2E_STAGE = '''#!/bin/bash
# $1 = phase, $2 = metadata directory
md="$2"
python3 - "$md" <<'PY'
import json, sys
md = sys.argv[1]
ji = json.load(open(md + "/_jobinfo"))
open(md + "/_outs", "w").write(json.dumps({"mem": ji.get("memGB"), "threads": ji.get("threads")}))
PY
'''

E2E_MRO = '''stage SMALL(
    in  int   x,
    out float mem,
    out float threads,
    src comp  "@DIR@/stage.sh",
) using (
    mem_gb = 0.25,
)

stage EXACT(
    in  int   x,
    out float mem,
    out float threads,
    src comp  "@DIR@/stage.sh",
) using (
    mem_gb = 1,
)

stage OVER(
    in  int   x,
    out float mem,
    out float threads,
    src comp  "@DIR@/stage.sh",
) using (
    mem_gb  = 3,
    threads = 9,
)

pipeline P(
    in  int     x,
    out float[] mem,
    out float[] threads,
)
{
    call SMALL(
        x = self.x,
    )

    call EXACT(
        x = self.x,
    )

    call OVER(
        x = self.x,
    )

    return (
        mem     = [
            SMALL.mem,
            EXACT.mem,
            OVER.mem,
        ],
        threads = [
            SMALL.threads,
            EXACT.threads,
            OVER.threads,
        ],
    )
}

call P(
    x = 1,
)
'''


def e2e(ctx):
    """Real mrp, local mode, --localmem=1 --localcores=2: a job asking for a
    quarter of the limit, one asking for exactly the limit and one asking for
    more than both limits.  Every job must be granted at most the limits and
    the pipestance must finish (a request that fits the limit is never left
    waiting for good)."""
    import json
    import subprocess
    d = os.path.join(ctx.scratch, "e2e")
    os.makedirs(os.path.join(d, "bin"), exist_ok=True)
    p = lib.run(["go", "build", "-o", os.path.join(d, "bin") + "/", "./cmd/mrp", "./cmd/mrjob"], cwd=lib.REPO, env=lib.GOENV, timeout=900)
    if not ctx.oblige("mrp and mrjob build from the repository", p.returncode == 0, p.stdout[-800:]):
        return {}
    for n in ("jobmanagers", "adapters"):
        os.symlink(os.path.join(lib.REPO, n), os.path.join(d, n))
    w = os.path.join(d, "work")
    os.makedirs(w)
    open(os.path.join(w, "stage.sh"), "w").write(E2E_STAGE)
    os.chmod(os.path.join(w, "stage.sh"), 0o755)
    open(os.path.join(w, "p.mro"), "w").write(E2E_MRO.replace("@DIR@", w))
    try:
        avail = int([l.split()[1] for l in open("/proc/meminfo") if l.startswith("MemAvailable")][0])
    except Exception:
        avail = 0
    if avail < 3 * 1024 * 1024:
        ctx.oblige("end to end: enough free memory for the --localmem=1 scenario", True, "skipped: MemAvailable %d kB" % avail)
        return {"skipped": "low memory"}
    env = dict(os.environ, MROPATH=w)
    try:
        q = subprocess.run([os.path.join(d, "bin", "mrp"), "p.mro", "ps", "--localmem=1", "--localcores=2", "--disable-ui"],
                           cwd=w, env=env, capture_output=True, text=True, timeout=120)
        rc, out = q.returncode, q.stdout + q.stderr
    except subprocess.TimeoutExpired as e:
        rc, out = -2, ((e.stdout or b"").decode(errors="replace") if isinstance(e.stdout, bytes) else (e.stdout or ""))
    rep = {"program": E2E_MRO.replace("@DIR@", "<dir>"), "options": "--localmem=1 --localcores=2", "exit": rc, "log_tail": out[-1200:]}
    if rc == -2:
        ctx.fail("job_within_limits_never_started", "mrp --localmem=1 --localcores=2 with jobs asking for 0.25 GB, 1 GB and 3 GB/9 threads did not finish in 120 s", rep)
        return {"exit": rc}
    if rc != 0:
        ctx.fail("e2e_local_limits_run_failed", "mrp --localmem=1 --localcores=2 exits %d" % rc, rep)
        return {"exit": rc}
    try:
        o = json.load(open(os.path.join(w, "ps", "P", "fork0", "_outs")))
    except Exception as e:
        o = {"error": str(e)}
    rep["granted"] = o
    mems, ths = o.get("mem") or [], o.get("threads") or []
    if len(mems) != 3 or any(m is None or m > 1 or m <= 0 for m in mems) or any(t is None or t > 2 or t <= 0 for t in ths):
        ctx.fail("e2e_grant_outside_limits", "the jobs were told %s GB / %s threads with --localmem=1 --localcores=2" % (mems, ths), rep)
    ctx.oblige("end to end: mrp --localmem=1 --localcores=2 ran jobs asking for 0.25 GB, exactly 1 GB and 3 GB/9 threads", True)
    return {"exit": rc, "granted_mem_gb": mems, "granted_threads": ths}
