package main

import (
	"encoding/json"
	"fmt"
	"os"
	"path/filepath"
	"regexp"
	"strings"
	"time"

	"verifharness/internal/hx"
)

// The stage executable used by every generated pipeline (src comp "vh __stage NAME").
// argv: vh __stage NAME <split|main|join> <metadata> <files> <runfile>
//
// Its behaviour is a deterministic function of (stage name, phase, arguments)
// given by the spec file $VH_SPEC (the same table is handed to the Coq model
// as Mro.StageSpec.spec).  It records what it read and when it ran in the
// event log $VH_EVENTS (one O_APPEND line per event).

func init() {
	earlyHooks = append(earlyHooks, func() bool {
		if len(os.Args) > 1 && os.Args[1] == "__stage" {
			stageMain(os.Args[2:])
			return true
		}
		return false
	})
}

type stageSpec struct {
	Stages map[string]struct {
		Split      bool                       `json:"split"`
		Outs       map[string]json.RawMessage `json:"outs"`
		ChunkFrom  string                     `json:"chunk_from"`
		ChunkIn    string                     `json:"chunk_in"`
		ChunkConst []string                   `json:"chunk_const"`
		ChunkOuts  map[string]json.RawMessage `json:"chunk_outs"`
	} `json:"stages"`
	// job id (P.S.fork0.chnk1 / .split / .join) or stage name -> milliseconds
	Delays map[string]int `json:"delays"`
	// job id or "STAGE:phase" -> fault kind
	Faults map[string]string `json:"faults"`
	// stage name -> file behaviour (C04/C14)
	Files map[string]json.RawMessage `json:"files"`
}

// stageCtx is handed to stageHooks (registered by property-specific files,
// e.g. file-writing behaviour for the VDR properties) after the arguments were
// read and the result computed, before the result is written.
type stageCtx struct {
	Name, Phase, ID, MD, Files string
	Args                      hx.JV
	SpecRaw                   map[string]json.RawMessage // the whole spec file
	Result                    *string                    // JSON text about to be written
	OutFile                   string
}

var stageHooks []func(c *stageCtx)

var uniqRe = regexp.MustCompile(`\.u[0-9a-f]{10}$`)

func logEvent(format string, a ...interface{}) {
	path := os.Getenv("VH_EVENTS")
	if path == "" {
		return
	}
	line := fmt.Sprintf("%d ", time.Now().UnixNano()) + fmt.Sprintf(format, a...) + "\n"
	f, err := os.OpenFile(path, os.O_WRONLY|os.O_APPEND|os.O_CREATE, 0o644)
	if err != nil {
		return
	}
	f.WriteString(line)
	f.Close()
}

func readJV(path string) hx.JV {
	b, err := os.ReadFile(path)
	if err != nil {
		stageDie("cannot read " + path + ": " + err.Error())
	}
	v, err := hx.ParseJSON(b)
	if err != nil {
		stageDie("cannot parse " + path + ": " + err.Error())
	}
	return v
}

func stageDie(msg string) {
	// fd 4 is mrjob's error pipe
	if f := os.NewFile(4, "errors"); f != nil {
		f.WriteString(msg)
		f.Close()
	}
	os.Exit(1)
}

// stripInternal drops the __mem_gb/__threads/... keys mrp adds.
func stripInternal(v hx.JV) hx.JV {
	if v.K != '{' {
		return v
	}
	var o []hx.JKV
	for _, kv := range v.O {
		if !strings.HasPrefix(kv.Key, "__") {
			o = append(o, kv)
		}
	}
	return hx.JObj(o)
}

func objGet(v hx.JV, k string) hx.JV {
	if v.K == '{' {
		for _, kv := range v.O {
			if kv.Key == k {
				return kv.Val
			}
		}
	}
	return hx.JNull()
}

func evalSExp(raw json.RawMessage, args hx.JV, couts []hx.JV) hx.JV {
	var m map[string]json.RawMessage
	if err := json.Unmarshal(raw, &m); err != nil {
		stageDie("bad spec expression")
	}
	for k, v := range m {
		switch k {
		case "lit":
			var s string
			json.Unmarshal(v, &s)
			return hx.DecodeJV(s)
		case "arg":
			var s string
			json.Unmarshal(v, &s)
			return objGet(args, s)
		case "chunkouts":
			var s string
			json.Unmarshal(v, &s)
			a := make([]hx.JV, len(couts))
			for i, c := range couts {
				a[i] = objGet(c, s)
			}
			return hx.JArr(a)
		case "arr":
			var items []json.RawMessage
			json.Unmarshal(v, &items)
			a := make([]hx.JV, len(items))
			for i, it := range items {
				a[i] = evalSExp(it, args, couts)
			}
			return hx.JArr(a)
		case "obj":
			var items [][]json.RawMessage
			json.Unmarshal(v, &items)
			var o []hx.JKV
			for _, it := range items {
				var key string
				json.Unmarshal(it[0], &key)
				o = append(o, hx.JKV{Key: key, Val: evalSExp(it[1], args, couts)})
			}
			return hx.JObj(o)
		}
	}
	return hx.JNull()
}

func evalOuts(outs map[string]json.RawMessage, args hx.JV, couts []hx.JV) hx.JV {
	var o []hx.JKV
	for k, e := range outs {
		o = append(o, hx.JKV{Key: k, Val: evalSExp(e, args, couts)})
	}
	return hx.JObj(o).Canon()
}

func stageMain(argv []string) {
	if len(argv) < 5 {
		fmt.Fprintln(os.Stderr, "usage: vh __stage NAME phase metadata files runfile")
		os.Exit(2)
	}
	name, phase, md := argv[0], argv[1], argv[2]
	id := uniqRe.ReplaceAllString(filepath.Base(argv[4]), "")
	if phase == "split" || phase == "join" {
		id += "." + phase
	}
	var spec stageSpec
	if b, err := os.ReadFile(os.Getenv("VH_SPEC")); err != nil {
		stageDie("no spec: " + err.Error())
	} else if err := json.Unmarshal(b, &spec); err != nil {
		stageDie("bad spec: " + err.Error())
	}
	st, ok := spec.Stages[name]
	if !ok {
		stageDie("unknown stage " + name)
	}
	logEvent("start %s %s %s %s", id, name, phase, md)
	args := stripInternal(readJV(filepath.Join(md, "_args")))
	var result string
	outFile := "_outs"
	switch {
	case phase == "split":
		logEvent("args %s %s", id, args.Canon().Enc())
		var defs []hx.JV
		if st.ChunkFrom != "" {
			if a := objGet(args, st.ChunkFrom); a.K == '[' {
				for _, x := range a.A {
					defs = append(defs, hx.JObj([]hx.JKV{{Key: st.ChunkIn, Val: x}}))
				}
			}
		} else {
			for _, d := range st.ChunkConst {
				defs = append(defs, hx.DecodeJV(d))
			}
		}
		if defs == nil {
			defs = []hx.JV{}
		}
		result = hx.JObj([]hx.JKV{{Key: "chunks", Val: hx.JArr(defs)}, {Key: "join", Val: hx.JObj(nil)}}).JSON()
		outFile = "_stage_defs"
	case phase == "main" && st.Split:
		logEvent("args %s %s", id, args.Canon().Enc())
		result = evalOuts(st.ChunkOuts, args, nil).JSON()
	case phase == "main":
		logEvent("args %s %s", id, args.Canon().Enc())
		result = evalOuts(st.Outs, args, nil).JSON()
	case phase == "join":
		defs := readJV(filepath.Join(md, "_chunk_defs"))
		couts := readJV(filepath.Join(md, "_chunk_outs"))
		sd := make([]hx.JV, len(defs.A))
		for i, d := range defs.A {
			sd[i] = stripInternal(d)
		}
		obs := hx.JObj([]hx.JKV{{Key: "args", Val: args}, {Key: "chunk_defs", Val: hx.JArr(sd)}, {Key: "chunk_outs", Val: couts}})
		logEvent("args %s %s", id, obs.Canon().Enc())
		result = evalOuts(st.Outs, args, couts.A).JSON()
	default:
		stageDie("unknown phase " + phase)
	}
	if d, ok := spec.Delays[id]; ok {
		time.Sleep(time.Duration(d) * time.Millisecond)
	} else if d, ok := spec.Delays[name]; ok {
		time.Sleep(time.Duration(d) * time.Millisecond)
	} else if sched := os.Getenv("VH_SCHED"); sched != "" {
		// schedule adversary: a pseudo-random delay per job derived from
		// "<seed>:<max ms>" and the job id
		var seed, max uint64
		fmt.Sscanf(sched, "%d:%d", &seed, &max)
		if max > 0 {
			h := seed*0x9E3779B97F4A7C15 + 1469598103934665603
			for _, c := range []byte(id) {
				h = (h ^ uint64(c)) * 1099511628211
			}
			h ^= h >> 29
			time.Sleep(time.Duration(h%max) * time.Millisecond)
		}
	}
	if len(stageHooks) > 0 {
		var raw map[string]json.RawMessage
		if b, err := os.ReadFile(os.Getenv("VH_SPEC")); err == nil {
			json.Unmarshal(b, &raw)
		}
		c := &stageCtx{Name: name, Phase: phase, ID: id, MD: md, Files: argv[3], Args: args,
			SpecRaw: raw, Result: &result, OutFile: outFile}
		for _, h := range stageHooks {
			h(c)
		}
	}
	stageFault(&spec, id, name, phase, md, outFile, &result)
	if err := os.WriteFile(filepath.Join(md, outFile), []byte(result), 0o644); err != nil {
		stageDie("cannot write outs: " + err.Error())
	}
	logEvent("end %s %s %s", id, name, phase)
}

// stageFault injects the failure manifestations of C06 (filled in by the
// fault-injection runs; no fault configured = no effect).
func stageFault(spec *stageSpec, id, name, phase, md, outFile string, result *string) {
	kind, ok := spec.Faults[id]
	if !ok {
		kind, ok = spec.Faults[name+":"+phase]
	}
	if f := os.Getenv("VH_FAULTS"); !ok && f != "" {
		// "<jobid or STAGE:phase>=<kind>"
		if i := strings.LastIndexByte(f, '='); i > 0 && (f[:i] == id || f[:i] == name+":"+phase) {
			kind, ok = f[i+1:], true
		}
	}
	if !ok {
		return
	}
	// a fault configured with a marker file fires only while the marker exists
	// ("the fault is removed" = the driver deletes the marker)
	if marker := os.Getenv("VH_FAULT_MARKER"); marker != "" {
		if _, err := os.Stat(marker); err != nil {
			return
		}
	}
	if os.Getenv("VH_FAULT_ONCE") == "1" {
		// a transient fault: it fires once
		os.Remove(os.Getenv("VH_FAULT_MARKER"))
	}
	logEvent("fault %s %s %s %s", id, name, phase, kind)
	switch kind {
	case "error":
		stageDie("injected error in " + id)
	case "assert":
		stageDie("ASSERT:injected assertion in " + id)
	case "exit":
		os.Exit(3)
	case "signal":
		p, _ := os.FindProcess(os.Getpid())
		p.Kill()
		time.Sleep(time.Second)
	case "stale_defs":
		// a split job that writes a chunk list (shorter than the one it
		// would have returned) and then fails: the list of the failed
		// attempt must not survive into the next one
		var sd struct {
			Chunks []json.RawMessage `json:"chunks"`
			Join   json.RawMessage   `json:"join"`
		}
		if phase == "split" && json.Unmarshal([]byte(*result), &sd) == nil {
			if len(sd.Chunks) > 1 {
				sd.Chunks = sd.Chunks[:1]
			}
			b, _ := json.Marshal(sd)
			os.WriteFile(filepath.Join(md, outFile), b, 0o644)
		}
		os.Exit(3)
	case "null_value":
		// the job writes the JSON value null where an object is expected
		*result = "null"
	case "truncated":
		*result = (*result)[:len(*result)/2]
	case "invalid":
		*result = "{not json"
	case "missing_key":
		*result = "{}"
	case "wrong_type":
		// a value no declared type of the generated programs accepts
		*result = strings.Replace(*result, ":", ":[[[[[true]]]]],\"zz\":", 1)
	}
}
