package main

// C08 - the parser/compiler is total: any input yields a tree or a located
// error.
//
// Case kinds (one per line, strings hex-encoded):
//
//	t <bytes>        nextToken on the bytes; observation: token name, length and
//	                 what the grammar action's converter does with the token
//	                 (parseInt value / parseFloat ok / unquote result / panic)
//	i <bytes>        parseInt on arbitrary bytes
//	f <bytes>        parseFloat on bytes over the decimal-float alphabet
//	u <bytes>        unquoteBytes on arbitrary bytes
//	s <bytes>        the src_stm grammar action on a stage whose src string is <bytes>
//	p <kind> <bytes> a whole input: token stream with locations (model: lexer);
//	                 oracle: every entry point under recover and a timeout
//	z <shape> <n> <m> scaling: input built from a shape at sizes n and m (oracle only)
//	c <k> (<name> <content>)*k   a set of files with includes (oracle only)

import (
	"bufio"
	"bytes"
	"fmt"
	"os"
	"os/exec"
	"path/filepath"
	"regexp"
	"runtime"
	"sort"
	"strconv"
	"strings"
	"time"

	"github.com/martian-lang/martian/martian/syntax"
	"verifharness/internal/hx"
)

func init() {
	props["c08"] = &propCmd{gen: c08Gen, impl: c08Impl, oracle: c08Oracle}
}

func c08Repo() string {
	if r := os.Getenv("VERIF_REPO"); r != "" {
		return r
	}
	return "/repo"
}

// ------------------------------------------------------------------ pools

var c08Ints = []string{
	"0", "-0", "1", "-1", "00", "007", "-007", "42",
	"9223372036854775806", "9223372036854775807", "9223372036854775808", "9223372036854775809",
	"-9223372036854775807", "-9223372036854775808", "-9223372036854775809",
	"9999999999999999999", "-9999999999999999999", "1000000000000000000", "10000000000000000000",
	"18446744073709551615", "18446744073709551616", "25000000000000000000", "-25000000000000000000",
	"00000000000000000000009223372036854775807", "00000000000000000000009223372036854775808",
	"0000000000000000000000000000000000000001", "00000000000000000000", "12345678901234567890",
	"2147483647", "2147483648", "4294967296", "9007199254740993",
	"9223372036854775799", "9223372036854775810", "9223372036854775800", "9300000000000000000",
	"1844674407370955162", "1844674407370955161", "922337203685477580", "922337203685477581",
}

var c08Floats = []string{
	"0.0", "-0.0", "1.5", "-1.5", "1e5", "1E5", "1e+5", "1e-5", "1.5e3", "1.5E-3", "00.5", "1.50",
	"1e308", "1e309", "-1e309", "1e999", "-1e999", "1e-999", "4.9e-324", "2e-324", "1e-400",
	"1.7976931348623157e308", "1.7976931348623158e308", "1.7976931348623159e308",
	"1.797693134862315807e308", "1.797693134862315808e308", "1.797693134862315708145274237317043567981e308",
	"17976931348623157081452742373170435679807056752584499659891747680315726078002853876058955863276687817154045895351438246423432132688946418276846754670353751698604991057655128207624549009038932894407586850845513394230458323690322294816580855933212334827479782620414472316873817718091929988125040402618412485836.7",
	"17976931348623157081452742373170435679807056752584499659891747680315726078002853876058955863276687817154045895351438246423432132688946418276846754670353751698604991057655128207624549009038932894407586850845513394230458323690322294816580855933212334827479782620414472316873817718091929988125040402618412485836.8",
	"179769313486231580793728971405303415079934132710037826936173778980444968292764750946649017977587207096330286416692887910946555547851940402630657488671505820681908902000708383676273854845817711531764475730270069855571366959622842914819860834936475292719074168444365510704342711559699508093042880177904174497791.9",
	"179769313486231580793728971405303415079934132710037826936173778980444968292764750946649017977587207096330286416692887910946555547851940402630657488671505820681908902000708383676273854845817711531764475730270069855571366959622842914819860834936475292719074168444365510704342711559699508093042880177904174497792.0",
	"0.000000000000000000000000000001e338", "0.0e999", "0e999", "0.0e99999999999999999999", "1e99999999999999999999",
	"1e-99999999999999999999", "1e10000", "1e9999", "0.1e310", "0.1e309", "12345678901234567890.5", "1e00000000000000000005",
	"3.4028235e38", "3.4028236e38", "3.5e38", "1e39", "-1e39", "1e38", "1e-46",
	"1:e5", "1:.5e5", "1:1.5e5", "1:E+5", "1.e5", "1.", ".5", "1e", "1e+", "1.5.5", "1e5.5", "1ee5", "-", "-.5", "--1", "+1.5", "1_0.5", "0x1p3",
}

var c08StringBodies = []string{
	``, ` `, `  `, "\t", `a`, `hello world`, `\a`, `\b`, `\f`, `\n`, `\r`, `\t`, `\v`, `\\`, `\"`,
	`\000`, `\001`, `\177`, `\377`, `\400`, `\777`, `\x00`, `\x7f`, `\xff`, `\xFF`, `\xaB`,
	`\u0000`, `A`, `é`, `\ud800`, `\udfff`, `😀`, `￿`, `�`,
	`\U00000041`, `\U0001F600`, `\U0010FFFF`, `\U00110000`, `\U7FFFFFFF`, `\U80000000`, `\UFFFFFFFF`,
	`a\tb\nc`, `\\\\`, `\\"`, `\"\"`, `x\"`, "café", "\u2028", "�", "\xff\xfe", "\xc3", "a\x00b",
	"line1\nline2", `path/to/file.txt`, `code/stage arg1 arg2`, "\u00a0", "\u3000x", " \u2003 ", "\x85", "\xc2\x85",
	// not matched by the string rule (must become a located error, not a panic)
	`\8`, `\9`, `\08`, `\x1`, `\x1g`, `\xg1`, `\u123`, `\u123g`, `\U1234567`, `\U1234567g`, `\q`, `\/`, `\'`, `\ `, `\`, `abc\`, `\07`, `\0`,
}

var c08Keywords = []string{
	"as", "bool", "call", "comp", "default", "disabled", "exec", "false", "filetype", "float", "in", "int",
	"local", "map", "mem_gb", "memgb", "null", "out", "path", "pipeline", "preflight", "py", "retain", "return",
	"self", "special", "split", "src", "stage", "strict", "string", "struct", "threads", "true", "using",
	"volatile", "vmem_gb", "vmemgb", "@include", "file",
}

var c08Punct = []string{"(", ")", "*", ",", ".", ":", ";", "<", "=", ">", "[", "]", "{", "}"}

var c08Junk = []string{"\x00", "\x80", "\xff", "\xc3\x28", "\xe2\x82", "\xf0\x9f\x98", "\xed\xa0\x80", "\xef\xbf\xbd", "\u00a0", "\u2028", "\u3000",
	"\u0085", "\v", "\f", "\r", "\r\n", "'", "`", "$", "!", "%", "&", "+", "/", "\\", "?", "^", "|", "~", "@", "#", "\"", "_", "__", "_1", "-", "é", "日本"}

func c08Quote(body string) string { return `"` + body + `"` }

// ------------------------------------------------------------------ token-level generators

func c08RandBytes(r *hx.Rng, alphabet []byte, maxLen int) string {
	n := r.Intn(maxLen + 1)
	b := make([]byte, n)
	for i := range b {
		b[i] = alphabet[r.Intn(len(alphabet))]
	}
	return string(b)
}

func c08Mutate(r *hx.Rng, s string, alphabet []byte) string {
	b := []byte(s)
	switch r.Intn(6) {
	case 0: // truncate
		if len(b) > 0 {
			b = b[:r.Intn(len(b))]
		}
	case 1: // delete one byte
		if len(b) > 0 {
			i := r.Intn(len(b))
			b = append(b[:i:i], b[i+1:]...)
		}
	case 2: // insert one byte
		i := r.Intn(len(b) + 1)
		c := alphabet[r.Intn(len(alphabet))]
		b = append(b[:i:i], append([]byte{c}, b[i:]...)...)
	case 3: // replace one byte
		if len(b) > 0 {
			b[r.Intn(len(b))] = alphabet[r.Intn(len(alphabet))]
		}
	case 4: // duplicate a byte
		if len(b) > 0 {
			i := r.Intn(len(b))
			b = append(b[:i:i], append([]byte{b[i]}, b[i:]...)...)
		}
	default: // append a suffix
		b = append(b, alphabet[r.Intn(len(alphabet))])
	}
	return string(b)
}

var (
	c08NumAlpha  = []byte("0123456789-+.eE:_x ")
	c08FltAlpha  = []byte("0123456789-+.eE: ")
	c08StrAlpha  = []byte("\\\"abfnrtvxuU0123456789aAfFgG78 \n\xff\xc3\xa9")
	c08TokAlpha  = []byte("\\\"#@_-.:;,=*()[]{}<> \t\n\v\f\r019aeEszZ\x80\xc2\xa0\xe2\x80\xa8\xff\xef\xbf\xbd")
	c08TailAlpha = []byte(" \n,;)]}:._-aZ09\"#\xff\xc2")
)

func c08EmitT(s string)         { fmt.Fprintf(hx.Out, "t %s\n", hx.H(s)) }
func c08Emit(k, s string)       { fmt.Fprintf(hx.Out, "%s %s\n", k, hx.H(s)) }
func c08EmitP(k, s string)      { fmt.Fprintf(hx.Out, "p %s %s\n", k, hx.H(s)) }
func c08Thorough(t string) bool { return t == "thorough" }

func c08Gen(tier string, r *hx.Rng) {
	th := c08Thorough(tier)
	mul := 1
	if th {
		mul = 12
	}
	// --- t: exhaustive 1-byte, 2-byte over the token alphabet, 3-byte over a small one
	c08EmitT("")
	for a := 0; a < 256; a++ {
		c08EmitT(string([]byte{byte(a)}))
	}
	for _, a := range c08TokAlpha {
		for _, b := range c08TokAlpha {
			c08EmitT(string([]byte{a, b}))
		}
	}
	small := []byte("\"\\0-.e:a_ \n#")
	for _, a := range small {
		for _, b := range small {
			for _, c := range small {
				c08EmitT(string([]byte{a, b, c}))
				if th {
					for _, d := range small {
						c08EmitT(string([]byte{a, b, c, d}))
					}
				}
			}
		}
	}
	// every pool literal, alone and followed by each tail byte
	for _, pool := range [][]string{c08Ints, c08Floats, c08Keywords, c08Punct, c08Junk} {
		for _, s := range pool {
			c08EmitT(s)
			for _, tl := range c08TailAlpha {
				c08EmitT(s + string(tl))
			}
		}
	}
	for _, s := range c08StringBodies {
		c08EmitT(c08Quote(s))
		c08EmitT(c08Quote(s) + ",")
		c08EmitT(`"` + s)
		c08Emit("u", c08Quote(s))
		c08Emit("u", s)
		c08Emit("s", s)
	}
	// seeded near-valid tokens
	for i := 0; i < 4000*mul; i++ {
		var s string
		switch r.Intn(5) {
		case 0:
			s = c08Mutate(r, hx.Pick(r, c08Ints), c08NumAlpha)
		case 1:
			s = c08Mutate(r, hx.Pick(r, c08Floats), c08NumAlpha)
		case 2:
			s = c08Mutate(r, c08Quote(hx.Pick(r, c08StringBodies)+hx.Pick(r, c08StringBodies)), c08StrAlpha)
		case 3:
			s = c08Mutate(r, hx.Pick(r, c08Keywords), []byte("_aZ09 .(\xc3"))
		default:
			s = c08RandBytes(r, c08TokAlpha, 6)
		}
		if r.Intn(3) == 0 {
			s = c08Mutate(r, s, c08TokAlpha)
		}
		if r.Intn(2) == 0 {
			s += c08RandBytes(r, c08TailAlpha, 3)
		}
		c08EmitT(s)
	}
	// random digit strings around the 19-digit boundary
	for i := 0; i < 1500*mul; i++ {
		n := 17 + r.Intn(5)
		b := make([]byte, 0, 48)
		if r.Intn(3) == 0 {
			b = append(b, '-')
		}
		for z := r.Intn(4) * r.Intn(8); z > 0; z-- {
			b = append(b, '0')
		}
		if r.Intn(2) == 0 {
			// close to the limit: copy a prefix of 2^63 then random digits
			lim := "9223372036854775808"
			k := r.Intn(len(lim) + 1)
			b = append(b, lim[:k]...)
			for j := k; j < n && j < 19+r.Intn(2); j++ {
				b = append(b, byte('0'+r.Intn(10)))
			}
		} else {
			for j := 0; j < n; j++ {
				b = append(b, byte('0'+r.Intn(10)))
			}
		}
		c08EmitT(string(b))
		c08Emit("i", string(b))
	}
	// --- i / f / u on arbitrary short inputs
	for _, s := range c08Ints {
		c08Emit("i", s)
		c08Emit("i", "+"+s)
	}
	for _, s := range c08Floats {
		ok := true
		for _, c := range []byte(s) {
			if bytes.IndexByte(c08FltAlpha, c) < 0 {
				ok = false
			}
		}
		if ok {
			c08Emit("f", s)
		}
	}
	for i := 0; i < 2500*mul; i++ {
		c08Emit("i", c08RandBytes(r, []byte("0123456789+-a "), 4)+c08RandBytes(r, []byte("0123456789"), 22))
		var f string
		if r.Intn(2) == 0 {
			f = c08Mutate(r, hx.Pick(r, c08Floats), c08FltAlpha)
		} else {
			f = c08RandBytes(r, c08FltAlpha, 8)
		}
		ok := true
		for _, c := range []byte(f) {
			if bytes.IndexByte(c08FltAlpha, c) < 0 {
				ok = false
			}
		}
		if ok {
			c08Emit("f", f)
		}
		c08Emit("u", c08Mutate(r, c08Quote(hx.Pick(r, c08StringBodies)+hx.Pick(r, c08StringBodies)), c08StrAlpha))
		c08Emit("u", `"`+c08RandBytes(r, c08StrAlpha, 12)+`"`)
	}
	// floats near the overflow threshold with random digits
	for i := 0; i < 600*mul; i++ {
		th := "179769313486231580793728971405303415079934132710037826936173778980444968292764750946649017977587207096330286416692887910946555547851940402630657488671505820681908902000708383676273854845817711531764475730270069855571366959622842914819860834936475292719074168444365510704342711559699508093042880177904174497792"
		k := 14 + r.Intn(len(th)-14)
		d := []byte(th[:k])
		for j := r.Intn(4); j > 0; j-- {
			d = append(d, byte('0'+r.Intn(10)))
		}
		// place the decimal point somewhere and fix the exponent accordingly
		p := 1 + r.Intn(len(d)-1)
		e := 309 - p
		if r.Intn(4) == 0 {
			e += r.Intn(3) - 1
		}
		s := string(d[:p]) + "." + string(d[p:]) + "e" + strconv.Itoa(e)
		c08Emit("f", s)
		c08EmitT(s)
	}
	// --- s: src strings
	for i := 0; i < 300*mul; i++ {
		parts := []string{"", " ", "\t", "\n", "a", "code/x", "arg", "\u00a0", "\u3000", "\u2003", "\xc2", "\x85", "\xc2\x85", "\xff", "é", "\v\f\r", "\u1680", "\u180e", "\ufeff", "\u200b"}
		var sb strings.Builder
		for j := r.Intn(6); j >= 0; j-- {
			sb.WriteString(hx.Pick(r, parts))
		}
		c08Emit("s", sb.String())
	}
	// --- p: whole inputs
	c08GenPrograms(tier, r)
	// --- z: scaling
	big := 1
	if th {
		big = 4
	}
	for _, sh := range c08Shapes {
		fmt.Fprintf(hx.Out, "z %s %d %d\n", sh.name, sh.small, sh.small*8)
		if th {
			fmt.Fprintf(hx.Out, "z %s %d %d\n", sh.name, sh.small*big, sh.small*8*big)
		}
	}
	// --- c: include sets
	c08GenIncludes(tier, r)
}

// ------------------------------------------------------------------ program generator

type c08Prog struct {
	r *hx.Rng
	// probability (percent) that a literal slot takes a boundary pool value
	hot int
}

func (g *c08Prog) intLit() string {
	if g.r.Intn(100) < g.hot {
		return hx.Pick(g.r, c08Ints)
	}
	return strconv.Itoa(g.r.Intn(100))
}

func (g *c08Prog) floatLit() string {
	if g.r.Intn(100) < g.hot {
		return hx.Pick(g.r, c08Floats)
	}
	return fmt.Sprintf("%d.%d", g.r.Intn(10), g.r.Intn(100))
}

func (g *c08Prog) strLit(dflt string) string {
	if g.r.Intn(100) < g.hot {
		return c08Quote(hx.Pick(g.r, c08StringBodies))
	}
	return c08Quote(dflt)
}

func (g *c08Prog) id(dflt string) string {
	if g.r.Intn(100) < g.hot/2 {
		return hx.Pick(g.r, c08Keywords)
	}
	return dflt
}

func (g *c08Prog) value(depth int) string {
	r := g.r
	k := r.Intn(10)
	if depth <= 0 && k >= 6 {
		k = r.Intn(6)
	}
	switch k {
	case 0:
		return g.intLit()
	case 1:
		return g.floatLit()
	case 2:
		return g.strLit("v")
	case 3:
		return hx.Pick(r, []string{"true", "false", "null"})
	case 4:
		return hx.Pick(r, []string{"[]", "{}", "null", "0", `""`})
	case 5:
		return g.intLit()
	case 6, 7:
		n := r.Intn(4)
		var parts []string
		for i := 0; i < n; i++ {
			parts = append(parts, g.value(depth-1))
		}
		s := "[" + strings.Join(parts, ", ")
		if n > 0 && r.Intn(3) == 0 {
			s += ","
		}
		return s + "]"
	case 8:
		n := r.Intn(4)
		var parts []string
		for i := 0; i < n; i++ {
			parts = append(parts, g.strLit(fmt.Sprintf("k%d", i))+": "+g.value(depth-1))
		}
		return "{" + strings.Join(parts, ", ") + "}"
	default:
		n := 1 + r.Intn(3)
		var parts []string
		for i := 0; i < n; i++ {
			parts = append(parts, g.id(fmt.Sprintf("f%d", i))+": "+g.value(depth-1))
		}
		return "{" + strings.Join(parts, ", ") + "}"
	}
}

var c08Types = []string{"int", "float", "string", "bool", "path", "map", "file", "txt", "S", "int[]", "float[][]", "map<int>", "map<string[]>", "map<S>[]", "map<int[]>[]", "S[]", "txt[]"}

func (g *c08Prog) program() string {
	r := g.r
	var b strings.Builder
	if r.Intn(4) == 0 {
		fmt.Fprintf(&b, "@include %s\n", g.strLit("inc.mro"))
	}
	if r.Intn(3) == 0 {
		b.WriteString("# a comment\n#another\n\n")
	}
	b.WriteString("filetype txt;\n")
	if r.Intn(2) == 0 {
		fmt.Fprintf(&b, "filetype %s.%s;\n", g.id("tar"), g.id("gz"))
	}
	fmt.Fprintf(&b, "struct S(\n    int %s %s,\n    string b,\n    txt c %s %s,\n)\n", g.id("a"), g.strLit("help a"), g.strLit("help c"), g.strLit("c.txt"))
	nst := 1 + r.Intn(2)
	for s := 0; s < nst; s++ {
		fmt.Fprintf(&b, "stage %s(\n", g.id(fmt.Sprintf("ST%d", s)))
		fmt.Fprintf(&b, "    in  %s x %s,\n", hx.Pick(r, c08Types), g.strLit("input x"))
		fmt.Fprintf(&b, "    in  %s %s,\n", hx.Pick(r, c08Types), g.id("y"))
		fmt.Fprintf(&b, "    out %s f %s %s,\n", hx.Pick(r, c08Types), g.strLit("the file"), g.strLit("f.txt"))
		if r.Intn(2) == 0 {
			fmt.Fprintf(&b, "    out %s %s,\n", hx.Pick(r, c08Types), g.strLit("default out"))
		}
		fmt.Fprintf(&b, "    out float z,\n")
		fmt.Fprintf(&b, "    src %s %s,\n)", hx.Pick(r, []string{"py", "exec", "comp"}), g.strLit("code/stage arg"))
		if r.Intn(2) == 0 {
			fmt.Fprintf(&b, " split using (\n    in int chunk,\n    out int part,\n)")
		}
		if r.Intn(2) == 0 {
			b.WriteString(" using (\n")
			if r.Intn(2) == 0 {
				fmt.Fprintf(&b, "    mem_gb = %s,\n", g.num())
			}
			if r.Intn(2) == 0 {
				fmt.Fprintf(&b, "    threads = %s,\n", g.num())
			}
			if r.Intn(3) == 0 {
				fmt.Fprintf(&b, "    vmem_gb = %s,\n", g.num())
			}
			if r.Intn(3) == 0 {
				fmt.Fprintf(&b, "    special = %s,\n", g.strLit("highmem"))
			}
			if r.Intn(3) == 0 {
				fmt.Fprintf(&b, "    volatile = %s,\n", hx.Pick(r, []string{"strict", "false"}))
			}
			b.WriteString(")")
		}
		if r.Intn(3) == 0 {
			b.WriteString(" retain (\n    f,\n)")
		}
		b.WriteString("\n\n")
	}
	fmt.Fprintf(&b, "pipeline %s(\n    in  int x,\n    in  %s w,\n    out float z %s,\n)\n{\n", g.id("PIPE"), hx.Pick(r, c08Types), g.strLit("result"))
	ncall := 1 + r.Intn(3)
	for c := 0; c < ncall; c++ {
		mods := hx.Pick(r, []string{"", "", "local ", "volatile ", "preflight ", "local volatile "})
		name := fmt.Sprintf("ST%d", r.Intn(nst))
		mapc := r.Intn(5) == 0
		if mapc {
			b.WriteString("    map ")
		} else {
			b.WriteString("    ")
		}
		fmt.Fprintf(&b, "call %s%s", mods, name)
		if r.Intn(3) == 0 {
			fmt.Fprintf(&b, " as %s", g.id(fmt.Sprintf("ALIAS%d", c)))
		}
		b.WriteString("(\n")
		if mapc {
			fmt.Fprintf(&b, "        x = split %s,\n", hx.Pick(r, []string{"self.w", "[1, 2]", `{"a": 1}`, g.value(2), "NOSUCH", "NOSUCH.z", "self.nosuch", "ST0.z", "ST1.f", "ALIAS0.z"}))
		} else {
			fmt.Fprintf(&b, "        x = %s,\n", hx.Pick(r, []string{"self.x", "self.w", "ST0.z", "ST0.f.a", g.value(2), g.value(3)}))
		}
		fmt.Fprintf(&b, "        y = %s,\n", g.value(3))
		if r.Intn(6) == 0 {
			b.WriteString("        * = self,\n")
		}
		b.WriteString("    )")
		if r.Intn(3) == 0 {
			fmt.Fprintf(&b, " using (\n        %s = %s,\n    )", hx.Pick(r, []string{"local", "volatile", "preflight", "disabled"}),
				hx.Pick(r, []string{"true", "false", "self.x", "ST0.z"}))
		}
		b.WriteString("\n")
	}
	fmt.Fprintf(&b, "\n    return (\n        z = %s,\n    )\n", hx.Pick(r, []string{"ST0.z", "self.x", g.value(1)}))
	if r.Intn(3) == 0 {
		b.WriteString("\n    retain (\n        ST0.f,\n    )\n")
	}
	b.WriteString("}\n\n")
	if r.Intn(3) > 0 {
		fmt.Fprintf(&b, "call PIPE(\n    x = %s,\n    w = %s,\n)\n", g.intLit(), g.value(3))
	}
	return b.String()
}

func (g *c08Prog) num() string {
	if g.r.Intn(2) == 0 {
		return g.intLit()
	}
	return g.floatLit()
}

// statement-level mutation of a program text: the edits a person makes to a
// pipeline (delete a call, delete all calls, delete the return or retain
// block, delete a parameter, duplicate a call, delete a whole declaration),
// which leave a text that still parses far more often than token-level
// noise does and so reach the compiler's later phases.
var c08CallStmRe = regexp.MustCompile(`(?ms)^[ \t]*(?:map )?call [^\n]*\(\n.*?^[ \t]*\)(?:[ \t]*using[ \t]*\(\n.*?^[ \t]*\))?[ \t]*\n`)
var c08PipeBodyRe = regexp.MustCompile(`(?ms)^\{\n(.*?)(^[ \t]*return[ \t]*\()`)
var c08ReturnRe = regexp.MustCompile(`(?ms)^[ \t]*return[ \t]*\(\n.*?^[ \t]*\)[ \t]*\n`)
var c08RetainRe = regexp.MustCompile(`(?ms)^[ \t]*retain[ \t]*\(\n.*?^[ \t]*\)[ \t]*\n`)
var c08ParamRe = regexp.MustCompile(`(?m)^[ \t]*(?:in|out)[ \t]+[^\n]*,\n`)
var c08DeclRe = regexp.MustCompile(`(?ms)^(?:stage|pipeline|struct) [^\n]*\(\n.*?^\)[^\n]*\n(?:\{\n.*?^\}\n)?`)

// "in TYPE name," / "out TYPE name," / struct member "TYPE name," lines: group 1 = the base type name
var c08TypedMemberRe = regexp.MustCompile(`(?m)^\s+(?:in\s+|out\s+)?([A-Za-z_][A-Za-z0-9_]*)(?:<[^>]*>)?(?:\[\])*\s+[a-z_][A-Za-z0-9_]*,\s*$`)

const c08StructLiteralProgram = `filetype txt;

struct INNER(
    int    a,
    string b,
    txt    t,
)

struct OUTER(
    INNER      i,
    INNER[]    l,
    map<INNER> m,
    float      f,
)

stage MAKE(
    in  int   q,
    out INNER made,
    out float score,
    src comp  "make",
)

stage USE(
    in  OUTER   o,
    in  INNER[] xs,
    in  MAKE    whole,
    out int     r,
    src comp    "use",
)

pipeline P(
    in  int   q,
    out int   r,
    out INNER made,
)
{
    call MAKE(
        q = self.q,
    )

    call USE(
        o     = {
            f: 1.5,
            i: {
                a: 1,
                b: "x",
                t: null,
            },
            l: [
                {
                    a: 2,
                    b: "y",
                    t: null,
                },
            ],
            m: {
                "k": {
                    a: 3,
                    b: "z",
                    t: null,
                },
            },
        },
        xs    = [
            {
                a: self.q,
                b: "w",
                t: null,
            },
            MAKE.made,
        ],
        whole = {
            made:  MAKE.made,
            score: 2.5,
        },
    )

    return (
        r    = USE.r,
        made = MAKE.made,
    )
}

call P(
    q = 1,
)
`

func c08StructMutate(r *hx.Rng, src string) string {
	cut := func(re *regexp.Regexp) (string, bool) {
		locs := re.FindAllStringIndex(src, -1)
		if len(locs) == 0 {
			return src, false
		}
		l := locs[r.Intn(len(locs))]
		return src[:l[0]] + src[l[1]:], true
	}
	for try := 0; try < 6; try++ {
		switch r.Intn(9) {
		case 7, 8: // misspell the type of one parameter or struct member (an undeclared type name)
			locs := c08TypedMemberRe.FindAllStringSubmatchIndex(src, -1)
			if len(locs) > 0 {
				l := locs[r.Intn(len(locs))]
				return src[:l[2]] + "undeclared_t" + src[l[3]:]
			}
		case 0: // delete one call statement
			if m, ok := cut(c08CallStmRe); ok {
				return m
			}
		case 1: // delete every call statement of one pipeline
			locs := c08PipeBodyRe.FindAllStringSubmatchIndex(src, -1)
			if len(locs) > 0 {
				l := locs[r.Intn(len(locs))]
				return src[:l[2]] + src[l[3]:]
			}
		case 2: // delete a return block
			if m, ok := cut(c08ReturnRe); ok {
				return m
			}
		case 3: // delete a retain block
			if m, ok := cut(c08RetainRe); ok {
				return m
			}
		case 4: // delete a parameter
			if m, ok := cut(c08ParamRe); ok {
				return m
			}
		case 5: // duplicate a call statement
			locs := c08CallStmRe.FindAllStringIndex(src, -1)
			if len(locs) > 0 {
				l := locs[r.Intn(len(locs))]
				return src[:l[1]] + "\n" + src[l[0]:l[1]] + src[l[1]:]
			}
		default: // delete a whole declaration
			if m, ok := cut(c08DeclRe); ok {
				return m
			}
		}
	}
	return c08MutateProgram(r, src)
}

// token-level mutation of a program text
func c08MutateProgram(r *hx.Rng, src string) string {
	// recover token boundaries by re-scanning: find each token's text in order
	var spans [][2]int
	pos := 0
	b := []byte(src)
	for pos < len(b) {
		name, n := c08NextToken(b[pos:])
		if n == 0 {
			break
		}
		if name != "SKIP" {
			spans = append(spans, [2]int{pos, pos + n})
		}
		pos += n
	}
	if len(spans) == 0 {
		return src + hx.Pick(r, c08Junk)
	}
	i := r.Intn(len(spans))
	sp := spans[i]
	switch r.Intn(12) {
	case 0: // truncate at a token boundary
		return src[:sp[0]]
	case 1: // truncate inside a token
		return src[:sp[0]+r.Intn(sp[1]-sp[0]+1)]
	case 2: // delete a token
		return src[:sp[0]] + src[sp[1]:]
	case 3: // duplicate a token
		return src[:sp[1]] + " " + src[sp[0]:sp[1]] + src[sp[1]:]
	case 4: // swap with another token
		j := r.Intn(len(spans))
		if j == i {
			return src[:sp[0]]
		}
		a, c := spans[i], spans[j]
		if a[0] > c[0] {
			a, c = c, a
		}
		return src[:a[0]] + src[c[0]:c[1]] + src[a[1]:c[0]] + src[a[0]:a[1]] + src[c[1]:]
	case 5: // replace by a keyword
		return src[:sp[0]] + hx.Pick(r, c08Keywords) + src[sp[1]:]
	case 6: // replace by a number
		if r.Intn(2) == 0 {
			return src[:sp[0]] + hx.Pick(r, c08Ints) + src[sp[1]:]
		}
		return src[:sp[0]] + hx.Pick(r, c08Floats) + src[sp[1]:]
	case 7: // replace by a string
		return src[:sp[0]] + c08Quote(hx.Pick(r, c08StringBodies)) + src[sp[1]:]
	case 8: // replace by punctuation
		return src[:sp[0]] + hx.Pick(r, c08Punct) + src[sp[1]:]
	case 9: // insert junk
		return src[:sp[0]] + hx.Pick(r, c08Junk) + src[sp[0]:]
	case 10: // flip a byte
		bb := []byte(src)
		bb[sp[0]+r.Intn(sp[1]-sp[0])] = byte(r.Intn(256))
		return string(bb)
	default: // insert a token
		ins := hx.Pick(r, [][]string{c08Keywords, c08Punct, c08Ints, c08Floats})
		return src[:sp[0]] + hx.Pick(r, ins) + " " + src[sp[0]:]
	}
}

// string-position sweep: every string literal of the text replaced by each
// of a few critical bodies, one at a time
func c08StringSweep(src string, bodies []string, emit func(string)) {
	b := []byte(src)
	pos := 0
	for pos < len(b) {
		name, n := c08NextToken(b[pos:])
		if n == 0 {
			break
		}
		if name == "LITSTRING" {
			for _, body := range bodies {
				emit(src[:pos] + c08Quote(body) + src[pos+n:])
			}
		}
		pos += n
	}
}

// number-position sweep
func c08NumberSweep(src string, lits []string, emit func(string)) {
	b := []byte(src)
	pos := 0
	for pos < len(b) {
		name, n := c08NextToken(b[pos:])
		if n == 0 {
			break
		}
		if name == "NUM_INT" || name == "NUM_FLOAT" {
			for _, l := range lits {
				emit(src[:pos] + l + src[pos+n:])
			}
		}
		pos += n
	}
}

// truncation at every token boundary
func c08TruncSweep(src string, emit func(string)) {
	b := []byte(src)
	pos := 0
	for pos < len(b) {
		_, n := c08NextToken(b[pos:])
		if n == 0 {
			break
		}
		emit(src[:pos])
		pos += n
	}
}

const c08Skeleton = `@include "inc.mro"

filetype txt;

struct S(
    int a   "help a",
    txt c   "help c" "c.txt",
)

stage ST0(
    in  int   x     "input x",
    in  S     s,
    out txt   f     "the file"  "f.txt",
    out float       "default out",
    out int         "named default" "d.txt",
    src py    "code/stage arg",
) split using (
    in  int chunk,
) using (
    mem_gb   = 2,
    threads  = 1.5,
    vmem_gb  = 4,
    special  = "highmem",
    volatile = strict,
) retain (
    f,
)

pipeline PIPE(
    in  int   x,
    out float z "result",
)
{
    call ST0(
        x = self.x,
        s = {a: 1, c: "file.txt"},
    ) using (
        local = true,
    )

    map call ST0 as M(
        x = split [1, 2, 3],
        s = {"k": 2.5, "j": [null, true]},
    )

    return (
        z = ST0.default,
    )

    retain (
        ST0.f,
    )
}

call PIPE(
    x = 5,
)
`

func c08SeedFiles() []string {
	var res []string
	root := c08Repo()
	for _, pat := range []string{"martian/syntax/testdata/*.mro", "test/*/*.mro", "martian/core/testdata/*.mro"} {
		m, _ := filepath.Glob(filepath.Join(root, pat))
		sort.Strings(m)
		for _, f := range m {
			if b, err := os.ReadFile(f); err == nil && len(b) < 12000 {
				res = append(res, string(b))
			}
		}
	}
	return res
}

func c08GenPrograms(tier string, r *hx.Rng) {
	th := c08Thorough(tier)
	mul := 1
	if th {
		mul = 10
	}
	critStr := []string{``, ` `, "\t ", `\"`, `\\`, `\000`, `\xff`, `\ud800`, `\UFFFFFFFF`, "\xff", `a b`, "\u00a0", `\q`, `abc\`}
	critNum := []string{"9223372036854775807", "9223372036854775808", "-9223372036854775808", "-9223372036854775809", "1e999", "-1e999", "1e39", "1:e5", "3.4028236e38", "1e-999", "00000000000000000000009223372036854775808", "0.5", "-1", "-0.5"}
	emitM := func(s string) { c08EmitP("m", s) }
	emitV := func(s string) { c08EmitP("v", s) }
	// the skeleton: valid, then every string / number position, then every truncation
	emitM(c08Skeleton)
	c08StringSweep(c08Skeleton, critStr, emitM)
	c08NumberSweep(c08Skeleton, critNum, emitM)
	c08TruncSweep(c08Skeleton, emitM)
	// keywords as identifiers: every ID of the skeleton replaced by every keyword (one at a time, sampled)
	{
		b := []byte(c08Skeleton)
		pos := 0
		for pos < len(b) {
			name, n := c08NextToken(b[pos:])
			if n == 0 {
				break
			}
			if name == "ID" {
				for _, kw := range c08Keywords {
					if th || r.Intn(4) == 0 {
						emitM(c08Skeleton[:pos] + kw + c08Skeleton[pos+n:])
					}
				}
			}
			pos += n
		}
	}
	// value expressions: pools and sweeps
	for _, pool := range [][]string{c08Ints, c08Floats} {
		for _, s := range pool {
			emitV(s)
			emitV("[" + s + "]")
			emitV(`{"k": ` + s + `}`)
			emitV(`{k: ` + s + `,}`)
		}
	}
	for _, s := range c08StringBodies {
		emitV(c08Quote(s))
		emitV(`{` + c08Quote(s) + `: 1}`)
		emitV(`[` + c08Quote(s) + `, ` + c08Quote(s) + `]`)
	}
	for _, s := range []string{"", " ", "null", "true", "false", "[]", "{}", "[", "]", "{", "}", "[,]", "{,}", "[1,,2]", `{"a"}`, `{"a":}`, `{a}`, `{a:}`, `{"a":1,a:2}`, `{a:1,"a":2}`,
		`{"a":1,"a":2}`, "[[[[[[1]]]]]]", "[1 2]", "self.x", "A.b", "A", "x = 1", "call A()", "1 2", "1,", "# c", "# c\n1", "1 # c", "\xff", "nul", "truex", "-", "- 1", "1e5e5"} {
		emitV(s)
		emitM(s)
	}
	// declarations named like builtin types, keywords and other declarations
	for _, nm := range append([]string{"txt", "S", "ST0", "PIPE", "x", "_", "_a", "A.b"}, c08Keywords...) {
		emitM("filetype " + nm + ";\n")
		emitM("filetype txt;\nfiletype " + nm + ";\nfiletype " + nm + ";\n")
		emitM("struct " + nm + "(\n    int a,\n)\n")
		emitM("struct S(\n    int " + nm + ",\n    int " + nm + ",\n)\n")
		emitM("stage " + nm + "(\n    in  int x,\n    out int y,\n    src py \"x\",\n)\n")
		emitM("stage A(\n    in  int " + nm + ",\n    out int " + nm + ",\n    src py \"x\",\n)\n")
		emitM("stage A(\n    in  " + nm + " x,\n    out " + nm + "[] y,\n    src py \"x\",\n)\n")
		emitM("pipeline " + nm + "(\n    in  int x,\n    out int y,\n)\n{\n    return (\n        y = self.x,\n    )\n}\n")
		emitM("stage A(\n    in  int x,\n    out int y,\n    src py \"x\",\n)\npipeline P(\n    in  int x,\n    out int y,\n)\n{\n    call A as " + nm + "(\n        x = self.x,\n    )\n    return (\n        y = " + nm + ".y,\n    )\n}\n")
		emitM("call " + nm + "(\n    x = 1,\n)\n")
	}
	// map calls whose split source is wrong in some way, chained
	for _, srcExp := range []string{"NOSUCH", "NOSUCH.y", "self.nosuch", "self.a", "self.n", "A.nosuch", "null", "[]", "{}", "[1]", "{\"k\": 1}", "1", "\"s\"", "B.y", "A.y", "true", "[[1]]", "[self.a]", "{\"k\": self.a}"} {
		for _, second := range []string{"A.y", "A", "A.x", "self.a", "A.y.z"} {
			emitM("stage S(\n    in  int   x,\n    out int[] y,\n    src py    \"s\",\n)\n\npipeline P(\n    in  int[] a,\n    in  int   n,\n    out int   z,\n)\n{\n" +
				"    map call S as A(\n        x = split " + srcExp + ",\n    )\n\n    map call S as B(\n        x = split " + second + ",\n    )\n\n    return (\n        z = 1,\n    )\n}\n")
		}
	}
	g := &c08Prog{r: r, hot: 25}
	for i := 0; i < 500*mul; i++ {
		g.hot = []int{0, 10, 25, 60}[r.Intn(4)]
		s := g.program()
		emitM(s)
		for k := r.Intn(3); k > 0; k-- {
			m := s
			for j := 1 + r.Intn(3); j > 0; j-- {
				m = c08MutateProgram(r, m)
			}
			emitM(m)
		}
		emitM(c08StructMutate(r, s))
		v := g.value(5)
		emitV(v)
		emitV(c08MutateProgram(r, v))
	}
	// every single type name of a program that binds nested struct literals
	// inside a pipeline, misspelt one at a time (the later compile phases
	// must cope with a type table that has an unknown entry)
	emitM(c08StructLiteralProgram)
	for _, l := range c08TypedMemberRe.FindAllStringSubmatchIndex(c08StructLiteralProgram, -1) {
		emitM(c08StructLiteralProgram[:l[2]] + "undeclared_t" + c08StructLiteralProgram[l[3]:])
	}
	// a wildcard binding where there is nothing to take the values from
	for _, w := range []string{"* = self", "* = S", "x = 1,\n    * = self", "* = self.x"} {
		emitM("stage S(\n    in  int x,\n    out int y,\n    src comp \"x\",\n)\n\ncall S(\n    " + w + ",\n)\n")
		emitM("stage S(\n    in  int x,\n    out int y,\n    src comp \"x\",\n)\n\npipeline P(\n    in  int x,\n    out int y,\n)\n{\n    call S(\n        " + w + ",\n    )\n\n    return (\n        y = S.y,\n    )\n}\n\ncall P(\n    " + w + ",\n)\n")
	}
	// repository fixtures, mutated
	seeds := c08SeedFiles()
	for _, s := range seeds {
		emitM(s)
	}
	if len(seeds) > 0 {
		for i := 0; i < 700*mul; i++ {
			m := hx.Pick(r, seeds)
			if i%3 == 0 {
				m = c08StructMutate(r, m)
				if r.Intn(3) == 0 {
					m = c08StructMutate(r, m)
				}
				emitM(m)
				continue
			}
			for j := 1 + r.Intn(3); j > 0; j-- {
				m = c08MutateProgram(r, m)
			}
			emitM(m)
		}
		if th {
			for _, s := range seeds {
				c08StringSweep(s, critStr[:6], emitM)
				c08NumberSweep(s, critNum[:6], emitM)
				c08TruncSweep(s, emitM)
			}
		}
	}
	// raw byte soup over the token alphabet
	for i := 0; i < 400*mul; i++ {
		emitM(c08RandBytes(r, c08TokAlpha, 40))
		var sb strings.Builder
		for j := r.Intn(30); j > 0; j-- {
			switch r.Intn(6) {
			case 0:
				sb.WriteString(hx.Pick(r, c08Keywords))
			case 1:
				sb.WriteString(hx.Pick(r, c08Punct))
			case 2:
				sb.WriteString(hx.Pick(r, c08Ints))
			case 3:
				sb.WriteString(c08Quote(hx.Pick(r, c08StringBodies)))
			case 4:
				sb.WriteString(hx.Pick(r, c08Junk))
			default:
				sb.WriteString(hx.Pick(r, []string{"A", "x", "_y", "B.c"}))
			}
			sb.WriteString(hx.Pick(r, []string{" ", " ", "", "\n"}))
		}
		emitM(sb.String())
	}
}

// ------------------------------------------------------------------ scaling shapes

type c08Shape struct {
	name  string
	small int
	build func(n int) (src string, valexp bool)
}

// c08Family groups shapes that exercise the same cost centre, so that a
// failure class names the input family rather than one generator.
func c08Family(name string) string {
	switch name {
	case "deep_array_wrong_type", "deep_array_bound_to_array", "deep_map_bound_to_map", "deep_array_bound_to_string":
		return "deep_literal_binding"
	}
	return name
}

func c08Rep(s string, n int) string { return strings.Repeat(s, n) }

const c08StageM = "stage ST(\n    in  map m,\n    in  int[] a,\n    in  string s,\n    out int o,\n    src py \"x\",\n)\n"

var c08Shapes = []c08Shape{
	{"deep_array_valexp", 4000, func(n int) (string, bool) { return c08Rep("[", n) + "1" + c08Rep("]", n), true }},
	{"deep_map_valexp", 3000, func(n int) (string, bool) { return c08Rep(`{"a":`, n) + "1" + c08Rep("}", n), true }},
	{"deep_struct_valexp", 3000, func(n int) (string, bool) { return c08Rep(`{a:`, n) + "1" + c08Rep("}", n), true }},
	{"wide_array_valexp", 8000, func(n int) (string, bool) { return "[" + c08Rep("1,", n) + "1]", true }},
	{"wide_map_valexp", 3000, func(n int) (string, bool) {
		var b strings.Builder
		b.WriteString("{")
		for i := 0; i < n; i++ {
			fmt.Fprintf(&b, `"k%d":%d,`, i, i)
		}
		b.WriteString("}")
		return b.String(), true
	}},
	{"unclosed_brackets", 8000, func(n int) (string, bool) { return c08Rep("[", n), true }},
	{"long_string", 16000, func(n int) (string, bool) { return `"` + c08Rep("a", n) + `"`, true }},
	{"long_escapes", 4000, func(n int) (string, bool) { return `"` + c08Rep(`\n\x41é`, n) + `"`, true }},
	{"long_unterminated_string", 16000, func(n int) (string, bool) { return `"` + c08Rep("a", n), true }},
	{"leading_zeros_int", 16000, func(n int) (string, bool) { return c08Rep("0", n) + "7", true }},
	{"long_digits", 16000, func(n int) (string, bool) { return c08Rep("7", n), true }},
	{"long_float_mantissa", 16000, func(n int) (string, bool) { return "0." + c08Rep("3", n), true }},
	{"long_whitespace", 16000, func(n int) (string, bool) { return c08Rep(" \n", n) + "1", true }},
	{"deep_array_wrong_type", 4000, func(n int) (string, bool) {
		return c08StageM + "call ST(\n    m = " + c08Rep("[", n) + c08Rep("]", n) + ",\n    a = [],\n    s = \"\",\n)\n", false
	}},
	{"deep_array_bound_to_array", 4000, func(n int) (string, bool) {
		return c08StageM + "call ST(\n    m = {},\n    a = " + c08Rep("[", n) + c08Rep("]", n) + ",\n    s = \"\",\n)\n", false
	}},
	{"deep_map_bound_to_map", 1000, func(n int) (string, bool) {
		return c08StageM + "call ST(\n    m = " + c08Rep(`{"a":`, n) + "1" + c08Rep("}", n) + ",\n    a = [],\n    s = \"\",\n)\n", false
	}},
	{"deep_array_bound_to_string", 4000, func(n int) (string, bool) {
		return c08StageM + "call ST(\n    m = {},\n    a = [],\n    s = " + c08Rep("[", n) + c08Rep("]", n) + ",\n)\n", false
	}},
	{"wide_array_bound", 8000, func(n int) (string, bool) {
		return c08StageM + "call ST(\n    m = {},\n    a = [" + c08Rep("1,", n) + "],\n    s = \"\",\n)\n", false
	}},
	{"wide_array_wrong_elements", 4000, func(n int) (string, bool) {
		return c08StageM + "call ST(\n    m = {},\n    a = [" + c08Rep("\"x\",", n) + "],\n    s = \"\",\n)\n", false
	}},
	{"many_stages", 400, func(n int) (string, bool) {
		var b strings.Builder
		for i := 0; i < n; i++ {
			fmt.Fprintf(&b, "stage ST%d(\n    in  int x,\n    out int y,\n    src py \"x\",\n)\n", i)
		}
		return b.String(), false
	}},
	{"many_calls", 40, func(n int) (string, bool) {
		var b strings.Builder
		b.WriteString("stage ST(\n    in  int x,\n    out int y,\n    src py \"x\",\n)\npipeline P(\n    in  int x,\n    out int y,\n)\n{\n")
		for i := 0; i < n; i++ {
			prev := "self.x"
			if i > 0 {
				prev = fmt.Sprintf("C%d.y", i-1)
			}
			fmt.Fprintf(&b, "    call ST as C%d(\n        x = %s,\n    )\n", i, prev)
		}
		fmt.Fprintf(&b, "    return (\n        y = C%d.y,\n    )\n}\n", n-1)
		return b.String(), false
	}},
	{"many_params", 500, func(n int) (string, bool) {
		var b strings.Builder
		b.WriteString("stage ST(\n")
		for i := 0; i < n; i++ {
			fmt.Fprintf(&b, "    in  int x%d \"help\",\n", i)
		}
		b.WriteString("    out int y,\n    src py \"x\",\n)\n")
		return b.String(), false
	}},
	{"many_duplicate_params", 500, func(n int) (string, bool) {
		return "stage ST(\n" + c08Rep("    in  int x,\n", n) + "    out int y,\n    src py \"x\",\n)\n", false
	}},
	{"many_comments", 2000, func(n int) (string, bool) {
		return c08Rep("# comment line\n\n", n) + "filetype txt;\n" + c08Rep("# trailing\n", n), false
	}},
	{"long_comment", 16000, func(n int) (string, bool) { return "#" + c08Rep("c", n) + "\nfiletype txt;\n", false }},
	{"many_filetypes", 1000, func(n int) (string, bool) {
		var b strings.Builder
		for i := 0; i < n; i++ {
			fmt.Fprintf(&b, "filetype t%d;\n", i)
		}
		return b.String(), false
	}},
	{"many_struct_fields", 500, func(n int) (string, bool) {
		var b strings.Builder
		b.WriteString("struct S(\n")
		for i := 0; i < n; i++ {
			fmt.Fprintf(&b, "    int f%d,\n", i)
		}
		b.WriteString(")\n")
		return b.String(), false
	}},
	{"long_id_list", 8000, func(n int) (string, bool) { return "filetype a" + c08Rep(".b", n) + ";\n", false }},
	{"many_array_dims", 8000, func(n int) (string, bool) {
		return "stage ST(\n    in  int" + c08Rep("[]", n) + " x,\n    out int y,\n    src py \"x\",\n)\n", false
	}},
	{"invalid_utf8_run", 16000, func(n int) (string, bool) { return "filetype txt;\n" + c08Rep("\xff", n), false }},
}

func c08FindShape(name string) *c08Shape {
	for i := range c08Shapes {
		if c08Shapes[i].name == name {
			return &c08Shapes[i]
		}
	}
	return nil
}

// ------------------------------------------------------------------ include sets

func c08GenIncludes(tier string, r *hx.Rng) {
	emit := func(files ...string) {
		var sb strings.Builder
		fmt.Fprintf(&sb, "c %d", len(files)/2)
		for _, f := range files {
			sb.WriteString(" " + hx.H(f))
		}
		fmt.Fprintln(hx.Out, sb.String())
	}
	emit("a.mro", "@include \"a.mro\"\nfiletype txt;\n")
	emit("a.mro", "@include \"b.mro\"\nfiletype txt;\n", "b.mro", "@include \"a.mro\"\nfiletype bam;\n")
	emit("a.mro", "@include \"b.mro\"\nfiletype txt;\n", "b.mro", "@include \"c.mro\"\nfiletype bam;\n", "c.mro", "@include \"a.mro\"\nfiletype c;\n")
	emit("a.mro", "@include \"b.mro\"\nfiletype txt;\n", "b.mro", "@include \"c.mro\"\nfiletype bam;\n", "c.mro", "@include \"b.mro\"\nfiletype c;\n")
	emit("a.mro", "@include \"b.mro\"\n@include \"b.mro\"\nfiletype txt;\n", "b.mro", "filetype bam;\n")
	emit("a.mro", "@include \"b.mro\"\n@include \"c.mro\"\nfiletype txt;\n", "b.mro", "@include \"d.mro\"\nfiletype b;\n", "c.mro", "@include \"d.mro\"\nfiletype c;\n", "d.mro", "filetype d;\n")
	emit("a.mro", "@include \"missing.mro\"\nfiletype txt;\n")
	emit("a.mro", "@include \"\"\nfiletype txt;\n")
	emit("a.mro", "@include \".\"\nfiletype txt;\n")
	emit("a.mro", "@include \"..\"\nfiletype txt;\n")
	emit("a.mro", "@include \"/\"\nfiletype txt;\n")
	emit("a.mro", "@include \"b.mro\"\nfiletype txt;\n", "b.mro", "filetype txt;\n")
	emit("a.mro", "@include \"b.mro\"\nfiletype txt;\n", "b.mro", "stage (\n")
	emit("a.mro", "@include \"b.mro\"\nfiletype txt;\n", "b.mro", "5")
	emit("a.mro", "@include \"b.mro\"\nfiletype txt;\n", "b.mro", "")
	emit("a.mro", "@include \"b.mro\"\nfiletype txt;\n", "b.mro", "\xff\xfe")
	emit("a.mro", "@include \"b.mro\"\ncall P(x=1,)\n", "b.mro", "@include \"a.mro\"\ncall P(x=2,)\n")
	emit("a.mro", "@include \"./b.mro\"\n@include \"b.mro\"\nfiletype txt;\n", "b.mro", "filetype bam;\n")
	emit("a.mro", "@include \"a.mro\\000\"\nfiletype txt;\n")
	n := 40
	if c08Thorough(tier) {
		n = 600
	}
	names := []string{"a.mro", "b.mro", "c.mro", "d.mro", "e.mro"}
	for i := 0; i < n; i++ {
		k := 1 + r.Intn(len(names))
		var files []string
		for j := 0; j < k; j++ {
			var sb strings.Builder
			for m := r.Intn(4); m > 0; m-- {
				t := hx.Pick(r, names[:min(k+1, len(names))])
				if r.Intn(8) == 0 {
					t = hx.Pick(r, []string{"", ".", "sub/../" + t, "./" + t, "/nonexistent/" + t, t + "\\x00"})
				}
				fmt.Fprintf(&sb, "@include \"%s\"\n", t)
			}
			fmt.Fprintf(&sb, "filetype t%d;\n", j)
			if r.Intn(3) == 0 {
				fmt.Fprintf(&sb, "stage S%d(\n    in  t%d x,\n    out int y,\n    src py \"s\",\n)\n", r.Intn(3), r.Intn(k))
			}
			files = append(files, names[j], sb.String())
		}
		emit(files...)
	}
}

// ------------------------------------------------------------------ implementation observations

func c08TokObs(b []byte) string {
	name, n := c08NextToken(b)
	val := b[:n]
	switch name {
	case "NUM_INT":
		v, p := syntax.VerifParseInt(val)
		if p {
			return fmt.Sprintf("NUM_INT %d P", n)
		}
		return fmt.Sprintf("NUM_INT %d I %d", n, v)
	case "NUM_FLOAT":
		_, p := syntax.VerifParseFloat(val)
		if p {
			return fmt.Sprintf("NUM_FLOAT %d P", n)
		}
		return fmt.Sprintf("NUM_FLOAT %d F", n)
	case "LITSTRING":
		v, p := syntax.VerifUnquote(val)
		if p {
			return fmt.Sprintf("LITSTRING %d P", n)
		}
		return fmt.Sprintf("LITSTRING %d S %s", n, hx.H(string(v)))
	}
	return fmt.Sprintf("%s %d", name, n)
}

// c08SrcObs parses a one-stage file whose src string has the given
// (unquoted) content and reports what the src_stm action built.
func c08SrcObs(cmd string) string {
	var q strings.Builder
	q.WriteByte('"')
	for i := 0; i < len(cmd); i++ {
		if cmd[i] == '\\' || cmd[i] == '"' {
			q.WriteByte('\\')
		}
		q.WriteByte(cmd[i])
	}
	q.WriteByte('"')
	src := "stage A(\n    in  int x,\n    src py " + q.String() + ",\n)\n"
	res := c08Guard(2*time.Second, func() (bool, error) {
		var parser syntax.Parser
		ast, err := parser.UncheckedParse([]byte(src), "src.mro")
		if err != nil {
			return false, err
		}
		if len(ast.Stages) != 1 || ast.Stages[0].Src == nil {
			return false, fmt.Errorf("no stage")
		}
		s := ast.Stages[0].Src
		parts := []string{hx.H(s.Path)}
		for _, a := range s.Args {
			parts = append(parts, hx.H(a))
		}
		return true, fmt.Errorf("%s", strings.Join(parts, ","))
	})
	switch {
	case res.panicked:
		return "P"
	case res.timeout:
		return "T"
	case res.tree:
		return "ok " + res.msg
	default:
		return "E"
	}
}

// c08NextToken is nextToken under recover: the generators and the
// observation must survive a panicking implementation.
func c08NextToken(b []byte) (name string, n int) {
	defer func() {
		if recover() != nil {
			name, n = "PANIC", 0
		}
	}()
	return syntax.VerifNextToken(b)
}

func c08LexObs(src []byte) (obs string) {
	defer func() {
		if recover() != nil {
			obs = "PANIC"
		}
	}()
	toks, ncomments := syntax.VerifLex(src, 1<<20)
	var sb strings.Builder
	fmt.Fprintf(&sb, "%d", ncomments)
	for _, t := range toks {
		fmt.Fprintf(&sb, " %s:%d@%d:%d", t.Name, t.Len, t.Line, t.Col)
	}
	return sb.String()
}

func c08Impl(args []string) {
	hx.Lines(os.Stdin, func(f []string) {
		w := hx.Out
		switch f[0] {
		case "t":
			fmt.Fprintln(w, c08TokObs([]byte(hx.U(f[1]))))
		case "i":
			v, p := syntax.VerifParseInt([]byte(hx.U(f[1])))
			if p {
				fmt.Fprintln(w, "P")
			} else {
				fmt.Fprintln(w, "I", v)
			}
		case "f":
			_, p := syntax.VerifParseFloat([]byte(hx.U(f[1])))
			if p {
				fmt.Fprintln(w, "P")
			} else {
				fmt.Fprintln(w, "F")
			}
		case "u":
			v, p := syntax.VerifUnquote([]byte(hx.U(f[1])))
			if p {
				fmt.Fprintln(w, "P")
			} else {
				fmt.Fprintln(w, "S", hx.H(string(v)))
			}
		case "s":
			fmt.Fprintln(w, c08SrcObs(hx.U(f[1])))
		case "p":
			fmt.Fprintln(w, c08LexObs([]byte(hx.U(f[2]))))
		default:
			fmt.Fprintln(w, "-")
		}
	})
}

// ------------------------------------------------------------------ the property read on the implementation

type c08Result struct {
	tree     bool
	msg      string // error text, or the value passed through err when tree
	panicked bool
	site     string
	pmsg     string
	timeout  bool
	dur      time.Duration
	alloc    uint64
}

// c08Guard runs f under recover and a timeout.
func c08Guard(limit time.Duration, f func() (bool, error)) c08Result {
	ch := make(chan c08Result, 1)
	go func() {
		var res c08Result
		start := time.Now()
		defer func() {
			if e := recover(); e != nil {
				res.panicked = true
				res.pmsg = fmt.Sprint(e)
				res.site = c08PanicSite()
				res.dur = time.Since(start)
			}
			ch <- res
		}()
		tree, err := f()
		res.tree = tree
		if err != nil {
			res.msg = err.Error()
		}
		res.dur = time.Since(start)
	}()
	select {
	case r := <-ch:
		return r
	case <-time.After(limit):
		c08SawTimeout = true
		return c08Result{timeout: true, dur: limit}
	}
}

// c08PanicSite names the innermost function of package syntax on the
// panicking stack (called from the deferred recover).
func c08PanicSite() string {
	pcs := make([]uintptr, 64)
	n := runtime.Callers(3, pcs)
	frames := runtime.CallersFrames(pcs[:n])
	for {
		fr, more := frames.Next()
		if strings.Contains(fr.Function, "martian/syntax.") && !strings.Contains(fr.Function, "Verif") {
			name := fr.Function[strings.LastIndex(fr.Function, "martian/syntax.")+len("martian/syntax."):]
			name = strings.NewReplacer("(", "", ")", "", "*", "").Replace(name)
			return name
		}
		if !more {
			return "unknown"
		}
	}
}

var c08LocRe = regexp.MustCompile(`(?:\.mro|\bline|\[\]byte):? ?\d+`)

func c08Located(msg string) bool {
	return c08LocRe.MatchString(msg)
}

type c08Entry struct {
	name string
	run  func(src []byte, dir string) (bool, error)
}

var c08MroEntries = []c08Entry{
	{"UncheckedParse", func(src []byte, dir string) (bool, error) {
		var parser syntax.Parser
		ast, err := parser.UncheckedParse(src, filepath.Join(dir, "c08.mro"))
		return ast != nil && err == nil, err
	}},
	{"ParseSourceBytes", func(src []byte, dir string) (bool, error) {
		var parser syntax.Parser
		_, _, ast, err := parser.ParseSourceBytes(src, filepath.Join(dir, "c08.mro"), []string{dir}, false)
		return ast != nil && err == nil, err
	}},
	{"FormatSrcBytes", func(src []byte, dir string) (bool, error) {
		var parser syntax.Parser
		out, err := parser.FormatSrcBytes(src, filepath.Join(dir, "c08.mro"), false, []string{dir})
		return out != "" && err == nil, err
	}},
}

var c08ValEntry = c08Entry{"ParseValExp", func(src []byte, dir string) (bool, error) {
	var parser syntax.Parser
	v, err := parser.ParseValExp(src)
	return v != nil && err == nil, err
}}

// c08Check runs one entry point on one input and returns a failure line or "".
func c08Check(e c08Entry, src []byte, dir string, limit time.Duration) (string, c08Result) {
	res := c08Guard(limit, func() (bool, error) { return e.run(src, dir) })
	switch {
	case res.panicked:
		return fmt.Sprintf("FAIL panic_%s %s: %s", res.site, e.name, strings.ReplaceAll(res.pmsg, "\n", " ")), res
	case res.timeout:
		return fmt.Sprintf("FAIL timeout_%s no result after %v for %d bytes", e.name, limit, len(src)), res
	case res.tree:
		return "", res
	case res.msg == "":
		return fmt.Sprintf("FAIL neither_tree_nor_error_%s", e.name), res
	case !c08Located(res.msg):
		return fmt.Sprintf("FAIL unlocated_error_%s %s", e.name, hx.H(res.msg)), res
	}
	return "", res
}

// c08Oracle runs the cases in a child process, because a Go fatal error
// (stack overflow, out of memory) cannot be recovered: when the child dies,
// the case it was working on is the failing input, and a new child continues
// with the rest.
func c08Oracle(args []string) {
	if os.Getenv("C08_CHILD") == "1" {
		c08OracleChild(args)
		return
	}
	self, err := os.Executable()
	if err != nil {
		panic(err)
	}
	var lines []string
	sc := bufio.NewScanner(os.Stdin)
	sc.Buffer(make([]byte, 1<<20), 1<<28)
	for sc.Scan() {
		if sc.Text() != "" {
			lines = append(lines, sc.Text())
		}
	}
	done := 0
	for done < len(lines) {
		cmd := exec.Command(self, append([]string{"c08", "oracle"}, args...)...)
		cmd.Env = append(os.Environ(), "C08_CHILD=1")
		cmd.Stdin = strings.NewReader(strings.Join(lines[done:], "\n") + "\n")
		var stderr bytes.Buffer
		cmd.Stderr = &stderr
		out, runErr := cmd.Output()
		res := strings.Split(strings.TrimSuffix(string(out), "\n"), "\n")
		if len(out) == 0 {
			res = nil
		}
		if len(res) > len(lines)-done {
			res = res[:len(lines)-done]
		}
		for _, l := range res {
			fmt.Fprintln(hx.Out, l)
		}
		done += len(res)
		if done < len(lines) && runErr == nil {
			// the child left on purpose (after a timeout, so that the
			// abandoned goroutine does not disturb later measurements)
			continue
		}
		if done < len(lines) {
			// the child died on lines[done]
			msg, site := "process died", "unknown"
			for _, l := range strings.Split(stderr.String(), "\n") {
				if strings.HasPrefix(l, "fatal error:") || strings.HasPrefix(l, "panic:") {
					msg = l
				}
				if i := strings.Index(l, "martian/syntax."); i >= 0 && site == "unknown" && !strings.Contains(l, "Verif") {
					site = l[i+len("martian/syntax."):]
					if j := strings.LastIndex(site, "("); j > 0 {
						site = site[:j]
					}
					site = strings.NewReplacer("(", "", ")", "", "*", "").Replace(site)
				}
			}
			fmt.Fprintf(hx.Out, "FAIL process_crash_%s %s\n", site, msg)
			done++
		}
	}
}

func c08OracleChild(args []string) {
	scratch := os.TempDir()
	if len(args) > 0 {
		scratch = args[0]
	}
	dir := filepath.Join(scratch, "c08dir")
	if err := os.MkdirAll(dir, 0o755); err != nil {
		panic(err)
	}
	defer os.RemoveAll(dir)
	nset := 0
	hx.Lines(os.Stdin, func(f []string) {
		w := hx.Out
		switch f[0] {
		case "t":
			b := []byte(hx.U(f[1]))
			obs := c08TokObs(b)
			fs := strings.Fields(obs)
			n, _ := strconv.Atoi(fs[1])
			switch {
			case fs[0] == "PANIC":
				fmt.Fprintf(w, "FAIL panic_nextToken nextToken panics on %q\n", string(b))
			case strings.HasSuffix(obs, " P"):
				fmt.Fprintf(w, "FAIL token_converter_panics_%s the lexer produced a %s token %q that its converter cannot take\n", fs[0], fs[0], string(b[:n]))
			case n > len(b):
				fmt.Fprintf(w, "FAIL token_longer_than_input %s\n", obs)
			case n == 0 && fs[0] != "INVALID":
				fmt.Fprintf(w, "FAIL lexer_no_progress %s token of length 0\n", fs[0])
			default:
				fmt.Fprintln(w, "ok")
			}
		case "s":
			if obs := c08SrcObs(hx.U(f[1])); obs == "P" || obs == "T" {
				fmt.Fprintf(w, "FAIL src_action_%s src string %q\n", obs, hx.U(f[1]))
			} else {
				fmt.Fprintln(w, "ok")
			}
		case "p":
			src := []byte(hx.U(f[2]))
			var fails []string
			entries := c08MroEntries
			if f[1] == "v" {
				entries = []c08Entry{c08ValEntry, c08MroEntries[0]}
			} else if len(src) < 400 {
				entries = append([]c08Entry{c08ValEntry}, entries...)
			}
			for _, e := range entries {
				if fl, _ := c08Check(e, src, dir, 5*time.Second); fl != "" {
					fails = append(fails, fl)
				}
			}
			if len(fails) > 0 {
				fmt.Fprintln(w, fails[0])
			} else {
				fmt.Fprintln(w, "ok")
			}
		case "z":
			sh := c08FindShape(f[1])
			if sh == nil {
				fmt.Fprintln(w, "skip")
				return
			}
			n1, _ := strconv.Atoi(f[2])
			n2, _ := strconv.Atoi(f[3])
			fmt.Fprintln(w, c08Scaling(sh, n1, n2, dir))
		case "c":
			nset++
			fmt.Fprintln(w, c08IncludeSet(f, filepath.Join(scratch, fmt.Sprintf("c08inc%d", nset))))
		default:
			fmt.Fprintln(w, "skip")
		}
		w.Flush()
		if c08SawTimeout {
			os.Exit(0)
		}
	})
}

var c08SawTimeout bool

// c08Scaling: the cost of the larger input must stay in proportion to the
// smaller one (time and allocation), for every entry point.
func c08Scaling(sh *c08Shape, n1, n2 int, dir string) string {
	s1, val := sh.build(n1)
	s2, _ := sh.build(n2)
	entries := c08MroEntries
	if val {
		entries = []c08Entry{c08ValEntry}
	}
	ratio := float64(len(s2)) / float64(len(s1))
	for _, e := range entries {
		measure := func(src string) (string, time.Duration, uint64) {
			best := time.Duration(0)
			var alloc uint64
			for k := 0; k < 2; k++ {
				var m0, m1 runtime.MemStats
				runtime.GC()
				runtime.ReadMemStats(&m0)
				fl, res := c08Check(e, []byte(src), dir, 4*time.Second)
				runtime.ReadMemStats(&m1)
				if fl != "" {
					return fl, 0, 0
				}
				if k == 0 || res.dur < best {
					best = res.dur
				}
				alloc = m1.TotalAlloc - m0.TotalAlloc
				if res.dur > 400*time.Millisecond {
					break
				}
			}
			return "", best, alloc
		}
		fl, t1, a1 := measure(s1)
		if fl != "" {
			return strings.Replace(fl, "FAIL timeout_", "FAIL superlinear_"+c08Family(sh.name)+"_", 1)
		}
		fl, t2, a2 := measure(s2)
		if fl != "" {
			return strings.Replace(fl, "FAIL timeout_", "FAIL superlinear_"+c08Family(sh.name)+"_", 1)
		}
		if t1 < time.Millisecond {
			t1 = time.Millisecond
		}
		if t2 > 300*time.Millisecond && float64(t2) > 3*ratio*float64(t1) {
			return fmt.Sprintf("FAIL superlinear_%s_%s time: %d bytes: %v, %d bytes: %v", c08Family(sh.name), e.name, len(s1), t1, len(s2), t2)
		}
		if a1 < 1<<20 {
			a1 = 1 << 20
		}
		if a2 > 64<<20 && float64(a2) > 3*ratio*float64(a1) {
			return fmt.Sprintf("FAIL superlinear_%s_%s allocation: %d bytes: %d B allocated, %d bytes: %d B allocated", c08Family(sh.name), e.name, len(s1), a1, len(s2), a2)
		}
	}
	return "ok"
}

func c08IncludeSet(f []string, dir string) string {
	k, _ := strconv.Atoi(f[1])
	if err := os.MkdirAll(dir, 0o755); err != nil {
		panic(err)
	}
	defer os.RemoveAll(dir)
	main := ""
	for j := 0; j < k; j++ {
		name, content := hx.U(f[2+2*j]), hx.U(f[3+2*j])
		if j == 0 {
			main = name
		}
		if err := os.WriteFile(filepath.Join(dir, name), []byte(content), 0o644); err != nil {
			panic(err)
		}
	}
	e := c08Entry{"Compile", func(_ []byte, d string) (bool, error) {
		var parser syntax.Parser
		_, _, ast, err := parser.Compile(filepath.Join(d, main), []string{d}, false)
		return ast != nil && err == nil, err
	}}
	if fl, _ := c08Check(e, nil, dir, 5*time.Second); fl != "" {
		return fl
	}
	return "ok"
}
