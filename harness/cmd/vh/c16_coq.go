// vh c16 coq <dir>: reads cases, prints the body of a Coq file whose
// definition `cases : list c16_case` holds, per case, the model's inputs and
// the implementation's observation (K/InvocationEq.v check_case).
package main

import (
	"encoding/json"
	"fmt"
	"os"
	"strings"

	"verifharness/internal/astdump"
	"verifharness/internal/hx"

	"github.com/martian-lang/martian/martian/core"
	"github.com/martian-lang/martian/martian/syntax"
)

func init() {
	earlyHooks = append(earlyHooks, func() bool {
		if len(os.Args) > 2 && os.Args[1] == "c16" && os.Args[2] == "coq" {
			defer hx.Out.Flush()
			c16Coq(os.Args[3:])
			return true
		}
		return false
	})
}

func c16CoqBytesList(ss []string) string {
	out := make([]astdump.Sx, len(ss))
	for i, s := range ss {
		out[i] = astdump.B(s)
	}
	return astdump.L(out).Coq()
}

func c16CoqTab(field, kind string) string {
	var out []string
	if field != "-" {
		for _, ent := range strings.Split(field, ",") {
			p := strings.Split(ent, ":")
			if p[0] == kind {
				out = append(out, fmt.Sprintf("((%s, %s), (%s, %s))%%Z", p[1], p[2], p[3], p[4]))
			}
		}
	}
	return "[" + strings.Join(out, "; ") + "]"
}

func c16CoqInv(call, incl string, args hx.JV, split []string) string {
	var kv []string
	for _, e := range args.O {
		kv = append(kv, "("+astdump.B(e.Key).Coq()+", "+e.Val.Coq()+")")
	}
	return fmt.Sprintf("(mk_inv %s [%s] %s %s)", astdump.B(call).Coq(), strings.Join(kv, "; "),
		c16CoqBytesList(split), astdump.B(incl).Coq())
}

func c16Coq(args []string) {
	env := c16NewEnv(args)
	fmt.Fprintln(hx.Out, "Definition cases : list c16_case := [")
	first := true
	hx.Lines(os.Stdin, func(f []string) {
		if f[0] != "v" {
			return
		}
		comp := env.compiled(hx.U(f[3]), hx.U(f[4]))
		var inv core.InvocationData
		if err := json.Unmarshal([]byte(hx.U(f[5])), &inv); err != nil {
			return
		}
		callable := comp.ast.Callables.Table[inv.Call]
		lookup := &comp.ast.TypeTable
		structs := astdump.Ast(comp.ast).Args[1].Coq()
		if f[2] == "b" {
			lookup = syntax.NewTypeLookup()
			structs = "[]"
		}
		var known []string
		if f[7] != "-" {
			for _, k := range strings.Split(f[7], ",") {
				known = append(known, hx.U(k))
			}
		}
		var params []astdump.Sx
		for _, p := range callable.GetInParams().List {
			t := p.GetTname()
			params = append(params, astdump.P(astdump.B(p.GetId()),
				astdump.C("mk_tid", astdump.B(t.Tname), astdump.N(int64(t.ArrayDim)), astdump.N(int64(t.MapDim)))))
		}
		var argsRaw struct {
			Args json.RawMessage `json:"args"`
		}
		_ = json.Unmarshal([]byte(hx.U(f[5])), &argsRaw)
		argsJV, err := c16Decode(argsRaw.Args, nil)
		if err != nil {
			return
		}
		expected := "None"
		ast, err := core.BuildCallAst(inv.Call, inv.Args.ToMarshalerMap(), inv.SplitArgs, callable, lookup, []string{env.dir})
		if err == nil && ast != nil {
			var bs []astdump.Sx
			for _, b := range ast.Call.Bindings.List {
				bs = append(bs, astdump.P(astdump.B(b.Id), astdump.Exp(b.Exp)))
			}
			data, err := core.BuildDataForAst(ast)
			if err != nil {
				return
			}
			var o []hx.JKV
			for _, p := range c16ParamIds(callable) {
				v, _ := c16Decode(data.Args[p], nil)
				o = append(o, hx.JKV{Key: p, Val: v.Canon()})
			}
			expected = fmt.Sprintf("(Some (%s, %s))", astdump.L(bs).Coq(),
				c16CoqInv(data.Call, data.Include, hx.JObj(o), data.SplitArgs))
		}
		if !first {
			fmt.Fprintln(hx.Out, ";")
		}
		first = false
		fmt.Fprintf(hx.Out, "mk_c16 (mk_tenv %s %s) %s %s %s %s %s", structs, c16CoqBytesList(known),
			astdump.L(params).Coq(), c16CoqInv(inv.Call, inv.Include, argsJV, inv.SplitArgs),
			c16CoqTab(f[12], "P"), c16CoqTab(f[12], "F"), expected)
	})
	fmt.Fprintln(hx.Out, "].")
}
