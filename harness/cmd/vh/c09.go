package main

// C09 - formatting is idempotent and preserves the program.
//
// Case lines (gen):
//	q <hex s>                 quoteString(s)
//	i <decimal>               IntExp.format
//	g <int part> <mb>         formatGB(int part + mb/1024)
//	o <n> <deps0> ... <deps n-1>   topoSort of n calls, deps comma separated indices (n = unknown call)
//	k <layout> <tree>         comments inside a nested collection literal (c09_literals.go)
//	f <hex text>              a float / int literal text: parse, format, re-parse (oracle only)
//	r <t|m|v> <hex text>      a threads / mem_gb / vmem_gb literal in a stage (oracle only)
//	p <tag> <hex src>         a whole program
//	c <F|A> <hex src> <hex comments>   a program with comments (newline separated list of the comment texts)
//	n <tag> <hex json>        an include graph {"main": name, "files": {name: text}}
//	u <tag> <hex src>         a source text that need not compile (parser level)
//
// Observations (impl): q/i/g hex of the text written; o the order or err;
// p/c/n: "A <ast src> <ast format(src)> <ast format(format(src))>" (transport
// form of harness/internal/astdump), "R" when the compiler rejects the source,
// "F <why>" when the formatted text cannot be compiled; others "-".

import (
	"bytes"
	"encoding/json"
	"fmt"
	"io"
	"math"
	"os"
	"path/filepath"
	"regexp"
	"sort"
	"strconv"
	"strings"
	"unicode/utf8"

	"github.com/martian-lang/martian/martian/syntax"
	"verifharness/internal/astdump"
	"verifharness/internal/hx"
)

func init() {
	props["c09"] = &propCmd{gen: c09GenCases, impl: c09Impl, oracle: c09Oracle,
		extra: map[string]func([]string){"coq": c09Coq, "fmt": func([]string) {
			// debugging aid: format stdin, print the result
			src, _ := io.ReadAll(os.Stdin)
			f1, err := c09Format(src)
			fmt.Fprintln(hx.Out, f1, err)
		}}}
	if len(os.Args) > 1 && os.Args[1] == "c09" {
		// martian logs comparison diagnostics to os.Stdout; observations go
		// to hx.Out, which holds the real stdout
		if null, err := os.OpenFile(os.DevNull, os.O_WRONLY, 0); err == nil {
			os.Stdout = null
		}
	}
}

// ---------------------------------------------------------------- gen

func c09RandUtf8(r *hx.Rng, maxRunes int) string {
	n := r.Intn(maxRunes + 1)
	var b []byte
	special := []rune{'"', '\\', '\n', '\t', '\r', '\b', '\f', 0x2028, 0x2029, 0x7f, 0x1f, 0, 1, 0xfffd, 0x2027, 0x202a, ' ', '/', '<', '>', '&', 0xa0}
	for i := 0; i < n; i++ {
		switch r.Intn(7) {
		case 0, 1:
			b = utf8.AppendRune(b, special[r.Intn(len(special))])
		case 2:
			b = append(b, byte(r.Intn(128)))
		case 3:
			b = utf8.AppendRune(b, rune(0x80+r.Intn(0x780)))
		case 4:
			rr := rune(0x800 + r.Intn(0xF800))
			if rr >= 0xD800 && rr <= 0xDFFF {
				rr = 0x2028 + rune(r.Intn(2))
			}
			b = utf8.AppendRune(b, rr)
		case 5:
			b = utf8.AppendRune(b, rune(0x10000+r.Intn(0x100000)))
		default:
			b = append(b, byte('a'+r.Intn(26)))
		}
	}
	return string(b)
}

func c09GenCases(tier string, r *hx.Rng) {
	w := hx.Out
	thorough := tier == "thorough"
	scale := func(q, t int) int {
		if thorough {
			return t
		}
		return q
	}
	// ---- quoteString: all 1-byte strings, all 2-byte strings over a
	// significant alphabet, random UTF-8, random raw bytes
	fmt.Fprintf(w, "q -\n")
	for a := 0; a < 256; a++ {
		fmt.Fprintf(w, "q %02x\n", a)
	}
	sig := []byte{0, 1, 8, 9, 10, 12, 13, 0x1f, ' ', '"', '\\', 'a', 'u', '0', 0x7f, 0x80, 0xa8, 0xa9, 0xbf, 0xc2, 0xe2, 0xef, 0xf0, 0xff}
	for _, a := range sig {
		for _, b := range sig {
			fmt.Fprintf(w, "q %02x%02x\n", a, b)
			if thorough {
				for _, c := range sig {
					fmt.Fprintf(w, "q %02x%02x%02x\n", a, b, c)
				}
			}
		}
	}
	for _, s := range []string{"\u2028", "\u2029", "\u2027", "\u202a", "a\u2028b", "\u2028\u2029", "\xe2\x80", "\xe2\x80\xa8\xe2", "\ufffd", "\xed\xa0\x80", "\xf4\x90\x80\x80", "\xc0\x80"} {
		fmt.Fprintf(w, "q %s\n", hx.H(s))
	}
	for i := 0; i < scale(3000, 40000); i++ {
		fmt.Fprintf(w, "q %s\n", hx.H(c09RandUtf8(r, 12)))
	}
	for i := 0; i < scale(500, 5000); i++ {
		n := r.Intn(6)
		b := make([]byte, n)
		for j := range b {
			b[j] = byte(r.Intn(256))
		}
		fmt.Fprintf(w, "q %s\n", hx.H(string(b)))
	}
	// ---- integers
	for _, z := range []int64{0, 1, -1, 9, 10, -10, 99, 100, math.MaxInt64, math.MinInt64, math.MaxInt64 - 1, math.MinInt64 + 1, 1 << 53, -(1 << 53), 1<<31 - 1, -(1 << 31)} {
		fmt.Fprintf(w, "i %d\n", z)
	}
	for i := 0; i < scale(1500, 20000); i++ {
		z := int64(r.Next()) >> uint(r.Intn(64))
		fmt.Fprintf(w, "i %d\n", z)
	}
	// ---- formatGB: every fraction with a few integer parts (exhaustive over
	// the fractional domain), integer parts across the float32 binades
	ips := []int{0, 1, 2, 3, 7, 10, 100, 1023, 1024, 2047, 4095, 4096, 8191}
	if thorough {
		ips = append(ips, 5, 15, 16, 31, 63, 64, 127, 255, 256, 511, 512, 2048, 3000, 5000, 6000, 7000)
	}
	for _, ip := range ips {
		for mb := 0; mb < 1024; mb++ {
			fmt.Fprintf(w, "g %d %d\n", ip, mb)
		}
	}
	// large values: float32 has no room for 1/1024 any more
	for _, ip := range []int{8192, 8193, 10000, 16383, 16384, 20000, 32768, 65536, 100000, 1 << 20, 1 << 23, 1 << 24, 1 << 30, 1 << 40} {
		for k := 0; k < 64; k++ {
			fmt.Fprintf(w, "g %d %d\n", ip, (k*16+r.Intn(16))%1024)
		}
	}
	// ---- topoSort
	for n := 0; n <= 4; n++ {
		// every graph with at most one dependency per call (n+1 choices each)
		total := 1
		for i := 0; i < n; i++ {
			total *= n + 1
		}
		for code := 0; code < total; code++ {
			c := code
			fs := make([]string, n)
			for i := 0; i < n; i++ {
				d := c % (n + 1)
				c /= n + 1
				if d == n {
					fs[i] = "-"
				} else {
					fs[i] = strconv.Itoa(d)
				}
			}
			fmt.Fprintf(w, "o %d %s\n", n, strings.Join(fs, " "))
		}
	}
	for i := 0; i < scale(1500, 20000); i++ {
		n := 1 + r.Intn(9)
		// mostly acyclic: dependencies point to a random permutation's earlier items
		perm := make([]int, n)
		for j := range perm {
			perm[j] = j
		}
		for j := n - 1; j > 0; j-- {
			k := r.Intn(j + 1)
			perm[j], perm[k] = perm[k], perm[j]
		}
		rank := make([]int, n)
		for j, p := range perm {
			rank[p] = j
		}
		cyclic := r.Intn(6) == 0
		fs := make([]string, n)
		for a := 0; a < n; a++ {
			var ds []string
			for b := 0; b < n; b++ {
				if a != b && (rank[b] < rank[a] || cyclic) && r.Intn(3) == 0 {
					ds = append(ds, strconv.Itoa(b))
				}
			}
			if r.Intn(25) == 0 {
				ds = append(ds, "n")
			}
			if cyclic && r.Intn(10) == 0 {
				ds = append(ds, strconv.Itoa(a))
			}
			if len(ds) == 0 {
				fs[a] = "-"
			} else {
				fs[a] = strings.Join(ds, ",")
			}
		}
		fmt.Fprintf(w, "o %d %s\n", n, strings.Join(fs, " "))
	}
	// ---- number literals
	for _, f := range c09Floats {
		fmt.Fprintf(w, "f %s\n", hx.H(f))
		fmt.Fprintf(w, "f %s\n", hx.H("-"+f))
	}
	for _, f := range c09Ints {
		fmt.Fprintf(w, "f %s\n", hx.H(f))
	}
	g0 := &c09Gen{r: r}
	for i := 0; i < scale(3000, 40000); i++ {
		fmt.Fprintf(w, "f %s\n", hx.H(g0.floatLit()))
	}
	for e := -330; e <= 310; e += scale(7, 1) {
		fmt.Fprintf(w, "f %s\n", hx.H(fmt.Sprintf("%de%d", 1+r.Intn(9), e)))
		fmt.Fprintf(w, "f %s\n", hx.H(fmt.Sprintf("%d.%dE%+d", r.Intn(10), r.Intn(1000), e)))
	}
	// ---- resource literals
	for _, m := range append(append([]string{}, c09Mems...), c09MemsExotic...) {
		fmt.Fprintf(w, "r m %s\n", hx.H(m))
		fmt.Fprintf(w, "r v %s\n", hx.H(m))
	}
	for _, t := range append(append([]string{}, c09Threads...), c09ThreadsExotic...) {
		fmt.Fprintf(w, "r t %s\n", hx.H(t))
	}
	for i := 0; i < scale(400, 6000); i++ {
		v := float64(r.Intn(40000)) / []float64{1, 2, 4, 10, 100, 1000, 1024}[r.Intn(7)]
		k := "tmv"[r.Intn(3)]
		if k == 't' {
			v = float64(r.Intn(6400)) / []float64{1, 2, 4, 10, 100, 1000}[r.Intn(6)]
		}
		fmt.Fprintf(w, "r %c %s\n", k, hx.H(strconv.FormatFloat(v, 'f', -1, 64)))
	}
	// ---- whole programs
	for i := 0; i < scale(260, 3000); i++ {
		g := &c09Gen{r: r}
		g.program(r.Intn(4) != 0)
		style := r.Intn(2)
		fmt.Fprintf(w, "p std%d %s\n", style, hx.H(c09Render(r, g.toks, style, nil)))
	}
	for i := 0; i < scale(40, 400); i++ {
		g := &c09Gen{r: r, exotic: true}
		g.program(r.Intn(4) != 0)
		fmt.Fprintf(w, "p exotic %s\n", hx.H(c09Render(r, g.toks, 1, nil)))
	}
	// ---- programs with comments
	for i := 0; i < scale(300, 4000); i++ {
		g := &c09Gen{r: r}
		class := "F"
		if i%3 == 2 {
			class = "A"
		}
		if i%10 == 9 {
			// calls with an empty using () block: comments on its line are
			// the recorded finding
			class = "E"
			g.emptyUsing = true
		}
		if i%10 == 4 || i%10 == 7 {
			// nested collection literals, comments before elements of every level
			class = "L"
			g.literalProgram()
		} else {
			g.program(r.Intn(4) != 0)
		}
		var slots []int
		for k, t := range g.toks {
			if (class != "F" && class != "L") || t.elem {
				slots = append(slots, k)
			}
		}
		if class != "F" && class != "L" {
			slots = append(slots, len(g.toks)) // after the last token
		}
		comments := map[int][]string{}
		var texts []string
		nc := 1 + r.Intn(8)
		if r.Intn(5) == 0 || (class == "L" && r.Intn(3) == 0) {
			nc = len(slots) // a comment at every boundary
		}
		for k := 0; k < nc && len(slots) > 0; k++ {
			at := slots[r.Intn(len(slots))]
			if nc == len(slots) {
				at = slots[k]
			}
			m := 1
			if r.Intn(4) == 0 {
				m = 2 + r.Intn(2)
			}
			for j := 0; j < m; j++ {
				txt := fmt.Sprintf("# c%d_%d %s", len(texts), i, hx.Pick(r, []string{"", "note", "x = 1,", "\"quoted\"", "call FOO(", "é", "#", "@include \"x\""}))
				txt = strings.TrimSpace(txt)
				if r.Intn(6) == 0 {
					txt = "#" + txt[1:] // no space variant is the same text; keep
				}
				comments[at] = append(comments[at], txt)
				texts = append(texts, txt)
			}
		}
		style := r.Intn(2)
		if class != "F" && class != "L" && len(comments[len(g.toks)]) > 0 {
			// trailing comments: rendered after the last token
			src := c09Render(r, g.toks, style, comments)
			for _, c := range comments[len(g.toks)] {
				src += c + "\n"
			}
			fmt.Fprintf(w, "c %s %s %s\n", class, hx.H(src), hx.H(strings.Join(texts, "\n")))
			continue
		}
		fmt.Fprintf(w, "c %s %s %s\n", class, hx.H(c09Render(r, g.toks, style, comments)), hx.H(strings.Join(texts, "\n")))
	}
	// ---- nested literals with comments (class L), a batch of small programs
	for i := 0; i < scale(300, 3000); i++ {
		g := &c09Gen{r: r}
		g.literalProgram()
		var slots []int
		for k, t := range g.toks {
			if t.elem {
				slots = append(slots, k)
			}
		}
		comments := map[int][]string{}
		var texts []string
		nc := 1 + r.Intn(4)
		all := r.Intn(3) == 0
		if all {
			nc = len(slots)
		}
		for k := 0; k < nc && len(slots) > 0; k++ {
			at := slots[r.Intn(len(slots))]
			if all {
				at = slots[k]
			}
			txt := fmt.Sprintf("# l%d_%d", len(texts), i)
			comments[at] = append(comments[at], txt)
			texts = append(texts, txt)
		}
		fmt.Fprintf(w, "c L %s %s\n", hx.H(c09Render(r, g.toks, r.Intn(2), comments)), hx.H(strings.Join(texts, "\n")))
	}
	// ---- comment placement inside literals, for the model K/ExpComments
	c09GenLiteralTrees(tier, r)
	// ---- include graphs
	for i := 0; i < scale(40, 500); i++ {
		fmt.Fprintf(w, "n inc %s\n", hx.H(c09IncludeGraph(r, i)))
		if i < len(c09WildcardIncludes) {
			fmt.Fprintf(w, "n inc_wildcard %s\n", hx.H(c09WildcardIncludes[i]))
		}
	}
	// ---- parser-level texts: stage src / include strings with characters
	// that need quoting, mutated programs
	for _, s := range []string{`a\"b c`, `a\\b`, `a\\\\b`, `x y  z`, ` lead`, `tab\tsep`, `a\x41b`, `aé`, `é`, `a#b`, `a\nb`, `\"`, `a'b`} {
		src := "stage S(\n    in  int x,\n    out int y,\n    src py \"" + s + "\",\n)\n"
		fmt.Fprintf(w, "u src %s\n", hx.H(src))
		src = "stage S(\n    in  int x,\n    out int y,\n    src comp \"" + s + " arg\",\n)\n"
		fmt.Fprintf(w, "u src %s\n", hx.H(src))
		inc := "@include \"" + s + "\"\n\nstage S(\n    in  int x,\n    src py \"s\",\n)\n"
		fmt.Fprintf(w, "u include %s\n", hx.H(inc))
	}
	for i := 0; i < scale(150, 2000); i++ {
		g := &c09Gen{r: r}
		g.program(r.Bool())
		// token-level mutation: drop, duplicate or swap a token
		t := append([]c09Tok{}, g.toks...)
		for k := 0; k < 1+r.Intn(2) && len(t) > 2; k++ {
			j := r.Intn(len(t) - 1)
			switch r.Intn(3) {
			case 0:
				t = append(t[:j], t[j+1:]...)
			case 1:
				t = append(t[:j+1], t[j:]...)
			default:
				t[j], t[j+1] = t[j+1], t[j]
			}
		}
		fmt.Fprintf(w, "u mut %s\n", hx.H(c09Render(r, t, r.Intn(2), nil)))
	}
}

// Multi-file programs whose calls use wildcard bindings ('* = self', an
// explicit binding plus the wildcard, '* = CALL'): the compiler expands the
// wildcard in the Ast it keeps, and the include-expanded source is printed
// from that Ast.
var c09WildcardIncludes = func() []string {
	lib := "stage ADD(\n    in  int a,\n    in  int b,\n    out int sum,\n    src comp \"add\",\n)\n\nstage UNADD(\n    in  int sum,\n    out int a,\n    out int b,\n    src comp \"unadd\",\n)\n"
	mk := func(ins, args, body string) string {
		main := "@include \"lib/stages.mro\"\n\npipeline P(\n" + ins + "    out int r,\n)\n{\n" + body +
			"\n    return (\n        r = ADD.sum,\n    )\n}\n\ncall P(\n" + args + ")\n"
		b, _ := json.Marshal(c09Inc{Main: "main.mro", Files: map[string]string{"main.mro": main, "lib/stages.mro": lib}})
		return string(b)
	}
	ab, abArgs := "    in  int a,\n    in  int b,\n", "    a = 1,\n    b = 2,\n"
	sm, smArgs := "    in  int sum,\n", "    sum = 3,\n"
	return []string{
		mk(ab, abArgs, "    call ADD(\n        * = self,\n    )\n"),
		mk("    in  int b,\n", "    b = 2,\n", "    call ADD(\n        a = 7,\n        * = self,\n    )\n"),
		mk(sm, smArgs, "    call UNADD(\n        * = self,\n    )\n\n    call ADD(\n        * = UNADD,\n    )\n"),
		mk("    in  int sum,\n    in  int b,\n", "    sum = 3,\n    b   = 2,\n", "    call UNADD(\n        sum = self.sum,\n    )\n\n    call ADD(\n        # the rest from UNADD\n        b = self.b,\n        * = UNADD,\n    )\n"),
	}
}()

// c09IncludeGraph builds a multi-file program: types in one file, stages in
// two others (one in a nested directory), both including the types (a
// diamond), the pipeline and call in main.
func c09IncludeGraph(r *hx.Rng, idx int) string {
	g := &c09Gen{r: r}
	g.program(true)
	// split the token list at declaration boundaries
	var decls [][]c09Tok
	for _, t := range g.toks {
		if t.elem && (t.s == "filetype" || t.s == "struct" || t.s == "stage" || t.s == "pipeline" || (t.s == "call" && len(decls) > 0 && false)) {
			decls = append(decls, nil)
		}
		if len(decls) == 0 {
			decls = append(decls, nil)
		}
		decls[len(decls)-1] = append(decls[len(decls)-1], t)
	}
	// the top-level call is part of the last pipeline chunk: split it off
	last := decls[len(decls)-1]
	depth := 0
	cut := -1
	for i, t := range last {
		switch t.s {
		case "{":
			depth++
		case "}":
			depth--
			if depth == 0 {
				cut = i + 1
			}
		}
	}
	var callToks []c09Tok
	if cut > 0 && cut < len(last) {
		callToks = last[cut:]
		decls[len(decls)-1] = last[:cut]
	}
	files := map[string]string{}
	var types, stA, stB, pipes []c09Tok
	ns := 0
	for _, d := range decls {
		switch d[0].s {
		case "filetype", "struct":
			types = append(types, d...)
		case "stage":
			if ns%2 == 0 {
				stA = append(stA, d...)
			} else {
				stB = append(stB, d...)
			}
			ns++
		default:
			pipes = append(pipes, d...)
		}
	}
	cm := func(name string) map[int][]string {
		return map[int][]string{0: {"# file " + name}}
	}
	nested := r.Bool()
	tname, aname, bname := "types.mro", "stages_a.mro", "sub/stages_b.mro"
	if nested {
		tname = "lib/types.mro"
	}
	body := func(inc []string, toks []c09Tok, name string) string {
		var b strings.Builder
		for _, i := range inc {
			b.WriteString("@include \"" + i + "\"\n")
		}
		if len(inc) > 0 {
			b.WriteString("\n")
		}
		if len(toks) > 0 {
			b.WriteString(c09Render(r, toks, 1, cm(name)))
		} else {
			b.WriteString("# empty " + name + "\n")
		}
		return b.String()
	}
	haveTypes := len(types) > 0
	var incT []string
	if haveTypes {
		files[tname] = body(nil, types, tname)
		incT = []string{tname}
	}
	files[aname] = body(incT, stA, aname)
	mainInc := []string{aname}
	if len(stB) > 0 {
		files[bname] = body(incT, stB, bname)
		mainInc = append(mainInc, bname)
	}
	if haveTypes && r.Bool() {
		mainInc = append(mainInc, tname)
	}
	files["main.mro"] = body(mainInc, append(pipes, callToks...), "main.mro")
	js, _ := json.Marshal(map[string]interface{}{"main": "main.mro", "files": files})
	return string(js)
}

// ---------------------------------------------------------------- implementation runs

type c09Run struct {
	accepted        bool   // the compiler accepts the source
	parsed          bool   // the parser accepts the source
	f1, f2          string // format(src), format(format(src))
	err1, err2      error  // FormatSrcBytes errors
	cerr1, cerr2    error  // compile errors of f1 / f2
	a0, a1, a2      *syntax.Ast
	equiv01, equiv10 bool
}

var c09Dir string
var c09Seq int

func c09Scratch() string {
	if c09Dir == "" {
		d, err := os.MkdirTemp("", "c09_")
		if err != nil {
			panic(err)
		}
		c09Dir = d
	}
	return c09Dir
}

func c09Compile(src []byte) (*syntax.Ast, error) {
	d := c09Scratch()
	path := filepath.Join(d, "prog.mro")
	_, _, ast, err := syntax.ParseSourceBytes(src, path, []string{d}, false)
	if err != nil {
		return nil, err
	}
	return ast, nil
}

func c09Format(src []byte) (string, error) {
	var parser syntax.Parser
	return parser.FormatSrcBytes(src, filepath.Join(c09Scratch(), "prog.mro"), false, nil)
}

func c09RunProgram(src []byte) (run c09Run) {
	run.a0, _ = c09Compile(src)
	run.accepted = run.a0 != nil
	run.f1, run.err1 = c09Format(src)
	run.parsed = run.err1 == nil
	if run.err1 != nil {
		return
	}
	run.f2, run.err2 = c09Format([]byte(run.f1))
	if run.accepted {
		run.a1, run.cerr1 = c09Compile([]byte(run.f1))
		if run.err2 == nil {
			run.a2, run.cerr2 = c09Compile([]byte(run.f2))
		}
		if run.a1 != nil && run.a0.Call != nil && run.a1.Call != nil {
			run.equiv01 = run.a1.EquivalentCall(run.a0)
			run.equiv10 = run.a0.EquivalentCall(run.a1)
		} else {
			run.equiv01, run.equiv10 = true, true
		}
	}
	return
}

func c09Dump(a *syntax.Ast) (s string) {
	defer func() {
		if e := recover(); e != nil {
			s = "PANIC"
		}
	}()
	return astdump.Ast(a).Transport()
}

func c09ObserveProgram(src []byte) string {
	run := c09RunProgram(src)
	if !run.accepted {
		return "R"
	}
	if run.err1 != nil {
		return "F format-error"
	}
	if run.a1 == nil {
		return "F formatted-rejected"
	}
	if run.a2 == nil {
		return "F reformatted-rejected"
	}
	return "A " + c09Dump(run.a0) + " " + c09Dump(run.a1) + " " + c09Dump(run.a2)
}

type c09Inc struct {
	Main  string            `json:"main"`
	Files map[string]string `json:"files"`
}

// c09RunIncludes writes the files, compiles main, and compiles the recorded
// include-expanded source on its own in an empty directory.
func c09RunIncludes(js string) (a0, a1 *syntax.Ast, mro string, err0, err1 error) {
	var inc c09Inc
	if err := json.Unmarshal([]byte(js), &inc); err != nil {
		panic(err)
	}
	c09Seq++
	d := filepath.Join(c09Scratch(), fmt.Sprintf("inc%d", c09Seq))
	for name, text := range inc.Files {
		p := filepath.Join(d, name)
		os.MkdirAll(filepath.Dir(p), 0o755)
		os.WriteFile(p, []byte(text), 0o644)
	}
	defer os.RemoveAll(d)
	mro, _, a0, err0 = syntax.Compile(filepath.Join(d, inc.Main), []string{d}, false)
	if err0 != nil {
		return nil, nil, "", err0, nil
	}
	d2 := filepath.Join(d, "alone")
	os.MkdirAll(d2, 0o755)
	_, _, a1, err1 = syntax.ParseSourceBytes([]byte(mro), filepath.Join(d2, "_mrosource"), []string{d2}, false)
	if err1 != nil {
		a1 = nil
	}
	return
}

// c09Topo runs the real topoSort on a pipeline built from the case.
func c09Topo(fields []string) string {
	n, _ := strconv.Atoi(fields[1])
	p := &syntax.Pipeline{Id: "P"}
	for i := 0; i < n; i++ {
		c := &syntax.CallStm{Id: "C" + strconv.Itoa(i), DecId: "S", Modifiers: &syntax.Modifiers{}, Bindings: &syntax.BindStms{}}
		if fields[2+i] != "-" {
			for j, d := range strings.Split(fields[2+i], ",") {
				id := "UNKNOWN"
				if d != "n" {
					id = "C" + d
				}
				var e syntax.Exp = &syntax.RefExp{Kind: syntax.KindCall, Id: id, OutputId: "o"}
				if j%2 == 1 {
					e = &syntax.ArrayExp{Value: []syntax.Exp{e}}
				}
				b := &syntax.BindStm{Id: "x" + strconv.Itoa(j), Exp: e}
				if j%3 == 2 {
					if c.Modifiers.Bindings == nil {
						c.Modifiers.Bindings = &syntax.BindStms{}
					}
					c.Modifiers.Bindings.List = append(c.Modifiers.Bindings.List, &syntax.BindStm{Id: "disabled", Exp: e})
				} else {
					c.Bindings.List = append(c.Bindings.List, b)
				}
			}
		}
		p.Calls = append(p.Calls, c)
	}
	if err := syntax.VerifC09TopoSort(p); err != nil {
		return "err"
	}
	out := make([]string, len(p.Calls))
	for i, c := range p.Calls {
		out[i] = c.Id[1:]
	}
	if len(out) == 0 {
		return "-"
	}
	return strings.Join(out, ",")
}

func c09GB(fields []string) float32 {
	ip, _ := strconv.ParseFloat(fields[1], 64)
	mb, _ := strconv.ParseFloat(fields[2], 64)
	return float32(ip + mb/1024)
}

func c09Impl(args []string) {
	defer func() {
		if c09Dir != "" {
			os.RemoveAll(c09Dir)
		}
	}()
	hx.Lines(os.Stdin, func(f []string) {
		w := hx.Out
		switch f[0] {
		case "q":
			fmt.Fprintln(w, hx.H(syntax.VerifC09QuoteString(hx.U(f[1]))))
		case "i":
			z, _ := strconv.ParseInt(f[1], 10, 64)
			fmt.Fprintln(w, hx.H(syntax.FormatExp(&syntax.IntExp{Value: z}, "")))
		case "g":
			fmt.Fprintln(w, hx.H(syntax.VerifC09FormatGB(c09GB(f))))
		case "o":
			fmt.Fprintln(w, c09Topo(f))
		case "k":
			obs, _, _ := c09LiteralObserve(f)
			fmt.Fprintln(w, obs)
		case "p", "u":
			if f[0] == "u" {
				fmt.Fprintln(w, "-")
			} else {
				fmt.Fprintln(w, c09ObserveProgram([]byte(hx.U(f[2]))))
			}
		case "c":
			fmt.Fprintln(w, c09ObserveProgram([]byte(hx.U(f[2]))))
		case "n":
			a0, a1, _, err0, _ := c09RunIncludes(hx.U(f[2]))
			switch {
			case err0 != nil:
				fmt.Fprintln(w, "R")
			case a1 == nil:
				fmt.Fprintln(w, "F expanded-rejected")
			default:
				d := c09Dump(a1)
				fmt.Fprintln(w, "A "+c09Dump(a0)+" "+d+" "+d)
			}
		default:
			fmt.Fprintln(w, "-")
		}
	})
}

// ---------------------------------------------------------------- oracle

func c09ValEq(a, b syntax.Exp) bool {
	switch x := a.(type) {
	case *syntax.FloatExp:
		switch y := b.(type) {
		case *syntax.FloatExp:
			return x.Value == y.Value
		case *syntax.IntExp:
			return x.Value == float64(y.Value) && float64(int64(x.Value)) == x.Value && int64(x.Value) == y.Value
		}
	case *syntax.IntExp:
		switch y := b.(type) {
		case *syntax.IntExp:
			return x.Value == y.Value
		case *syntax.FloatExp:
			return c09ValEq(b, a)
		}
	}
	return false
}

func c09ResourceProgram(kind byte, lit string) string {
	name := map[byte]string{'t': "threads", 'm': "mem_gb", 'v': "vmem_gb"}[kind]
	return "stage S(\n    in  int x,\n    src py \"s\",\n) using (\n    " + name + " = " + lit + ",\n)\n"
}

func c09ResourceValue(kind byte, src string) (float32, bool) {
	var parser syntax.Parser
	ast, err := parser.UncheckedParse([]byte(src), "r.mro")
	if err != nil || len(ast.Stages) != 1 || ast.Stages[0].Resources == nil {
		return 0, false
	}
	r := ast.Stages[0].Resources
	switch kind {
	case 't':
		return r.Threads, true
	case 'm':
		return r.MemGB, true
	}
	return r.VMemGB, true
}

func c09NoBlank(s string) string {
	var b strings.Builder
	for _, l := range strings.Split(s, "\n") {
		if strings.TrimSpace(l) != "" {
			b.WriteString(l)
			b.WriteByte('\n')
		}
	}
	return b.String()
}

// commentCount counts the lines of text whose trimmed content is c.
func c09CountLines(text, c string) int {
	n := 0
	for _, l := range strings.Split(text, "\n") {
		if strings.TrimSpace(l) == c {
			n++
		}
	}
	return n
}

var c09StrRe = regexp.MustCompile(`"(?:[^\\"]|\\.)*"`)

func c09InvalidUtf8Literal(src string) bool {
	// a string literal of the source (no comments in these programs) whose
	// value is not valid UTF-8
	for _, t := range c09StrRe.FindAllString(src, -1) {
		v, p := syntax.VerifUnquote([]byte(t))
		if !p && !utf8.Valid(v) {
			return true
		}
	}
	return false
}

func c09ProgramOracle(src string, tag string, comments []string, strong bool) string {
	run := c09RunProgram([]byte(src))
	if !run.parsed {
		return "skip"
	}
	suffix := ""
	if tag == "exotic" && c09InvalidUtf8Literal(src) {
		suffix = "@invalid-utf8-literal"
	}
	if run.err2 != nil {
		return "FAIL formatted-unparseable" + suffix + " " + hx.H(run.f1)
	}
	// no comment text is lost
	for _, c := range comments {
		if c09CountLines(run.f1, c) < 1 {
			if tag == "commentsE" {
				return "FAIL comment-lost@empty-using " + hx.H(c)
			}
			return "FAIL comment-lost " + hx.H(c)
		}
	}
	if strong {
		for _, c := range comments {
			if k := c09CountLines(run.f1, c); k != 1 {
				return fmt.Sprintf("FAIL comment-not-exactly-once %s", hx.H(c))
			}
		}
		if run.f2 != run.f1 {
			cls := "not-fixed-point"
			if len(comments) > 0 && c09NoBlank(run.f1) == c09NoBlank(run.f2) {
				// the two texts differ only in blank lines around comments
				cls = "not-fixed-point-blank-lines"
			}
			return "FAIL " + cls + suffix + " " + hx.H(run.f1)
		}
	}
	if run.accepted {
		if run.a1 == nil {
			return "FAIL formatted-rejected" + suffix + " " + hx.H(run.cerr1.Error())
		}
		if !run.equiv01 || !run.equiv10 {
			return "FAIL not-equivalent" + suffix + " " + hx.H(run.f1)
		}
		if run.a2 == nil {
			return "FAIL reformatted-rejected" + suffix
		}
	}
	return "ok"
}

func c09Oracle(args []string) {
	defer func() {
		if c09Dir != "" {
			os.RemoveAll(c09Dir)
		}
	}()
	var parser syntax.Parser
	hx.Lines(os.Stdin, func(f []string) {
		w := hx.Out
		switch f[0] {
		case "q":
			s := hx.U(f[1])
			q := syntax.VerifC09QuoteString(s)
			e, err := parser.ParseValExp([]byte(q))
			se, ok := e.(*syntax.StringExp)
			switch {
			case err != nil || !ok:
				fmt.Fprintln(w, "FAIL quote-unparseable", hx.H(q))
			case se.Value != s && !utf8.ValidString(s):
				fmt.Fprintln(w, "FAIL quote-invalid-utf8-replaced", hx.H(q))
			case se.Value != s:
				fmt.Fprintln(w, "FAIL quote-roundtrip", hx.H(q))
			default:
				fmt.Fprintln(w, "ok")
			}
		case "i":
			z, _ := strconv.ParseInt(f[1], 10, 64)
			t := syntax.FormatExp(&syntax.IntExp{Value: z}, "")
			e, err := parser.ParseValExp([]byte(t))
			if ie, ok := e.(*syntax.IntExp); err != nil || !ok || ie.Value != z {
				fmt.Fprintln(w, "FAIL int-roundtrip", hx.H(t))
			} else {
				fmt.Fprintln(w, "ok")
			}
		case "g":
			gb := syntax.VerifC09RoundUpTo(c09GB(f), 1024)
			t := syntax.VerifC09FormatGB(gb)
			v, panicked := syntax.VerifParseFloat32([]byte(t))
			cls := "gb-roundtrip"
			if gb >= 8192 {
				cls = "gb-roundtrip-8192"
			}
			if panicked || syntax.VerifC09RoundUpTo(v, 1024) != gb {
				fmt.Fprintln(w, "FAIL", cls, hx.H(fmt.Sprintf("%v -> %s -> %v", gb, t, syntax.VerifC09RoundUpTo(v, 1024))))
			} else {
				fmt.Fprintln(w, "ok")
			}
		case "o":
			// the sorted order is a permutation, respects the dependencies, and
			// sorting an ordered list changes nothing
			out := c09Topo(f)
			n, _ := strconv.Atoi(f[1])
			if out == "err" || n == 0 {
				fmt.Fprintln(w, "ok")
				return
			}
			pos := map[string]int{}
			for i, id := range strings.Split(out, ",") {
				pos[id] = i
			}
			if len(pos) != n {
				fmt.Fprintln(w, "FAIL topo-not-permutation", out)
				return
			}
			for i := 0; i < n; i++ {
				if f[2+i] == "-" {
					continue
				}
				for _, d := range strings.Split(f[2+i], ",") {
					if d != "n" && pos[d] >= pos[strconv.Itoa(i)] {
						fmt.Fprintln(w, "FAIL topo-order", out)
						return
					}
				}
			}
			// idempotence
			g := []string{"o", f[1]}
			rel := strings.Split(out, ",")
			idx := map[string]string{}
			for i, id := range rel {
				idx[id] = strconv.Itoa(i)
			}
			for _, id := range rel {
				i, _ := strconv.Atoi(id)
				if f[2+i] == "-" {
					g = append(g, "-")
					continue
				}
				var ds []string
				for _, d := range strings.Split(f[2+i], ",") {
					if d == "n" {
						ds = append(ds, "n")
					} else {
						ds = append(ds, idx[d])
					}
				}
				g = append(g, strings.Join(ds, ","))
			}
			want := make([]string, n)
			for i := range want {
				want[i] = strconv.Itoa(i)
			}
			if c09Topo(g) != strings.Join(want, ",") {
				fmt.Fprintln(w, "FAIL topo-not-idempotent", out)
				return
			}
			fmt.Fprintln(w, "ok")
		case "k":
			// every comment of the literal is printed exactly once, in order
			obs, n, src := c09LiteralObserve(f)
			want := make([]string, n)
			for i := range want {
				want[i] = strconv.Itoa(i)
			}
			exp := strings.Join(want, ",")
			if n == 0 {
				exp = "-"
			}
			if obs != exp {
				fmt.Fprintln(w, "FAIL literal-comments", hx.H(fmt.Sprintf("printed comment ids %s, expected %s, for:\n%s", obs, exp, src)))
			} else {
				fmt.Fprintln(w, "ok")
			}
		case "f":
			text := hx.U(f[1])
			e, err := parser.ParseValExp([]byte(text))
			if err != nil {
				fmt.Fprintln(w, "skip")
				return
			}
			t1 := syntax.FormatExp(e, "")
			e1, err := parser.ParseValExp([]byte(t1))
			if err != nil {
				fmt.Fprintln(w, "FAIL number-unparseable", hx.H(text+" -> "+t1))
				return
			}
			if !c09ValEq(e, e1) {
				fmt.Fprintln(w, "FAIL number-value", hx.H(text+" -> "+t1))
				return
			}
			if t2 := syntax.FormatExp(e1, ""); t2 != t1 {
				fmt.Fprintln(w, "FAIL number-not-fixed-point", hx.H(text+" -> "+t1+" -> "+t2))
				return
			}
			fmt.Fprintln(w, "ok")
		case "r":
			kind := f[1][0]
			src := c09ResourceProgram(kind, hx.U(f[2]))
			v0, ok := c09ResourceValue(kind, src)
			if !ok {
				fmt.Fprintln(w, "skip")
				return
			}
			f1, err := c09Format([]byte(src))
			if err != nil {
				fmt.Fprintln(w, "skip")
				return
			}
			v1, ok := c09ResourceValue(kind, f1)
			name := map[byte]string{'t': "threads", 'm': "mem", 'v': "mem"}[kind]
			if !ok {
				fmt.Fprintln(w, "FAIL resource-unparseable-"+name, hx.H(f1))
				return
			}
			if v1 != v0 {
				fmt.Fprintln(w, "FAIL resource-value-"+name, hx.H(fmt.Sprintf("%s: %v -> %v", hx.U(f[2]), v0, v1)))
				return
			}
			if f2, err := c09Format([]byte(f1)); err != nil || f2 != f1 {
				fmt.Fprintln(w, "FAIL resource-not-fixed-point-"+name, hx.H(f1))
				return
			}
			fmt.Fprintln(w, "ok")
		case "p":
			fmt.Fprintln(w, c09ProgramOracle(hx.U(f[2]), f[1], nil, true))
		case "u":
			fmt.Fprintln(w, c09ProgramOracle(hx.U(f[2]), f[1], nil, true))
		case "c":
			var cs []string
			if f[3] != "-" {
				cs = strings.Split(hx.U(f[3]), "\n")
			}
			fmt.Fprintln(w, c09ProgramOracle(hx.U(f[2]), "comments"+f[1], cs, f[1] == "F" || f[1] == "L"))
		case "n":
			a0, a1, mro, err0, err1 := c09RunIncludes(hx.U(f[2]))
			switch {
			case err0 != nil:
				fmt.Fprintln(w, "skip")
			case a1 == nil:
				fmt.Fprintln(w, "FAIL expanded-rejected", hx.H(err1.Error()))
			case a0.Call != nil && a1.Call != nil && !(a1.EquivalentCall(a0) && a0.EquivalentCall(a1)):
				fmt.Fprintln(w, "FAIL expanded-not-equivalent", hx.H(mro))
			default:
				// every comment of every file is in the expanded source
				var inc c09Inc
				json.Unmarshal([]byte(hx.U(f[2])), &inc)
				names := make([]string, 0, len(inc.Files))
				for n := range inc.Files {
					names = append(names, n)
				}
				sort.Strings(names)
				for _, n := range names {
					for _, l := range strings.Split(inc.Files[n], "\n") {
						l = strings.TrimSpace(l)
						if strings.HasPrefix(l, "#") && !bytes.Contains([]byte(mro), []byte(l)) {
							fmt.Fprintln(w, "FAIL expanded-comment-lost", hx.H(l))
							return
						}
					}
				}
				fmt.Fprintln(w, "ok")
			}
		default:
			fmt.Fprintln(w, "skip")
		}
	})
}

// c09Coq <cases> <nq> <np>: a .v file that evaluates quote_string / format_int
// on nq sampled kernel cases and ast_same on np program cases inside the Coq
// kernel (vm_compute) and compares with what the implementation does; prints
// M = [] when everything agrees.
func c09Coq(args []string) {
	defer func() {
		if c09Dir != "" {
			os.RemoveAll(c09Dir)
		}
	}()
	data, _ := os.ReadFile(args[0])
	nq, _ := strconv.Atoi(args[1])
	np, _ := strconv.Atoi(args[2])
	cl := strings.Split(strings.TrimSpace(string(data)), "\n")
	var qs, ps []int
	for i, c := range cl {
		switch {
		case strings.HasPrefix(c, "q "), strings.HasPrefix(c, "i "):
			qs = append(qs, i)
		case strings.HasPrefix(c, "p std"), strings.HasPrefix(c, "c "):
			ps = append(ps, i)
		}
	}
	pick := func(idx []int, n int) []int {
		if n >= len(idx) || n <= 0 {
			return idx
		}
		var out []int
		for k := 0; k < n; k++ {
			out = append(out, idx[k*len(idx)/n])
		}
		return out
	}
	w := hx.Out
	fmt.Fprintln(w, "From Coq Require Import String.\nFrom Martian Require Import Lib.Bytes Mro.Ast K.FormatExp K.Same.\nOpen Scope string_scope.")
	fmt.Fprintln(w, "Definition qcases : list (N * bytes * bytes) := [")
	first := true
	nqq := 0
	for _, i := range pick(qs, nq) {
		f := strings.Split(cl[i], " ")
		var model, impl string
		if f[0] == "q" {
			model = fmt.Sprintf("quote_string (unhex \"%s\")", hexOrEmpty(f[1]))
			impl = syntax.VerifC09QuoteString(hx.U(f[1]))
		} else {
			z, _ := strconv.ParseInt(f[1], 10, 64)
			model = fmt.Sprintf("format_int (%d)%%Z", z)
			impl = syntax.FormatExp(&syntax.IntExp{Value: z}, "")
		}
		if !first {
			fmt.Fprintln(w, ";")
		}
		first = false
		nqq++
		fmt.Fprintf(w, "(%d%%N, %s, unhex \"%x\")", i, model, impl)
	}
	fmt.Fprintln(w, "].")
	fmt.Fprintln(w, "Definition pcases : list (N * (ast * ast)) := [")
	first = true
	npp := 0
	for _, i := range pick(ps, np) {
		f := strings.Split(cl[i], " ")
		run := c09RunProgram([]byte(hx.U(f[2])))
		if !run.accepted || run.a1 == nil {
			continue
		}
		if !first {
			fmt.Fprintln(w, ";")
		}
		first = false
		npp++
		fmt.Fprintf(w, "(%d%%N, (%s,\n %s))", i, astdump.Ast(run.a0).Coq(), astdump.Ast(run.a1).Coq())
	}
	fmt.Fprintln(w, "].")
	fmt.Fprintln(w, "Definition badq := filter (fun c => negb (bytes_eqb (snd (fst c)) (snd c))) qcases.")
	fmt.Fprintln(w, "Definition badp := filter (fun c => negb (ast_same (fst (snd c)) (snd (snd c)))) pcases.")
	fmt.Fprintln(w, "Definition M := Eval vm_compute in (map (fun c => fst (fst c)) badq ++ map fst badp)%list.")
	fmt.Fprintln(w, "Print M.")
	fmt.Fprintf(w, "Definition COUNT := Eval vm_compute in (length qcases, length pcases).\nPrint COUNT.\n")
	fmt.Fprintf(os.Stderr, "%d %d\n", nqq, npp)
}

func hexOrEmpty(h string) string {
	if h == "-" {
		return ""
	}
	return h
}
