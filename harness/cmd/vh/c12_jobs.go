package main

// C12, case kind j: LocalJobManager.Enqueue end to end.
//
//	j <maxCores> <maxMemGB> <maxVmemMB> <procsMax> <threadsPerJob> <memGBPerJob> <extraVmemGB> <n> (<t> <m> <v>)*n
//
// n jobs with dyadic requests (threads t/64, mem m/4096 GB, vmem v/4096 GB).
// impl: each job is enqueued alone on a fresh manager; while its process runs
// the four semaphores' Reserved() is what Enqueue acquired for it:
// c<centi-cores> m<MB> v<vmem MB> p<processes> per job.
// oracle: all n jobs are enqueued at once on one manager; every process
// records its start and end; at every instant the summed reservations of the
// running processes must be within the limits, the semaphores must never
// report more than their limit, and all jobs must finish.

import (
	"fmt"
	"os"
	"path/filepath"
	"sort"
	"strconv"
	"strings"
	"sync/atomic"
	"time"

	"github.com/martian-lang/martian/martian/core"
	"verifharness/internal/hx"
)

type c12J struct {
	maxCores, maxMemGB  int
	maxVmemMB, procsMax int64
	tpj, mpj, extra     int
	reqs                [][3]int64
}

func c12ParseJ(f []string) c12J {
	iv := func(i int) int64 {
		v, err := strconv.ParseInt(f[i], 10, 64)
		if err != nil {
			panic("bad j field " + f[i])
		}
		return v
	}
	j := c12J{maxCores: int(iv(1)), maxMemGB: int(iv(2)), maxVmemMB: iv(3), procsMax: iv(4),
		tpj: int(iv(5)), mpj: int(iv(6)), extra: int(iv(7))}
	n := int(iv(8))
	for k := 0; k < n; k++ {
		j.reqs = append(j.reqs, [3]int64{iv(9 + 3*k), iv(10 + 3*k), iv(11 + 3*k)})
	}
	return j
}

func (j *c12J) manager() *core.LocalJobManager {
	return core.VerifLocalJobManager(j.maxCores, j.maxMemGB, j.maxVmemMB, j.procsMax,
		core.JobManagerSettings{ThreadsPerJob: j.tpj, MemGBPerJob: j.mpj, ExtraVmemGB: j.extra}, false)
}

var c12JobSeq int64

// c12StartJob enqueues one job whose process creates <dir>/started, waits for
// <dir>/go (if gate) or sleeps, then creates <dir>/ended; start and end times
// are the modification times of those files.
func c12StartJob(lm *core.LocalJobManager, root string, req [3]int64, gate bool, ms int) (dir string, md *core.Metadata) {
	id := atomic.AddInt64(&c12JobSeq, 1)
	dir = filepath.Join(root, fmt.Sprintf("job%d", id))
	if err := os.MkdirAll(filepath.Join(dir, "files"), 0o755); err != nil {
		panic(err)
	}
	md = core.NewMetadata(fmt.Sprintf("ID.c12.JOB%d", id), dir)
	body := fmt.Sprintf(": > '%s/started'; sleep %d.%03d; : > '%s/ended'", dir, ms/1000, ms%1000, dir)
	if gate {
		body = fmt.Sprintf(": > '%s/started'; while [ ! -e '%s/go' ]; do sleep 0.002; done; : > '%s/ended'", dir, dir, dir)
	}
	res := core.JobResources{Threads: float64(req[0]) / 64, MemGB: float64(req[1]) / 4096, VMemGB: float64(req[2]) / 4096}
	lm.Enqueue("/bin/sh", []string{"-c", body}, map[string]string{}, md, &res, md.VerifFQName(), 0, 0, false)
	return dir, md
}

func c12Exists(p string) bool {
	_, err := os.Stat(p)
	return err == nil
}

func c12WaitFile(p string, d time.Duration) bool {
	deadline := time.Now().Add(d)
	for !c12Exists(p) {
		if time.Now().After(deadline) {
			return false
		}
		time.Sleep(500 * time.Microsecond)
	}
	return true
}

func c12Reserved(lm *core.LocalJobManager) [4]int64 {
	var r [4]int64
	for i, s := range lm.VerifSemaphores() {
		if s != nil {
			r[i] = s.Reserved()
		} else {
			r[i] = -1
		}
	}
	return r
}

var c12Scratch = os.TempDir()

// single-job amounts, as Enqueue acquires them
func c12JobAmounts(j *c12J, req [3]int64) ([4]int64, bool) {
	lm := j.manager()
	root, err := os.MkdirTemp(c12Scratch, "c12j")
	if err != nil {
		panic(err)
	}
	defer os.RemoveAll(root)
	dir, _ := c12StartJob(lm, root, req, true, 0)
	if !c12WaitFile(filepath.Join(dir, "started"), 5*time.Second) {
		return [4]int64{}, false
	}
	r := c12Reserved(lm)
	os.WriteFile(filepath.Join(dir, "go"), nil, 0o644)
	c12WaitFile(filepath.Join(dir, "ended"), 5*time.Second)
	// wait for the deferred releases
	deadline := time.Now().Add(5 * time.Second)
	for time.Now().Before(deadline) {
		z := c12Reserved(lm)
		if z[0] <= 0 && z[1] <= 0 && z[2] <= 0 && z[3] <= 0 {
			break
		}
		time.Sleep(200 * time.Microsecond)
	}
	return r, true
}

func c12ImplJ(f []string) string {
	if len(f) > 0 && len(os.Args) > 3 {
		c12Scratch = os.Args[3]
	}
	j := c12ParseJ(f)
	parts := make([]string, 0, 4*len(j.reqs))
	for _, req := range j.reqs {
		r, ok := c12JobAmounts(&j, req)
		if !ok {
			parts = append(parts, "REFUSED")
			continue
		}
		parts = append(parts, fmt.Sprintf("c%d m%d v%d p%d", r[0], r[1], r[2], r[3]))
	}
	return strings.Join(parts, " ")
}

func c12OracleJ(f []string) string {
	if len(f) > 0 && len(os.Args) > 3 {
		c12Scratch = os.Args[3]
	}
	j := c12ParseJ(f)
	// what each job reserves (measured alone)
	amounts := make([][4]int64, len(j.reqs))
	for i, req := range j.reqs {
		r, ok := c12JobAmounts(&j, req)
		if !ok {
			return fmt.Sprintf("FAIL local_job_refused job %d with request %v never started although every request is clamped to the limits", i, req)
		}
		amounts[i] = r
	}
	limits := [4]int64{int64(j.maxCores) * 100, int64(j.maxMemGB) * 1024, j.maxVmemMB, j.procsMax}
	for i, a := range amounts {
		for s := 0; s < 4; s++ {
			if limits[s] > 0 && (a[s] > limits[s] || a[s] < 0) {
				return fmt.Sprintf("FAIL local_over_limit job %d alone reserves %d of semaphore %d, limit %d", i, a[s], s, limits[s])
			}
		}
	}
	// all at once
	lm := j.manager()
	root, err := os.MkdirTemp(c12Scratch, "c12J")
	if err != nil {
		panic(err)
	}
	defer os.RemoveAll(root)
	dirs := make([]string, len(j.reqs))
	for i, req := range j.reqs {
		dirs[i], _ = c12StartJob(lm, root, req, false, 15)
	}
	deadline := time.Now().Add(20 * time.Second)
	maxSeen := [4]int64{}
	for {
		r := c12Reserved(lm)
		for s := 0; s < 4; s++ {
			if r[s] > maxSeen[s] {
				maxSeen[s] = r[s]
			}
		}
		done := 0
		for _, d := range dirs {
			if c12Exists(filepath.Join(d, "ended")) {
				done++
			}
		}
		if done == len(dirs) {
			break
		}
		if time.Now().After(deadline) {
			return fmt.Sprintf("FAIL local_stall %d of %d jobs finished, reserved %v", done, len(dirs), r)
		}
		time.Sleep(300 * time.Microsecond)
	}
	for s := 0; s < 4; s++ {
		if limits[s] > 0 && maxSeen[s] > limits[s] {
			return fmt.Sprintf("FAIL local_over_limit semaphore %d reported %d reserved, limit %d", s, maxSeen[s], limits[s])
		}
	}
	// weighted overlap of the process lifetimes
	type ev struct {
		t     time.Time
		start bool
		job   int
	}
	var evs []ev
	for i, d := range dirs {
		s, err1 := os.Stat(filepath.Join(d, "started"))
		e, err2 := os.Stat(filepath.Join(d, "ended"))
		if err1 != nil || err2 != nil {
			return "FAIL local_stall missing start/end record"
		}
		evs = append(evs, ev{s.ModTime(), true, i}, ev{e.ModTime(), false, i})
	}
	// ends before starts at equal times (file time granularity)
	sort.Slice(evs, func(a, b int) bool {
		if !evs[a].t.Equal(evs[b].t) {
			return evs[a].t.Before(evs[b].t)
		}
		return !evs[a].start && evs[b].start
	})
	var cur [4]int64
	for _, e := range evs {
		for s := 0; s < 4; s++ {
			if e.start {
				cur[s] += amounts[e.job][s]
			} else {
				cur[s] -= amounts[e.job][s]
			}
			if limits[s] > 0 && cur[s] > limits[s] {
				return fmt.Sprintf("FAIL local_over_limit processes running at the same time reserve %d of semaphore %d, limit %d", cur[s], s, limits[s])
			}
		}
	}
	return "ok"
}

func c12GenJobs(tier string, r *hx.Rng) {
	n := 14
	if tier == "thorough" {
		n = 300
	}
	for i := 0; i < n; i++ {
		maxCores := hx.Pick(r, []int{1, 2, 4})
		maxMem := hx.Pick(r, []int{1, 2, 6})
		maxVmem := int64(0)
		if r.Intn(2) == 0 {
			maxVmem = int64(maxMem)*1024*2 + int64(r.Intn(2000))
		}
		procs := int64(0)
		if r.Intn(2) == 0 {
			procs = int64(16+maxCores) + int64(r.Intn(40))
		}
		njobs := 2 + r.Intn(5)
		var sb strings.Builder
		fmt.Fprintf(&sb, "j %d %d %d %d %d %d %d %d", maxCores, maxMem, maxVmem, procs, 1, 1+r.Intn(2), r.Intn(2), njobs)
		for k := 0; k < njobs; k++ {
			t := int64(r.Intn(maxCores*64*3/2 + 1))
			m := int64(r.Intn(maxMem*4096*3/2 + 1))
			v := int64(0)
			switch r.Intn(5) {
			case 0:
				t = -int64(r.Intn(64 * maxCores))
			case 1:
				m = -int64(r.Intn(4096 * maxMem))
			case 2:
				v = int64(r.Intn(maxMem * 4096 * 3))
			case 3:
				t, m = 0, 0
			}
			fmt.Fprintf(&sb, " %d %d %d", t, m, v)
		}
		fmt.Fprintln(hx.Out, sb.String())
	}
}
