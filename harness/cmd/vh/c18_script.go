package main

import (
	"fmt"
	"os"
	"os/exec"
	"path"
	"path/filepath"
	"sort"
	"strconv"
	"strings"
	"time"

	"github.com/martian-lang/martian/martian/core"
	"verifharness/internal/hx"
)

// Job-script cases ("j"): the whole template substitution of
// RemoteJobManager.jobScript.
//
//   j <template> <np> (<old> <new>)* <metadataPath> <cmd> <na> <arg>* <ne> (<k> <v>)*
//
// The (old,new) pairs are the replacer arguments jobScript builds for the
// fixed resources used by core.VerifJobScript (2 threads, 3 GB); they are
// computed here so that the model only has to run the replacer.

const c18Threads, c18MemGB = 2, 3

// c18Pairs mirrors the params table of jobScript for the fixed resources.
func c18Pairs(template, mdPath, cmd string, argv []string, envs map[string]string) []string {
	const fq, shell = "ID.ps.P.S.fork0.chnk0", "main"
	vals := [][2]string{
		{"JOB_NAME", fq + "." + shell},
		{"THREADS", "2"},
		{"STDOUT", core.VerifShellSafeQuote(path.Join(mdPath, "_stdout"))},
		{"STDERR", core.VerifShellSafeQuote(path.Join(mdPath, "_stderr"))},
		{"JOB_WORKDIR", core.VerifShellSafeQuote(path.Join(mdPath, "files"))},
		{"CMD", core.VerifFormatArgs(envs, cmd, argv)},
		{"MEM_GB", "3"}, {"MEM_MB", "3072"}, {"MEM_KB", "3145728"}, {"MEM_B", "3221225472"},
		{"MEM_GB_PER_THREAD", "2"}, {"MEM_MB_PER_THREAD", "2048"}, {"MEM_KB_PER_THREAD", "2097152"}, {"MEM_B_PER_THREAD", "2147483648"},
		{"VMEM_GB", "3"}, {"VMEM_MB", "3072"}, {"VMEM_KB", "3145728"}, {"VMEM_B", "3221225472"},
		{"VMEM_GB_PER_THREAD", "2"}, {"VMEM_MB_PER_THREAD", "2048"}, {"VMEM_KB_PER_THREAD", "2097152"}, {"VMEM_B_PER_THREAD", "2147483648"},
		{"ACCOUNT", os.Getenv("MRO_ACCOUNT")},
		{"RESOURCES", ""},
	}
	var args []string
	for _, kv := range vals {
		key := "__MRO_" + kv[0] + "__"
		if kv[1] != "" {
			args = append(args, key, kv[1])
		} else if strings.Contains(template, key) {
			for _, line := range strings.Split(template, "\n") {
				if strings.Contains(line, key) {
					args = append(args, line, "")
				}
			}
		}
	}
	return args
}

var c18Tokens = []string{"__MRO_CMD__", "__MRO_MEM_GB__", "__MRO_ACCOUNT__", "__MRO_RESOURCES__", "__MRO_THREADS__",
	"__MRO_STDOUT__", "__MRO_JOB_NAME__", "__MRO_VMEM_GB__", "__MRO_", "__"}

func c18TokenString(r *hx.Rng, n int) string {
	var b strings.Builder
	for i, k := 0, 1+r.Intn(n); i < k; i++ {
		switch r.Intn(4) {
		case 0:
			b.WriteString(hx.Pick(r, c18Tokens))
		case 1:
			b.WriteByte(c18Alphabet[r.Intn(len(c18Alphabet))])
		default:
			b.WriteString(c18RandUtf8(r, 3))
		}
	}
	return b.String()
}

func c18Templates(repo string) []string {
	var ts []string
	files, _ := filepath.Glob(filepath.Join(repo, "jobmanagers", "*.template*"))
	sort.Strings(files)
	for _, f := range files {
		if b, err := os.ReadFile(f); err == nil {
			ts = append(ts, string(b))
		}
	}
	ts = append(ts,
		"#!/bin/sh\n#X -N __MRO_JOB_NAME__ -t __MRO_THREADS__\n#X -o __MRO_STDOUT__ -e __MRO_STDERR__\n#X -A __MRO_ACCOUNT__\n#X __MRO_RESOURCES__\ncd __MRO_JOB_WORKDIR__\n__MRO_CMD__\n",
		"# mem __MRO_MEM_GB____MRO_MEM_MB__ __MRO_MEM_GB_PER_THREAD__\n__MRO_CMD__\n",
		"#__MRO_THREADS____MRO_THREADS__\n# acct=__MRO_ACCOUNT__ res=__MRO_RESOURCES__\n\n__MRO_CMD__",
	)
	return ts
}

func c18GenScripts(tier string, r *hx.Rng) {
	repo := os.Getenv("VERIF_REPO")
	if repo == "" {
		repo = "/repo"
	}
	ts := c18Templates(repo)
	n := 150
	if tier == "thorough" {
		n = 3000
	}
	for i := 0; i < n; i++ {
		t := ts[i%len(ts)]
		md := "/tmp/ps " + strings.NewReplacer("/", "_", "\n", "_", "\x00", "_").Replace(c18TokenString(r, 4)) + "/S/fork0/chnk0"
		if i%25 == 24 {
			// the separate stream with a newline in the pipestance path
			md = "/tmp/ps\nx" + md
		}
		cmd := strings.NewReplacer("/", "_", "\x00", "_").Replace(c18TokenString(r, 3)) + "c"
		var argv []string
		for j, k := 0, r.Intn(4); j < k; j++ {
			argv = append(argv, c18TokenString(r, 5))
		}
		envs := map[string]string{}
		var keys []string
		names := append([]string(nil), c18Names...)
		for j, k := 0, r.Intn(3); j < k; j++ {
			x := r.Intn(len(names))
			envs[names[x]] = c18TokenString(r, 4)
			keys = append(keys, names[x])
			names = append(names[:x], names[x+1:]...)
		}
		fmt.Fprintln(hx.Out, c18ScriptCase(t, md, cmd, argv, envs, keys))
	}
}

func c18ScriptCase(t, md, cmd string, argv []string, envs map[string]string, keys []string) string {
	// the command is a file in the oracle's scratch directory; its final path
	// is not known here, so the pairs are computed for the bare name and the
	// oracle recomputes them for the real path
	pairs := c18Pairs(t, md, cmd, argv, envs)
	var sb strings.Builder
	fmt.Fprintf(&sb, "j %s %d", hx.H(t), len(pairs)/2)
	for _, p := range pairs {
		sb.WriteString(" " + hx.H(p))
	}
	fmt.Fprintf(&sb, " %s %s %d", hx.H(md), hx.H(cmd), len(argv))
	for _, a := range argv {
		sb.WriteString(" " + hx.H(a))
	}
	fmt.Fprintf(&sb, " %d", len(keys))
	for _, k := range keys {
		sb.WriteString(" " + hx.H(k) + " " + hx.H(envs[k]))
	}
	return sb.String()
}

type c18Script struct {
	template, md, cmd string
	argv              []string
	envs              map[string]string
	keys              []string
}

func c18ParseJ(f []string) c18Script {
	np, _ := strconv.Atoi(f[2])
	i := 3 + 2*np
	s := c18Script{template: hx.U(f[1]), md: hx.U(f[i]), cmd: hx.U(f[i+1]), envs: map[string]string{}}
	na, _ := strconv.Atoi(f[i+2])
	i += 3
	for j := 0; j < na; j++ {
		s.argv = append(s.argv, hx.U(f[i+j]))
	}
	i += na
	ne, _ := strconv.Atoi(f[i])
	i++
	for j := 0; j < ne; j++ {
		s.envs[hx.U(f[i])] = hx.U(f[i+1])
		s.keys = append(s.keys, hx.U(f[i]))
		i += 2
	}
	return s
}

func c18ImplScript(f []string) string {
	s := c18ParseJ(f)
	return hx.H(core.VerifJobScript(s.template, s.md, s.cmd, s.argv, s.envs, c18Threads, c18MemGB,
		"ID.ps.P.S.fork0.chnk0", "main"))
}

// c18OracleScript: /bin/sh running the generated job script starts exactly
// the requested program with exactly the requested arguments and environment.
func c18OracleScript(f []string, scratch string, n int, self string) string {
	s := c18ParseJ(f)
	dir := filepath.Join(scratch, fmt.Sprintf("job%d", n))
	if err := os.MkdirAll(dir, 0o755); err != nil {
		return "skip"
	}
	defer os.RemoveAll(dir)
	cmdPath := filepath.Join(dir, s.cmd)
	if err := os.Symlink(self, cmdPath); err != nil {
		return "skip"
	}
	// the job's metadata directory, with the generated (odd) name, inside the scratch directory
	md := filepath.Join(dir, "md", strings.TrimPrefix(s.md, "/"))
	if err := os.MkdirAll(filepath.Join(md, "files"), 0o755); err != nil {
		return "skip"
	}
	dumpFile := filepath.Join(dir, "dump")
	envs := map[string]string{"VH_DUMP": "1", "VH_DUMP_FILE": dumpFile}
	for k, v := range s.envs {
		envs[k] = v
	}
	script := core.VerifJobScript(s.template, md, cmdPath, s.argv, envs, c18Threads, c18MemGB,
		"ID.ps.P.S.fork0.chnk0", "main")
	sh := exec.Command("/bin/sh", "-s")
	sh.Env = []string{"PATH=/usr/bin:/bin"}
	sh.Dir = shCwd
	sh.Stdin = strings.NewReader(script)
	shOut, err := sh.Output()
	class := "template_value"
	if strings.Contains(s.md, "\n") {
		class = "newline_in_pipestance_path"
	} else if strings.Contains(cmdPath, "=") && strings.Contains(s.template, "env __MRO_CMD__") {
		// env(1) takes every leading operand that contains '=' for an
		// assignment, so a command path with '=' in it is never executed
		class = "equals_sign_in_command_path"
	}
	want := dumpFormat(append([]string{cmdPath}, s.argv...), s.envs, s.keys)
	var got string
	// the template may have put the command in the background and printed its
	// pid (fake_remote: "... & echo $!"): wait for that process, not for a
	// fixed time, which is too short under load and too long for the cases in
	// which nothing is ever written
	bgPid := strings.TrimSpace(string(shOut))
	if _, e := strconv.Atoi(bgPid); e != nil {
		bgPid = ""
	}
	for i := 0; i < 6000; i++ {
		if b, e := os.ReadFile(dumpFile); e == nil {
			got = string(b)
			break
		}
		if bgPid == "" && i >= 40 {
			break
		}
		if bgPid != "" {
			if _, e := os.Stat("/proc/" + bgPid); e != nil && i >= 40 {
				break
			}
		}
		time.Sleep(5 * time.Millisecond)
	}
	if got != want {
		detail := "recovered " + hx.H(got)
		if err != nil {
			detail = "sh-error " + detail
		}
		return "FAIL " + class + " " + hx.H(script) + " " + detail
	}
	return "ok"
}
