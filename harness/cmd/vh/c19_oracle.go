package main

// C19 oracle: the property read directly on the implementation.
//
// For every edit: the edited files must compile; the MakeCallGraph JSON of the
// top-level call after the edit must be the JSON before the edit up to the
// renamed identifiers (renames) or with the removed elements dropped
// (removals); the round trip must restore the original call graph exactly.

import (
	"bytes"
	"encoding/json"
	"fmt"
	"os"
	"sort"
	"strconv"
	"strings"

	"github.com/martian-lang/martian/martian/syntax"
	"verifharness/internal/astdump"
	"verifharness/internal/hx"
)

func c19Graph(ast *syntax.Ast) (interface{}, error) {
	if ast.Call == nil {
		return nil, fmt.Errorf("no top-level call")
	}
	g, err := ast.MakeCallGraph("ID.", ast.Call)
	if err != nil {
		return nil, err
	}
	b, err := json.Marshal(g)
	if err != nil {
		return nil, err
	}
	var v interface{}
	d := json.NewDecoder(bytes.NewReader(b))
	d.UseNumber()
	if err := d.Decode(&v); err != nil {
		return nil, err
	}
	return v, nil
}

func c19IsIdent(c byte) bool {
	return c == '_' || c >= '0' && c <= '9' || c >= 'a' && c <= 'z' || c >= 'A' && c <= 'Z'
}

// tokens of a string: maximal identifier runs and single other bytes
func c19Tokens(s string) []string {
	var out []string
	for i := 0; i < len(s); {
		j := i
		for j < len(s) && c19IsIdent(s[j]) {
			j++
		}
		if j == i {
			j = i + 1
		}
		out = append(out, s[i:j])
		i = j
	}
	return out
}

// a string of the edited graph is the original string with some occurrences
// of the identifier old replaced by new
func c19StrRenamed(a, b, old, new string) bool {
	if a == b {
		return true
	}
	ta, tb := c19Tokens(a), c19Tokens(b)
	if len(ta) != len(tb) {
		return false
	}
	for i := range ta {
		if ta[i] != tb[i] && !(ta[i] == old && tb[i] == new) && !c19PairRenamed(ta[i], tb[i]) {
			return false
		}
	}
	return true
}

// further old -> new identifier pairs in force (combined edits; a chain
// X -> Y, Y -> Z counts as X -> Z)
var c19Pairs [][2]string

func c19PairRenamed(a, b string) bool {
	cur := map[string]bool{a: true}
	for _, p := range c19Pairs {
		if cur[p[0]] {
			cur[p[1]] = true
		}
	}
	return cur[b]
}

// c19SameRenamed: b is a up to old -> new in strings and object keys.
// Returns "" or the path of the first difference.
func c19SameRenamed(a, b interface{}, old, new, path string) string {
	switch x := a.(type) {
	case map[string]interface{}:
		y, ok := b.(map[string]interface{})
		if !ok || len(x) < len(y) {
			return path + " (object shape)"
		}
		// Keys are identifiers (parameter names, call ids).  A rename may make
		// two keys of a call-id keyed object equal (the fork index of a
		// reference is keyed by bare call ids, which are not unique across
		// pipelines); such merged keys are compared by presence only.
		image := map[string]string{}
		hits := map[string]int{}
		for k := range x {
			k2, ok := k, false
			if _, ok = y[k]; !ok && k == old {
				k2 = new
				_, ok = y[k2]
			}
			if !ok {
				for cand := range y {
					if cand != k && c19StrRenamed(k, cand, old, new) {
						k2, ok = cand, true
						break
					}
				}
			}
			if !ok {
				return path + "." + k + " (missing)"
			}
			image[k] = k2
			hits[k2]++
		}
		if len(hits) != len(y) {
			return path + " (object shape)"
		}
		for k, va := range x {
			if hits[image[k]] > 1 {
				continue
			}
			if d := c19SameRenamed(va, y[image[k]], old, new, path+"."+k); d != "" {
				return d
			}
		}
		return ""
	case []interface{}:
		y, ok := b.([]interface{})
		if !ok || len(x) != len(y) {
			return path + " (array length)"
		}
		for i := range x {
			if d := c19SameRenamed(x[i], y[i], old, new, path+"["+strconv.Itoa(i)+"]"); d != "" {
				return d
			}
		}
		return ""
	case string:
		y, ok := b.(string)
		if !ok || !c19StrRenamed(x, y, old, new) {
			return path + fmt.Sprintf(" (%q vs %v)", x, b)
		}
		return ""
	default:
		if fmt.Sprint(a) != fmt.Sprint(b) {
			return path + fmt.Sprintf(" (%v vs %v)", a, b)
		}
		return ""
	}
}

// ---- removals: node-wise comparison

type c19Node struct {
	fq     string
	fields map[string]interface{}
}

func c19Nodes(v interface{}, out map[string]map[string]interface{}) {
	m, ok := v.(map[string]interface{})
	if !ok {
		return
	}
	if fq, ok := m["fqname"].(string); ok {
		out[fq] = m
	}
	if ch, ok := m["children"].([]interface{}); ok {
		for _, c := range ch {
			c19Nodes(c, out)
		}
	}
}

func c19JSON(v interface{}) string {
	b, _ := json.Marshal(v)
	return string(b)
}

// c19NullDropped: b is a with some sub-expressions replaced by null / dropped
// from arrays and maps (what remove-output documents for a used output).
func c19Weakened(a, b interface{}) bool {
	if c19JSON(a) == c19JSON(b) {
		return true
	}
	if b == nil {
		return true
	}
	switch x := a.(type) {
	case map[string]interface{}:
		y, ok := b.(map[string]interface{})
		if !ok {
			return false
		}
		for k, vb := range y {
			va, ok := x[k]
			if !ok || !c19Weakened(va, vb) {
				return false
			}
		}
		return true
	case []interface{}:
		y, ok := b.([]interface{})
		if !ok || len(y) > len(x) {
			return false
		}
		// subsequence match
		i := 0
		for _, vb := range y {
			for i < len(x) && !c19Weakened(x[i], vb) {
				i++
			}
			if i == len(x) {
				return false
			}
			i++
		}
		return true
	}
	return false
}

// c19SameRemoved compares the graphs node by node.  strict: surviving values
// must be identical (unused removals); otherwise they may be weakened to null
// (explicit remove-output of a used output).
func c19SameRemoved(a, b interface{}, e c19Edit) string {
	na, nb := map[string]map[string]interface{}{}, map[string]map[string]interface{}{}
	c19Nodes(a, na)
	c19Nodes(b, nb)
	var fqs []string
	for fq := range nb {
		fqs = append(fqs, fq)
	}
	sort.Strings(fqs)
	for _, fq := range fqs {
		if _, ok := na[fq]; !ok {
			return "node " + fq + " appeared"
		}
	}
	if e.Kind != "unused_calls" && e.Kind != "unused_both" && len(na) != len(nb) {
		for fq := range na {
			if _, ok := nb[fq]; !ok {
				return "node " + fq + " disappeared"
			}
		}
	}
	strict := e.Kind != "remove_out"
	for _, fq := range fqs {
		x, y := na[fq], nb[fq]
		for k, vb := range y {
			if k == "children" {
				continue
			}
			va, ok := x[k]
			if !ok {
				return fq + "." + k + " appeared"
			}
			switch k {
			case "inputs", "outputs", "disabled", "retained":
				if !c19Weakened(va, vb) {
					return fq + "." + k + " changed"
				}
				if strict && e.Kind != "remove_in" && k == "inputs" {
					// inputs of surviving STAGE nodes are what jobs see
					if t, _ := x["type"].(string); t == "stage" && c19JSON(va) != c19JSON(vb) && !c19OnlyKeysDropped(va, vb) {
						return fq + ".inputs changed"
					}
				}
			default:
				if c19JSON(va) != c19JSON(vb) {
					return fq + "." + k + " changed"
				}
			}
		}
	}
	return ""
}

func c19OnlyKeysDropped(a, b interface{}) bool {
	x, ok1 := a.(map[string]interface{})
	y, ok2 := b.(map[string]interface{})
	if !ok1 || !ok2 {
		return c19JSON(a) == c19JSON(b)
	}
	for k, vb := range y {
		va, ok := x[k]
		if !ok || c19JSON(va) != c19JSON(vb) {
			return false
		}
	}
	return true
}

// ------------------------------------------------------------ applicability / input family

// parameters of a call supplied by its wildcard binding (the compiler appends
// the expansion after the "*" entry)
func c19WildSupplied(c *syntax.CallStm) (ref *syntax.RefExp, ids map[string]bool) {
	ids = map[string]bool{}
	if c.Bindings == nil {
		return nil, ids
	}
	seen := false
	for _, b := range c.Bindings.List {
		if b.Id == "*" {
			seen = true
			ref, _ = b.Exp.(*syntax.RefExp)
		} else if seen {
			ids[b.Id] = true
		}
	}
	return ref, ids
}

// c19StaleKey: a later part of a combined request renames an identifier
// (pipeline name, call id, binding id) that an edit produced by an earlier
// part uses as its lookup key when the edits are replayed on the files.
// The Edit objects keep pointers into the compiled Asts, which Refactor
// mutates while it goes along, so the earlier edit no longer finds its target.
func c19StaleKey(ast *syntax.Ast, e c19Edit) bool {
	if e.Kind != "combo" {
		return false
	}
	callsTo := func(p *syntax.Pipeline, dec string) bool {
		for _, c := range p.Calls {
			if c.DecId == dec {
				return true
			}
		}
		return false
	}
	for i, r1 := range e.Subs {
		if r1.Kind == "rename_in" {
			// the input rename rewrote self.p inside the return binding whose id
			// the output rename changes
			for _, r2 := range e.Subs[i+1:] {
				if r2.Kind != "rename_out" || r2.Callable != r1.Callable {
					continue
				}
				for _, p := range ast.Pipelines {
					if p.Id != e.original(r1.Callable) || p.Ret == nil || p.Ret.Bindings == nil {
						continue
					}
					for _, b := range p.Ret.Bindings.List {
						if b.Id != r2.Param || b.Exp == nil {
							continue
						}
						refs := b.Exp.FindRefs()
						if r, ok := b.Exp.(*syntax.RefExp); ok {
							refs = append(refs, r)
						}
						for _, r := range refs {
							if r.Kind == syntax.KindSelf && r.Id == r1.Param {
								return true
							}
						}
					}
				}
			}
		}
		if r1.Kind != "rename" {
			continue
		}
		a := r1.Callable
		for _, r2 := range e.Subs[i+1:] {
			switch r2.Kind {
			case "rename":
				// the second rename changes the name of a pipeline the first one
				// edited, or the id of a call next to one the first one edited
				b := r2.Callable
				for _, p := range ast.Pipelines {
					if callsTo(p, a) && (p.Id == b || callsTo(p, b)) {
						return true
					}
				}
			case "rename_in":
				// the first rename rewrote a reference inside the binding the
				// second one renames
				if e.original(r2.Callable) != a {
					continue
				}
				for _, p := range ast.Pipelines {
					for _, c := range p.Calls {
						if c.DecId != a || c.Bindings == nil {
							continue
						}
						for _, b := range c.Bindings.List {
							if b.Id == r2.Param && b.Exp != nil && c19ExpRefsCall(b.Exp, a) {
								return true
							}
						}
					}
				}
			}
		}
	}
	return false
}

func c19ExpRefsCall(exp syntax.Exp, id string) bool {
	if r, ok := exp.(*syntax.RefExp); ok {
		return r.Kind == syntax.KindCall && r.Id == id
	}
	for _, r := range exp.FindRefs() {
		if r.Kind == syntax.KindCall && r.Id == id {
			return true
		}
	}
	return false
}

// c19Wildcard: the renamed parameter is (or, for a colliding new name, may
// become) bound by name through a wildcard binding.
func c19Wildcard(ast *syntax.Ast, e c19Edit) bool {
	collide := e.Note == "collide_param"
	calls := []*syntax.CallStm{}
	if ast.Call != nil {
		calls = append(calls, ast.Call)
	}
	for _, p := range ast.Pipelines {
		calls = append(calls, p.Calls...)
	}
	switch e.Kind {
	case "rename_in":
		for _, c := range calls {
			if c.DecId == e.Callable {
				ref, ids := c19WildSupplied(c)
				if ids[e.Param] || (collide && ref != nil) {
					return true
				}
			}
		}
		for _, p := range ast.Pipelines {
			if p.Id != e.Callable {
				continue
			}
			for _, c := range p.Calls {
				ref, ids := c19WildSupplied(c)
				if ref != nil && ref.Kind == syntax.KindSelf && ref.Id == "" && (ids[e.Param] || collide) {
					return true
				}
			}
		}
	case "rename_out":
		for _, p := range ast.Pipelines {
			for _, x := range p.Calls {
				if x.DecId != e.Callable {
					continue
				}
				for _, y := range p.Calls {
					ref, ids := c19WildSupplied(y)
					if ref != nil && ref.Kind == syntax.KindCall && ref.Id == x.Id && ref.OutputId == "" && (ids[e.Param] || collide) {
						return true
					}
				}
			}
		}
	}
	return false
}

func c19RefTo(ref *syntax.RefExp, callId, out string) bool {
	if ref.Kind != syntax.KindCall || ref.Id != callId {
		return false
	}
	if ref.OutputId == "" || ref.OutputId == out {
		return true
	}
	return strings.HasPrefix(ref.OutputId, out+".")
}

func c19ExpRefsTo(exp syntax.Exp, callId, out string) bool {
	if exp == nil {
		return false
	}
	if r, ok := exp.(*syntax.RefExp); ok {
		return c19RefTo(r, callId, out)
	}
	for _, r := range exp.FindRefs() {
		if c19RefTo(r, callId, out) {
			return true
		}
	}
	return false
}

// c19OutputUsed: some stage input, modifier or pipeline retain (transitively
// through pipeline returns) refers to the output, so removing it cannot
// preserve the call graph (remove-output then binds null, as documented).
func c19OutputUsed(ast *syntax.Ast, callable, out string, depth int) bool {
	if depth > 8 {
		return true
	}
	for _, p := range ast.Pipelines {
		for _, x := range p.Calls {
			if x.DecId != callable {
				continue
			}
			for _, c := range p.Calls {
				if c.Bindings != nil {
					for _, b := range c.Bindings.List {
						if c19ExpRefsTo(b.Exp, x.Id, out) {
							return true
						}
					}
				}
				if c.Modifiers != nil && c.Modifiers.Bindings != nil {
					for _, b := range c.Modifiers.Bindings.List {
						if c19ExpRefsTo(b.Exp, x.Id, out) {
							return true
						}
					}
				}
			}
			if p.Retain != nil {
				for _, r := range p.Retain.Refs {
					if c19RefTo(r, x.Id, out) {
						return true
					}
				}
			}
			if p.Ret != nil && p.Ret.Bindings != nil {
				for _, b := range p.Ret.Bindings.List {
					if !c19ExpRefsTo(b.Exp, x.Id, out) {
						continue
					}
					if r, ok := b.Exp.(*syntax.RefExp); !ok || r.OutputId == "" {
						return true // part of a larger value: it would be weakened, not removed
					}
					if c19OutputUsed(ast, p.Id, b.Id, depth+1) {
						return true
					}
				}
			}
		}
	}
	return false
}

// a map call left without anything to split over
func c19MapWithoutSplit(f c19Files) bool {
	for _, body := range f {
		rest := body
		for {
			i := strings.Index(rest, "map call ")
			if i < 0 {
				break
			}
			rest = rest[i+9:]
			// the binding list: up to the parenthesis matching the first one
			depth, j := 0, len(rest)
			for k := 0; k < len(rest); k++ {
				if rest[k] == '(' {
					depth++
				} else if rest[k] == ')' {
					depth--
					if depth == 0 {
						j = k
						break
					}
				}
			}
			if !strings.Contains(rest[:j], "split ") {
				return true
			}
		}
	}
	return false
}

// ------------------------------------------------------------ oracle

// c19Judge applies the edit to the files and reads the property.  Returns
// "ok", "skip" or "FAIL <class> <detail>".
func c19Judge(fa c19Files, e c19Edit, top string, roundTrip bool) string {
	res := c19JudgeRaw(fa, e, top, roundTrip)
	if strings.HasPrefix(res, "FAIL ") {
		f := strings.SplitN(res, " ", 3)
		// the failure class names the input family, not the symptom, for the
		// two families recorded as known findings
		switch {
		case strings.Contains(f[1], "_wildcard_"):
			f[1] = f[1][:strings.Index(f[1], "_wildcard_")+len("_wildcard")]
		case strings.HasSuffix(f[1], "_map_loses_split"):
			f[1] = "map_loses_split"
		case strings.HasPrefix(f[1], "combo_stale_key"):
			f[1] = "combo_stale_key"
		}
		return strings.Join(f, " ")
	}
	return res
}

func c19JudgeRaw(fa c19Files, e c19Edit, top string, roundTrip bool) string {
	astA, err := c19Compile(fa)
	if err != nil {
		return "skip"
	}
	ga, err := c19Graph(astA)
	if err != nil {
		if os.Getenv("C19_VERBOSE") != "" {
			fmt.Fprintf(c19Stderr, "c19 oracle: no call graph for the original: %v\n", err)
		}
		return "skip"
	}
	tag := e.Kind
	if c19Wildcard(astA, e) {
		tag += "_wildcard"
	}
	usedOut := e.Kind == "remove_out" && c19OutputUsed(astA, e.Callable, e.Param, 0)
	onlyRenames := false
	c19Pairs = nil
	if e.Kind == "combo" {
		// the class names the combination: combo_rename_rename_out ...
		for _, sub := range e.Subs {
			tag += "_" + sub.Kind
		}
		if c19StaleKey(astA, e) {
			tag = "combo_stale_key"
		}
		// the parts are judged on the original program, under the names the
		// callables have there
		onlyRenames = true
		for _, sub := range e.Subs {
			orig := sub
			orig.Callable = e.original(sub.Callable)
			if c19Wildcard(astA, orig) && !strings.HasSuffix(tag, "_wildcard") {
				tag = sub.Kind + "_wildcard"
			}
			if sub.Kind == "remove_out" && c19OutputUsed(astA, orig.Callable, sub.Param, 0) {
				usedOut = true
			}
			switch sub.Kind {
			case "rename":
				c19Pairs = append(c19Pairs, [2]string{sub.Callable, sub.New})
			case "rename_in", "rename_out":
				c19Pairs = append(c19Pairs, [2]string{sub.Param, sub.New})
			default:
				onlyRenames = false
			}
		}
	}
	okTag := "ok"
	if strings.HasSuffix(tag, "_wildcard") {
		// the oracle cannot see a binding that silently changed to another
		// value of the same resolved content; the validator can
		okTag = "ok_wildcard " + tag
	}
	if usedOut {
		// outside the property: a used output cannot be removed without changing
		// what its consumers see; the edit must still not crash
		if _, status, detail := c19Apply(fa, e, top); status == "panic" {
			return fmt.Sprintf("FAIL %s_used_panic %s %s.%s: %.300s", tag, e.Kind, e.Callable, e.Param, detail)
		}
		return "skip"
	}
	fb, status, detail := c19Apply(fa, e, top)
	switch status {
	case "noedit":
		if strings.HasPrefix(e.Kind, "unused") {
			return "ok"
		}
		return fmt.Sprintf("FAIL %s_noedit Refactor returned no edit for %s %s.%s", tag, e.Kind, e.Callable, e.Param)
	case "referr", "applyerr", "panic", "origerr":
		return fmt.Sprintf("FAIL %s_%s %s %s.%s -> %s: %.300s", tag, status, e.Kind, e.Callable, e.Param, e.New, detail)
	}
	if c19MapWithoutSplit(fb) && !c19MapWithoutSplit(fa) {
		return fmt.Sprintf("FAIL %s_map_loses_split %s %s.%s: the removed input (directly or by cascade) was the only one a map call split over; the call is left as a map call with nothing to split", tag, e.Kind, e.Callable, e.Param)
	}
	astB, err := c19Compile(fb)
	if err != nil {
		return fmt.Sprintf("FAIL %s_nocompile %s %s.%s -> %s (%s): edited files do not compile: %.400s", tag,
			e.Kind, e.Callable, e.Param, e.New, e.Note, strings.Join(strings.Fields(err.Error()), " "))
	}
	gb, err := c19Graph(astB)
	if err != nil {
		return fmt.Sprintf("FAIL %s_nograph %s %s.%s: %.300s", tag, e.Kind, e.Callable, e.Param, err.Error())
	}
	if roundTrip {
		inv, _ := e.inverse()
		top2 := top
		if e.Kind == "rename" && e.Callable == top {
			top2 = e.New
		}
		fc, status, detail := c19Apply(fb, inv, top2)
		if status != "ok" {
			return fmt.Sprintf("FAIL %s_roundtrip_%s inverse of %s %s.%s -> %s: %.300s", tag, status, e.Kind, e.Callable, e.Param, e.New, detail)
		}
		astC, err := c19Compile(fc)
		if err != nil {
			return fmt.Sprintf("FAIL %s_roundtrip_nocompile %s %s.%s -> %s and back: %.400s", tag, e.Kind, e.Callable, e.Param, e.New,
				strings.Join(strings.Fields(err.Error()), " "))
		}
		gc, err := c19Graph(astC)
		if err != nil {
			return fmt.Sprintf("FAIL %s_roundtrip_nograph %.300s", tag, err.Error())
		}
		if d := c19SameRenamed(ga, gc, "", "", "$"); d != "" {
			return fmt.Sprintf("FAIL %s_roundtrip_differs %s %s.%s -> %s and back: call graph differs at %s", tag, e.Kind, e.Callable, e.Param, e.New, d)
		}
		return okTag
	}
	switch e.Kind {
	case "combo":
		// renames only: the call graph up to all of the renamed identifiers;
		// with a removal part the names of the nodes change as well, and the
		// composed comparison is left to the Coq validator (check_combo)
		if onlyRenames {
			if d := c19SameRenamed(ga, gb, "", "", "$"); d != "" {
				return fmt.Sprintf("FAIL %s_callgraph combined renames %s: call graph differs beyond the renaming at %s", tag, e.Callable, d)
			}
		}
	case "rename":
		if d := c19SameRenamed(ga, gb, e.Callable, e.New, "$"); d != "" {
			return fmt.Sprintf("FAIL %s_callgraph rename %s -> %s: call graph differs beyond the renaming at %s", tag, e.Callable, e.New, d)
		}
	case "rename_in", "rename_out":
		if d := c19SameRenamed(ga, gb, e.Param, e.New, "$"); d != "" {
			return fmt.Sprintf("FAIL %s_callgraph %s %s.%s -> %s: call graph differs beyond the renaming at %s", tag, e.Kind, e.Callable, e.Param, e.New, d)
		}
	default:
		if d := c19SameRemoved(ga, gb, e); d != "" {
			return fmt.Sprintf("FAIL %s_callgraph %s %s.%s: %s", tag, e.Kind, e.Callable, e.Param, d)
		}
	}
	return okTag
}

func c19Oracle(args []string) {
	c19Silence()
	defer c19Cleanup()
	progs := map[string]c19Files{}
	tops := map[string]string{}
	hx.Lines(os.Stdin, func(f []string) {
		switch f[0] {
		case "P":
			progs[f[1]] = c19Dec(f[2])
			tops[f[1]] = hx.U(f[4])
			fmt.Fprintln(hx.Out, "skip")
		case "E", "T":
			fmt.Fprintln(hx.Out, c19Judge(progs[f[1]], c19EditOf(f[2:7]), tops[f[1]], f[0] == "T"))
		default:
			fmt.Fprintln(hx.Out, "skip")
		}
	})
}

// ------------------------------------------------------------ show / try

func c19PrintFiles(title string, f c19Files) {
	for _, n := range c19FileNames(f) {
		fmt.Fprintf(hx.Out, "=== %s %s\n%s\n", title, n, f[n])
	}
}

// show: sources of the case lines on stdin (P lines, and the edited files of E/T lines)
func c19Show(args []string) {
	hx.Lines(os.Stdin, func(f []string) {
		switch f[0] {
		case "P":
			c19PrintFiles("original "+f[1], c19Dec(f[2]))
		case "E", "T":
			e := c19EditOf(f[2:7])
			fmt.Fprintf(hx.Out, "### %s prog %s: %s %s.%s -> %s (%s): %s\n", f[0], f[1], e.Kind, e.Callable, e.Param, e.New, e.Note, f[7])
			if f[8] != "-" {
				c19PrintFiles("edited", c19Dec(f[8]))
			}
		}
	})
}

// try <seed> <nprog>: statistics of the oracle over generated programs
func c19Try(args []string) {
	c19Silence()
	defer c19Cleanup()
	seed, _ := strconv.ParseUint(args[0], 10, 64)
	n, _ := strconv.Atoi(args[1])
	r := hx.NewRng(seed)
	counts := map[string]int{}
	first := map[string]string{}
	skipped := 0
	for i := 0; i < n; {
		p := c19GenProg(r)
		fa := p.render()
		if _, err := c19Compile(fa); err != nil {
			skipped++
			if len(args) > 2 && skipped < 4 {
				fmt.Fprintf(hx.Out, "NOCOMPILE %.600v\n", err)
				c19PrintFiles("bad", fa)
			}
			if skipped > 50*n+100 {
				break
			}
			continue
		}
		i++
		if os.Getenv("C19_TRACE") != "" {
			fmt.Fprintf(c19Stderr, "##### program %d\n", i)
			for _, nme := range c19FileNames(fa) {
				fmt.Fprintf(c19Stderr, "--- %s\n%s", nme, fa[nme])
			}
		}
		for _, e := range c19Edits(p) {
			for _, rt := range []bool{false, true} {
				if _, ok := e.inverse(); rt && (!ok || e.Note != "fresh") {
					continue
				}
				res := c19Judge(fa, e, p.Top.Dec, rt)
				key := strings.Join(strings.SplitN(res, " ", 3)[:min(2, len(strings.Fields(res)))], " ")
				counts[key]++
				if _, ok := first[key]; !ok && strings.HasPrefix(res, "FAIL") {
					fb, _, _ := c19Apply(fa, e, p.Top.Dec)
					var sb strings.Builder
					sb.WriteString(res + "\n")
					for _, nme := range c19FileNames(fa) {
						sb.WriteString("--- original " + nme + "\n" + fa[nme])
					}
					for _, nme := range c19FileNames(fb) {
						if fb[nme] != fa[nme] {
							sb.WriteString("--- edited " + nme + "\n" + fb[nme])
						}
					}
					first[key] = sb.String()
				}
			}
		}
	}
	keys := make([]string, 0, len(counts))
	for k := range counts {
		keys = append(keys, k)
	}
	sort.Strings(keys)
	fmt.Fprintf(hx.Out, "programs %d, skipped %d\n", n, skipped)
	for _, k := range keys {
		fmt.Fprintf(hx.Out, "%6d %s\n", counts[k], k)
	}
	if len(args) > 2 {
		for _, k := range keys {
			if s, ok := first[k]; ok && (args[2] == "all" || strings.Contains(k, args[2])) {
				fmt.Fprintf(hx.Out, "\n################ %s\n%s\n", k, s)
			}
		}
	}
}

// coq <cases> <model> <n>: a Coq file whose vm_compute evaluation lists the
// sampled cases on which the validator evaluated by the kernel differs from
// the extracted validator (the model output), i.e. cross-checks the
// extraction, and counts the verdicts.
func c19Coq(args []string) {
	c19Silence()
	defer c19Cleanup()
	cases, _ := os.ReadFile(args[0])
	model, _ := os.ReadFile(args[1])
	n, _ := strconv.Atoi(args[2])
	cl := strings.Split(strings.TrimSpace(string(cases)), "\n")
	ml := strings.Split(strings.TrimSpace(string(model)), "\n")
	var idx []int
	for i, c := range cl {
		if (strings.HasPrefix(c, "E ") || strings.HasPrefix(c, "T ")) && i < len(ml) && !strings.HasSuffix(ml[i], " -") {
			idx = append(idx, i)
		}
	}
	if n < len(idx) && n > 0 {
		var pick []int
		for k := 0; k < n; k++ {
			pick = append(pick, idx[k*len(idx)/n])
		}
		idx = pick
	}
	w := hx.Out
	fmt.Fprintln(w, "From Coq Require Import String.\nFrom Martian Require Import Lib.Bytes Mro.Ast K.Refactor.\nOpen Scope string_scope.")
	progs := map[string]c19Files{}
	for _, c := range cl {
		if strings.HasPrefix(c, "P ") {
			f := strings.Split(c, " ")
			progs[f[1]] = c19Dec(f[2])
		}
	}
	done := map[string]bool{}
	bq := func(s string) string {
		if s == "" {
			return "(@nil byte)"
		}
		return fmt.Sprintf("(unhex \"%x\")", s)
	}
	var rows []string
	for _, i := range idx {
		f := strings.Split(cl[i], " ")
		if !done[f[1]] {
			a, err := c19Compile(progs[f[1]])
			if err != nil {
				continue
			}
			fmt.Fprintf(w, "Definition prog%s : ast := %s.\n", f[1], astdump.Ast(a).Coq())
			done[f[1]] = true
		}
		b, err := c19Compile(c19Dec(f[8]))
		if err != nil {
			continue
		}
		e := c19EditOf(f[2:7])
		fmt.Fprintf(w, "Definition after%d : ast := %s.\n", i, astdump.Ast(b).Coq())
		var call string
		switch {
		case f[0] == "T":
			call = fmt.Sprintf("check_roundtrip prog%s after%d", f[1], i)
		case e.Kind == "combo":
			var es []string
			rm := "false"
			for _, sub := range e.Subs {
				switch sub.Kind {
				case "rename":
					es = append(es, fmt.Sprintf("RenameCallable %s %s", bq(sub.Callable), bq(sub.New)))
				case "rename_in":
					es = append(es, fmt.Sprintf("RenameInput %s %s %s", bq(sub.Callable), bq(sub.Param), bq(sub.New)))
				case "rename_out":
					es = append(es, fmt.Sprintf("RenameOutput %s %s %s", bq(sub.Callable), bq(sub.Param), bq(sub.New)))
				default:
					rm = "true"
				}
			}
			call = fmt.Sprintf("check_combo [%s] %s prog%s after%d", strings.Join(es, "; "), rm, f[1], i)
		case e.Kind == "rename":
			call = fmt.Sprintf("check_rename (RenameCallable %s %s) prog%s after%d", bq(e.Callable), bq(e.New), f[1], i)
		case e.Kind == "rename_in":
			call = fmt.Sprintf("check_rename (RenameInput %s %s %s) prog%s after%d", bq(e.Callable), bq(e.Param), bq(e.New), f[1], i)
		case e.Kind == "rename_out":
			call = fmt.Sprintf("check_rename (RenameOutput %s %s %s) prog%s after%d", bq(e.Callable), bq(e.Param), bq(e.New), f[1], i)
		default:
			call = fmt.Sprintf("check_removal prog%s after%d", f[1], i)
		}
		exp := strings.Fields(ml[i])[1]
		rows = append(rows, fmt.Sprintf("(%d%%N, %s, %s%%N)", i, call, exp))
	}
	fmt.Fprintf(w, "Definition rows : list (N * N * N) := [\n%s].\n", strings.Join(rows, ";\n"))
	fmt.Fprintln(w, `Definition M := Eval vm_compute in (map (fun r => fst (fst r)) (filter (fun r => negb (N.eqb (snd (fst r)) (snd r))) rows)).
Print M.
Definition COUNT := Eval vm_compute in (length rows, length (filter (fun r => N.eqb (snd r) 0) rows)).
Print COUNT.`)
}
