package main

// C10 - compilation, formatting and call-graph resolution are deterministic.
//
// Case kinds (one per line):
//
//	e <prefix> <exp tokens...>     a value expression with its map/struct entries in a random
//	                               insertion order; impl = FormatExp + EncodeJSON of the parsed
//	                               expression, model = K.Determinism.format / encode_json
//	l <n> (<key> <rawjson|~>)*     a core.LazyArgumentMap; impl = EncodeJSON, model = encode_lazy_args
//	f <program> <ndims> <dims...>  nested map calls over static splits; impl = ForkIdSet.MakeForkIds
//	                               on the innermost stage, model = make_fork_ids
//	p <name> <program>             a whole MRO program (valid, or with several errors at once);
//	                               no model - the oracle compiles / formats / call-graphs /
//	                               fork-enumerates it repeatedly and compares bytes
//
// The oracle repeats every observation c10Reps times in one process; `vh c10
// digest` prints one digest per case and is run in several fresh processes by
// the check.

import (
	"bytes"
	"crypto/sha256"
	"encoding/hex"
	"encoding/json"
	"fmt"
	"os"
	"sort"
	"strconv"
	"strings"

	"github.com/martian-lang/martian/martian/core"
	"github.com/martian-lang/martian/martian/syntax"
	"verifharness/internal/hx"
)

func init() {
	props["c10"] = &propCmd{gen: c10Gen, impl: c10Impl, oracle: c10Oracle,
		extra: map[string]func([]string){
			"inventory": c10Inventory,
			"digest":    c10Digest,
			"show":      c10Show,
		}}
}

const c10Reps = 20

// ---------------------------------------------------------------- expressions

type gexp struct {
	k    byte // N T F I D S R P A M
	i    int64
	f    float64
	s    string
	self bool
	id   string
	out  string
	sub  []*gexp  // P: 1 element; A: elements; M: values
	keys []string // M
	st   bool     // M: struct literal
}

var c10Idents = []string{"a", "b", "bb", "ccc", "x1", "y_2", "long_field_name", "Z", "k", "value", "n0", "n1", "n2", "n3",
	"alpha", "beta", "gamma", "delta", "e", "f", "g", "h", "i", "j", "kk", "l", "m", "nn", "o", "p", "q", "r", "s", "t", "u", "v", "w",
	"x", "y", "z", "aa", "ab", "ac", "ad", "ae", "af", "ag", "ah", "ai", "aj"}

var c10KeyPieces = []string{"a", "b", "k", "10", "2", "Z", "_", " ", "\"", "\\", "/", "é", " ", "\U0001F600", "\n", "\t", "\x01", "\x7f", "<", "&", ">", "key", "A", "-", ".", "日本"}

func c10RandKey(r *hx.Rng) string {
	n := 1 + r.Intn(4)
	var sb strings.Builder
	for i := 0; i < n; i++ {
		sb.WriteString(hx.Pick(r, c10KeyPieces))
	}
	return sb.String()
}

func c10RandStr(r *hx.Rng) string {
	n := r.Intn(5)
	var sb strings.Builder
	for i := 0; i < n; i++ {
		sb.WriteString(hx.Pick(r, c10KeyPieces))
	}
	return sb.String()
}

var c10Floats = []float64{0.5, 1.5, -2.25, 1e30, 1e-7, 3.0, 100000.0, 0.1, 123456.789, -0.0}

func c10Leaf(r *hx.Rng, refs bool) *gexp {
	n := 6
	if refs {
		n = 8
	}
	switch r.Intn(n) {
	case 0:
		return &gexp{k: 'N'}
	case 1:
		if r.Bool() {
			return &gexp{k: 'T'}
		}
		return &gexp{k: 'F'}
	case 2:
		v := int64(r.Intn(2000)) - 1000
		if r.Intn(8) == 0 {
			v = int64(r.Next() >> 1)
			if r.Bool() {
				v = -v
			}
		}
		return &gexp{k: 'I', i: v}
	case 3:
		return &gexp{k: 'D', f: hx.Pick(r, c10Floats)}
	case 4, 5:
		return &gexp{k: 'S', s: c10RandStr(r)}
	default:
		// ParseValExp accepts only self references
		e := &gexp{k: 'R', self: true, id: hx.Pick(r, c10Idents), out: ""}
		if r.Bool() {
			e.out = hx.Pick(r, c10Idents)
		}
		return e
	}
}

// c10RandExp: depth-bounded; maxw = maximum number of entries of one literal.
func c10RandExp(r *hx.Rng, depth, maxw int, refs bool) *gexp {
	if depth <= 0 || r.Intn(4) == 0 {
		return c10Leaf(r, refs)
	}
	switch r.Intn(5) {
	case 0:
		n := r.Intn(4)
		e := &gexp{k: 'A'}
		for i := 0; i < n; i++ {
			e.sub = append(e.sub, c10RandExp(r, depth-1, maxw/2+1, refs))
		}
		return e
	default:
		st := r.Bool()
		n := r.Intn(maxw + 1)
		e := &gexp{k: 'M', st: st}
		seen := map[string]bool{}
		for i := 0; i < n; i++ {
			var k string
			if st {
				k = hx.Pick(r, c10Idents)
			} else {
				k = c10RandKey(r)
			}
			if seen[k] {
				continue
			}
			seen[k] = true
			e.keys = append(e.keys, k)
			e.sub = append(e.sub, c10RandExp(r, depth-1, maxw/2+1, refs))
		}
		return e
	}
}

func c10FloatText(f float64) string { return strconv.FormatFloat(f, 'g', -1, 64) }

func (e *gexp) tokens(out []string) []string {
	switch e.k {
	case 'N', 'T', 'F':
		return append(out, string(e.k))
	case 'I':
		return append(out, "I", strconv.FormatInt(e.i, 10))
	case 'D':
		return append(out, "D", hx.H(c10FloatText(e.f)))
	case 'S':
		return append(out, "S", hx.H(e.s))
	case 'R':
		k := "c"
		if e.self {
			k = "s"
		}
		return append(out, "R", k, hx.H(e.id), hx.H(e.out))
	case 'P':
		return e.sub[0].tokens(append(out, "P"))
	case 'A':
		out = append(out, "A", strconv.Itoa(len(e.sub)))
		for _, s := range e.sub {
			out = s.tokens(out)
		}
		return out
	case 'M':
		k := "m"
		if e.st {
			k = "s"
		}
		out = append(out, "M", k, strconv.Itoa(len(e.sub)))
		for i, s := range e.sub {
			out = append(out, hx.H(e.keys[i]))
			out = s.tokens(out)
		}
		return out
	}
	panic("bad gexp")
}

func c10ParseTokens(f []string, pos *int) *gexp {
	t := f[*pos]
	*pos++
	switch t {
	case "N", "T", "F":
		return &gexp{k: t[0]}
	case "I":
		v, _ := strconv.ParseInt(f[*pos], 10, 64)
		*pos++
		return &gexp{k: 'I', i: v}
	case "D":
		v, _ := strconv.ParseFloat(hx.U(f[*pos]), 64)
		*pos++
		return &gexp{k: 'D', f: v}
	case "S":
		s := hx.U(f[*pos])
		*pos++
		return &gexp{k: 'S', s: s}
	case "R":
		e := &gexp{k: 'R', self: f[*pos] == "s", id: hx.U(f[*pos+1]), out: hx.U(f[*pos+2])}
		*pos += 3
		return e
	case "P":
		return &gexp{k: 'P', sub: []*gexp{c10ParseTokens(f, pos)}}
	case "A":
		n, _ := strconv.Atoi(f[*pos])
		*pos++
		e := &gexp{k: 'A'}
		for i := 0; i < n; i++ {
			e.sub = append(e.sub, c10ParseTokens(f, pos))
		}
		return e
	case "M":
		e := &gexp{k: 'M', st: f[*pos] == "s"}
		n, _ := strconv.Atoi(f[*pos+1])
		*pos += 2
		for i := 0; i < n; i++ {
			e.keys = append(e.keys, hx.U(f[*pos]))
			*pos++
			e.sub = append(e.sub, c10ParseTokens(f, pos))
		}
		return e
	}
	panic("bad token " + t)
}

// mroString writes an MRO string literal for s (escapes the lexer understands).
func mroString(sb *strings.Builder, s string) {
	sb.WriteByte('"')
	for i := 0; i < len(s); i++ {
		c := s[i]
		switch {
		case c == '"' || c == '\\':
			sb.WriteByte('\\')
			sb.WriteByte(c)
		case c == '\n':
			sb.WriteString(`\n`)
		case c == '\t':
			sb.WriteString(`\t`)
		case c == '\r':
			sb.WriteString(`\r`)
		case c < 0x20:
			fmt.Fprintf(sb, `\u%04x`, c)
		default:
			sb.WriteByte(c)
		}
	}
	sb.WriteByte('"')
}

// src renders the expression as MRO source, entries in insertion order.
func (e *gexp) src(sb *strings.Builder) {
	switch e.k {
	case 'N':
		sb.WriteString("null")
	case 'T':
		sb.WriteString("true")
	case 'F':
		sb.WriteString("false")
	case 'I':
		sb.WriteString(strconv.FormatInt(e.i, 10))
	case 'D':
		t := c10FloatText(e.f)
		if !strings.ContainsAny(t, ".eE") {
			t += ".0"
		}
		sb.WriteString(t)
	case 'S':
		mroString(sb, e.s)
	case 'R':
		if e.self {
			sb.WriteString("self." + e.id)
		} else {
			sb.WriteString(e.id)
		}
		if e.out != "" {
			sb.WriteString("." + e.out)
		}
	case 'P':
		sb.WriteString("split ")
		e.sub[0].src(sb)
	case 'A':
		sb.WriteString("[")
		for i, s := range e.sub {
			if i > 0 {
				sb.WriteString(", ")
			}
			s.src(sb)
		}
		sb.WriteString("]")
	case 'M':
		sb.WriteString("{")
		for i, s := range e.sub {
			if i > 0 {
				sb.WriteString(", ")
			}
			if e.st {
				sb.WriteString(e.keys[i])
			} else {
				mroString(sb, e.keys[i])
			}
			sb.WriteString(": ")
			s.src(sb)
		}
		sb.WriteString("}")
	}
}

// sameShape: the parsed expression is the generated one (so that a parser
// matter is not mistaken for a C10 matter).
func (e *gexp) sameShape(x syntax.Exp) bool {
	switch v := x.(type) {
	case *syntax.NullExp:
		return e.k == 'N'
	case *syntax.BoolExp:
		return (e.k == 'T' && v.Value) || (e.k == 'F' && !v.Value)
	case *syntax.IntExp:
		return e.k == 'I' && v.Value == e.i
	case *syntax.FloatExp:
		return e.k == 'D' && c10FloatText(v.Value) == c10FloatText(e.f)
	case *syntax.StringExp:
		return e.k == 'S' && v.Value == e.s
	case *syntax.RefExp:
		return e.k == 'R' && (v.Kind == syntax.KindSelf) == e.self && v.Id == e.id && v.OutputId == e.out
	case *syntax.SplitExp:
		return e.k == 'P' && e.sub[0].sameShape(v.Value)
	case *syntax.ArrayExp:
		if e.k != 'A' || len(v.Value) != len(e.sub) {
			return false
		}
		for i, s := range e.sub {
			if !s.sameShape(v.Value[i]) {
				return false
			}
		}
		return true
	case *syntax.MapExp:
		if e.k != 'M' || len(v.Value) != len(e.sub) || (len(e.sub) > 0 && (v.Kind == syntax.KindStruct) != e.st) {
			return false
		}
		for i, s := range e.sub {
			c, ok := v.Value[e.keys[i]]
			if !ok || !s.sameShape(c) {
				return false
			}
		}
		return true
	}
	return false
}

func c10ExpObserve(f []string) (string, string, error) {
	prefix := hx.U(f[1])
	pos := 2
	g := c10ParseTokens(f, &pos)
	var sb strings.Builder
	g.src(&sb)
	var p syntax.Parser
	e, err := p.ParseValExp([]byte(sb.String()))
	if err != nil {
		return "", "", fmt.Errorf("parse: %v", err)
	}
	if !g.sameShape(e) {
		return "", "", fmt.Errorf("parsed expression differs from the generated one")
	}
	txt := syntax.FormatExp(e, prefix)
	var buf bytes.Buffer
	if jw, ok := e.(syntax.JsonWriter); ok {
		if err := jw.EncodeJSON(&buf); err != nil {
			return "", "", err
		}
	} else {
		b, err := json.Marshal(e)
		if err != nil {
			return "", "", err
		}
		buf.Write(b)
	}
	// MarshalJSON must agree with EncodeJSON
	if b, err := json.Marshal(e); err != nil {
		return "", "", err
	} else {
		var c bytes.Buffer
		if err := json.Compact(&c, b); err == nil && c.String() != buf.String() && !strings.ContainsAny(buf.String(), "<>&  ") {
			return txt, buf.String() + "\x00MARSHAL-DIFFERS\x00" + c.String(), nil
		}
	}
	return txt, buf.String(), nil
}

// ---------------------------------------------------------------- lazy argument maps

func c10RandRaw(r *hx.Rng) string {
	switch r.Intn(6) {
	case 0:
		return "null"
	case 1:
		return strconv.Itoa(r.Intn(1000) - 500)
	case 2:
		return `"` + hx.Pick(r, c10Idents) + `"`
	case 3:
		return `[1,2,{"z":1,"a":2}]`
	case 4:
		return `{"b":1,"a":[true,false]}`
	default:
		return "1.5e+30"
	}
}

func c10LazyObserve(f []string) (string, error) {
	n, _ := strconv.Atoi(f[1])
	m := make(core.LazyArgumentMap, n)
	mm := make(core.MarshalerMap, n)
	for i := 0; i < n; i++ {
		k := hx.U(f[2+2*i])
		if f[3+2*i] == "~" {
			m[k] = nil
			mm[k] = nil
		} else {
			m[k] = json.RawMessage(hx.U(f[3+2*i]))
			mm[k] = json.RawMessage(hx.U(f[3+2*i]))
		}
	}
	var buf, buf2 bytes.Buffer
	if err := m.EncodeJSON(&buf); err != nil {
		return "", err
	}
	if err := mm.EncodeJSON(&buf2); err != nil {
		return "", err
	}
	if buf.String() != buf2.String() {
		return buf.String() + "\x00MARSHALERMAP-DIFFERS\x00" + buf2.String(), nil
	}
	return buf.String(), nil
}

// ---------------------------------------------------------------- fork ids

type c10Dim struct {
	arr  int      // >= 0: array of that length
	keys []string // arr < 0: map keys, insertion order
}

// c10ForkProgram: nested pipelines, one map call per level, each splitting a
// literal; the innermost call is a stage.  dims[0] is the outermost call.
func c10ForkProgram(dims []c10Dim) string {
	var sb strings.Builder
	sb.WriteString("stage LEAF(\n    in  int v0,\n")
	for i := 1; i < len(dims); i++ {
		fmt.Fprintf(&sb, "    in  int v%d,\n", i)
	}
	sb.WriteString("    out int o,\n    src comp \"leaf\",\n)\n\n")
	n := len(dims)
	// level i (0 = outermost pipeline P0 ... ) P_{n-1} calls LEAF
	for lvl := n - 1; lvl >= 1; lvl-- {
		// pipeline P<lvl> takes v0..v<lvl-1> as scalars and maps over its own literal
		fmt.Fprintf(&sb, "pipeline P%d(\n", lvl)
		for i := 0; i < lvl; i++ {
			fmt.Fprintf(&sb, "    in  int v%d,\n", i)
		}
		sb.WriteString(")\n{\n")
		callee := "LEAF"
		if lvl < n-1 {
			callee = fmt.Sprintf("P%d", lvl+1)
		}
		fmt.Fprintf(&sb, "    map call %s(\n", callee)
		for i := 0; i < lvl; i++ {
			fmt.Fprintf(&sb, "        v%d = self.v%d,\n", i, i)
		}
		fmt.Fprintf(&sb, "        v%d = split %s,\n    )\n\n    return ()\n}\n\n", lvl, c10DimLiteral(dims[lvl]))
	}
	callee := "LEAF"
	if n > 1 {
		callee = "P1"
	}
	// the top-level call is a pipeline call (MakePipelineCallGraph does not
	// resolve the outputs of a directly mapped top-level stage call)
	fmt.Fprintf(&sb, "pipeline P0(\n    in  int unit,\n    out int unit,\n)\n{\n    map call %s(\n        v0 = split %s,\n    )\n\n    return (\n        unit = self.unit,\n    )\n}\n\ncall P0(\n    unit = 1,\n)\n",
		callee, c10DimLiteral(dims[0]))
	return sb.String()
}

func c10DimLiteral(d c10Dim) string {
	var sb strings.Builder
	if d.arr >= 0 {
		sb.WriteString("[")
		for i := 0; i < d.arr; i++ {
			fmt.Fprintf(&sb, "%d,", i+1)
		}
		sb.WriteString("]")
	} else {
		sb.WriteString("{")
		for i, k := range d.keys {
			mroString(&sb, k)
			fmt.Fprintf(&sb, ": %d,", i+1)
		}
		sb.WriteString("}")
	}
	return sb.String()
}

func c10FindLeaf(n syntax.CallGraphNode) syntax.CallGraphNode {
	if n.Kind() == syntax.KindStage {
		return n
	}
	for _, c := range n.GetChildren() {
		if l := c10FindLeaf(c); l != nil {
			return l
		}
	}
	return nil
}

func c10ForkIdsOf(node syntax.CallGraphNode, lookup *syntax.TypeLookup) string {
	var ids core.ForkIdSet
	ids.MakeForkIds(node.ForkRoots(), lookup)
	parts := make([]string, 0, len(ids.List))
	for _, id := range ids.List {
		ps := make([]string, 0, len(id))
		for _, p := range id {
			if p == nil || p.Id == nil {
				ps = append(ps, "?")
				continue
			}
			if p.Id.IndexSource() != nil {
				ps = append(ps, "u")
				continue
			}
			switch p.Id.Mode() {
			case syntax.ModeArrayCall:
				ps = append(ps, "i"+strconv.Itoa(p.Id.ArrayIndex()))
			case syntax.ModeMapCall:
				ps = append(ps, "k"+hx.H(p.Id.MapKey()))
			default:
				ps = append(ps, "?")
			}
		}
		s, err := id.ForkIdString()
		if err != nil {
			s = "ERR"
		}
		parts = append(parts, strings.Join(ps, ",")+"="+hx.H(s))
	}
	return strings.Join(parts, ";")
}

// the model's projection: parts only (the id strings are C11's matter)
func c10StripIdStrings(s string) string {
	if s == "" {
		return "-"
	}
	ids := strings.Split(s, ";")
	for i, id := range ids {
		if j := strings.IndexByte(id, '='); j >= 0 {
			ids[i] = id[:j]
		}
	}
	return strings.Join(ids, ";")
}

func c10ForkObserve(f []string) (string, error) {
	src := hx.U(f[1])
	_, _, ast, err := syntax.ParseSourceBytes([]byte(src), "fork.mro", nil, false)
	if err != nil {
		return "", fmt.Errorf("compile: %v", err)
	}
	graph, err := ast.MakePipelineCallGraph("", ast.Call)
	if err != nil {
		return "", fmt.Errorf("callgraph: %v", err)
	}
	leaf := c10FindLeaf(graph)
	if leaf == nil {
		return "", fmt.Errorf("no leaf")
	}
	return c10ForkIdsOf(leaf, &ast.TypeTable), nil
}

// ---------------------------------------------------------------- programs

// c10Compile: everything the property lists as an observable of one program.
// Returns named observations (name -> bytes).
func c10Compile(name, src string) [][2]string {
	var obs [][2]string
	add := func(k, v string) { obs = append(obs, [2]string{k, v}) }
	fname := name + ".mro"
	// formatting (does not need the program to compile)
	if txt, err := syntax.Format(src, fname, false, nil); err != nil {
		add("format_error", err.Error())
	} else {
		add("format", txt)
	}
	_, _, ast, err := syntax.ParseSourceBytes([]byte(src), fname, nil, false)
	if err != nil {
		add("compile_error", err.Error())
		return obs
	}
	add("ast_format", ast.Format())
	if ast.Call == nil {
		return obs
	}
	graph, err := ast.MakeCallGraph("", ast.Call)
	if err != nil {
		add("callgraph_error", err.Error())
		if graph == nil {
			return obs
		}
	}
	if b, jerr := json.Marshal(graph); jerr != nil {
		add("callgraph_json_error", jerr.Error())
	} else {
		add("callgraph_json", string(b))
	}
	// fork ids of every stage node, in fqid order
	closure := graph.NodeClosure()
	fqids := make([]string, 0, len(closure))
	for k := range closure {
		fqids = append(fqids, k)
	}
	sort.Strings(fqids)
	var fb strings.Builder
	func() {
		defer func() {
			if r := recover(); r != nil {
				fmt.Fprintf(&fb, "PANIC %v", r)
			}
		}()
		for _, k := range fqids {
			n := closure[k]
			if n.Kind() != syntax.KindStage {
				continue
			}
			fmt.Fprintf(&fb, "%s: %s\n", k, c10ForkIdsOf(n, &ast.TypeTable))
		}
	}()
	add("fork_ids", fb.String())
	// resolved argument bindings per node (what is recorded per fork invocation)
	var ib strings.Builder
	for _, k := range fqids {
		n := closure[k]
		if b, err := json.Marshal(n.ResolvedInputs()); err == nil {
			fmt.Fprintf(&ib, "%s: %s\n", k, b)
		} else {
			fmt.Fprintf(&ib, "%s: ERR %v\n", k, err)
		}
	}
	add("resolved_inputs", ib.String())
	return obs
}

func c10ObsDigest(obs [][2]string) string {
	h := sha256.New()
	for _, o := range obs {
		fmt.Fprintf(h, "%s\x00%d\x00%s\x00", o[0], len(o[1]), o[1])
	}
	return hex.EncodeToString(h.Sum(nil)[:12])
}

// slug: a short class suffix naming the message family (digits and quoted
// text removed), so that known findings stay narrow.
func c10Slug(a, b string) string {
	la, lb := strings.Split(a, "\n"), strings.Split(b, "\n")
	line := ""
	for i := 0; i < len(la) && i < len(lb); i++ {
		if la[i] != lb[i] {
			line = la[i]
			// a differing location line belongs to the message before it
			for j := i; j > 0 && strings.HasPrefix(strings.TrimSpace(line), "at "); j-- {
				line = la[j-1]
			}
			break
		}
	}
	if line == "" && len(la) > 0 {
		line = la[len(la)-1]
	}
	line = strings.TrimSpace(line)
	for _, fam := range []string{"map key missing", "map key", "split key", "unexpected field", "key", "element", "field",
		"CyclicDependencyError", "Could not find a definition"} {
		if strings.HasPrefix(line, fam) || strings.HasPrefix(line, "Cause: "+fam) {
			return strings.ToLower(strings.ReplaceAll(fam, " ", "_"))
		}
	}
	var sb strings.Builder
	inq := false
	words := 0
	prevU := true
	for _, c := range line {
		if c == '"' || c == '\'' {
			inq = !inq
			continue
		}
		if inq {
			continue
		}
		if (c >= 'a' && c <= 'z') || (c >= 'A' && c <= 'Z') {
			sb.WriteRune(c | 0x20)
			prevU = false
		} else if !prevU {
			words++
			if words >= 4 {
				break
			}
			sb.WriteByte('_')
			prevU = true
		}
	}
	return strings.Trim(sb.String(), "_")
}

// ---------------------------------------------------------------- gen / impl / oracle

func c10Gen(tier string, r *hx.Rng) {
	w := hx.Out
	thorough := tier == "thorough"
	// e: expressions
	ne := 1500
	if thorough {
		ne = 20000
	}
	prefixes := []string{"", "    ", "\t", "  # "}
	for i := 0; i < ne; i++ {
		depth := 1 + r.Intn(4)
		maxw := 2 + r.Intn(12)
		if i%10 == 0 {
			maxw = 40
			depth = 2
		}
		refs := i%3 == 0
		e := c10RandExp(r, depth, maxw, refs)
		if e.k != 'M' && e.k != 'A' && (e.k == 'R' || r.Intn(3) != 0) {
			// make sure most cases have a literal at the top
			e = &gexp{k: 'M', st: false, keys: []string{"k"}, sub: []*gexp{e}}
		}
		fmt.Fprintf(w, "e %s %s\n", hx.H(hx.Pick(r, prefixes)), strings.Join(e.tokens(nil), " "))
	}
	// l: lazy argument maps
	nl := 400
	if thorough {
		nl = 5000
	}
	for i := 0; i < nl; i++ {
		n := r.Intn(12)
		if i%10 == 0 {
			n = 30 + r.Intn(30)
		}
		seen := map[string]bool{}
		var parts []string
		for j := 0; j < n; j++ {
			k := c10RandKey(r)
			if r.Bool() {
				k = hx.Pick(r, c10Idents)
			}
			if seen[k] {
				continue
			}
			seen[k] = true
			v := "~"
			if r.Intn(6) != 0 {
				v = hx.H(c10RandRaw(r))
			}
			parts = append(parts, hx.H(k), v)
		}
		fmt.Fprintf(w, "l %d %s\n", len(parts)/2, strings.Join(parts, " "))
	}
	// f: fork ids
	nf := 120
	if thorough {
		nf = 1500
	}
	for i := 0; i < nf; i++ {
		nd := 1 + r.Intn(3)
		dims := make([]c10Dim, nd)
		var toks []string
		for d := range dims {
			if r.Bool() {
				dims[d] = c10Dim{arr: 1 + r.Intn(4)}
				toks = append(toks, "a", strconv.Itoa(dims[d].arr))
			} else {
				n := 1 + r.Intn(5)
				if i%7 == 0 {
					n = 8 + r.Intn(8)
				}
				seen := map[string]bool{}
				var ks []string
				for len(ks) < n {
					k := c10RandKey(r)
					if !seen[k] {
						seen[k] = true
						ks = append(ks, k)
					}
				}
				dims[d] = c10Dim{arr: -1, keys: ks}
				toks = append(toks, "m", strconv.Itoa(n))
				for _, k := range ks {
					toks = append(toks, hx.H(k))
				}
			}
		}
		fmt.Fprintf(w, "f %s %d %s\n", hx.H(c10ForkProgram(dims)), nd, strings.Join(toks, " "))
	}
	// p: whole programs
	c10GenPrograms(tier, r, func(name, src string) {
		fmt.Fprintf(w, "p %s %s\n", hx.H(name), hx.H(src))
	})
}

func c10Observe(f []string) string {
	switch f[0] {
	case "e":
		txt, js, err := c10ExpObserve(f)
		if err != nil {
			return "SKIP " + hx.H(err.Error())
		}
		return hx.H(txt) + " " + hx.H(js)
	case "l":
		s, err := c10LazyObserve(f)
		if err != nil {
			return "SKIP " + hx.H(err.Error())
		}
		return hx.H(s)
	case "f":
		s, err := c10ForkObserve(f)
		if err != nil {
			return "SKIP " + hx.H(err.Error())
		}
		return s
	case "p":
		return c10ObsDigest(c10Compile(hx.U(f[1]), hx.U(f[2])))
	}
	return "?"
}

func c10Impl(args []string) {
	hx.Lines(os.Stdin, func(f []string) {
		o := c10Observe(f)
		if f[0] == "f" && !strings.HasPrefix(o, "SKIP") {
			o = c10StripIdStrings(o)
		}
		if f[0] == "p" {
			o = "-"
		}
		fmt.Fprintln(hx.Out, o)
	})
}

// digest: one line per case, the digest of everything observed once; run in
// fresh processes by the check (cross-process determinism).
func c10Digest(args []string) {
	hx.Lines(os.Stdin, func(f []string) {
		h := sha256.Sum256([]byte(c10Observe(f)))
		fmt.Fprintln(hx.Out, hex.EncodeToString(h[:10]))
	})
}

// show: print the observations of one program case (for replays)
func c10Show(args []string) {
	hx.Lines(os.Stdin, func(f []string) {
		if f[0] != "p" {
			fmt.Fprintln(hx.Out, c10Observe(f))
			return
		}
		for _, o := range c10Compile(hx.U(f[1]), hx.U(f[2])) {
			fmt.Fprintf(hx.Out, "== %s\n%s\n", o[0], o[1])
		}
	})
}

func c10Oracle(args []string) {
	reps := c10Reps
	hx.Lines(os.Stdin, func(f []string) {
		if f[0] != "p" {
			first := c10Observe(f)
			if strings.HasPrefix(first, "SKIP") {
				fmt.Fprintln(hx.Out, "skip")
				return
			}
			for i := 1; i < reps; i++ {
				if o := c10Observe(f); o != first {
					kind := map[string]string{"e": "nondet_exp_format_or_json", "l": "nondet_argument_map_json", "f": "nondet_fork_ids"}[f[0]]
					fmt.Fprintf(hx.Out, "FAIL %s run0=%s run%d=%s\n", kind, first, i, o)
					return
				}
			}
			if strings.Contains(first, hx.H("\x00MARSHAL")) {
				fmt.Fprintf(hx.Out, "FAIL marshal_vs_encode_differ %s\n", first)
				return
			}
			fmt.Fprintln(hx.Out, "ok")
			return
		}
		name, src := hx.U(f[1]), hx.U(f[2])
		first := c10Compile(name, src)
		for i := 1; i < reps; i++ {
			o := c10Compile(name, src)
			if len(o) != len(first) {
				fmt.Fprintf(hx.Out, "FAIL nondet_observation_set run0=%d observations run%d=%d\n", len(first), i, len(o))
				return
			}
			for j := range o {
				if o[j] != first[j] {
					cls := "nondet_" + first[j][0]
					if o[j][0] != first[j][0] {
						cls = "nondet_outcome_kind"
					} else if strings.HasSuffix(first[j][0], "_error") {
						cls += ":" + c10Slug(first[j][1], o[j][1])
					}
					fmt.Fprintf(hx.Out, "FAIL %s %s run0=%s run%d=%s\n", cls, first[j][0], hx.H(first[j][1]), i, hx.H(o[j][1]))
					return
				}
			}
		}
		fmt.Fprintln(hx.Out, "ok")
	})
}
