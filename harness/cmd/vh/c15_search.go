package main

// C15 - search for a PROPERTY-LEVEL failing input when the implementation and
// the model disagree on a correspondence case.
//
//	vh c15 search      stdin: "<impl T/F> <impl T/F> <model T/F> <model T/F> <case line>"
//
// From the case a pair of complete programs (original, edited) is built: the
// two program texts of an Ast pair, or - for a literal pair - an invocation
// whose library pipeline binds the literal to a stage parameter.  The
// property is then decided on the implementation alone:
//   meaning  = a digest of the resolved call graph martian builds from each
//              program (node ids, resolved argument values as exact JSON,
//              disabled expressions, split/local/preflight, parameter names
//              and types with file-type names erased);
//   decision = newAst.EquivalentCall(oldAst), the call
//              Runtime.reattachToPipestance makes.
// A pair whose meaning differs but is accepted, or whose meaning is the same
// but is refused, is printed as
//   FOUND <class> <hex json: original, edited, decision, meaning_changed, diff>
// Also: two catalogue edits that need a prepared original.

import (
	"encoding/json"
	"fmt"
	"math"
	"os"
	"sort"
	"strconv"
	"strings"

	"github.com/martian-lang/martian/martian/syntax"
	"verifharness/internal/hx"
)

// edits that need a prepared original (appended to the catalogue by c15.go)
func c15MoreEdits() []c15Edit {
	c15EditPre["callee_retargeted_behind_alias"] = func(p *c15Prog, r *hx.Rng) bool {
		alt := p.clone().Stages[0]
		alt.Name = "STAGE_0_ALT"
		alt.Src = "stages/alt"
		alt.Split = !alt.Split
		alt.ChunkIns, alt.ChunkOuts = nil, nil
		if alt.Split {
			alt.ChunkIns = []c15Param{{Name: "chunk", T: c15Type{Base: "int"}}}
		}
		alt.Outs = append(alt.Outs, c15Param{Name: "alt_extra", T: c15Type{Base: "int"}})
		p.Stages = append(p.Stages, alt)
		for i := range p.Pipes {
			for j := range p.Pipes[i].Calls {
				if c := &p.Pipes[i].Calls[j]; c.Dec == "STAGE_0" && c.Alias == "" {
					c15RenameCall(&p.Pipes[i], c, "S0_RUN")
				}
			}
		}
		return true
	}
	return []c15Edit{
		{"s", "callee_retargeted_behind_alias",
			// the original already declares STAGE_0_ALT (same inputs, other
			// split behaviour and outputs) and calls STAGE_0 under an alias
			func(p *c15Prog, r *hx.Rng) bool {
				ok := false
				for _, c := range p.calls() {
					if c.Dec == "STAGE_0" && c.Alias != "" {
						c.Dec = "STAGE_0_ALT"
						ok = true
					}
				}
				return ok
			}},
		{"s", "literal_int_to_fraction",
			// an integer literal bound to a float parameter becomes a
			// non-integral float with the same integer part
			func(p *c15Prog, r *hx.Rng) bool {
				var cands []*c15Ex
				for _, c := range p.calls() {
					var ins []c15Param
					for i := range p.Stages {
						if p.Stages[i].Name == c.Dec {
							ins = p.Stages[i].Ins
						}
					}
					for i := range p.Pipes {
						if p.Pipes[i].Name == c.Dec {
							ins = p.Pipes[i].Ins
						}
					}
					for bi := range c.Binds {
						for _, in := range ins {
							if in.Name == c.Binds[bi].Id && in.T.Base == "float" {
								c15Walk(&c.Binds[bi].E, func(e *c15Ex) {
									if e.K == "int" {
										cands = append(cands, e)
									}
								})
							}
						}
					}
				}
				if len(cands) == 0 {
					return false
				}
				e := hx.Pick(r, cands)
				e.K = "float"
				e.S += hx.Pick(r, []string{".5", ".25", ".75", ".9"})
				return true
			}},
	}
}

// c15NearlySame: equal up to the relative tolerance FloatExp.equal allows (with
// a wide margin), so that an edit exchanging the two is not called semantic.
func c15NearlySame(a, b c15Ex) bool {
	num := func(e c15Ex) (float64, bool) {
		if e.K != "int" && e.K != "float" {
			return 0, false
		}
		v, err := strconv.ParseFloat(e.S, 64)
		return v, err == nil
	}
	if x, ok := num(a); ok {
		y, ok2 := num(b)
		return ok2 && math.Abs(x-y) <= 1e-9*math.Max(math.Abs(x), math.Abs(y))
	}
	if a.K != b.K || len(a.Items) != len(b.Items) || len(a.Keys) != len(b.Keys) {
		return false
	}
	if len(a.Items) == 0 {
		return a.render() == b.render()
	}
	for i := range a.Keys {
		if a.Keys[i] != b.Keys[i] {
			return false
		}
	}
	for i := range a.Items {
		if !c15NearlySame(a.Items[i], b.Items[i]) {
			return false
		}
	}
	return true
}

// give a call of a pipeline an alias and rename every reference to it
func c15RenameCall(pl *c15Pipe, c *c15Call, nw string) {
	old := c.id()
	c.Alias = nw
	fix := func(e *c15Ex) {
		if e.K == "call" && strings.HasPrefix(e.S, old+".") {
			e.S = nw + e.S[len(old):]
		}
	}
	for i := range pl.Calls {
		for j := range pl.Calls[i].Binds {
			c15Walk(&pl.Calls[i].Binds[j].E, fix)
		}
	}
	for j := range pl.Ret {
		c15Walk(&pl.Ret[j].E, fix)
	}
	for j := range pl.Retain {
		if strings.HasPrefix(pl.Retain[j], old+".") {
			pl.Retain[j] = nw + pl.Retain[j][len(old):]
		}
	}
}

// ------------------------------------------------------------ meaning digest

func c15CanonJSON(v interface{}) string {
	b, err := json.Marshal(v)
	if err != nil {
		return "!marshal:" + err.Error()
	}
	jv, err := hx.ParseJSON(b)
	if err != nil {
		return "!parse:" + string(b)
	}
	return jv.Canon().JSON()
}

func c15TypeDigest(a *syntax.Ast, t syntax.TypeId, k syntax.FileKind) string {
	name := t.Tname
	if b := a.TypeTable.Get(syntax.TypeId{Tname: t.Tname}); b != nil && b.IsFile() == syntax.KindIsFile {
		name = "<file>"
	}
	return fmt.Sprintf("%s/%d/%d/k%d", name, t.ArrayDim, t.MapDim, int(k))
}

// c15Digest: one line per node of the resolved call graph.
func c15Digest(f c15Files) ([]string, error) {
	a, err := c15Compile(f)
	if err != nil {
		return nil, err
	}
	if a.Call == nil {
		return nil, fmt.Errorf("no call")
	}
	g, err := a.MakeCallGraph("ID.ps.", a.Call)
	if err != nil {
		return nil, err
	}
	var lines []string
	var walk func(n syntax.CallGraphNode)
	walk = func(n syntax.CallGraphNode) {
		var sb strings.Builder
		fmt.Fprintf(&sb, "%s", n.GetFqid())
		if c := n.Call(); c != nil && c.Modifiers != nil {
			fmt.Fprintf(&sb, " local=%v preflight=%v", c.Modifiers.Local, c.Modifiers.Preflight)
		}
		switch c := n.Callable().(type) {
		case *syntax.Stage:
			fmt.Fprintf(&sb, " stage split=%v", c.Split)
		case *syntax.Pipeline:
			sb.WriteString(" pipeline")
		}
		if c := n.Callable(); c != nil {
			var ps []string
			if in := c.GetInParams(); in != nil {
				for _, p := range in.List {
					ps = append(ps, "in:"+p.Id+":"+c15TypeDigest(a, p.Tname, p.IsFile()))
				}
			}
			if out := c.GetOutParams(); out != nil {
				_, isPipe := c.(*syntax.Pipeline)
				for _, p := range out.List {
					s := "out:" + p.Id + ":" + c15TypeDigest(a, p.Tname, p.IsFile())
					if fk := p.IsFile(); isPipe && (fk == syntax.KindIsFile || fk == syntax.KindIsDirectory) {
						s += ":" + p.OutName
					}
					ps = append(ps, s)
				}
			}
			sort.Strings(ps)
			fmt.Fprintf(&sb, " params=[%s]", strings.Join(ps, " "))
		}
		ins := n.ResolvedInputs()
		keys := make([]string, 0, len(ins))
		for k := range ins {
			keys = append(keys, k)
		}
		sort.Strings(keys)
		sb.WriteString(" inputs={")
		for _, k := range keys {
			if ins[k] != nil {
				fmt.Fprintf(&sb, "%s=%s;", k, c15CanonJSON(ins[k].Exp))
			}
		}
		sb.WriteString("}")
		if d := n.Disabled(); len(d) > 0 {
			ds := make([]string, len(d))
			for i, e := range d {
				ds[i] = c15CanonJSON(e)
			}
			fmt.Fprintf(&sb, " disabled=[%s]", strings.Join(ds, ","))
		}
		if _, ok := n.Callable().(*syntax.Pipeline); ok {
			if o := n.ResolvedOutputs(); o != nil && o.Exp != nil {
				fmt.Fprintf(&sb, " outputs=%s", c15CanonJSON(o.Exp))
			}
		}
		lines = append(lines, sb.String())
		for _, ch := range n.GetChildren() {
			walk(ch)
		}
	}
	walk(g)
	sort.Strings(lines)
	return lines, nil
}

func c15DigestDiff(a, b []string) []string {
	in := func(x string, l []string) bool {
		for _, y := range l {
			if x == y {
				return true
			}
		}
		return false
	}
	var out []string
	for _, x := range a {
		if !in(x, b) {
			out = append(out, "- "+x)
		}
	}
	for _, x := range b {
		if !in(x, a) {
			out = append(out, "+ "+x)
		}
	}
	return out
}

// digest: prints, for every program pair read from stdin, whether the meaning
// digest differs (used to validate the digest against the edit catalogue).
func c15DigestCmd(args []string) {
	c15Silence()
	defer c15Cleanup()
	hx.Lines(os.Stdin, func(f []string) {
		if f[0] != "p" {
			return
		}
		da, err1 := c15Digest(c15Dec(f[3]))
		db, err2 := c15Digest(c15Dec(f[4]))
		if err1 != nil || err2 != nil {
			fmt.Fprintf(hx.Out, "%s %s error %v %v\n", f[1], f[2], err1, err2)
			return
		}
		fmt.Fprintf(hx.Out, "%s %s changed=%v\n", f[1], f[2], len(c15DigestDiff(da, db)) > 0)
	})
}

// ------------------------------------------------------------ search

// programs around a literal: the literal is an argument of a stage call made
// by a library pipeline; the invocation file is identical in both programs.
var c15LitTypes = []string{"float", "int", "string", "bool", "map", "float[]", "int[]", "string[]", "bool[]", "map[]",
	"float[][]", "int[][]", "map<float>", "map<int>", "map<string>", "map<map>", "map<float[]>", "map[][]"}

func c15LitProgram(typ, lit string) c15Files {
	lib := `stage WORK(
    in  int seed,
    in  ` + typ + ` value,
    out int n,
    src py "stages/work",
)

pipeline MAIN(
    in  int seed,
    out int n,
)
{
    call WORK(
        seed  = self.seed,
        value = ` + lit + `,
    )

    return (
        n = WORK.n,
    )
}
`
	return c15Files{"main.mro": "@include \"lib.mro\"\n\ncall MAIN(\n    seed = 1,\n)\n", "lib.mro": lib}
}

func c15ExpKind(lit string) string {
	var parser syntax.Parser
	e, err := parser.ParseValExp([]byte(lit))
	if err != nil {
		return "unknown"
	}
	switch e.(type) {
	case *syntax.IntExp:
		return "int"
	case *syntax.FloatExp:
		return "float"
	case *syntax.StringExp:
		return "string"
	case *syntax.BoolExp:
		return "bool"
	case *syntax.NullExp:
		return "null"
	case *syntax.ArrayExp:
		return "array"
	case *syntax.MapExp:
		return "map"
	}
	return "other"
}

// decide the property for (old, new); returns class, report or "" if the
// property holds on this pair (or the pair cannot be built).
func c15Decide(old, nw c15Files, what string) (string, map[string]interface{}) {
	oa, err1 := c15Compile(old)
	na, err2 := c15Compile(nw)
	if err1 != nil || err2 != nil {
		return "", nil
	}
	accepted := na.EquivalentCall(oa)
	do, err1 := c15Digest(old)
	dn, err2 := c15Digest(nw)
	if err1 != nil || err2 != nil {
		return "", nil
	}
	diff := c15DigestDiff(do, dn)
	changed := len(diff) > 0
	if changed == !accepted {
		return "", nil // refused iff the meaning changed: the property holds here
	}
	cls := "cosmetic_refused_" + what
	decision := "refused"
	if accepted {
		cls = "semantic_accepted_" + what
		decision = "accepted"
	}
	if len(diff) > 6 {
		diff = diff[:6]
	}
	return cls, map[string]interface{}{
		"original": old, "edited": nw,
		"decision":        "newAst.EquivalentCall(oldAst) (the call made by Runtime.reattachToPipestance): " + decision,
		"meaning_changed": changed,
		"call_graph_diff": diff,
		"how":             "compile both programs with martian; meaning = resolved call graph (MakeCallGraph: node ids, resolved argument values, disabled, split/local/preflight, parameter types); decision = EquivalentCall",
	}
}

func c15Search(args []string) {
	c15Silence()
	defer c15Cleanup()
	found := map[string]int{}
	emit := func(cls string, rep map[string]interface{}) {
		if cls == "" || found[cls] >= 3 {
			return
		}
		found[cls]++
		b, _ := json.Marshal(rep)
		fmt.Fprintf(hx.Out, "FOUND %s %s\n", cls, hx.H(string(b)))
	}
	hx.Lines(os.Stdin, func(f []string) {
		if len(f) < 8 {
			return
		}
		// observation k (0: first field, 1: second field) disagrees?
		dis := [2]bool{f[0] != f[2], f[1] != f[3]}
		c := f[4:]
		switch c[0] {
		case "p":
			a, b := c15Dec(c[3]), c15Dec(c[4])
			// field 0 is B.EquivalentCall(A): new = B (edited), old = A
			if dis[0] {
				emit(c15Decide(a, b, c[2]))
			}
			if dis[1] {
				emit(c15Decide(b, a, c[2]+"_reversed"))
			}
		case "e":
			la, lb := hx.U(c[1]), hx.U(c[2])
			// field 0 is a.equal(b): the receiver a is the NEW binding
			try := func(oldLit, newLit string) {
				for _, t := range c15LitTypes {
					o, n := c15LitProgram(t, oldLit), c15LitProgram(t, newLit)
					if _, err := c15Compile(o); err != nil {
						continue
					}
					if _, err := c15Compile(n); err != nil {
						continue
					}
					cls, rep := c15Decide(o, n, "literal_"+c15ExpKind(oldLit)+"_to_"+c15ExpKind(newLit))
					if rep != nil {
						rep["literal_original"], rep["literal_edited"], rep["parameter_type"] = oldLit, newLit, t
					}
					emit(cls, rep)
					return
				}
			}
			if dis[0] {
				try(lb, la)
			}
			if dis[1] {
				try(la, lb)
			}
		}
	})
}
