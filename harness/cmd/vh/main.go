// vh: the verification harness driver.  Subcommands are per property:
//
//	vh <prop> gen <tier> <seed>      cases on stdout, one per line
//	vh <prop> impl [args]            reads cases, prints the implementation's observation per case
//	vh <prop> oracle [args]          reads cases, prints ok / skip / FAIL <class> <detail> per case
package main

import (
	"fmt"
	"os"
	"strconv"

	"verifharness/internal/hx"
)

type propCmd struct {
	gen    func(tier string, rng *hx.Rng)
	impl   func(args []string)
	oracle func(args []string)
	extra  map[string]func(args []string)
}

var props = map[string]*propCmd{}

// earlyHooks let a property file take over the process before argument
// parsing (re-entrant uses of the vh binary: stage executable, env dumper).
// Each returns true when it handled the invocation.
var earlyHooks []func() bool

func main() {
	for _, h := range earlyHooks {
		if h() {
			return
		}
	}
	defer hx.Out.Flush()
	if len(os.Args) < 3 {
		fmt.Fprintln(os.Stderr, "usage: vh <prop> gen|impl|oracle ...")
		os.Exit(2)
	}
	p, ok := props[os.Args[1]]
	if !ok {
		fmt.Fprintln(os.Stderr, "unknown property", os.Args[1])
		os.Exit(2)
	}
	switch os.Args[2] {
	case "gen":
		tier := "quick"
		var seed uint64
		if len(os.Args) > 3 {
			tier = os.Args[3]
		}
		if len(os.Args) > 4 {
			seed, _ = strconv.ParseUint(os.Args[4], 10, 64)
		}
		p.gen(tier, hx.NewRng(seed))
	case "impl":
		p.impl(os.Args[3:])
	case "oracle":
		p.oracle(os.Args[3:])
	default:
		if f, ok := p.extra[os.Args[2]]; ok {
			f(os.Args[3:])
			return
		}
		fmt.Fprintln(os.Stderr, "unknown subcommand", os.Args[2])
		os.Exit(2)
	}
}
