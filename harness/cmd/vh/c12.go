package main

// C12 - resource limits are never exceeded and never stall the pipestance.
//
// Case kinds (one per line):
//
//	s <size> <op>...     ResourceSemaphore driven by an op sequence; ops are
//	                     a,<id>,<n>  Acquire(n) on its own goroutine (request id)
//	                     r,<id>      Release(what request id holds); no-op if it holds nothing
//	                     R,<n>       raw Release(n) (malformed stream only)
//	                     ua,<n>  us,<n>  uf,<free>,<used>   the three Update methods
//	q <cfg...> <req...>  LocalJobManager.GetSystemReqs (see c12_sysreqs.go)
//	m <limit> <op>...    MaxJobsSemaphore (see c12_maxjobs.go)
//	j ...                local job manager end to end (see c12_jobs.go)
//
// impl prints, per s case, one observation per op separated by ';':
// <events>/<reserved>,<cur>,<avail>,<inuse>,<qlen> where events are
// t<ret> p e<id> q<id> g<id>... (grants sorted by id), '-' if none.

import (
	"fmt"
	"os"
	"runtime"
	"sort"
	"strconv"
	"strings"
	"time"

	"github.com/martian-lang/martian/martian/core"
	"github.com/martian-lang/martian/martian/util"
	"verifharness/internal/hx"
)

func init() {
	props["c12"] = &propCmd{gen: c12Gen, impl: c12Impl, oracle: c12Oracle}
}

// ------------------------------------------------------------------ ops

type c12Op struct {
	kind string // a r R ua us uf
	id   int
	a, b int64
}

func c12ParseOps(toks []string) []c12Op {
	ops := make([]c12Op, 0, len(toks))
	for _, t := range toks {
		p := strings.Split(t, ",")
		o := c12Op{kind: p[0]}
		num := func(i int) int64 {
			v, err := strconv.ParseInt(p[i], 10, 64)
			if err != nil {
				panic("bad op " + t)
			}
			return v
		}
		switch p[0] {
		case "a":
			o.id, o.a = int(num(1)), num(2)
		case "r":
			o.id = int(num(1))
		case "R", "ua", "us":
			o.a = num(1)
		case "uf":
			o.a, o.b = num(1), num(2)
		default:
			panic("bad op " + t)
		}
		ops = append(ops, o)
	}
	return ops
}

// ------------------------------------------------------------------ driver

type c12Res struct {
	id  int
	err error
}

type c12Obs struct {
	dead        bool
	granted     []int
	errored     []int
	enq         []int
	panicked    bool
	hasRet      bool
	ret         int64
	missing     int   // grants expected from the queue length that never arrived
	extra       []int // results that arrived although nothing accounts for them
	stuck       bool  // an Acquire neither returned nor queued
	res, cur    int64
	avail       int64
	inuse       int64
	qlen        int64
	availBefore int64
	qlenBefore  int64
}

const c12Wait = 3 * time.Second

type c12Drv struct {
	sem     *core.ResourceSemaphore
	results chan c12Res
	held    map[int]int64
	amount  map[int]int64 // amount of every issued request
}

// poll waits (bounded) for one result.
func (d *c12Drv) poll(deadline time.Time) (c12Res, bool) {
	for spins := 0; ; spins++ {
		select {
		case r := <-d.results:
			return r, true
		default:
		}
		if time.Now().After(deadline) {
			return c12Res{}, false
		}
		if spins < 200 {
			runtime.Gosched()
		} else {
			time.Sleep(20 * time.Microsecond)
		}
	}
}

func (d *c12Drv) record(o *c12Obs, r c12Res) {
	if r.err != nil {
		o.errored = append(o.errored, r.id)
	} else {
		o.granted = append(o.granted, r.id)
		d.held[r.id] = d.amount[r.id]
	}
}

// drainExtra picks up results nobody expected (bounded, short).
func (d *c12Drv) drainExtra(o *c12Obs, patience int) {
	for i := 0; i < patience; i++ {
		select {
		case r := <-d.results:
			o.extra = append(o.extra, r.id)
			if r.err == nil {
				d.held[r.id] = d.amount[r.id]
			}
		default:
			runtime.Gosched()
		}
	}
}

func c12RunSem(size int64, ops []c12Op) []c12Obs {
	d := &c12Drv{
		sem:     core.NewResourceSemaphore(size, core.DefaultResourceFormatter("u")),
		results: make(chan c12Res, len(ops)+8),
		held:    map[int]int64{},
		amount:  map[int]int64{},
	}
	sem := d.sem
	obs := make([]c12Obs, len(ops))
	dead := false
	for i, op := range ops {
		o := &obs[i]
		if dead {
			o.dead = true
			continue
		}
		o.availBefore = sem.Available()
		q0 := sem.QueueLength()
		o.qlenBefore = int64(q0)
		deadline := time.Now().Add(c12Wait)
		switch op.kind {
		case "a":
			id, n := op.id, op.a
			d.amount[id] = n
			go func() {
				err := sem.Acquire(n)
				d.results <- c12Res{id, err}
			}()
			// the call has taken effect when it returned or queued
			for spins := 0; ; spins++ {
				done := false
				select {
				case r := <-d.results:
					if r.id == id {
						d.record(o, r)
						done = true
					} else {
						o.extra = append(o.extra, r.id)
					}
				default:
				}
				if done {
					break
				}
				if sem.QueueLength() == q0+1 {
					o.enq = append(o.enq, id)
					break
				}
				if time.Now().After(deadline) {
					o.stuck = true
					break
				}
				if spins < 200 {
					runtime.Gosched()
				} else {
					time.Sleep(20 * time.Microsecond)
				}
			}
		default:
			call := func() {
				defer func() {
					if r := recover(); r != nil {
						o.panicked = true
					}
				}()
				switch op.kind {
				case "r":
					n, ok := d.held[op.id]
					if !ok {
						return
					}
					delete(d.held, op.id)
					sem.Release(n)
				case "R":
					sem.Release(op.a)
				case "ua":
					o.ret, o.hasRet = sem.UpdateActual(op.a), true
				case "us":
					sem.UpdateSize(op.a)
				case "uf":
					o.ret, o.hasRet = sem.UpdateFreeUsed(op.a, op.b), true
				}
			}
			call()
			expect := q0 - sem.QueueLength()
			for k := 0; k < expect; k++ {
				r, ok := d.poll(deadline)
				if !ok {
					o.missing = expect - k
					break
				}
				d.record(o, r)
			}
		}
		d.drainExtra(o, 2)
		if i == len(ops)-1 {
			// end of the case: give stray wake-ups a moment to show up
			time.Sleep(100 * time.Microsecond)
			d.drainExtra(o, 20)
		}
		sort.Ints(o.granted)
		sort.Ints(o.extra)
		o.res, o.cur, o.avail = sem.Reserved(), sem.CurrentSize(), sem.Available()
		o.inuse, o.qlen = sem.InUse(), int64(sem.QueueLength())
		if o.panicked {
			dead = true
		}
	}
	// unblock whatever is still waiting so goroutines do not pile up
	if !dead {
		func() {
			defer func() { recover() }()
			sem.UpdateSize(1 << 61)
		}()
	}
	return obs
}

func (o *c12Obs) String() string {
	if o.dead {
		return "dead"
	}
	var ev []string
	if o.hasRet {
		ev = append(ev, "t"+strconv.FormatInt(o.ret, 10))
	}
	if o.panicked {
		ev = append(ev, "p")
	}
	for _, id := range o.errored {
		ev = append(ev, "e"+strconv.Itoa(id))
	}
	for _, id := range o.enq {
		ev = append(ev, "q"+strconv.Itoa(id))
	}
	for _, id := range o.granted {
		ev = append(ev, "g"+strconv.Itoa(id))
	}
	for _, id := range o.extra {
		ev = append(ev, "EXTRA"+strconv.Itoa(id))
	}
	if o.missing > 0 {
		ev = append(ev, "MISSING"+strconv.Itoa(o.missing))
	}
	if o.stuck {
		ev = append(ev, "STUCK")
	}
	e := "-"
	if len(ev) > 0 {
		e = strings.Join(ev, ",")
	}
	return fmt.Sprintf("%s/%d,%d,%d,%d,%d", e, o.res, o.cur, o.avail, o.inuse, o.qlen)
}

func c12ObsLine(obs []c12Obs) string {
	parts := make([]string, len(obs))
	for i := range obs {
		parts[i] = obs[i].String()
	}
	if len(parts) == 0 {
		return "-"
	}
	return strings.Join(parts, ";")
}

// ------------------------------------------------------------------ the property read on the implementation

// c12SemOracle checks, on the observations of the real semaphore alone:
// the summed amounts of the requests holding the resource equal Reserved()
// and stay within [0, size] (for disciplined histories); a request is granted
// at once exactly when it fits and nobody waits, refused exactly when it can
// never fit, and queues otherwise; the queue is served in request order; and
// after every operation the oldest waiting request does not fit the free
// capacity (no lost wake-up).
func c12SemOracle(size int64, ops []c12Op, obs []c12Obs) string {
	disciplined := size >= 0
	for _, op := range ops {
		switch op.kind {
		case "a":
			if op.a < 0 {
				disciplined = false
			}
		case "R":
			disciplined = false
		case "us":
			if op.a > size {
				disciplined = false
			}
		}
	}
	type req struct {
		id int
		n  int64
	}
	var pending []req
	held := map[int]int64{}
	amount := map[int]int64{}
	for i, op := range ops {
		o := &obs[i]
		if o.dead {
			break
		}
		at := fmt.Sprintf("op %d (%s)", i, c12OpString(op))
		if o.stuck || o.missing > 0 {
			return "FAIL sem_missing_grant " + at + " obs " + o.String()
		}
		if len(o.extra) > 0 {
			return "FAIL sem_extra_grant " + at + " obs " + o.String()
		}
		granted := append([]int(nil), o.granted...)
		if op.kind == "a" {
			amount[op.id] = op.a
			fits := op.a <= o.availBefore && len(pending) == 0
			var want string
			switch {
			case fits:
				want = "grant"
			case op.a > size:
				want = "error"
			default:
				want = "queue"
			}
			got := "?"
			switch {
			case len(o.granted) == 1 && o.granted[0] == op.id && len(o.errored) == 0 && len(o.enq) == 0:
				got = "grant"
				granted = nil
				held[op.id] = op.a
			case len(o.errored) == 1 && len(o.granted) == 0 && len(o.enq) == 0:
				got = "error"
			case len(o.enq) == 1 && len(o.errored) == 0 && len(o.granted) == 0:
				got = "queue"
				pending = append(pending, req{op.id, op.a})
			}
			if got != want {
				return fmt.Sprintf("FAIL sem_acquire_outcome %s: avail %d, %d waiting, limit %d: expected %s, observed %s", at, o.availBefore, len(pending), size, want, o.String())
			}
		} else if len(o.errored) > 0 {
			return "FAIL sem_acquire_outcome " + at + " late error " + o.String()
		}
		if op.kind == "r" {
			delete(held, op.id)
		}
		// grants from the queue: exactly the oldest k waiting requests
		if len(granted) > 0 {
			if len(granted) > len(pending) {
				return "FAIL sem_not_fifo " + at + " obs " + o.String()
			}
			want := make([]int, len(granted))
			for k := range granted {
				want[k] = pending[k].id
				held[pending[k].id] = pending[k].n
			}
			sort.Ints(want)
			for k := range granted {
				if want[k] != granted[k] {
					return fmt.Sprintf("FAIL sem_not_fifo %s: oldest waiting are %v, granted %v", at, want, granted)
				}
			}
			pending = pending[len(granted):]
		}
		if o.panicked {
			if disciplined {
				return "FAIL sem_panic " + at
			}
			break
		}
		if len(pending) > 0 && pending[0].n <= o.avail {
			return fmt.Sprintf("FAIL sem_lost_wakeup %s: oldest waiting request %d needs %d, %d available, still queued", at, pending[0].id, pending[0].n, o.avail)
		}
		if disciplined {
			var sum int64
			for _, n := range held {
				sum += n
			}
			if sum != o.res {
				return fmt.Sprintf("FAIL sem_sum_mismatch %s: holders sum %d, Reserved() %d", at, sum, o.res)
			}
			if o.res > size || o.res < 0 {
				return fmt.Sprintf("FAIL sem_over_limit %s: Reserved() %d, limit %d", at, o.res, size)
			}
		}
	}
	return "ok"
}

func c12OpString(op c12Op) string {
	switch op.kind {
	case "a":
		return fmt.Sprintf("a,%d,%d", op.id, op.a)
	case "r":
		return fmt.Sprintf("r,%d", op.id)
	case "uf":
		return fmt.Sprintf("uf,%d,%d", op.a, op.b)
	}
	return fmt.Sprintf("%s,%d", op.kind, op.a)
}

// ------------------------------------------------------------------ generator

func c12GenSem(r *hx.Rng, malformed bool) string {
	sizes := []int64{0, 1, 2, 3, 5, 10, 64, 100, 400, 1000, 1600, 16384, 65536}
	size := hx.Pick(r, sizes)
	if r.Intn(4) == 0 {
		size = int64(r.Intn(200))
	}
	nops := 3 + r.Intn(58)
	if r.Intn(3) == 0 {
		nops = 2 + r.Intn(10)
	}
	amount := func() int64 {
		switch r.Intn(12) {
		case 0:
			return 0
		case 1:
			return size
		case 2:
			return size + 1 + int64(r.Intn(5))
		case 3:
			return size/2 + 1
		case 4, 5:
			return 1 + int64(r.Intn(3))
		case 6:
			if malformed {
				return -int64(r.Intn(int(size)/2 + 2))
			}
			return size / 3
		default:
			return int64(r.Intn(int(size) + 1))
		}
	}
	var sb strings.Builder
	fmt.Fprintf(&sb, "s %d", size)
	nextID := 1
	var issued []int
	// weights: acquire-heavy phases and release-heavy phases alternate so
	// that queues build up and drain
	for i := 0; i < nops; i++ {
		k := r.Intn(100)
		relBias := 25
		if (i/8)%2 == 1 {
			relBias = 50
		}
		switch {
		case k < relBias && len(issued) > 0:
			// prefer old requests
			j := r.Intn(len(issued))
			if r.Bool() {
				j = r.Intn(j + 1)
			}
			fmt.Fprintf(&sb, " r,%d", issued[j])
		case k < 75:
			fmt.Fprintf(&sb, " a,%d,%d", nextID, amount())
			issued = append(issued, nextID)
			nextID++
		default:
			switch r.Intn(5) {
			case 0, 1:
				fmt.Fprintf(&sb, " ua,%d", int64(r.Intn(int(size)*3/2+3))-size/4)
			case 2:
				n := int64(r.Intn(int(size) + 1))
				if malformed && r.Intn(3) == 0 {
					n = size + int64(r.Intn(10))
				}
				fmt.Fprintf(&sb, " us,%d", n)
			case 3, 4:
				fmt.Fprintf(&sb, " uf,%d,%d", int64(r.Intn(int(size)*3/2+3))-size/4, int64(r.Intn(int(size)+2)))
			}
			if malformed && r.Intn(6) == 0 {
				fmt.Fprintf(&sb, " R,%d", int64(r.Intn(int(size)+2))-1)
			}
		}
	}
	return sb.String()
}

func c12Gen(tier string, r *hx.Rng) {
	w := hx.Out
	// fixed seeds of the property: scripts of resource_semaphore_test.go shapes
	fmt.Fprintln(w, "s 100 ua,200 ua,90 a,1,10 ua,90 r,1 a,2,5 a,3,10 ua,85")
	fmt.Fprintln(w, "s 90 a,1,100")
	fmt.Fprintln(w, "s 10 a,1,6 a,2,6 a,3,1 r,1 a,4,4 r,2 r,3 r,4")
	fmt.Fprintln(w, "s 10 a,1,10 a,2,3 ua,-5 r,1 ua,10 uf,12,3 us,2 us,10")
	nsem := 2500
	if tier == "thorough" {
		nsem = 60000
	}
	for i := 0; i < nsem; i++ {
		fmt.Fprintln(w, c12GenSem(r, i%10 == 9))
	}
	c12GenMore(tier, r)
}

// ------------------------------------------------------------------ impl / oracle

func c12Setup() {
	util.ENABLE_LOGGING = false
}

func c12Impl(args []string) {
	c12Setup()
	hx.Lines(os.Stdin, func(f []string) {
		switch f[0] {
		case "s":
			size, _ := strconv.ParseInt(f[1], 10, 64)
			ops := c12ParseOps(f[2:])
			fmt.Fprintln(hx.Out, c12ObsLine(c12RunSem(size, ops)))
		default:
			fmt.Fprintln(hx.Out, c12ImplMore(f))
		}
	})
}

func c12Oracle(args []string) {
	c12Setup()
	hx.Lines(os.Stdin, func(f []string) {
		switch f[0] {
		case "s":
			size, _ := strconv.ParseInt(f[1], 10, 64)
			ops := c12ParseOps(f[2:])
			fmt.Fprintln(hx.Out, c12SemOracle(size, ops, c12RunSem(size, ops)))
		default:
			fmt.Fprintln(hx.Out, c12OracleMore(f))
		}
	})
}
