package main

// C13 - final outputs are materialised faithfully under outs/.
//
// Case line (space separated):
//   c <mode> <params> <fs> <outs>
//     mode   s | a | m        single call, array-mapped, map-mapped top-level call
//     params (<member>*)      member = <hexid>:<type>:<hexoutname>;
//            type = i (int) | s (string) | u (untyped map) | f (file) | p (path)
//                 | x<hexname>.            user file type
//                 | A<dim><type>           array, dim one digit, type not an array
//                 | M<type>                typed map
//                 | S<hexname>(<member>*)  struct
//     fs     ,-separated entries  F<hexpath>:<hexcontent> D<hexpath> L<hexpath>:<hextarget>
//            (absolute paths under the placeholder root /R; the pipestance is /R/ps)
//     outs   the _outs value, hx.JV.Enc transport
//   n (<member>*)             naming case: does the compiler accept this struct?
//
// Observation: <E|-> <canonical json Enc | INVALID> <fs dump>   |  X <why> (case not runnable)

import (
	"bytes"
	"encoding/hex"
	"fmt"
	"math/big"
	"os"
	"path/filepath"
	"sort"
	"strconv"
	"strings"

	"github.com/martian-lang/martian/martian/core"
	"github.com/martian-lang/martian/martian/syntax"
	"verifharness/internal/hx"
)

func init() {
	props["c13"] = &propCmd{gen: c13Gen, impl: c13Impl, oracle: c13Oracle}
}

// ------------------------------------------------------------------ types

type c13Type struct {
	k       byte // i s u f p x A M S
	name    string
	dim     int
	elem    *c13Type
	members []c13Member
}

type c13Member struct {
	id, out string
	t       *c13Type
}

func hexOrEmpty(s string) string { return hex.EncodeToString([]byte(s)) }

func (t *c13Type) enc(b *strings.Builder) {
	b.WriteByte(t.k)
	switch t.k {
	case 'x':
		b.WriteString(hexOrEmpty(t.name))
		b.WriteByte('.')
	case 'A':
		b.WriteString(strconv.Itoa(t.dim))
		t.elem.enc(b)
	case 'M':
		t.elem.enc(b)
	case 'S':
		b.WriteString(hexOrEmpty(t.name))
		c13EncMembers(b, t.members)
	}
}

func c13EncMembers(b *strings.Builder, ms []c13Member) {
	b.WriteByte('(')
	for _, m := range ms {
		b.WriteString(hexOrEmpty(m.id))
		b.WriteByte(':')
		m.t.enc(b)
		b.WriteByte(':')
		b.WriteString(hexOrEmpty(m.out))
		b.WriteByte(';')
	}
	b.WriteByte(')')
}

type c13Parser struct {
	s string
	i int
}

func (p *c13Parser) until(c byte) string {
	st := p.i
	for p.s[p.i] != c {
		p.i++
	}
	r := p.s[st:p.i]
	p.i++
	b, err := hex.DecodeString(r)
	if err != nil {
		panic("bad hex in type spec")
	}
	return string(b)
}

func (p *c13Parser) typ() *c13Type {
	t := &c13Type{k: p.s[p.i]}
	p.i++
	switch t.k {
	case 'x':
		t.name = p.until('.')
	case 'A':
		t.dim = int(p.s[p.i] - '0')
		p.i++
		t.elem = p.typ()
	case 'M':
		t.elem = p.typ()
	case 'S':
		t.name = p.until('(')
		p.i--
		t.members = p.members()
	}
	return t
}

func (p *c13Parser) members() []c13Member {
	if p.s[p.i] != '(' {
		panic("expected (")
	}
	p.i++
	var ms []c13Member
	for p.s[p.i] != ')' {
		var m c13Member
		m.id = p.until(':')
		m.t = p.typ()
		if p.s[p.i] != ':' {
			panic("expected :")
		}
		p.i++
		m.out = p.until(';')
		ms = append(ms, m)
	}
	p.i++
	return ms
}

func c13ParseMembers(s string) []c13Member {
	p := &c13Parser{s: s}
	return p.members()
}

// kind: 0 not a file, 1 may contain paths, 2 file, 3 directory (the
// documented rule, written independently of the implementation)
func (t *c13Type) kind() int {
	switch t.k {
	case 'i':
		return 0
	case 's', 'u':
		return 1
	case 'f', 'p', 'x':
		return 2
	case 'A':
		if k := t.elem.kind(); k == 2 {
			return 3
		} else {
			return k
		}
	case 'M':
		switch t.elem.kind() {
		case 0:
			return 0
		case 1:
			return 1
		}
		return 3
	case 'S':
		r := 0
		for _, m := range t.members {
			switch k := m.t.kind(); {
			case k >= 2:
				r = 3
			case k == 1 && r == 0:
				r = 1
			}
		}
		return r
	}
	panic("bad type")
}

func (t *c13Type) mroName() string {
	switch t.k {
	case 'i':
		return "int"
	case 's':
		return "string"
	case 'u':
		return "map"
	case 'f':
		return "file"
	case 'p':
		return "path"
	case 'x', 'S':
		return t.name
	case 'A':
		return t.elem.mroName() + strings.Repeat("[]", t.dim)
	case 'M':
		return "map<" + t.elem.mroName() + ">"
	}
	panic("bad type")
}

// the name of the entry under outs/ for a member, by the documented rule
func c13OutName(id string, t *c13Type, out string) string {
	if out != "" {
		return out
	}
	if t.k == 'x' {
		return id + "." + t.name
	}
	return id
}

func c13CollectDecls(ms []c13Member, ftypes map[string]bool, structs *[]string, seen map[string]bool) {
	var walk func(t *c13Type)
	walk = func(t *c13Type) {
		switch t.k {
		case 'x':
			ftypes[t.name] = true
		case 'A', 'M':
			walk(t.elem)
		case 'S':
			for _, m := range t.members {
				walk(m.t)
			}
			if !seen[t.name] {
				seen[t.name] = true
				var b strings.Builder
				fmt.Fprintf(&b, "struct %s(\n", t.name)
				for _, m := range t.members {
					c13MemberDecl(&b, "    ", m)
				}
				b.WriteString(")\n\n")
				*structs = append(*structs, b.String())
			}
		}
	}
	for _, m := range ms {
		walk(m.t)
	}
}

func c13MemberDecl(b *strings.Builder, prefix string, m c13Member) {
	fmt.Fprintf(b, "%s%s %s", prefix, m.t.mroName(), m.id)
	if m.out != "" {
		fmt.Fprintf(b, " \"help for %s\" %s", m.id, strconv.Quote(m.out))
	}
	b.WriteString(",\n")
}

func c13Mro(mode string, ms []c13Member) string {
	ftypes := map[string]bool{}
	var structs []string
	c13CollectDecls(ms, ftypes, &structs, map[string]bool{})
	var b strings.Builder
	var fts []string
	for f := range ftypes {
		fts = append(fts, f)
	}
	sort.Strings(fts)
	for _, f := range fts {
		fmt.Fprintf(&b, "filetype %s;\n", f)
	}
	b.WriteString("\n")
	for _, s := range structs {
		b.WriteString(s)
	}
	b.WriteString("stage ST(\n    in  int x,\n")
	for _, m := range ms {
		c13MemberDecl(&b, "    out ", m)
	}
	b.WriteString("    src comp \"nope\",\n)\n\npipeline TOP(\n    in  int x,\n")
	for _, m := range ms {
		c13MemberDecl(&b, "    out ", m)
	}
	b.WriteString(")\n{\n    call ST(\n        x = self.x,\n    )\n\n    return (\n")
	for _, m := range ms {
		fmt.Fprintf(&b, "        %s = ST.%s,\n", m.id, m.id)
	}
	b.WriteString("    )\n}\n\n")
	switch mode {
	case "s":
		b.WriteString("call TOP(\n    x = 1,\n)\n")
	case "a":
		b.WriteString("map call TOP(\n    x = split [1, 2],\n)\n")
	case "m":
		b.WriteString("map call TOP(\n    x = split {\"k1\": 1, \"k2\": 2},\n)\n")
	}
	return b.String()
}

// ------------------------------------------------------------------ file system

type c13Entry struct {
	kind byte // F D L
	path string
	data string
}

func c13ParseFs(s string) []c13Entry {
	var es []c13Entry
	if s == "-" {
		return es
	}
	for _, f := range strings.Split(s, ",") {
		e := c13Entry{kind: f[0]}
		rest := f[1:]
		if i := strings.IndexByte(rest, ':'); i >= 0 {
			e.path, e.data = hx.U(orDash(rest[:i])), hx.U(orDash(rest[i+1:]))
		} else {
			e.path = hx.U(orDash(rest))
		}
		es = append(es, e)
	}
	return es
}

func orDash(s string) string {
	if s == "" {
		return "-"
	}
	return s
}

func c13EncFs(es []c13Entry) string {
	if len(es) == 0 {
		return "-"
	}
	parts := make([]string, len(es))
	for i, e := range es {
		switch e.kind {
		case 'D':
			parts[i] = "D" + hexOrEmpty(e.path)
		default:
			parts[i] = string(e.kind) + hexOrEmpty(e.path) + ":" + hexOrEmpty(e.data)
		}
	}
	return strings.Join(parts, ",")
}

const c13Root = "/R"

// toReal / toModel exchange the placeholder root and the real scratch root
// at the start of a path string.
func c13ToReal(root, p string) string {
	if p == c13Root || strings.HasPrefix(p, c13Root+"/") {
		return root + p[len(c13Root):]
	}
	return p
}

func c13ToModel(root, p string) string {
	if p == root || strings.HasPrefix(p, root+"/") {
		return c13Root + p[len(root):]
	}
	return p
}

func c13MapStrings(v hx.JV, f func(string) string) hx.JV {
	switch v.K {
	case 's':
		return hx.JStr(f(v.S))
	case '[':
		a := make([]hx.JV, len(v.A))
		for i, x := range v.A {
			a[i] = c13MapStrings(x, f)
		}
		return hx.JArr(a)
	case '{':
		o := make([]hx.JKV, len(v.O))
		for i, kv := range v.O {
			o[i] = hx.JKV{Key: kv.Key, Val: c13MapStrings(kv.Val, f)}
		}
		return hx.JObj(o)
	}
	return v
}

// observed subtrees: the sources, outs/, and the two outside directories
var c13Watched = []string{"/ps/w", "/ps/outs", "/ext", "/ps2"}

func c13Dump(root string) string {
	var parts []string
	for _, wdir := range c13Watched {
		top := root + wdir
		filepath.Walk(top, func(p string, info os.FileInfo, err error) error {
			if err != nil {
				return nil
			}
			mp := c13ToModel(root, p)
			switch {
			case info.Mode()&os.ModeSymlink != 0:
				t, _ := os.Readlink(p)
				parts = append(parts, "L"+hexOrEmpty(mp)+":"+hexOrEmpty(c13ToModel(root, t)))
			case info.IsDir():
				parts = append(parts, "D"+hexOrEmpty(mp))
			default:
				b, _ := os.ReadFile(p)
				parts = append(parts, "F"+hexOrEmpty(mp)+":"+hexOrEmpty(string(b)))
			}
			return nil
		})
	}
	sort.Strings(parts)
	if len(parts) == 0 {
		return "-"
	}
	return strings.Join(parts, ",")
}

type c13Run struct {
	root     string
	setupErr error
	ppErr    bool
	raw      []byte
	dump     string
}

// c13Execute builds the tree of the case under a fresh root, runs the real
// postProcess and returns what it left behind.
func c13Execute(scratch string, n int, mode string, ms []c13Member, fsys []c13Entry, outs hx.JV) c13Run {
	root := filepath.Join(scratch, "c13", strconv.Itoa(n))
	os.RemoveAll(root)
	r := c13Run{root: root}
	for _, d := range []string{"/ps/w", "/ext", "/ps2"} {
		if err := os.MkdirAll(root+d, 0o755); err != nil {
			panic(err)
		}
	}
	for _, e := range fsys {
		p := c13ToReal(root, e.path)
		var err error
		switch e.kind {
		case 'D':
			err = os.MkdirAll(p, 0o755)
		case 'F':
			err = os.WriteFile(p, []byte(e.data), 0o644)
		case 'L':
			err = os.Symlink(c13ToReal(root, e.data), p)
		}
		if err != nil {
			r.setupErr = err
			return r
		}
	}
	real := c13MapStrings(outs, func(s string) string { return c13ToReal(root, s) })
	newOuts, errs, serr := core.VerifPostProcess([]byte(c13Mro(mode, ms)), filepath.Join(root, "p.mro"),
		"psid", root+"/ps", [][]byte{[]byte(real.JSON())})
	if serr != nil {
		r.setupErr = serr
		return r
	}
	r.ppErr = errs[0] != nil
	r.raw = newOuts[0]
	r.dump = c13Dump(root)
	return r
}

func c13ParseCase(f []string) (string, []c13Member, []c13Entry, hx.JV) {
	ms := c13ParseMembers(f[2])
	fsys := c13ParseFs(f[3])
	outs, err := c13DecodeEnc(f[4])
	if err != nil {
		panic(err)
	}
	return f[1], ms, fsys, outs
}

func c13Impl(args []string) {
	scratch := os.TempDir()
	if len(args) > 0 {
		scratch = args[0]
	}
	n := 0
	hx.Lines(os.Stdin, func(f []string) {
		n++
		switch f[0] {
		case "c":
			mode, ms, fsys, outs := c13ParseCase(f)
			r := c13Execute(scratch, n, mode, ms, fsys, outs)
			defer os.RemoveAll(r.root)
			if r.setupErr != nil {
				fmt.Fprintln(hx.Out, "X", hx.H(r.setupErr.Error()))
				return
			}
			e := "-"
			if r.ppErr {
				e = "E"
			}
			js := "INVALID"
			if v, err := hx.ParseJSON(r.raw); err == nil {
				js = c13MapStrings(v, func(s string) string { return c13ToModel(r.root, s) }).Canon().Enc()
			}
			fmt.Fprintln(hx.Out, e, js, r.dump)
		case "n":
			ms := c13ParseMembers(f[1])
			src := c13Mro("s", []c13Member{{id: "o", t: &c13Type{k: 'S', name: "NM", members: ms}}})
			_, _, _, err := syntax.ParseSourceBytes([]byte(src), "n.mro", nil, false)
			if err != nil {
				fmt.Fprintln(hx.Out, "reject")
			} else {
				fmt.Fprintln(hx.Out, "accept")
			}
		}
	})
}

// ------------------------------------------------------------------ Enc decoder

func c13DecodeEnc(s string) (hx.JV, error) {
	pos := 0
	var value func() (hx.JV, error)
	until := func(c byte) string {
		st := pos
		for pos < len(s) && s[pos] != c {
			pos++
		}
		r := s[st:pos]
		pos++
		return r
	}
	value = func() (hx.JV, error) {
		if pos >= len(s) {
			return hx.JV{}, fmt.Errorf("truncated")
		}
		c := s[pos]
		pos++
		switch c {
		case 'n':
			return hx.JNull(), nil
		case 't':
			return hx.JBool(true), nil
		case 'f':
			return hx.JBool(false), nil
		case '#':
			body := until(';')
			return hx.ParseNumber(body)
		case 's':
			b, err := hex.DecodeString(until(';'))
			return hx.JStr(string(b)), err
		case '[':
			a := []hx.JV{}
			for pos < len(s) && s[pos] != ']' {
				v, err := value()
				if err != nil {
					return v, err
				}
				a = append(a, v)
			}
			pos++
			return hx.JArr(a), nil
		case '{':
			o := []hx.JKV{}
			for pos < len(s) && s[pos] != '}' {
				k, err := hex.DecodeString(until(':'))
				if err != nil {
					return hx.JV{}, err
				}
				v, err := value()
				if err != nil {
					return v, err
				}
				o = append(o, hx.JKV{Key: string(k), Val: v})
			}
			pos++
			return hx.JObj(o), nil
		}
		return hx.JV{}, fmt.Errorf("bad enc at %d", pos)
	}
	return value()
}

// ------------------------------------------------------------------ generator

type c13Gen_ struct {
	r       *hx.Rng
	fs      []c13Entry
	nfile   int
	nstruct int
	nid     int
	sources []string // regular sources created so far (for reuse)
	dirs    []string // directory leaves created so far
	// preferOverlap: once a directory output exists, the next file leaves name a
	// file inside it (the recorded finding C13-file-inside-directory-output)
	preferOverlap bool
	stats   map[string]int
	rich    bool
	// > 0 while generating a value that must match its type
	wellTyped int
}

var c13Exts = []string{"txt", "json", "bam", "h5"}
var c13OutNames = []string{"report.html", "My Out", "data", "x.tar.gz", "Résumé", "o-1"}
// legal file names all of them; some need escaping when written as JSON
// object keys (control characters, DEL, quotes, backslash, <, >, &, a
// non-printable code point above U+FFFF)
var c13Keys = []string{"k", "a1", "sample one", "Z", "0", "x.y", "é", "-",
	"ctl\x01key", "del\x7fkey", "q\"uo\\te", "tab\there", "a<b>&c", "tag\U000e0001x", "bell\a"}
var c13BadKeys = []string{"", ".", "..", "a/b", "/", "a\x00b"}

func (g *c13Gen_) id() string {
	g.nid++
	return fmt.Sprintf("%c%d", "abcdefgh"[g.r.Intn(8)], g.nid)
}

func (g *c13Gen_) leafType() *c13Type {
	switch g.r.Intn(10) {
	case 0, 1, 2:
		return &c13Type{k: 'f'}
	case 3:
		return &c13Type{k: 'p'}
	default:
		return &c13Type{k: 'x', name: hx.Pick(g.r, c13Exts)}
	}
}

func (g *c13Gen_) plainType() *c13Type {
	return &c13Type{k: "isu"[g.r.Intn(3)]}
}

func (g *c13Gen_) typ(depth int) *c13Type {
	if depth <= 0 {
		if g.r.Intn(4) == 0 {
			return g.plainType()
		}
		return g.leafType()
	}
	switch g.r.Intn(12) {
	case 0, 1:
		return g.plainType()
	case 2, 3, 4:
		return g.leafType()
	case 5, 6:
		e := g.typ(depth - 1)
		if e.k == 'A' {
			return e
		}
		dim := 1
		if g.r.Intn(8) == 0 {
			dim = 2
		}
		return &c13Type{k: 'A', dim: dim, elem: e}
	case 7, 8:
		e := g.typ(depth - 1)
		if e.k == 'M' || (e.k == 'A' && e.elem.k == 'M') || e.k == 'u' {
			// map<map> is not allowed
			return e
		}
		if c13HasMap(e) && e.k != 'S' {
			return e
		}
		return &c13Type{k: 'M', elem: e}
	default:
		g.nstruct++
		t := &c13Type{k: 'S', name: fmt.Sprintf("ST%d", g.nstruct)}
		t.members = g.members(1+g.r.Intn(3), depth-1)
		return t
	}
}

func bigInt(i int64) *big.Int { return big.NewInt(i) }

func c13HasMap(t *c13Type) bool {
	switch t.k {
	case 'M', 'u':
		return true
	case 'A':
		return c13HasMap(t.elem)
	}
	return false
}

func (g *c13Gen_) members(n, depth int) []c13Member {
	var ms []c13Member
	used := map[string]bool{}
	for i := 0; i < n; i++ {
		m := c13Member{id: g.id(), t: g.typ(depth)}
		if m.t.kind() >= 2 && g.r.Intn(4) == 0 {
			m.out = hx.Pick(g.r, c13OutNames)
		}
		name := c13OutName(m.id, m.t, m.out)
		if used[name] {
			m.out = ""
			name = c13OutName(m.id, m.t, "")
		}
		used[name] = true
		ms = append(ms, m)
	}
	return ms
}

func (g *c13Gen_) count(k string) { g.stats[k]++ }

func (g *c13Gen_) content() string {
	return fmt.Sprintf("content %d %x", g.nfile, g.r.Next()&0xffff)
}

// a JSON value for a file leaf, creating what it names
func (g *c13Gen_) fileLeaf(t *c13Type) hx.JV {
	g.nfile++
	w := c13Root + "/ps/w"
	name := fmt.Sprintf("f%d", g.nfile)
	c := g.r.Intn(40)
	if !g.rich && c >= 20 {
		c = 0
	}
	if g.preferOverlap && len(g.dirs) > 0 && t.k != 'p' {
		g.count("leaf_inside_directory_output")
		return hx.JStr(hx.Pick(g.r, g.dirs) + "/inner.txt")
	}
	switch {
	case c < 20 && t.k == 'p' && g.r.Intn(2) == 0, c == 20:
		g.count("leaf_directory")
		p := w + "/" + name
		g.fs = append(g.fs, c13Entry{'D', p, ""}, c13Entry{'F', p + "/inner.txt", g.content()},
			c13Entry{'D', p + "/sub", ""}, c13Entry{'F', p + "/sub/deep", g.content()})
		g.dirs = append(g.dirs, p)
		return hx.JStr(p)
	case c < 20:
		g.count("leaf_regular")
		p := w + "/" + name
		g.fs = append(g.fs, c13Entry{'F', p, g.content()})
		g.sources = append(g.sources, p)
		return hx.JStr(p)
	case c == 21, c == 22:
		g.count("leaf_null")
		return hx.JNull()
	case c == 23:
		g.count("leaf_empty_string")
		return hx.JStr("")
	case c == 24, c == 25:
		g.count("leaf_missing_file")
		return hx.JStr(w + "/" + name + "_missing")
	case c == 26, c == 27:
		if len(g.sources) > 0 {
			g.count("leaf_same_file_again")
			return hx.JStr(hx.Pick(g.r, g.sources))
		}
		fallthrough
	case c == 28:
		g.count("leaf_symlink_relative")
		p := w + "/" + name
		g.fs = append(g.fs, c13Entry{'F', p + "_target", g.content()}, c13Entry{'L', p, name + "_target"})
		return hx.JStr(p)
	case c == 29:
		g.count("leaf_symlink_absolute")
		p := w + "/" + name
		g.fs = append(g.fs, c13Entry{'F', p + "_target", g.content()}, c13Entry{'L', p, p + "_target"})
		return hx.JStr(p)
	case c == 30 && g.r.Intn(2) == 0:
		g.count("leaf_symlink_chain")
		p := w + "/" + name
		g.fs = append(g.fs, c13Entry{'F', p + "_t2", g.content()},
			c13Entry{'L', p + "_t1", "./" + name + "_t2"}, c13Entry{'L', p, "../w/" + name + "_t1"})
		return hx.JStr(p)
	case c == 30 || (c == 31 && g.r.Intn(2) == 0):
		// a chain of relative links across directories, with an unrelated
		// file of the final name next to the first link: every hop is
		// relative to the directory of the link just read
		g.count("leaf_symlink_chain_across_directories")
		p := w + "/" + name
		g.fs = append(g.fs, c13Entry{'D', p + "_d", ""},
			c13Entry{'F', p + "_d/" + name + "_v1", g.content()},
			c13Entry{'L', p + "_d/latest", name + "_v1"},
			c13Entry{'F', w + "/" + name + "_v1", "unrelated " + g.content()},
			c13Entry{'L', p, name + "_d/latest"})
		return hx.JStr(p)
	case c == 31:
		g.count("leaf_symlink_to_outside")
		p := w + "/" + name
		g.fs = append(g.fs, c13Entry{'F', c13Root + "/ext/" + name, g.content()},
			c13Entry{'L', p, "../../ext/" + name})
		return hx.JStr(p)
	case c == 32:
		g.count("leaf_symlink_dangling")
		p := w + "/" + name
		g.fs = append(g.fs, c13Entry{'L', p, "nowhere_" + name})
		return hx.JStr(p)
	case c == 33 && g.r.Intn(3) == 0:
		// a cycle of links (the Readlink loop of copyOutSymlink is bounded)
		g.count("leaf_symlink_cycle")
		p := w + "/" + name
		g.fs = append(g.fs, c13Entry{'L', p, name + "_b"}, c13Entry{'L', p + "_b", "./" + name})
		return hx.JStr(p)
	case c == 33, c == 34:
		g.count("leaf_outside_pipestance")
		p := c13Root + "/ext/" + name
		g.fs = append(g.fs, c13Entry{'F', p, g.content()})
		return hx.JStr(p)
	case c == 35:
		g.count("leaf_outside_symlink")
		p := c13Root + "/ext/" + name
		g.fs = append(g.fs, c13Entry{'F', p + "_target", g.content()}, c13Entry{'L', p, name + "_target"})
		return hx.JStr(p)
	case c == 36:
		// outside the pipestance, but its path contains the pipestance path
		g.count("leaf_outside_sibling_prefix")
		p := c13Root + "/ps2/" + name
		g.fs = append(g.fs, c13Entry{'F', p, g.content()})
		return hx.JStr(p)
	case c == 37 && g.wellTyped == 0:
		g.count("leaf_not_a_string")
		return hx.JInt(int64(g.r.Intn(100)))
	case c == 38:
		g.count("leaf_relative_path")
		return hx.JStr("w/" + name)
	case c == 39 && g.r.Intn(2) == 0:
		if len(g.dirs) > 0 && g.r.Intn(2) == 0 {
			// a file inside a directory that is itself an (earlier) output
			g.count("leaf_inside_directory_output")
			return hx.JStr(hx.Pick(g.r, g.dirs) + "/inner.txt")
		}
		g.count("leaf_directory_trailing_slash")
		p := w + "/" + name
		g.fs = append(g.fs, c13Entry{'D', p, ""}, c13Entry{'F', p + "/inner.txt", g.content()})
		return hx.JStr(p + "/")
	default:
		g.count("leaf_unclean_path")
		p := w + "/" + name
		g.fs = append(g.fs, c13Entry{'F', p, g.content()})
		return hx.JStr(w + "/./" + name)
	}
}

func (g *c13Gen_) plainValue(t *c13Type) hx.JV {
	switch t.k {
	case 'i':
		return hx.JInt(int64(g.r.Intn(2000)) - 1000)
	case 's':
		switch g.r.Intn(4) {
		case 0:
			// a string that names a real file: must be left alone
			g.nfile++
			p := fmt.Sprintf("%s/ps/w/s%d", c13Root, g.nfile)
			g.fs = append(g.fs, c13Entry{'F', p, g.content()})
			return hx.JStr(p)
		case 1:
			return hx.JStr("")
		default:
			return hx.JStr(fmt.Sprintf("str \"%d\" \\ é\n", g.r.Intn(100)))
		}
	default:
		switch g.r.Intn(3) {
		case 0:
			return hx.JObj([]hx.JKV{})
		case 1:
			return hx.JObj([]hx.JKV{{Key: "z", Val: hx.JArr([]hx.JV{hx.JInt(1), hx.JNull(), hx.JBool(true)})}, {Key: "a", Val: hx.JStr("v")}})
		default:
			return hx.JObj([]hx.JKV{{Key: "n", Val: hx.JNum(bigInt(15), -1)}})
		}
	}
}

func (g *c13Gen_) value(t *c13Type) hx.JV {
	if g.r.Intn(14) == 0 {
		g.count("value_null")
		return hx.JNull()
	}
	if g.rich && g.wellTyped == 0 && g.r.Intn(60) == 0 {
		g.count("value_of_wrong_json_kind")
		return hx.Pick(g.r, []hx.JV{hx.JInt(3), hx.JStr("x"), hx.JArr([]hx.JV{}), hx.JObj([]hx.JKV{}), hx.JBool(true)})
	}
	switch t.k {
	case 'i', 's', 'u':
		return g.plainValue(t)
	case 'f', 'p', 'x':
		return g.fileLeaf(t)
	case 'A':
		return g.arrayValue(t.elem, t.dim)
	case 'M':
		n := g.r.Intn(4)
		if g.r.Intn(30) == 0 {
			n = 0
		}
		keys := append([]string(nil), c13Keys...)
		o := []hx.JKV{}
		for i := 0; i < n; i++ {
			j := g.r.Intn(len(keys))
			k := keys[j]
			keys = append(keys[:j], keys[j+1:]...)
			o = append(o, hx.JKV{Key: k, Val: g.value(t.elem)})
		}
		if g.rich && g.r.Intn(12) == 0 {
			// (its value is well-typed: the summary printer, which is not
			// modelled, reports ill-typed values there as errors)
			g.count("map_key_not_a_filename")
			g.wellTyped++
			o = append(o, hx.JKV{Key: hx.Pick(g.r, c13BadKeys), Val: g.value(t.elem)})
			g.wellTyped--
		}
		return hx.JObj(o)
	case 'S':
		return g.structValue(t.members)
	}
	panic("bad type")
}

func (g *c13Gen_) arrayValue(elem *c13Type, dim int) hx.JV {
	n := g.r.Intn(4)
	switch g.r.Intn(40) {
	case 0:
		n = 0
	case 1:
		n = 10 + g.r.Intn(3) // two-digit indices
	}
	a := []hx.JV{}
	for i := 0; i < n; i++ {
		if dim > 1 {
			a = append(a, g.arrayValue(elem, dim-1))
		} else {
			a = append(a, g.value(elem))
		}
	}
	if dim > 1 {
		g.count("array_multi_dim")
	}
	return hx.JArr(a)
}

func (g *c13Gen_) structValue(ms []c13Member) hx.JV {
	o := []hx.JKV{}
	for _, m := range ms {
		switch g.r.Intn(16) {
		case 0:
			g.count("struct_member_absent")
			continue
		}
		o = append(o, hx.JKV{Key: m.id, Val: g.value(m.t)})
	}
	if g.r.Intn(12) == 0 {
		g.count("struct_extra_key")
		o = append(o, hx.JKV{Key: "zz_extra", Val: hx.JInt(1)})
	}
	// the order of keys in the file is arbitrary
	for i := len(o) - 1; i > 0; i-- {
		j := g.r.Intn(i + 1)
		o[i], o[j] = o[j], o[i]
	}
	return hx.JObj(o)
}

func c13Gen(tier string, r *hx.Rng) {
	// hx.Rng streams of neighbouring seeds are shifts of one another:
	// re-seed from one draw so that different seeds give unrelated cases
	r = hx.NewRng(r.Next())
	n := 1500
	if tier == "thorough" {
		n = 30000
	}
	stats := map[string]int{}
	for i := 0; i < n; i++ {
		g := &c13Gen_{r: r, stats: stats, rich: i%3 != 0, preferOverlap: i%10 == 4}
		depth := 1 + r.Intn(3)
		ms := g.members(1+r.Intn(4), depth)
		mode := "s"
		switch r.Intn(10) {
		case 0:
			mode = "a"
		case 1:
			mode = "m"
		}
		var outs hx.JV
		switch mode {
		case "s":
			outs = g.structValue(ms)
		case "a":
			k := 1 + r.Intn(3)
			a := []hx.JV{}
			for j := 0; j < k; j++ {
				a = append(a, g.structValue(ms))
			}
			outs = hx.JArr(a)
		case "m":
			o := []hx.JKV{}
			for j, k := range []string{"k1", "k two", "é"}[:1+r.Intn(3)] {
				_ = j
				g.dirs = nil
				g.sources = nil // forks of a map call are visited in random order: no shared sources
				o = append(o, hx.JKV{Key: k, Val: g.structValue(ms)})
			}
			outs = hx.JObj(o)
		}
		if g.rich && r.Intn(25) == 0 {
			// a previous, interrupted post-processing left something in outs/
			g.count("outs_not_empty_before")
			g.fs = append(g.fs, c13Entry{'D', c13Root + "/ps/outs", ""})
			nm := c13OutName(ms[0].id, ms[0].t, ms[0].out)
			g.fs = append(g.fs, c13Entry{'F', c13Root + "/ps/outs/" + nm, "stale"})
		}
		g.count("mode_" + mode)
		var b strings.Builder
		c13EncMembers(&b, ms)
		fmt.Fprintf(hx.Out, "c %s %s %s %s\n", mode, b.String(), c13EncFs(g.fs), outs.Enc())
	}
	// naming cases: is a struct whose members have these names accepted?
	nn := 300
	if tier == "thorough" {
		nn = 3000
	}
	for i := 0; i < nn; i++ {
		var ms []c13Member
		k := 2 + r.Intn(3)
		ids := []string{"a", "b", "c", "report", "data"}
		outsN := []string{"", "", "a", "b.txt", "a.txt", "report.html", "data", "c"}
		for j := 0; j < k; j++ {
			var t *c13Type
			switch r.Intn(6) {
			case 0:
				t = &c13Type{k: 'i'}
			case 1:
				t = &c13Type{k: 'f'}
			case 2:
				t = &c13Type{k: 'A', dim: 1, elem: &c13Type{k: 'x', name: "txt"}}
			case 3:
				t = &c13Type{k: 's'}
			default:
				t = &c13Type{k: 'x', name: hx.Pick(r, []string{"txt", "html"})}
			}
			ms = append(ms, c13Member{id: ids[j], t: t, out: hx.Pick(r, outsN)})
		}
		var b strings.Builder
		c13EncMembers(&b, ms)
		fmt.Fprintf(hx.Out, "n %s\n", b.String())
	}
	keys := make([]string, 0, len(stats))
	for k := range stats {
		keys = append(keys, k)
	}
	sort.Strings(keys)
	var sb bytes.Buffer
	for _, k := range keys {
		fmt.Fprintf(&sb, "%s=%d ", k, stats[k])
	}
	fmt.Fprintln(os.Stderr, "C13-DISTRIBUTION", sb.String())
}

// ------------------------------------------------------------------ oracle
//
// The property read directly on the implementation, without the model: the
// rewritten _outs parses; it has the shape of the original; values that are
// not file-typed are unchanged; every file-typed leaf that named something
// readable before post-processing is readable under outs/ at the path derived
// from parameter names, types and explicit out names with the same content,
// and the rewritten leaf names something with that content too.

type c13Leaf struct {
	where   string // JSON position, for messages
	derived string // path below outs/
	src     string // real path named by the original leaf
	ctx     string
	sig     string // content signature before the run ("" = nothing readable)
	destPre bool   // something was already at the destination
	srcKind string
	newVal  *hx.JV
}

type c13Checker struct {
	root   string
	leaves []*c13Leaf
	fails  []string
}

func (c *c13Checker) failf(class, format string, a ...interface{}) {
	c.fails = append(c.fails, class+" "+hx.H(fmt.Sprintf(format, a...)))
}

func c13Legal(name string) bool {
	return name != "" && name != "." && name != ".." && len(name) <= 255 &&
		!strings.ContainsAny(name, "/\x00")
}

func jvGet(v hx.JV, k string) (hx.JV, bool) {
	var r hx.JV
	ok := false
	for _, kv := range v.O {
		if kv.Key == k {
			r, ok = kv.Val, true
		}
	}
	return r, ok
}

func c13PadIndex(i, n int) string {
	w := len(strconv.Itoa(n))
	return fmt.Sprintf("%0*d", w, i)
}

// walk compares the original value with the rewritten one along the type.
func (c *c13Checker) walk(t *c13Type, where, derived, ctx string, orig hx.JV, nv hx.JV) {
	if t.kind() < 2 {
		if orig.Canon().Enc() != nv.Canon().Enc() {
			c.failf("nonfile_value_changed", "%s: %s became %s", where, orig.JSON(), nv.JSON())
		}
		return
	}
	if orig.K == 'n' {
		if nv.K != 'n' {
			c.failf("null_changed", "%s: null became %s", where, nv.JSON())
		}
		return
	}
	switch t.k {
	case 'f', 'p', 'x':
		if orig.K != 's' {
			if orig.Canon().Enc() != nv.Canon().Enc() {
				c.failf("illtyped_leaf_changed", "%s", where)
			}
			return
		}
		nvc := nv
		c.leaves = append(c.leaves, &c13Leaf{where: where, derived: derived, src: orig.S, ctx: ctx, newVal: &nvc})
	case 'A':
		c.walkArray(t.elem, t.dim, where, derived, ctx, orig, nv)
	case 'M':
		if orig.K != '{' {
			if orig.Canon().Enc() != nv.Canon().Enc() {
				c.failf("illtyped_value_changed", "%s", where)
			}
			return
		}
		if nv.K != '{' {
			c.failf("shape_map", "%s: object became %s", where, nv.JSON())
			return
		}
		oc := orig.Canon()
		var missingLegal, missingIllegal []string
		for _, kv := range oc.O {
			sub, ok := jvGet(nv, kv.Key)
			if !ok {
				if c13Legal(kv.Key) {
					missingLegal = append(missingLegal, kv.Key)
				} else {
					missingIllegal = append(missingIllegal, kv.Key)
				}
				continue
			}
			if !c13Legal(kv.Key) {
				// no entry of outs/ can have this name: the value has to stay as it is
				if kv.Val.Canon().Enc() != sub.Canon().Enc() {
					c.failf("map_key_not_a_filename_value_changed", "%s[%q]", where, kv.Key)
				}
				continue
			}
			c.walk(t.elem, where+"["+strconv.Quote(kv.Key)+"]", derived+"/"+c13OutName(kv.Key, t.elem, ""), ctx, kv.Val, sub)
		}
		if len(missingLegal) > 0 {
			c.failf("shape_map_key_lost", "%s: keys %q are missing from the rewritten map", where, missingLegal)
		}
		if len(missingIllegal) > 0 {
			c.failf("shape_map_key_not_a_filename_dropped", "%s: keys %q are missing from the rewritten map", where, missingIllegal)
		}
		for _, kv := range nv.O {
			if _, ok := jvGet(orig, kv.Key); !ok {
				c.failf("shape_map_key_added", "%s: key %q", where, kv.Key)
			}
		}
	case 'S':
		if orig.K != '{' {
			if orig.Canon().Enc() != nv.Canon().Enc() {
				c.failf("illtyped_value_changed", "%s", where)
			}
			return
		}
		if nv.K != '{' {
			c.failf("shape_struct", "%s: object became %s", where, nv.JSON())
			return
		}
		c.walkMembers(t.members, where, derived, ctx, orig, nv, false)
	}
}

func (c *c13Checker) walkArray(elem *c13Type, dim int, where, derived, ctx string, orig, nv hx.JV) {
	if orig.K != '[' {
		if orig.Canon().Enc() != nv.Canon().Enc() {
			c.failf("illtyped_value_changed", "%s", where)
		}
		return
	}
	if nv.K != '[' || len(nv.A) != len(orig.A) {
		c.failf("shape_array", "%s: %s became %s", where, orig.JSON(), nv.JSON())
		return
	}
	for i := range orig.A {
		w := where + "[" + strconv.Itoa(i) + "]"
		if dim > 1 {
			if orig.A[i].K == 'n' {
				if nv.A[i].K != 'n' {
					c.failf("null_changed", "%s", w)
				}
				continue
			}
			c.walkArray(elem, dim-1, w, derived+"/"+c13PadIndex(i, len(orig.A)), "multidim_array", orig.A[i], nv.A[i])
		} else {
			c.walk(elem, w, derived+"/"+c13OutName(c13PadIndex(i, len(orig.A)), elem, ""), ctx, orig.A[i], nv.A[i])
		}
	}
}

// top: parameters of the call (an absent parameter stays absent);
// otherwise struct members (an absent member may become null).
func (c *c13Checker) walkMembers(ms []c13Member, where, derived, ctx string, orig, nv hx.JV, top bool) {
	if len(orig.O) == 0 && len(nv.O) == 0 {
		return
	}
	for _, m := range ms {
		o, okO := jvGet(orig, m.id)
		n, okN := jvGet(nv, m.id)
		w := where + "." + m.id
		switch {
		case !okO && !okN:
		case !okO:
			if n.K != 'n' {
				c.failf("absent_member_got_value", "%s: %s", w, n.JSON())
			}
		case !okN:
			c.failf("shape_member_lost", "%s", w)
		default:
			d := c13OutName(m.id, m.t, m.out)
			if derived != "" {
				d = derived + "/" + d
			}
			c.walk(m.t, w, d, ctx, o, n)
		}
	}
	known := map[string]bool{}
	for _, m := range ms {
		known[m.id] = true
	}
	for _, kv := range nv.O {
		if !known[kv.Key] {
			c.failf("shape_unknown_key", "%s: key %q", where, kv.Key)
		}
	}
}

// signature of what a path gives when read (symbolic links followed)
func c13Sig(p string) string {
	info, err := os.Stat(p)
	if err != nil {
		return ""
	}
	if !info.IsDir() {
		b, err := os.ReadFile(p)
		if err != nil {
			return ""
		}
		return "F:" + string(b)
	}
	var parts []string
	filepath.Walk(p, func(q string, qi os.FileInfo, err error) error {
		if err != nil || q == p {
			return nil
		}
		rel, _ := filepath.Rel(p, q)
		if qi.IsDir() {
			parts = append(parts, "D "+rel)
		} else if b, err := os.ReadFile(q); err == nil {
			parts = append(parts, "F "+rel+" "+string(b))
		}
		return nil
	})
	sort.Strings(parts)
	return "D:" + strings.Join(parts, "\x00")
}

func c13SrcKind(root, p string) string {
	info, err := os.Lstat(p)
	if err != nil {
		return "missing"
	}
	k := "regular"
	switch {
	case info.Mode()&os.ModeSymlink != 0:
		k = "symlink"
	case info.IsDir():
		k = "directory"
	}
	if strings.HasPrefix(p, root+"/ps/") {
		return k + "_inside"
	}
	return k + "_outside"
}

func c13OracleCase(scratch string, n int, f []string) string {
	mode, ms, fsys, outs := c13ParseCase(f)
	root := filepath.Join(scratch, "c13o", strconv.Itoa(n))
	os.RemoveAll(root)
	defer os.RemoveAll(root)
	for _, d := range []string{"/ps/w", "/ext", "/ps2"} {
		os.MkdirAll(root+d, 0o755)
	}
	for _, e := range fsys {
		p := c13ToReal(root, e.path)
		switch e.kind {
		case 'D':
			os.MkdirAll(p, 0o755)
		case 'F':
			os.WriteFile(p, []byte(e.data), 0o644)
		case 'L':
			os.Symlink(c13ToReal(root, e.data), p)
		}
	}
	if _, err := os.Lstat(root + "/ps/outs"); err == nil {
		// outs/ is not empty before post-processing: not the completion of
		// a fresh pipestance, the property makes no claim
		return "skip"
	}
	real := c13MapStrings(outs, func(s string) string { return c13ToReal(root, s) })
	// Pass 1 over the original value alone (new = original) collects the
	// leaves, so that their content can be read before the run.
	pre := &c13Checker{root: root}
	c13WalkTop(pre, mode, ms, real, real)
	type snap struct {
		sig, kind string
		destPre   bool
	}
	snaps := map[string]snap{}
	for _, l := range pre.leaves {
		_, err := os.Lstat(root + "/ps/outs/" + l.derived)
		snaps[l.where] = snap{c13Sig(l.src), c13SrcKind(root, l.src), err == nil}
	}
	newOuts, _, serr := core.VerifPostProcess([]byte(c13Mro(mode, ms)), filepath.Join(root, "p.mro"),
		"psid", root+"/ps", [][]byte{[]byte(real.JSON())})
	if serr != nil {
		return "skip"
	}
	nv, err := hx.ParseJSON(newOuts[0])
	if err != nil {
		return "FAIL invalid_json " + hx.H(string(newOuts[0]))
	}
	c := &c13Checker{root: root}
	c13WalkTop(c, mode, ms, real, nv)
	for _, l := range c.leaves {
		s := snaps[l.where]
		if s.sig == "" || s.destPre {
			// nothing readable was named, or the destination was occupied
			// before the run (not a completed fresh pipestance)
			continue
		}
		class := s.kind
		if l.ctx != "" {
			class = l.ctx
		}
		for _, o := range c.leaves {
			// two outputs, one naming a directory and the other something
			// inside it
			if o != l && (strings.HasPrefix(l.src, strings.TrimRight(o.src, "/")+"/") ||
				strings.HasPrefix(o.src, strings.TrimRight(l.src, "/")+"/")) && o.src != "" && l.src != "" {
				class = "file_inside_directory_output"
			}
		}
		dest := root + "/ps/outs/" + l.derived
		if got := c13Sig(dest); got != s.sig {
			c.failf("leaf_not_materialised:"+class, "%s: outs/%s does not hold the content of %s", l.where, l.derived, c13ToModel(root, l.src))
			continue
		}
		if l.newVal.K != 's' || c13Sig(l.newVal.S) != s.sig {
			c.failf("leaf_value_not_pointing_at_content:"+class, "%s: rewritten value %s", l.where, c13MapStrings(*l.newVal, func(s string) string { return c13ToModel(root, s) }).JSON())
		}
	}
	if len(c.fails) == 0 {
		return "ok"
	}
	sort.Strings(c.fails)
	return "FAIL " + c.fails[0]
}

func c13WalkTop(c *c13Checker, mode string, ms []c13Member, orig, nv hx.JV) {
	switch mode {
	case "s":
		if nv.K != '{' {
			c.failf("shape_top", "not an object")
			return
		}
		c.walkMembers(ms, "outs", "", "", orig, nv, true)
	case "a":
		if nv.K != '[' || len(nv.A) != len(orig.A) {
			c.failf("shape_top", "array of forks changed length")
			return
		}
		for i := range orig.A {
			if orig.A[i].K == '{' && nv.A[i].K == '{' {
				c.walkMembers(ms, "outs["+strconv.Itoa(i)+"]", strconv.Itoa(i), "", orig.A[i], nv.A[i], true)
			}
		}
	case "m":
		if nv.K != '{' {
			c.failf("shape_top", "not an object")
			return
		}
		for _, kv := range orig.Canon().O {
			sub, ok := jvGet(nv, kv.Key)
			if !ok {
				c.failf("shape_top", "fork key %q lost", kv.Key)
				continue
			}
			if kv.Val.K == '{' && sub.K == '{' {
				c.walkMembers(ms, "outs["+strconv.Quote(kv.Key)+"]", kv.Key, "", kv.Val, sub, true)
			}
		}
	}
}

func c13Oracle(args []string) {
	scratch := os.TempDir()
	if len(args) > 0 {
		scratch = args[0]
	}
	n := 0
	hx.Lines(os.Stdin, func(f []string) {
		n++
		switch f[0] {
		case "c":
			fmt.Fprintln(hx.Out, c13OracleCase(scratch, n, f))
		case "n":
			// duplicate names below outs/ must be refused by the compiler
			ms := c13ParseMembers(f[1])
			seen := map[string]bool{}
			dup := false
			for _, m := range ms {
				if m.t.kind() < 2 {
					continue
				}
				nm := c13OutName(m.id, m.t, m.out)
				if seen[nm] {
					dup = true
				}
				seen[nm] = true
			}
			src := c13Mro("s", []c13Member{{id: "o", t: &c13Type{k: 'S', name: "NM", members: ms}}})
			_, _, _, err := syntax.ParseSourceBytes([]byte(src), "n.mro", nil, false)
			switch {
			case dup && err == nil:
				fmt.Fprintln(hx.Out, "FAIL duplicate_out_name_accepted", hx.H(src))
			case dup:
				fmt.Fprintln(hx.Out, "ok")
			default:
				fmt.Fprintln(hx.Out, "skip")
			}
		default:
			fmt.Fprintln(hx.Out, "skip")
		}
	})
}
