package main

// C07, run-time half: accepted programs are run by the real mrp with
// --strict=error; every stage emits a constant that conforms to its declared
// output types (nulls, empty collections, extra struct fields, ints for
// floats included).  Observed: failures / alarms of the pipestance, and
// whether every argument record a stage received validates against the
// declared input types (Type.IsValidJson of the compiled program).

import (
	"encoding/json"
	"fmt"
	"os"
	"path/filepath"
	"strconv"
	"strings"
	"sync"
	"time"

	"github.com/martian-lang/martian/martian/syntax"

	"verifharness/internal/hx"
)

func (g *c7gen) genValue(t c7ty, depth int) hx.JV {
	if g.r.Intn(8) == 0 {
		return hx.JNull()
	}
	if t.arr > 0 {
		et := t
		et.arr--
		n := g.r.Intn(3)
		a := []hx.JV{}
		for i := 0; i < n; i++ {
			a = append(a, g.genValue(et, depth+1))
		}
		return hx.JArr(a)
	}
	if t.mp > 0 {
		et := c7ty{base: t.base, arr: t.mp - 1}
		n := g.r.Intn(3)
		o := []hx.JKV{}
		for i := 0; i < n; i++ {
			o = append(o, hx.JKV{Key: []string{"k1", "k2"}[i], Val: g.genValue(et, depth+1)})
		}
		return hx.JObj(o)
	}
	if st := g.structByName(t.base); st != nil {
		var o []hx.JKV
		for _, m := range st.outs {
			o = append(o, hx.JKV{Key: m.name, Val: g.genValue(m.t, depth+1)})
		}
		if g.r.Intn(3) == 0 {
			// an undeclared field: the value still conforms to the struct type
			o = append(o, hx.JKV{Key: "zz_extra", Val: hx.JBool(true)})
			g.stats["value_extra_struct_field"]++
		}
		return hx.JObj(o)
	}
	switch t.base {
	case "int":
		return hx.JInt(int64(g.r.Intn(100) - 50))
	case "float":
		if g.r.Bool() {
			return hx.JInt(int64(g.r.Intn(10)))
		}
		v, _ := hx.ParseNumber(hx.Pick(g.r, []string{"1.5", "-0.25", "1e3", "2.0"}))
		return v
	case "bool":
		return hx.JBool(g.r.Bool())
	case "map":
		return hx.JObj([]hx.JKV{{Key: "a", Val: hx.JInt(1)}, {Key: "b", Val: hx.JArr([]hx.JV{hx.JStr("x")})}})
	}
	return hx.JStr(hx.Pick(g.r, []string{"x", "/no/such/file.txt", "some string"}))
}

// vh c07 genprogs <outdir> <n> <seed> <stagecmd>
func c07GenProgs(args []string) {
	outdir, stagecmd := args[0], args[3]
	n, _ := strconv.Atoi(args[1])
	seed, _ := strconv.ParseUint(args[2], 10, 64)
	rng := hx.NewRng(seed + 7919)
	stats := map[string]int{}
	made := 0
	for tries := 0; made < n && tries < 20*n; tries++ {
		g := &c7gen{r: rng, stats: stats, runtime: true}
		p := g.gen()
		src := p.render(stagecmd)
		if _, _, _, err := syntax.ParseSourceBytes([]byte(src), "pipeline.mro", nil, false); err != nil {
			stats["runtime_gen_rejected"]++
			continue
		}
		dir := filepath.Join(outdir, fmt.Sprintf("p%04d", made))
		os.MkdirAll(dir, 0o755)
		os.WriteFile(filepath.Join(dir, "pipeline.mro"), []byte(src), 0o644)
		stages := map[string]interface{}{}
		for _, c := range p.callables {
			if !c.stage {
				continue
			}
			outs := map[string]interface{}{}
			for _, o := range c.outs {
				outs[o.name] = map[string]string{"lit": g.genValue(o.t, 0).Enc()}
			}
			stages[c.name] = map[string]interface{}{"split": false, "outs": outs}
		}
		sp, _ := json.Marshal(map[string]interface{}{"stages": stages})
		os.WriteFile(filepath.Join(dir, "spec.json"), sp, 0o644)
		made++
	}
	fmt.Fprintln(hx.Out, c7sortedStats(stats))
}

// vh c07 run <progsdir> <bindir> <parallel>
// One line per program: <name> ok jobs=<n> args=<n> | <name> FAIL <class> <detail>
func c07Run(args []string) {
	progs, bindir := args[0], args[1]
	par, _ := strconv.Atoi(args[2])
	entries, _ := os.ReadDir(progs)
	var dirs []string
	for _, e := range entries {
		if e.IsDir() {
			dirs = append(dirs, filepath.Join(progs, e.Name()))
		}
	}
	sem := make(chan struct{}, par)
	var wg sync.WaitGroup
	out := make([]string, len(dirs))
	for i, d := range dirs {
		wg.Add(1)
		sem <- struct{}{}
		go func(i int, d string) {
			defer wg.Done()
			defer func() { <-sem }()
			out[i] = filepath.Base(d) + " " + c07RunOne(bindir, d)
		}(i, d)
	}
	wg.Wait()
	for _, s := range out {
		fmt.Fprintln(hx.Out, s)
	}
}

func c07OneLine(s string, n int) string {
	s = strings.Join(strings.Fields(s), " ")
	if len(s) > n {
		s = s[:n]
	}
	return s
}

func c07RunOne(bindir, dir string) string {
	r := c07RunPs(bindir, dir, "ps")
	if strings.HasPrefix(r, "FAIL run_") && !strings.Contains(r, "panic") {
		// A type error does not depend on timing: a failure that a second
		// run of the same program does not show is the machine's, not the
		// program's (reported in the summary line, not as a violation).
		if r2 := c07RunPs(bindir, dir, "ps2"); strings.HasPrefix(r2, "ok ") {
			return r2 + " flaky=" + strings.Fields(r)[1]
		}
	}
	return r
}

func c07RunPs(bindir, dir, psid string) string {
	res := runMrp(bindir, dir, psid, []string{"--strict=error"}, nil, 90*time.Second)
	os.WriteFile(filepath.Join(dir, psid+".log"), []byte(res.Stdout), 0o644)
	src, _ := os.ReadFile(filepath.Join(dir, "pipeline.mro"))
	_, _, ast, err := syntax.ParseSourceBytes(src, "pipeline.mro", nil, false)
	if err != nil {
		return "FAIL harness does not compile"
	}
	if res.TimedOut {
		return "FAIL run_hang " + c07OneLine(res.Stdout[max(0, len(res.Stdout)-300):], 300)
	}
	if res.Exit != 0 {
		return "FAIL " + c07FailClass(res.Stdout) + " exit=" + strconv.Itoa(res.Exit) + " " + c07FailDetail(res.Stdout)
	}
	// alarms of a completed run
	var alarms []string
	filepath.Walk(filepath.Join(dir, psid), func(p string, info os.FileInfo, err error) error {
		if err == nil && !info.IsDir() && info.Name() == "_alarm" {
			b, _ := os.ReadFile(p)
			alarms = append(alarms, c07OneLine(string(b), 200))
		}
		return nil
	})
	if len(alarms) > 0 {
		return "FAIL run_alarm " + alarms[0]
	}
	// every delivered argument record conforms to the declared input types
	stageOf := map[string]string{}
	for _, e := range res.Events {
		if e.Kind == "start" {
			stageOf[e.ID] = e.Stage
		}
	}
	nargs := 0
	for _, e := range res.Events {
		if e.Kind != "args" {
			continue
		}
		st, _ := ast.Callables.Table[stageOf[e.ID]].(*syntax.Stage)
		if st == nil {
			return "FAIL harness unknown stage of job " + e.ID
		}
		rec := hx.DecodeJV(e.Data)
		for _, ip := range st.InParams.List {
			v := objGet(rec, ip.Id)
			present := false
			for _, kv := range rec.O {
				if kv.Key == ip.Id {
					present = true
				}
			}
			if !present {
				return fmt.Sprintf("FAIL delivered_argument_missing job=%s param=%s", e.ID, ip.Id)
			}
			var al strings.Builder
			t := ast.TypeTable.Get(ip.Tname)
			if err := t.IsValidJson(json.RawMessage(v.JSON()), &al, &ast.TypeTable); err != nil || al.Len() > 0 {
				return fmt.Sprintf("FAIL delivered_argument_does_not_conform job=%s param=%s type=%s value=%s err=%v",
					e.ID, ip.Id, ip.Tname.String(), c07OneLine(v.JSON(), 160), err)
			}
			nargs++
		}
	}
	return fmt.Sprintf("ok jobs=%d args=%d", len(stageOf), nargs)
}

func c07FailClass(log string) string {
	switch {
	case strings.Contains(log, "panic:"):
		if strings.Contains(log, "map<map> is not allowed") {
			return "call_graph_panic_map_of_map"
		}
		return "run_panic"
	case strings.Contains(log, "cannot be bound inside an untyped map") ||
		strings.Contains(log, "to untyped map: contains reference"):
		return "call_graph_error_struct_with_references_bound_to_untyped_map"
	case strings.Contains(log, "map call generates a nested map"):
		return "call_graph_error_nested_typed_map_call"
	case strings.Contains(log, "Error computing forking"):
		return "run_error_computing_forking"
	case strings.Contains(log, "cannot be parsed as") || strings.Contains(log, "TypeError") || strings.Contains(log, "type error"):
		return "run_type_error"
	case strings.Contains(log, "Pipestance failed"):
		return "run_failed"
	}
	return "run_failed_to_start"
}

func c07FailDetail(log string) string {
	for _, key := range []string{"panic:", "error", "Error", "failed"} {
		if i := strings.Index(log, key); i >= 0 {
			return c07OneLine(log[i:], 400)
		}
	}
	return c07OneLine(log, 300)
}
