package main

// C12, concurrent case kinds.  The op-by-op driver of kind s waits for
// quiescence after every call, so it only ever exercises whole method calls.
// These two kinds put other calls INSIDE a running Acquire:
//
//	i <size> <want> <xop> <held amounts...>
//	     holders acquire the given amounts one by one (they fit), then a
//	     request for <want> (id 0) is issued on its own goroutine; while that
//	     Acquire call is running (from the exported Formatter callback, which
//	     Acquire invokes when it decides to wait / to refuse) the operation
//	     <xop> is started on another goroutine: r,<k> (holder k releases),
//	     us,<n>, ua,<n>, uf,<free>,<used>.  If the callback never fires the
//	     operation runs after the request has queued or returned.
//	     Observation after settling: g|q|e (request 0 granted / still queued
//	     / refused) then reserved,cur,avail,qlen.  In the atomic-step model
//	     the two calls happen in one of the two orders; with the mutex held
//	     over the whole of Acquire the order is Acquire then xop.
//	c <size> <rounds> <iters> <updates 0|1> <amounts...>
//	     bounded stress, no hooks: one goroutine per amount (each amount fits
//	     the size, together they do not) does <iters> times Acquire/Release;
//	     optionally one more goroutine keeps calling UpdateSize with values
//	     between the largest request and the size.  Repeated <rounds> times on
//	     fresh semaphores.  Every round must finish within a time bound with
//	     nothing reserved and nobody queued; a monitor samples Reserved().
//	     Observation: done / STALL... ; the model's answer is the constant
//	     "done" (C12_local_jobs_terminate with one semaphore,
//	     C12_reserved_le_max).  This supports the search for a failing
//	     schedule; the theorems stay statements about atomic steps.

import (
	"fmt"
	"runtime"
	"strconv"
	"strings"
	"sync"
	"sync/atomic"
	"time"

	"github.com/martian-lang/martian/martian/core"
	"verifharness/internal/hx"
)

// ------------------------------------------------------------------ i

type c12Inj struct {
	size, want int64
	xop        c12Op
	held       []int64
}

func c12ParseInj(f []string) c12Inj {
	iv := func(s string) int64 {
		v, err := strconv.ParseInt(s, 10, 64)
		if err != nil {
			panic("bad i field " + s)
		}
		return v
	}
	c := c12Inj{size: iv(f[1]), want: iv(f[2]), xop: c12ParseOps(f[3:4])[0]}
	for _, h := range f[4:] {
		c.held = append(c.held, iv(h))
	}
	return c
}

type c12InjObs struct {
	outcome               string // g q e, or STUCK
	res, cur, avail, qlen int64
	fired                 bool // the operation was started from inside Acquire
	holdersOK             bool
	xDoneInsideAcquire    bool
}

func c12RunInj(c c12Inj) c12InjObs {
	var o c12InjObs
	var armed, fired int32
	xdone := make(chan struct{})
	var sem *core.ResourceSemaphore
	runX := func() {
		defer close(xdone)
		defer func() { recover() }()
		switch c.xop.kind {
		case "r":
			if c.xop.id >= 1 && c.xop.id <= len(c.held) {
				sem.Release(c.held[c.xop.id-1])
			}
		case "us":
			sem.UpdateSize(c.xop.a)
		case "ua":
			sem.UpdateActual(c.xop.a)
		case "uf":
			sem.UpdateFreeUsed(c.xop.a, c.xop.b)
		}
	}
	sem = core.NewResourceSemaphore(c.size, func(size int64) string {
		if atomic.LoadInt32(&armed) == 1 && atomic.CompareAndSwapInt32(&fired, 0, 1) {
			go runX()
			// If the caller holds the semaphore's mutex the operation
			// cannot complete before we return; do not wait for long.
			select {
			case <-xdone:
				o.xDoneInsideAcquire = true
			case <-time.After(1500 * time.Microsecond):
			}
		}
		return "x"
	})
	o.holdersOK = true
	for _, h := range c.held {
		done := make(chan error, 1)
		go func(h int64) { done <- sem.Acquire(h) }(h)
		select {
		case err := <-done:
			if err != nil {
				o.holdersOK = false
			}
		case <-time.After(c12Wait):
			o.holdersOK = false
		}
		if !o.holdersOK {
			o.outcome = "HOLDER"
			return o
		}
	}
	q0 := sem.QueueLength()
	atomic.StoreInt32(&armed, 1)
	result := make(chan error, 1)
	go func() { result <- sem.Acquire(c.want) }()
	returned := false
	var rerr error
	deadline := time.Now().Add(c12Wait)
	for spins := 0; ; spins++ {
		select {
		case rerr = <-result:
			returned = true
		default:
		}
		if returned || sem.QueueLength() == q0+1 {
			break
		}
		if time.Now().After(deadline) {
			o.outcome = "STUCK"
			return o
		}
		if spins < 200 {
			runtime.Gosched()
		} else {
			time.Sleep(20 * time.Microsecond)
		}
	}
	atomic.StoreInt32(&armed, 0)
	o.fired = atomic.LoadInt32(&fired) == 1
	if !o.fired && atomic.CompareAndSwapInt32(&fired, 0, 1) {
		go runX()
	}
	select {
	case <-xdone:
	case <-time.After(c12Wait):
		o.outcome = "STUCK"
		return o
	}
	// settle: a grant closes the channel inside the operation; give the
	// woken goroutine a bounded time to report.  Waiting longer than that
	// only happens when the request is queued although it fits.
	if !returned {
		bound := 20 * time.Millisecond
		if sem.QueueLength() == q0 {
			bound = c12Wait // it was dequeued: the result is on its way
		} else if c.want <= sem.Available() {
			bound = 300 * time.Millisecond // should not be queued at all
		}
		select {
		case rerr = <-result:
			returned = true
		case <-time.After(bound):
		}
	}
	switch {
	case returned && rerr == nil:
		o.outcome = "g"
	case returned:
		o.outcome = "e"
	default:
		o.outcome = "q"
	}
	o.res, o.cur, o.avail, o.qlen = sem.Reserved(), sem.CurrentSize(), sem.Available(), int64(sem.QueueLength())
	// unblock
	func() {
		defer func() { recover() }()
		sem.UpdateSize(1 << 61)
	}()
	return o
}

func (o *c12InjObs) String() string {
	if o.outcome != "g" && o.outcome != "q" && o.outcome != "e" {
		return o.outcome
	}
	return fmt.Sprintf("%s %d,%d,%d,%d", o.outcome, o.res, o.cur, o.avail, o.qlen)
}

func c12ImplI(f []string) string {
	o := c12RunInj(c12ParseInj(f))
	return o.String()
}

// The property read on the implementation: when everything has settled, a
// queued request does not fit the free capacity (no lost wake-up, also when
// the release / size increase lands while the Acquire call is in progress);
// the holders' sum equals Reserved() and is within the limit.
func c12OracleI(f []string) string {
	c := c12ParseInj(f)
	o := c12RunInj(c)
	switch o.outcome {
	case "HOLDER":
		return "skip"
	case "STUCK":
		return "FAIL sem_missing_grant the request neither returned nor queued, or the concurrent operation never finished"
	case "q":
		if c.want <= o.avail && o.qlen == 1 {
			return fmt.Sprintf("FAIL sem_lost_wakeup request for %d is at the head of the queue with %d available (%d reserved), never granted; %s landed %s the Acquire call",
				c.want, o.avail, o.res, c12OpString(c.xop), map[bool]string{true: "inside", false: "after"}[o.xDoneInsideAcquire])
		}
	}
	sum := int64(0)
	for k, h := range c.held {
		if !(c.xop.kind == "r" && c.xop.id == k+1) {
			sum += h
		}
	}
	if o.outcome == "g" {
		sum += c.want
	}
	if sum != o.res {
		return fmt.Sprintf("FAIL sem_sum_mismatch holders sum %d, Reserved() %d", sum, o.res)
	}
	if c.xop.kind != "us" || c.xop.a <= c.size {
		if o.res > c.size {
			return fmt.Sprintf("FAIL sem_over_limit Reserved() %d, limit %d", o.res, c.size)
		}
	}
	return "ok"
}

func c12GenInj(r *hx.Rng) string {
	size := hx.Pick(r, []int64{2, 4, 10, 16, 100, 400, 1024, 8192})
	nh := 1 + r.Intn(3)
	held := make([]int64, nh)
	left := size
	for k := range held {
		// leave something free most of the time (the wait message is only
		// formatted when something is available)
		held[k] = 1 + int64(r.Intn(int(left*2/3)+1))
		if held[k] > left {
			held[k] = left
		}
		left -= held[k]
	}
	var want int64
	switch r.Intn(6) {
	case 0:
		want = size
	case 1:
		want = size + 1 + int64(r.Intn(3)) // refused (formats, too)
	case 2:
		want = left // fits at once
	default:
		want = left + 1 + int64(r.Intn(int(size-left)))
		if want > size {
			want = size
		}
	}
	var x string
	switch r.Intn(6) {
	case 0, 1, 2:
		x = fmt.Sprintf("r,%d", 1+r.Intn(nh))
	case 3:
		x = fmt.Sprintf("us,%d", int64(r.Intn(int(size)+1)))
	case 4:
		x = fmt.Sprintf("ua,%d", int64(r.Intn(int(size)*3/2+1)))
	default:
		x = fmt.Sprintf("uf,%d,%d", int64(r.Intn(int(size)+1)), int64(r.Intn(int(size-left)+1)))
	}
	var sb strings.Builder
	fmt.Fprintf(&sb, "i %d %d %s", size, want, x)
	for _, h := range held {
		fmt.Fprintf(&sb, " %d", h)
	}
	return sb.String()
}

// ------------------------------------------------------------------ c

const c12RoundBound = 4 * time.Second

var c12Stalls int32 // stalled rounds seen by this process

func c12RunStress(f []string) string {
	iv := func(s string) int64 {
		v, err := strconv.ParseInt(s, 10, 64)
		if err != nil {
			panic("bad c field " + s)
		}
		return v
	}
	size, rounds, iters, updates := iv(f[1]), int(iv(f[2])), int(iv(f[3])), f[4] == "1"
	var amounts []int64
	maxReq := int64(0)
	for _, a := range f[5:] {
		amounts = append(amounts, iv(a))
		if iv(a) > maxReq {
			maxReq = iv(a)
		}
	}
	for round := 0; round < rounds; round++ {
		if atomic.LoadInt32(&c12Stalls) >= 3 {
			return "STALL-SKIPPED (three rounds already stalled in this run)"
		}
		sem := core.NewResourceSemaphore(size, core.DefaultResourceFormatter("u"))
		var wg sync.WaitGroup
		var refused int32
		for _, a := range amounts {
			wg.Add(1)
			go func(a int64) {
				defer wg.Done()
				for i := 0; i < iters; i++ {
					if err := sem.Acquire(a); err != nil {
						atomic.AddInt32(&refused, 1)
						return
					}
					sem.Release(a)
				}
			}(a)
		}
		stop := make(chan struct{})
		var over int64 = -1
		var aux sync.WaitGroup
		aux.Add(1)
		go func() { // monitor
			defer aux.Done()
			for {
				select {
				case <-stop:
					return
				default:
				}
				if r := sem.Reserved(); r > size || r < 0 {
					atomic.StoreInt64(&over, r)
				}
				runtime.Gosched()
			}
		}()
		if updates {
			aux.Add(1)
			go func() {
				defer aux.Done()
				k := int64(0)
				for {
					select {
					case <-stop:
						return
					default:
					}
					k++
					sem.UpdateSize(maxReq + k%(size-maxReq+1))
					runtime.Gosched()
				}
			}()
		}
		done := make(chan struct{})
		go func() { wg.Wait(); close(done) }()
		stalled := false
		select {
		case <-done:
		case <-time.After(c12RoundBound):
			stalled = true
		}
		close(stop)
		aux.Wait()
		if stalled {
			atomic.AddInt32(&c12Stalls, 1)
			msg := fmt.Sprintf("STALL round %d: %d queued, %d available, %d reserved, current size %d", round,
				sem.QueueLength(), sem.Available(), sem.Reserved(), sem.CurrentSize())
			func() {
				defer func() { recover() }()
				sem.UpdateSize(1 << 61)
			}()
			return msg
		}
		if v := atomic.LoadInt64(&over); v != -1 {
			return fmt.Sprintf("OVER round %d: Reserved() %d, limit %d", round, v, size)
		}
		if atomic.LoadInt32(&refused) > 0 {
			return fmt.Sprintf("REFUSED round %d", round)
		}
		if sem.Reserved() != 0 || sem.QueueLength() != 0 {
			return fmt.Sprintf("LEFTOVER round %d: %d reserved, %d queued", round, sem.Reserved(), sem.QueueLength())
		}
	}
	return "done"
}

func c12OracleC(f []string) string {
	r := c12RunStress(f)
	switch {
	case r == "done":
		return "ok"
	case strings.HasPrefix(r, "STALL-SKIPPED"):
		return "skip"
	case strings.HasPrefix(r, "STALL"):
		return "FAIL sem_stall_under_contention jobs that each fit the limit did not finish: " + r
	case strings.HasPrefix(r, "OVER"):
		return "FAIL sem_over_limit " + r
	case strings.HasPrefix(r, "REFUSED"):
		return "FAIL sem_acquire_outcome a request within the limit was refused: " + r
	}
	return "FAIL sem_sum_mismatch " + r
}

func c12GenStress(r *hx.Rng, rounds int) string {
	size := hx.Pick(r, []int64{1, 1, 2, 3, 4, 10})
	ng := 2 + r.Intn(3)
	var sb strings.Builder
	upd := 0
	if r.Intn(3) == 0 {
		upd = 1
	}
	fmt.Fprintf(&sb, "c %d %d %d %d", size, rounds, 100+r.Intn(150), upd)
	for g := 0; g < ng; g++ {
		// each fits, any two together do not
		fmt.Fprintf(&sb, " %d", size/2+1+int64(r.Intn(int(size-size/2))))
	}
	return sb.String()
}

func c12GenConc(tier string, r *hx.Rng) {
	ni, nc, rounds := 250, 30, 25
	if tier == "thorough" {
		ni, nc, rounds = 5000, 200, 60
	}
	// the two orders of one release around one request, fixed shapes
	fmt.Fprintln(hx.Out, "i 10 8 r,1 5")
	fmt.Fprintln(hx.Out, "i 10 8 ua,10 5")
	fmt.Fprintln(hx.Out, "i 4 4 r,2 1 2")
	for k := 0; k < ni; k++ {
		fmt.Fprintln(hx.Out, c12GenInj(r))
	}
	fmt.Fprintln(hx.Out, "c 1 40 200 0 1 1 1")
	for k := 0; k < nc; k++ {
		fmt.Fprintln(hx.Out, c12GenStress(r, rounds))
	}
}
