package main

// C17 oracle: the property read directly on the implementation (exported
// Type.IsValidJson / FilterJson / IsAssignableFrom on compiled types), with an
// independent statement of "the declared shape" and "only drops undeclared
// struct fields / writes integral floats as integers".  Failure classes are
// narrow (they name the input family).

import (
	"fmt"
	"math/big"
	"os"
	"strconv"
	"strings"

	"github.com/martian-lang/martian/martian/syntax"
	"verifharness/internal/hx"
)

// ---------------------------------------------------------------- the declared shape

func c17LegalKey(k string) bool { return syntax.IsLegalUnixFilename(k) == nil }

var (
	c17MinI64 = new(big.Int).Lsh(big.NewInt(-1), 63)
	c17MaxI64 = new(big.Int).Sub(new(big.Int).Lsh(big.NewInt(1), 63), big.NewInt(1))
)

func c17IsInt64Lit(lit string) bool {
	if !c17IntLit.MatchString(lit) {
		return false
	}
	m, _ := new(big.Int).SetString(lit, 10)
	return m.Cmp(c17MinI64) >= 0 && m.Cmp(c17MaxI64) <= 0
}

func c17SubArr(t *c17Ty) *c17Ty {
	if t.Dim == 1 {
		return t.Elem
	}
	return &c17Ty{K: 'A', Dim: t.Dim - 1, Elem: t.Elem}
}

// c17Shape: v is null or has exactly the declared shape of t.
func c17Shape(t *c17Ty, v jval) bool {
	if v.K == 'n' {
		return true
	}
	switch t.K {
	case 'b':
		switch t.Kind {
		case 's', 'p', 'F':
			return v.K == 's'
		case 'i':
			return v.K == '#' && c17IsInt64Lit(v.Num)
		case 'f':
			if v.K != '#' {
				return false
			}
			_, err := strconv.ParseFloat(v.Num, 64)
			return err == nil
		case 'b':
			return v.K == 't' || v.K == 'f'
		default:
			return v.K == '{'
		}
	case 'u':
		return v.K == 's'
	case 'A':
		if v.K != '[' {
			return false
		}
		for _, x := range v.A {
			if !c17Shape(c17SubArr(t), x) {
				return false
			}
		}
		return true
	case 'M':
		if v.K != '{' {
			return false
		}
		dir := t.T.IsFile() == syntax.KindIsDirectory
		for _, kv := range v.dedup() {
			if !c17Shape(t.Elem, kv.Val) || (dir && !c17LegalKey(kv.Key)) {
				return false
			}
		}
		return true
	default:
		if v.K != '{' {
			return false
		}
		for _, m := range t.Ms {
			x, ok := v.get(m.Id)
			if !ok || !c17Shape(m.T, x) {
				return false
			}
		}
		return true
	}
}

func c17Same(a, b jval) bool { return a.JV().Canon().Enc() == b.JV().Canon().Enc() }

// c17OnlyDrops: o is v except that undeclared struct fields are gone and, where
// the type is int, a number whose float64 value is integral is spelled as that
// integer.
func c17OnlyDrops(t *c17Ty, v, o jval) bool {
	if c17Same(v, o) {
		return true
	}
	switch t.K {
	case 'b':
		// only a literal in float syntax may be respelled
		if t.Kind != 'i' || v.K != '#' || o.K != '#' || !c17IsInt64Lit(o.Num) || c17IntLit.MatchString(v.Num) {
			return false
		}
		fv, err := strconv.ParseFloat(v.Num, 64)
		fo, err2 := strconv.ParseFloat(o.Num, 64)
		iv, _ := strconv.ParseInt(o.Num, 10, 64)
		return err == nil && err2 == nil && fv == fo && float64(iv) == fv
	case 'A':
		if v.K != '[' || o.K != '[' || len(v.A) != len(o.A) {
			return false
		}
		for i := range v.A {
			if !c17OnlyDrops(c17SubArr(t), v.A[i], o.A[i]) {
				return false
			}
		}
		return true
	case 'M':
		if v.K != '{' || o.K != '{' {
			return false
		}
		dv, do := v.dedup(), o.dedup()
		if len(dv) != len(do) {
			return false
		}
		for _, kv := range dv {
			x, ok := o.get(kv.Key)
			if !ok || !c17OnlyDrops(t.Elem, kv.Val, x) {
				return false
			}
		}
		return true
	case 'S':
		if v.K != '{' || o.K != '{' {
			return false
		}
		n := 0
		for _, m := range t.Ms {
			x, ok := v.get(m.Id)
			y, ok2 := o.get(m.Id)
			if ok != ok2 {
				return false
			}
			if ok {
				n++
				if !c17OnlyDrops(m.T, x, y) {
					return false
				}
			}
		}
		return len(o.dedup()) == n
	}
	return false
}

// ---------------------------------------------------------------- classification helpers

// the assignment t <- o goes through "typed map from struct" somewhere
func c17StructToMap(t, o *c17Ty) bool {
	switch {
	case t.K == 'M' && o.K == 'S':
		return true
	case t.K == 'M' && o.K == 'M', t.K == 'A' && o.K == 'A':
		return c17StructToMap(t.Elem, o.Elem)
	case t.K == 'S' && o.K == 'S':
		for _, m := range t.Ms {
			for _, m2 := range o.Ms {
				if m.Id == m2.Id && c17StructToMap(m.T, m2.T) {
					return true
				}
			}
		}
	}
	return false
}

func c17HasDirMap(t *c17Ty) bool {
	switch t.K {
	case 'M':
		return t.T.IsFile() == syntax.KindIsDirectory || c17HasDirMap(t.Elem)
	case 'A':
		return c17HasDirMap(t.Elem)
	case 'S':
		for _, m := range t.Ms {
			if c17HasDirMap(m.T) {
				return true
			}
		}
	}
	return false
}

func c17SanitizeKeys(v jval) jval {
	switch v.K {
	case '[':
		r := jval{K: '[', A: make([]jval, len(v.A))}
		for i, x := range v.A {
			r.A[i] = c17SanitizeKeys(x)
		}
		return r
	case '{':
		r := jval{K: '{'}
		for _, kv := range v.dedup() {
			k := kv.Key
			if !c17LegalKey(k) {
				k = strings.NewReplacer("/", "_", "\x00", "_").Replace(k)
				if len(k) > 200 {
					k = k[:200]
				}
				k = "legal_" + k
			}
			r.O = append(r.O, jkv{k, c17SanitizeKeys(kv.Val)})
		}
		return r
	}
	return v
}

func c17Text(v jval) string {
	var b strings.Builder
	(&c17Style{plain: true}).render(&b, v)
	return b.String()
}

func c17IsPaddedNull(data []byte) bool {
	return strings.TrimSpace(string(data)) == "null" && string(data) != "null"
}

// ---------------------------------------------------------------- oracle

type c17OEnv struct {
	env   *c17Env
	types []*c17Ty
}

func c17Clean(t syntax.Type, lookup *syntax.TypeLookup, data []byte) bool {
	e, a := c17Valid(t, lookup, data)
	return !e && !a
}

func c17OracleCase(oe *c17OEnv, t *c17Ty, data []byte) (res string) {
	defer func() {
		if x := recover(); x != nil {
			res = fmt.Sprintf("FAIL panic %v", x)
		}
	}()
	lookup := oe.env.lookup
	T := t.T
	v, err := c17Parse(data)
	if err != nil {
		return "skip"
	}
	pad := ""
	if c17IsPaddedNull(data) {
		pad = "_padded_null"
	}
	// validation accepts null everywhere ...
	if e, _ := c17Valid(T, lookup, []byte("null")); e {
		return "FAIL valid_rejects_null " + t.Enc()
	}
	// ... and otherwise exactly the values of the declared shape
	clean := c17Clean(T, lookup, data)
	if want := c17Shape(t, v); clean != want {
		return fmt.Sprintf("FAIL valid_shape%s type=%s value=%s accepted=%v declared_shape=%v", pad, c17TS(T), hx.H(string(data)), clean, want)
	}
	out, fatal, _ := T.FilterJson(append([]byte(nil), data...), lookup)
	out = append([]byte(nil), out...)
	o, err := c17Parse(out)
	if err != nil {
		return fmt.Sprintf("FAIL filter_bad_json type=%s value=%s out=%s", c17TS(T), hx.H(string(data)), hx.H(string(out)))
	}
	// idempotent
	out2, _, _ := T.FilterJson(append([]byte(nil), out...), lookup)
	if o2, err := c17Parse(out2); err != nil || !c17Same(o, o2) {
		return fmt.Sprintf("FAIL filter_not_idempotent%s type=%s value=%s once=%s twice=%s", pad, c17TS(T), hx.H(string(data)), hx.H(string(out)), hx.H(string(out2)))
	}
	// changes nothing except ...
	if !fatal && !c17OnlyDrops(t, v, o) {
		return fmt.Sprintf("FAIL filter_changes_value%s type=%s value=%s out=%s", pad, c17TS(T), hx.H(string(data)), hx.H(string(out)))
	}
	// the result validates cleanly whenever the input validated cleanly
	// against any type assignable to this one (including itself)
	for _, src := range oe.types {
		if T.IsAssignableFrom(src.T, lookup) != nil || !c17Clean(src.T, lookup, data) {
			continue
		}
		if !fatal && c17Clean(T, lookup, out) {
			continue
		}
		// classify: does the failure come only from undeclared fields of the
		// source struct / from illegal directory keys?
		class := "filter_invalid_result"
		if c17IsPaddedNull(data) {
			class = "filter_invalid_result_padded_null"
		} else {
			d1, _, _ := src.T.FilterJson(append([]byte(nil), data...), lookup)
			d1 = append([]byte(nil), d1...)
			if f1, ft1, _ := T.FilterJson(append([]byte(nil), d1...), lookup); !ft1 && c17Clean(T, lookup, f1) && c17StructToMap(t, src) {
				class = "struct_to_typed_map_undeclared_field"
			} else if p1, err := c17Parse(d1); err == nil && c17HasDirMap(t) {
				d2 := []byte(c17Text(c17SanitizeKeys(p1)))
				if c17Clean(src.T, lookup, d2) {
					if f2, ft2, _ := T.FilterJson(append([]byte(nil), d2...), lookup); !ft2 && c17Clean(T, lookup, f2) {
						class = "directory_map_key_not_a_filename"
					}
				}
			}
		}
		return fmt.Sprintf("FAIL %s target=%s source=%s value=%s filtered=%s fatal=%v", class, c17TS(T), c17TS(src.T),
			hx.H(string(data)), hx.H(string(out)), fatal)
	}
	return "ok"
}

func c17Assign(a, b syntax.Type, lookup *syntax.TypeLookup) bool { return a.IsAssignableFrom(b, lookup) == nil }

func c17OracleAssign(oe *c17OEnv, a, b *c17Ty) (res string) {
	defer func() {
		if x := recover(); x != nil {
			res = fmt.Sprintf("FAIL panic %v", x)
		}
	}()
	lookup := oe.env.lookup
	got := c17Assign(a.T, b.T, lookup)
	name := c17TS(a.T) + " <- " + c17TS(b.T)
	if a.T.TypeId() == b.T.TypeId() && !got {
		return "FAIL assign_not_reflexive " + name
	}
	switch {
	case a.K == 'A' && b.K == 'A':
		want := c17Assign(a.Elem.T, b.Elem.T, lookup) && a.Dim == b.Dim
		if got != want {
			return fmt.Sprintf("FAIL assign_array_components %s got=%v components=%v", name, got, want)
		}
	case a.K == 'M' && b.K == 'M':
		want := c17Assign(a.Elem.T, b.Elem.T, lookup)
		if got != want {
			return fmt.Sprintf("FAIL assign_map_components %s got=%v components=%v", name, got, want)
		}
	case a.K == 'S' && b.K == 'S':
		want := true
		dims := false
		for _, m := range a.Ms {
			found := false
			for _, m2 := range b.Ms {
				if m.Id == m2.Id {
					found = true
					ok := c17Assign(m.T.T, m2.T.T, lookup)
					want = want && ok
					i1, i2 := m.T.T.TypeId(), m2.T.T.TypeId()
					if ok && (i1.ArrayDim != i2.ArrayDim || i1.MapDim != i2.MapDim) {
						dims = true
					}
				}
			}
			want = want && found
		}
		if got != want {
			class := "assign_struct_components"
			if want && !got && dims {
				class = "assign_struct_stricter_than_members"
			}
			return fmt.Sprintf("FAIL %s %s got=%v components=%v", class, name, got, want)
		}
	}
	return "ok"
}

func c17Oracle(args []string) {
	envs := map[string]*c17OEnv{}
	hx.Lines(os.Stdin, func(f []string) {
		switch f[0] {
		case "e":
			env, err := c17Compile(hx.U(f[2]))
			if err != nil {
				panic(err)
			}
			oe := &c17OEnv{env: env}
			for _, s := range strings.Split(f[3], ",") {
				oe.types = append(oe.types, env.get(c17ParseTid(s)))
			}
			envs[f[1]] = oe
			fmt.Fprintln(hx.Out, "skip")
		case "c":
			oe := envs[f[1]]
			fmt.Fprintln(hx.Out, c17OracleCase(oe, oe.env.get(c17ParseTid(f[2])), []byte(hx.U(f[4]))))
		case "a":
			oe := envs[f[1]]
			fmt.Fprintln(hx.Out, c17OracleAssign(oe, oe.env.get(c17ParseTid(f[2])), oe.env.get(c17ParseTid(f[3]))))
		default:
			fmt.Fprintln(hx.Out, "skip")
		}
	})
}

func c17TS(t syntax.Type) string {
	id := t.TypeId()
	return id.String()
}
