package main

// File behaviour of the generic stage executable for the VDR properties
// (C04, C14).  Registered as a stage hook (stage.go: stageHooks).
//
// spec.json "files": { STAGE: { PHASE: { "write": [[where, relpath, size]...],
//                                        "links": [[relpath, target]...],
//                                        "outs": <template> } } }
// PHASE is split | chunk (main of a splitting stage) | main | join.
// where is "files" or "tmp".  In templates and link targets the prefix "@F/"
// stands for the job's files directory, "@X/" for $VH_OUTSIDE (a directory
// outside the pipestance).
//
// Event log records added here:
//   missing <job> <hex path>          a path found in the arguments does not exist at start
//   corrupt <job> <hex path>          ... exists but its content is not what its writer wrote
//   saw     <job> <hex path>          ... exists and is intact
//   wrote   <job> <kind> <size> <hex path> [<size of link target>]  one line per entry under files/ and tmp/ after writing
//   jobdirs <job> <hex files dir> <hex tmp dir>

import (
	"encoding/json"
	"os"
	"path/filepath"
	"regexp"
	"sort"
	"strconv"
	"strings"

	"verifharness/internal/hx"
)

type c04PhaseSpec struct {
	Write [][]string      `json:"write"`
	Links [][]string      `json:"links"`
	Outs  json.RawMessage `json:"outs"`
	// RmTmp0: the job of chunk 0 removes its own temporary directory when it
	// is done with it (rm -rf "$TMPDIR"); the other chunks leave theirs
	RmTmp0 bool `json:"rmtmp0,omitempty"`
	// By names an argument; Variants maps its canonical encoding (hx Enc) to
	// the behaviour used instead of this one (per-fork behaviour of mapped calls).
	By       string                  `json:"by"`
	Variants map[string]c04PhaseSpec `json:"variants"`
}

var c04SizeRe = regexp.MustCompile(`_s(\d+)\.`)

// c04Content is the content every generated file gets: a function of its base
// name and size only, so that any reader can verify it.
func c04Content(base string, size int) []byte {
	seed := 0
	for _, c := range []byte(base) {
		seed = (seed*31 + int(c)) % 251
	}
	b := make([]byte, size)
	for i := range b {
		b[i] = byte((seed + i*7) % 251)
	}
	return b
}

// c04CheckFile: "" if intact (or not a generated regular file), else why not.
func c04CheckFile(p string) string {
	st, err := os.Stat(p)
	if err != nil {
		return "missing"
	}
	if st.IsDir() {
		return ""
	}
	m := c04SizeRe.FindStringSubmatch(filepath.Base(p))
	if m == nil {
		return ""
	}
	size, _ := strconv.Atoi(m[1])
	b, err := os.ReadFile(p)
	if err != nil {
		return "missing"
	}
	if string(b) != string(c04Content(filepath.Base(p), size)) {
		return "corrupt"
	}
	return ""
}

func c04Paths(v hx.JV, out *[]string) {
	switch v.K {
	case 's':
		if strings.HasPrefix(v.S, "/") {
			*out = append(*out, v.S)
		}
	case '[':
		for _, x := range v.A {
			c04Paths(x, out)
		}
	case '{':
		for _, kv := range v.O {
			if strings.HasPrefix(kv.Key, "/") {
				*out = append(*out, kv.Key)
			}
			c04Paths(kv.Val, out)
		}
	}
}

func c04Subst(s, files string) string {
	if strings.HasPrefix(s, "@F/") {
		return filepath.Join(files, s[3:])
	}
	if s == "@F" {
		return files
	}
	if strings.HasPrefix(s, "@X/") {
		return filepath.Join(os.Getenv("VH_OUTSIDE"), s[3:])
	}
	return s
}

func c04Template(v interface{}, files string) interface{} {
	switch x := v.(type) {
	case string:
		return c04Subst(x, files)
	case []interface{}:
		for i := range x {
			x[i] = c04Template(x[i], files)
		}
		return x
	case map[string]interface{}:
		r := make(map[string]interface{}, len(x))
		for k, e := range x {
			r[c04Subst(k, files)] = c04Template(e, files)
		}
		return r
	}
	return v
}

func c04LogTree(id, kindroot, root string) {
	var lines []string
	filepath.Walk(root, func(p string, info os.FileInfo, err error) error {
		if err != nil || p == root {
			return nil
		}
		k := "f"
		if info.IsDir() {
			k = "d"
		} else if info.Mode()&os.ModeSymlink != 0 {
			k = "l"
		}
		line := "wrote " + id + " " + kindroot + k + " " + strconv.FormatInt(info.Size(), 10) + " " + hx.H(p)
		if k == "l" {
			// the runtime's directory walk opens each entry, so for a link it
			// accounts the size of what the link points to
			if st, err := os.Stat(p); err == nil {
				line += " " + strconv.FormatInt(st.Size(), 10)
			}
		}
		lines = append(lines, line)
		return nil
	})
	sort.Strings(lines)
	for _, l := range lines {
		logEvent("%s", l)
	}
}

func init() {
	stageHooks = append(stageHooks, func(c *stageCtx) {
		raw, ok := c.SpecRaw["files"]
		if !ok {
			return
		}
		var table map[string]map[string]c04PhaseSpec
		if json.Unmarshal(raw, &table) != nil {
			stageDie("bad files table")
		}
		tmp := filepath.Join(c.MD, "tmp")
		logEvent("jobdirs %s %s %s", c.ID, hx.H(c.Files), hx.H(tmp))
		// 1. every path named in the arguments must be there, intact
		var paths []string
		c04Paths(c.Args, &paths)
		if c.Phase == "join" {
			if b, err := os.ReadFile(filepath.Join(c.MD, "_chunk_outs")); err == nil {
				if v, err := hx.ParseJSON(b); err == nil {
					c04Paths(v, &paths)
				}
			}
		}
		for _, p := range paths {
			switch c04CheckFile(p) {
			case "missing":
				logEvent("missing %s %s", c.ID, hx.H(p))
			case "corrupt":
				logEvent("corrupt %s %s", c.ID, hx.H(p))
			default:
				logEvent("saw %s %s", c.ID, hx.H(p))
			}
		}
		// 2. this job's own files
		st, ok := table[c.Name]
		if !ok {
			return
		}
		phase := c.Phase
		if phase == "main" {
			if _, isSplit := st["chunk"]; isSplit {
				phase = "chunk"
			}
		}
		ps, ok := st[phase]
		if !ok {
			return
		}
		if ps.By != "" {
			if v, ok := ps.Variants[objGet(c.Args, ps.By).Canon().Enc()]; ok {
				ps = v
			}
		}
		for _, w := range ps.Write {
			root := c.Files
			if w[0] == "tmp" {
				root = tmp
			}
			p := filepath.Join(root, w[1])
			os.MkdirAll(filepath.Dir(p), 0o755)
			if strings.HasSuffix(w[1], "/") {
				os.MkdirAll(p, 0o755)
				continue
			}
			size, _ := strconv.Atoi(w[2])
			if err := os.WriteFile(p, c04Content(filepath.Base(p), size), 0o644); err != nil {
				stageDie("cannot write " + p + ": " + err.Error())
			}
		}
		for _, l := range ps.Links {
			p := filepath.Join(c.Files, l[0])
			os.MkdirAll(filepath.Dir(p), 0o755)
			os.Symlink(c04Subst(l[1], c.Files), p)
		}
		if ps.RmTmp0 && strings.HasSuffix(c.ID, ".chnk0") {
			os.RemoveAll(tmp)
		}
		c04LogTree(c.ID, "F", c.Files)
		c04LogTree(c.ID, "T", tmp)
		if len(ps.Outs) > 0 && string(ps.Outs) != "null" {
			var tv interface{}
			if json.Unmarshal(ps.Outs, &tv) != nil {
				stageDie("bad outs template")
			}
			b, _ := json.Marshal(c04Template(tv, c.Files))
			*c.Result = string(b)
		}
	})
}
