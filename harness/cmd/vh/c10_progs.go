package main

// C10 program generator: whole MRO programs, valid ones (wide map / struct
// literals, several split arguments, nested map calls) and ones with several
// errors at once.

import (
	"fmt"
	"os"
	"path/filepath"
	"sort"
	"strings"

	"verifharness/internal/hx"
)

func c10Shuffle[T any](r *hx.Rng, xs []T) []T {
	out := append([]T(nil), xs...)
	for i := len(out) - 1; i > 0; i-- {
		j := r.Intn(i + 1)
		out[i], out[j] = out[j], out[i]
	}
	return out
}

func c10Names(prefix string, n int) []string {
	out := make([]string, n)
	for i := range out {
		out[i] = fmt.Sprintf("%s%d", prefix, i)
	}
	return out
}

func c10MapKeys(r *hx.Rng, n int) []string {
	seen := map[string]bool{}
	var ks []string
	for len(ks) < n {
		k := hx.Pick(r, []string{"k", "key", "s", "x", "sample"}) + fmt.Sprint(r.Intn(1000))
		if r.Intn(5) == 0 {
			k = c10RandKey(r)
		}
		if !seen[k] {
			seen[k] = true
			ks = append(ks, k)
		}
	}
	return ks
}

func c10MapLit(keys []string, val func(i int) string, sep string) string {
	var sb strings.Builder
	sb.WriteString("{")
	for i, k := range keys {
		sb.WriteString(sep)
		mroString(&sb, k)
		sb.WriteString(": " + val(i) + ",")
	}
	sb.WriteString(sep + "}")
	return sb.String()
}

func c10StructLit(fields []string, val func(i int) string, sep string) string {
	var sb strings.Builder
	sb.WriteString("{")
	for i, k := range fields {
		sb.WriteString(sep + k + ": " + val(i) + ",")
	}
	sb.WriteString(sep + "}")
	return sb.String()
}

func c10IntArr(n, base int) string {
	var sb strings.Builder
	sb.WriteString("[")
	for i := 0; i < n; i++ {
		fmt.Fprintf(&sb, "%d,", base+i)
	}
	sb.WriteString("]")
	return sb.String()
}

// wide literals bound to struct / typed map / nested parameters
func c10ProgWide(r *hx.Rng, w int) string {
	fields := c10Names("f", w)
	var sb strings.Builder
	sb.WriteString("struct INNER(\n    int a,\n    string b,\n)\n\nstruct WIDE(\n")
	for i, f := range fields {
		switch i % 4 {
		case 0:
			fmt.Fprintf(&sb, "    int %s,\n", f)
		case 1:
			fmt.Fprintf(&sb, "    string %s,\n", f)
		case 2:
			fmt.Fprintf(&sb, "    INNER %s,\n", f)
		default:
			fmt.Fprintf(&sb, "    map<int> %s,\n", f)
		}
	}
	sb.WriteString(")\n\nstage CONSUME(\n    in  WIDE w,\n    in  map<int> m,\n    in  map<WIDE> mw,\n    in  map<int[]> ma,\n    out int o,\n    out WIDE w,\n    src comp \"consume\",\n)\n\n")
	val := func(order []string) func(i int) string {
		return func(i int) string {
			var idx int
			fmt.Sscanf(order[i], "f%d", &idx)
			switch idx % 4 {
			case 0:
				return fmt.Sprint(idx)
			case 1:
				return fmt.Sprintf("\"v%d\"", idx)
			case 2:
				if r.Bool() {
					return "{b: \"x\", a: 1}"
				}
				return "{a: 1, b: \"x\"}"
			default:
				ks := c10MapKeys(r, 1+r.Intn(4))
				return c10MapLit(ks, func(j int) string { return fmt.Sprint(j) }, " ")
			}
		}
	}
	o1 := c10Shuffle(r, fields)
	o2 := c10Shuffle(r, fields)
	mk := c10MapKeys(r, 1+r.Intn(w))
	mk2 := c10MapKeys(r, 1+r.Intn(3))
	sb.WriteString("pipeline TOP(\n    in  int q,\n    out int o,\n    out WIDE w,\n)\n{\n    call CONSUME(\n")
	sb.WriteString("        w  = " + c10StructLit(o1, val(o1), "\n            ") + ",\n")
	sb.WriteString("        m  = " + c10MapLit(mk, func(i int) string {
		if i%5 == 0 {
			return "self.q"
		}
		return fmt.Sprint(i * 3)
	}, "\n            ") + ",\n")
	sb.WriteString("        mw = " + c10MapLit(mk2, func(i int) string { return c10StructLit(o2, val(o2), " ") }, "\n            ") + ",\n")
	sb.WriteString("        ma = " + c10MapLit(c10MapKeys(r, 1+r.Intn(6)), func(i int) string { return c10IntArr(i%3, i) }, " ") + ",\n")
	sb.WriteString("    )\n\n    return (\n        o = CONSUME.o,\n        w = CONSUME.w,\n    )\n}\n\ncall TOP(\n    q = 7,\n)\n")
	return sb.String()
}

// several split arguments, over arrays or over maps, nested two or three levels
func c10ProgSplits(r *hx.Rng, nsplit int, overMap bool, sameLine bool, nested int) string {
	var sb strings.Builder
	args := c10Names("a", nsplit)
	sb.WriteString("stage WORK(\n")
	for _, a := range args {
		fmt.Fprintf(&sb, "    in  int %s,\n", a)
	}
	sb.WriteString("    in  int fixed,\n    out int o,\n    out int[] os,\n    src comp \"work\",\n)\n\n")
	sb.WriteString("stage GATHER(\n    in  int[] xs,\n    in  map<int> ms,\n    out int total,\n    src comp \"gather\",\n)\n\n")
	n := 1 + r.Intn(4)
	keys := c10MapKeys(r, n)
	lit := func(i int) string {
		if overMap {
			ks := c10Shuffle(r, keys)
			return c10MapLit(ks, func(j int) string { return fmt.Sprint(i*10 + j) }, " ")
		}
		return c10IntArr(n, i*10)
	}
	collT := "int[]"
	if overMap {
		collT = "map<int>"
	}
	sb.WriteString("pipeline INNER(\n")
	for i, a := range args {
		if i%2 == 1 {
			fmt.Fprintf(&sb, "    in  %s %s,\n", collT, a)
		}
	}
	fmt.Fprintf(&sb, "    in  int fixed,\n    out %s o,\n)\n{\n", collT)
	sep, ind := "\n", "        "
	if sameLine {
		sep, ind = " ", ""
	}
	sb.WriteString("    map call WORK(" + sep)
	for i, a := range c10Shuffle(r, args) {
		_ = i
		var idx int
		fmt.Sscanf(a, "a%d", &idx)
		if idx%2 == 1 {
			fmt.Fprintf(&sb, "%s%s = split self.%s,%s", ind, a, a, sep)
		} else {
			fmt.Fprintf(&sb, "%s%s = split %s,%s", ind, a, lit(idx), sep)
		}
	}
	fmt.Fprintf(&sb, "%sfixed = self.fixed,%s    )\n\n    return (\n        o = WORK.o,\n    )\n}\n\n", ind, sep)
	// outer levels
	callee := "INNER"
	for lvl := 1; lvl < nested; lvl++ {
		name := fmt.Sprintf("OUTER%d", lvl)
		sb.WriteString("pipeline " + name + "(\n")
		for i, a := range args {
			if i%2 == 1 {
				fmt.Fprintf(&sb, "    in  %s %s,\n", collT, a)
			}
		}
		fmt.Fprintf(&sb, "    in  int%s fixed%s,\n    out int total,\n)\n{\n", strings.Repeat("[]", lvl), strings.Repeat("s", lvl))
		fmt.Fprintf(&sb, "    map call %s(\n", callee)
		for i, a := range args {
			if i%2 == 1 {
				fmt.Fprintf(&sb, "        %s = self.%s,\n", a, a)
			}
		}
		fmt.Fprintf(&sb, "        fixed%s = split self.fixed%s,\n    )\n\n    return (\n        total = 0,\n    )\n}\n\n",
			strings.Repeat("s", lvl-1), strings.Repeat("s", lvl))
		callee = name
	}
	sb.WriteString("call " + callee + "(\n")
	for i, a := range args {
		if i%2 == 1 {
			fmt.Fprintf(&sb, "    %s = %s,\n", a, lit(i))
		}
	}
	switch nested {
	case 1:
		sb.WriteString("    fixed = 1,\n)\n")
	case 2:
		sb.WriteString("    fixeds = [1, 2],\n)\n")
	default:
		sb.WriteString("    fixedss = [[1, 2], [3]],\n)\n")
	}
	return sb.String()
}

// programs with several errors at once
func c10ProgErrors(r *hx.Rng, kind int, w int) (string, string) {
	head := "struct PAIR(\n    int a,\n    string b,\n)\n\nstage WORK(\n    in  int a,\n    in  int b,\n    in  int c,\n    in  map<int> m,\n    in  PAIR p,\n    in  map<PAIR> mp,\n    out int o,\n    src comp \"work\",\n)\n\n"
	keys := c10MapKeys(r, w)
	switch kind % 9 {
	case 0: // several wrongly typed values in a typed map
		return "err_typed_map_values", head + "call WORK(\n    a = 1,\n    b = 2,\n    c = 3,\n    m = " +
			c10MapLit(keys, func(i int) string { return fmt.Sprintf("\"s%d\"", i) }, "\n        ") +
			",\n    p = {a: 1, b: \"x\"},\n    mp = {},\n)\n"
	case 1: // several unexpected struct fields
		fields := append([]string{"a", "b"}, c10Names("extra", w)...)
		fields = c10Shuffle(r, fields)
		return "err_struct_extra_fields", head + "call WORK(\n    a = 1,\n    b = 2,\n    c = 3,\n    m = {},\n    p = " +
			c10StructLit(fields, func(i int) string {
				if fields[i] == "b" {
					return "\"x\""
				}
				return "1"
			}, "\n        ") + ",\n    mp = {},\n)\n"
	case 2: // two split maps with different key sets of the same size
		k2 := c10MapKeys(r, w)
		return "err_split_map_keys_differ", head + "map call WORK(\n    a = split " +
			c10MapLit(keys, func(i int) string { return fmt.Sprint(i) }, " ") + ",\n    b = split " +
			c10MapLit(k2, func(i int) string { return fmt.Sprint(i) }, " ") +
			",\n    c = 3,\n    m = {},\n    p = {a: 1, b: \"x\"},\n    mp = {},\n)\n"
	case 3: // split arrays of different lengths (different lines)
		return "err_split_array_lengths", head + "map call WORK(\n    a = split " + c10IntArr(w, 0) +
			",\n    b = split " + c10IntArr(w+1, 0) + ",\n    c = split " + c10IntArr(w+2, 0) +
			",\n    m = {},\n    p = {a: 1, b: \"x\"},\n    mp = {},\n)\n"
	case 4: // split arrays of different lengths on ONE line
		return "err_split_array_lengths_same_line", head + "map call WORK(a = split " + c10IntArr(w, 0) +
			", b = split " + c10IntArr(w+1, 0) + ", c = split " + c10IntArr(w+2, 0) +
			", m = {}, p = {a: 1, b: \"x\"}, mp = {},)\n"
	case 5: // several bad values inside a map of structs
		return "err_map_of_struct_values", head + "call WORK(\n    a = 1,\n    b = 2,\n    c = 3,\n    m = {},\n    p = {a: 1, b: \"x\"},\n    mp = " +
			c10MapLit(keys, func(i int) string { return fmt.Sprintf("{a: \"bad%d\", b: %d}", i, i) }, "\n        ") + ",\n)\n"
	case 6: // several unknown references inside one literal
		return "err_unknown_refs", head + "pipeline TOP(\n    in  int q,\n    out int o,\n)\n{\n    call WORK(\n        a = 1,\n        b = 2,\n        c = 3,\n        m = " +
			c10MapLit(keys, func(i int) string { return fmt.Sprintf("self.nope%d", i) }, "\n            ") +
			",\n        p = {a: 1, b: \"x\"},\n        mp = {},\n    )\n\n    return (\n        o = WORK.o,\n    )\n}\n\ncall TOP(\n    q = 1,\n)\n"
	case 7: // self references from several map entries (cyclic dependency)
		return "err_self_reference", head + "pipeline TOP(\n    in  int q,\n    out int o,\n)\n{\n    call WORK(\n        a = 1,\n        b = 2,\n        c = 3,\n        m = " +
			c10MapLit(keys, func(i int) string { return "WORK.o" }, "\n            ") +
			",\n        p = {a: 1, b: \"x\"},\n        mp = {},\n    )\n\n    return (\n        o = WORK.o,\n    )\n}\n\ncall TOP(\n    q = 1,\n)\n"
	default: // split over a map literal whose values have several wrong types
		return "err_split_values", head + "map call WORK(\n    a = split " +
			c10MapLit(keys, func(i int) string { return fmt.Sprintf("\"s%d\"", i) }, " ") +
			",\n    b = 2,\n    c = 3,\n    m = {},\n    p = {a: 1, b: \"x\"},\n    mp = {},\n)\n"
	}
}

// nested map calls that share an alias, disabled bindings, retained outputs,
// typed-map outputs bound through pipelines
func c10ProgNestedAlias(r *hx.Rng, n int) string {
	keys := c10MapKeys(r, n)
	return "stage LEAF(\n    in  int x,\n    in  int y,\n    out int o,\n    src comp \"leaf\",\n)\n\n" +
		"stage SUM(\n    in  map<int[]> xs,\n    in  bool flag,\n    out int total,\n    out bool skip,\n    src comp \"sum\",\n)\n\n" +
		"pipeline MID(\n    in  int[] ys,\n    in  int x,\n    out int[] os,\n)\n{\n    map call LEAF as STEP(\n        x = self.x,\n        y = split self.ys,\n    )\n\n    return (\n        os = STEP.o,\n    )\n}\n\n" +
		"pipeline TOP(\n    in  map<int> xs,\n    in  int[] ys,\n    out int total,\n    out map<int[]> all,\n)\n{\n    map call MID as STEP(\n        ys = self.ys,\n        x  = split self.xs,\n    )\n\n" +
		"    call SUM(\n        xs   = STEP.os,\n        flag = true,\n    )\n\n    call SUM as SUM2(\n        xs   = STEP.os,\n        flag = SUM.skip,\n    ) using (\n        disabled = SUM.skip,\n    )\n\n" +
		"    return (\n        total = SUM2.total,\n        all   = STEP.os,\n    )\n}\n\ncall TOP(\n    xs = " +
		c10MapLit(keys, func(i int) string { return fmt.Sprint(i) }, " ") + ",\n    ys = " + c10IntArr(1+r.Intn(3), 5) + ",\n)\n"
}

// comments in front of map literal entries that share a source line, retained
// file outputs bound through map and struct literals
func c10ProgComments(r *hx.Rng, n int) string {
	keys := c10MapKeys(r, 2*n)
	var sb strings.Builder
	sb.WriteString("filetype txt;\n\nstruct BUNDLE(\n    txt a,\n    txt b,\n    txt c,\n)\n\nstage MAKE(\n    in  map<int> m,\n    out txt one,\n    out txt two,\n    out BUNDLE bundle,\n    src comp \"make\",\n)\n\n")
	sb.WriteString("stage USE(\n    in  map<txt> files,\n    in  BUNDLE b,\n    out txt report,\n    src comp \"use\",\n)\n\n")
	sb.WriteString("pipeline TOP(\n    in  int q,\n    out txt report,\n    out map<txt> files,\n)\n{\n    call MAKE(\n        m = {\n")
	for i := 0; i < n; i++ {
		fmt.Fprintf(&sb, "            # comment %d\n            ", i)
		mroString(&sb, keys[2*i])
		fmt.Fprintf(&sb, ": %d, ", i)
		mroString(&sb, keys[2*i+1])
		sb.WriteString(": self.q,\n")
	}
	sb.WriteString("        },\n    )\n\n    call USE(\n        files = {\n")
	for i, k := range c10Shuffle(r, keys) {
		sb.WriteString("            ")
		mroString(&sb, k)
		fmt.Fprintf(&sb, ": MAKE.%s,\n", []string{"one", "two", "bundle.a", "bundle.c"}[i%4])
	}
	sb.WriteString("        },\n        b = {c: MAKE.two, a: MAKE.one, b: MAKE.bundle.b},\n    )\n\n    return (\n        report = USE.report,\n        files  = {\n")
	for i, k := range c10Shuffle(r, keys) {
		sb.WriteString("            ")
		mroString(&sb, k)
		fmt.Fprintf(&sb, ": MAKE.%s,\n", []string{"two", "one", "bundle.b"}[i%3])
	}
	sb.WriteString("        },\n    )\n\n    retain (\n        MAKE.bundle,\n        MAKE.one,\n    )\n}\n\ncall TOP(\n    q = 3,\n)\n")
	return sb.String()
}

// retain lists (of a stage and of a pipeline) that name entries more than
// once, in shuffled order: the compiler keeps one entry per output, and the
// order of what it keeps must not depend on how it removes the repeats
func c10ProgRetainRepeats(r *hx.Rng, n int) string {
	names := c10Names("out", n)
	var sb strings.Builder
	sb.WriteString("filetype txt;\n\nstage MAKE(\n    in  int q,\n")
	for _, o := range names {
		fmt.Fprintf(&sb, "    out txt %s,\n", o)
	}
	sb.WriteString("    src comp \"make\",\n) retain (\n")
	list := append([]string(nil), names...)
	for k := 1 + r.Intn(3); k > 0; k-- {
		list = append(list, names[r.Intn(len(names))])
	}
	for _, o := range c10Shuffle(r, list) {
		fmt.Fprintf(&sb, "    %s,\n", o)
	}
	sb.WriteString(")\n\npipeline TOP(\n    in  int q,\n    out txt first,\n)\n{\n    call MAKE(\n        q = self.q,\n    )\n\n    return (\n        first = MAKE." + names[0] + ",\n    )\n\n    retain (\n")
	plist := append([]string(nil), names[1:]...)
	for k := 1 + r.Intn(3); k > 0 && len(names) > 1; k-- {
		plist = append(plist, names[1+r.Intn(len(names)-1)])
	}
	for _, o := range c10Shuffle(r, plist) {
		fmt.Fprintf(&sb, "        MAKE.%s,\n", o)
	}
	sb.WriteString("    )\n}\n\ncall TOP(\n    q = 3,\n)\n")
	return sb.String()
}

func c10GenPrograms(tier string, r *hx.Rng, emit func(name, src string)) {
	thorough := tier == "thorough"
	mul := 1
	if thorough {
		mul = 8
	}
	// the repository's own fixtures (compiled from their directory is not
	// needed: only self-contained files are used)
	repo := os.Getenv("VERIF_REPO")
	if repo == "" {
		repo = "/repo"
	}
	if files, err := filepath.Glob(filepath.Join(repo, "martian/syntax/testdata/*.mro")); err == nil {
		sort.Strings(files)
		for _, f := range files {
			if b, err := os.ReadFile(f); err == nil && !strings.Contains(string(b), "@include") {
				emit("fixture_"+strings.TrimSuffix(filepath.Base(f), ".mro"), string(b))
			}
		}
	}
	for i := 0; i < 12*mul; i++ {
		w := 2 + r.Intn(10)
		if i%4 == 0 {
			w = 20 + r.Intn(30)
		}
		emit(fmt.Sprintf("wide_%d", w), c10ProgWide(r, w))
	}
	for i := 0; i < 24*mul; i++ {
		ns := 2 + r.Intn(5)
		emit(fmt.Sprintf("splits_%d_%v_%v", ns, i%2 == 0, i%3 == 0),
			c10ProgSplits(r, ns, i%2 == 0, i%3 == 0, 1+r.Intn(3)))
	}
	for i := 0; i < 8*mul; i++ {
		emit("nested_alias", c10ProgNestedAlias(r, 1+r.Intn(5)))
	}
	for i := 0; i < 8*mul; i++ {
		emit("comments", c10ProgComments(r, 1+r.Intn(5)))
	}
	for i := 0; i < 6*mul; i++ {
		emit("retain_repeats", c10ProgRetainRepeats(r, 3+r.Intn(6)))
	}
	for i := 0; i < 54*mul; i++ {
		w := 2 + r.Intn(4)
		if i%3 == 0 {
			w = 6 + r.Intn(10)
		}
		name, src := c10ProgErrors(r, i, w)
		emit(name, src)
	}
}
