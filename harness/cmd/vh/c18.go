package main

import (
	"bytes"
	"encoding/hex"
	"fmt"
	"os"
	"os/exec"
	"path/filepath"
	"sort"
	"strconv"
	"strings"
	"unicode/utf8"

	"github.com/martian-lang/martian/martian/core"
	"verifharness/internal/hx"
)

func init() {
	props["c18"] = &propCmd{gen: c18Gen, impl: c18Impl, oracle: c18Oracle}
	earlyHooks = append(earlyHooks, func() bool {
		if os.Getenv("VH_DUMP") == "1" {
			dumpEnvMain()
			return true
		}
		return false
	})
}

// shell-significant bytes (plus a few ordinary ones)
var c18Alphabet = []byte("\\\"$`!*?~#&;|<>(){}[]' \t\n=a0%-")

func c18RandUtf8(r *hx.Rng, maxRunes int) string {
	n := r.Intn(maxRunes + 1)
	var b []byte
	for i := 0; i < n; i++ {
		switch r.Intn(6) {
		case 0, 1:
			b = append(b, c18Alphabet[r.Intn(len(c18Alphabet))])
		case 2:
			b = append(b, byte(1+r.Intn(127)))
		case 3:
			b = utf8.AppendRune(b, rune(0x80+r.Intn(0x780)))
		case 4:
			rr := rune(0x800 + r.Intn(0xF800))
			if rr >= 0xD800 && rr <= 0xDFFF {
				rr = 0xFFFD
			}
			b = utf8.AppendRune(b, rr)
		default:
			b = utf8.AppendRune(b, rune(0x10000+r.Intn(0x100000)))
		}
	}
	return string(b)
}

func c18RandBytes(r *hx.Rng, maxLen int) string {
	n := r.Intn(maxLen + 1)
	b := make([]byte, n)
	for i := range b {
		switch r.Intn(4) {
		case 0:
			b[i] = c18Alphabet[r.Intn(len(c18Alphabet))]
		case 1:
			b[i] = byte(0x80 + r.Intn(0x80))
		default:
			b[i] = byte(1 + r.Intn(255))
		}
	}
	return string(b)
}

var c18Names = []string{"A", "MRO_X", "_u9", "PATH2", "zz_", "OMP_NUM_THREADS", "B1"}

func c18Gen(tier string, r *hx.Rng) {
	w := hx.Out
	// all 1-byte strings and all 2-byte strings (NUL excluded), exhaustive
	fmt.Fprintf(w, "q -\n")
	for a := 1; a < 256; a++ {
		fmt.Fprintf(w, "q %02x\n", a)
	}
	for a := 1; a < 256; a++ {
		for b := 1; b < 256; b++ {
			fmt.Fprintf(w, "q %02x%02x\n", a, b)
		}
	}
	// all strings over the shell-significant alphabet up to length 3 (4 in thorough)
	maxLen := 3
	if tier == "thorough" {
		maxLen = 4
	}
	var rec func(prefix []byte, left int)
	rec = func(prefix []byte, left int) {
		if len(prefix) > 2 {
			fmt.Fprintf(w, "q %s\n", hex.EncodeToString(prefix))
		}
		if left == 0 {
			return
		}
		for _, c := range c18Alphabet {
			rec(append(prefix, c), left-1)
		}
	}
	rec(nil, maxLen)
	nrand := 3000
	if tier == "thorough" {
		nrand = 200000
	}
	for i := 0; i < nrand; i++ {
		if i%4 == 3 {
			fmt.Fprintf(w, "q %s\n", hx.H(c18RandBytes(r, 64)))
		} else {
			fmt.Fprintf(w, "q %s\n", hx.H(c18RandUtf8(r, 24)))
		}
	}
	// command lines
	ncmd := 300
	if tier == "thorough" {
		ncmd = 5000
	}
	for i := 0; i < ncmd; i++ {
		ne := r.Intn(4)
		names := append([]string(nil), c18Names...)
		var sb strings.Builder
		fmt.Fprintf(&sb, "f %d", ne)
		for j := 0; j < ne; j++ {
			k := r.Intn(len(names))
			name := names[k]
			names = append(names[:k], names[k+1:]...)
			fmt.Fprintf(&sb, " %s %s", hx.H(name), hx.H(c18RandUtf8(r, 10)))
		}
		// command name: no '/' (it becomes a file name in the oracle), non-empty
		cmd := strings.ReplaceAll(c18RandUtf8(r, 8), "/", "_") + "c"
		fmt.Fprintf(&sb, " %s", hx.H(cmd))
		na := r.Intn(5)
		fmt.Fprintf(&sb, " %d", na)
		for j := 0; j < na; j++ {
			fmt.Fprintf(&sb, " %s", hx.H(c18RandUtf8(r, 12)))
		}
		fmt.Fprintln(w, sb.String())
	}
	// double-quoted words for the shell model itself (no $ or ` : those are
	// expansions, which the model only flags)
	c18GenScripts(tier, r)
	nd := 2000
	// Every word is exactly one closed double-quoted segment: a quote
	// character only appears behind a backslash, so nothing is ever left
	// unquoted for the real shell to interpret.
	dalpha := []byte("!*?~#&;|<>(){}[]' \t\n=a0%-")
	desc := []byte("\\\"$`\nax!' ")
	for i := 0; i < nd; i++ {
		n := r.Intn(8)
		b := []byte{'"'}
		for j := 0; j < n; j++ {
			if r.Intn(3) == 0 {
				b = append(b, '\\', desc[r.Intn(len(desc))])
			} else {
				b = append(b, dalpha[r.Intn(len(dalpha))])
			}
		}
		b = append(b, '"')
		fmt.Fprintf(w, "d %s\n", hx.H(string(b)))
	}
}

type c18Cmd struct {
	envs map[string]string
	keys []string
	cmd  string
	argv []string
}

func c18ParseF(f []string) c18Cmd {
	ne, _ := strconv.Atoi(f[1])
	c := c18Cmd{envs: map[string]string{}}
	i := 2
	for j := 0; j < ne; j++ {
		k, v := hx.U(f[i]), hx.U(f[i+1])
		c.envs[k] = v
		c.keys = append(c.keys, k)
		i += 2
	}
	c.cmd = hx.U(f[i])
	na, _ := strconv.Atoi(f[i+1])
	i += 2
	for j := 0; j < na; j++ {
		c.argv = append(c.argv, hx.U(f[i+j]))
	}
	return c
}

func c18Impl(args []string) {
	c18SetCwd(args)
	hx.Lines(os.Stdin, func(f []string) {
		switch f[0] {
		case "q":
			fmt.Fprintln(hx.Out, hx.H(core.VerifShellSafeQuote(hx.U(f[1]))))
		case "f":
			c := c18ParseF(f)
			fmt.Fprintln(hx.Out, hx.H(core.VerifFormatArgs(c.envs, c.cmd, c.argv)))
		case "j":
			fmt.Fprintln(hx.Out, c18ImplScript(f))
		case "d":
			// the "implementation" of the shell model is the real /bin/sh
			vals, ok := shEvalWords([]string{hx.U(f[1])})
			if !ok {
				fmt.Fprintln(hx.Out, "M")
			} else {
				fmt.Fprintln(hx.Out, "L", hx.H(vals[0]))
			}
		}
	})
}

// shEvalWords has /bin/sh evaluate each word (already shell syntax) as one
// argument of printf and returns the resulting strings.
// shCwd is an empty scratch directory in which every shell runs.
var shCwd = "/"

func shEvalWords(words []string) ([]string, bool) {
	var script bytes.Buffer
	for _, w := range words {
		script.WriteString("printf '%s\\0' ")
		script.WriteString(w)
		script.WriteString("\n")
	}
	cmd := exec.Command("/bin/sh", "-s")
	cmd.Env = []string{"PATH=/nonexistent"}
	cmd.Dir = shCwd
	cmd.Stdin = &script
	out, err := cmd.Output()
	if err != nil {
		return nil, false
	}
	parts := bytes.Split(out, []byte{0})
	if len(parts) != len(words)+1 || len(parts[len(words)]) != 0 {
		return nil, false
	}
	res := make([]string, len(words))
	for i := range res {
		res[i] = string(parts[i])
	}
	return res, true
}

func c18Class(s string) string {
	if utf8.ValidString(s) {
		return "valid_utf8"
	}
	return "invalid_utf8"
}

func c18SetCwd(args []string) string {
	scratch := os.TempDir()
	if len(args) > 0 {
		scratch = args[0]
	}
	shCwd = filepath.Join(scratch, "shcwd")
	if err := os.MkdirAll(shCwd, 0o755); err != nil {
		panic(err)
	}
	return scratch
}

// stripInvalid removes every byte that is not part of a valid UTF-8 encoding.
func stripInvalid(s string) string {
	var b []byte
	for len(s) > 0 {
		r, w := utf8.DecodeRuneInString(s)
		if r != utf8.RuneError || w > 1 {
			b = append(b, s[:w]...)
		}
		s = s[w:]
	}
	return string(b)
}

// evalQuoted returns, for each string, what /bin/sh recovers from martian's
// quoted form of it ("" , false on a shell error).  Batched; a failing batch
// is bisected.
func evalQuoted(ss []string) ([]string, []bool) {
	got := make([]string, len(ss))
	ok := make([]bool, len(ss))
	var rec func(lo, hi int)
	rec = func(lo, hi int) {
		if lo >= hi {
			return
		}
		words := make([]string, hi-lo)
		for i := lo; i < hi; i++ {
			words[i-lo] = core.VerifShellSafeQuote(ss[i])
		}
		if vals, good := shEvalWords(words); good {
			for i := lo; i < hi; i++ {
				got[i], ok[i] = vals[i-lo], true
			}
			return
		}
		if hi-lo == 1 {
			return
		}
		mid := (lo + hi) / 2
		rec(lo, mid)
		rec(mid, hi)
	}
	for lo := 0; lo < len(ss); lo += 500 {
		hi := lo + 500
		if hi > len(ss) {
			hi = len(ss)
		}
		rec(lo, hi)
	}
	return got, ok
}

// c18Oracle is the direct reading of the property on the implementation:
// /bin/sh evaluating what martian produced recovers the original strings.
//
// A failing string that contains bytes outside valid UTF-8 is re-tested with
// those bytes removed: class invalid_utf8_only means the failure is due to
// those bytes alone (the property's "extension"); otherwise the remaining
// valid string is itself reported as a valid_utf8 failure.
func c18Oracle(args []string) {
	scratch := c18SetCwd(args)
	self, _ := os.Executable()
	var results []string
	var qidx []int
	var qs []string
	ncmd := 0
	hx.Lines(os.Stdin, func(f []string) {
		idx := len(results)
		results = append(results, "skip")
		switch f[0] {
		case "q":
			qidx = append(qidx, idx)
			qs = append(qs, hx.U(f[1]))
		case "j":
			ncmd++
			results[idx] = c18OracleScript(f, scratch, ncmd, self)
		case "f":
			c := c18ParseF(f)
			ncmd++
			dir := filepath.Join(scratch, fmt.Sprintf("cmd%d", ncmd))
			if err := os.MkdirAll(dir, 0o755); err != nil {
				panic(err)
			}
			defer os.RemoveAll(dir)
			cmdPath := filepath.Join(dir, c.cmd)
			if err := os.Symlink(self, cmdPath); err != nil {
				results[idx] = "skip"
				return
			}
			envs := map[string]string{"VH_DUMP": "1"}
			for k, v := range c.envs {
				envs[k] = v
			}
			script := core.VerifFormatArgs(envs, cmdPath, c.argv) + "\n"
			sh := exec.Command("/bin/sh", "-s")
			sh.Env = []string{"PATH=/nonexistent"}
			sh.Dir = shCwd
			sh.Stdin = strings.NewReader(script)
			out, err := sh.Output()
			os.Remove(cmdPath)
			os.Remove(dir)
			class := c18Class(c.cmd + strings.Join(c.argv, "") + strings.Join(mapVals(c.envs), ""))
			if err != nil {
				results[idx] = "FAIL " + class + " sh-error " + hx.H(script)
				return
			}
			want := dumpFormat(append([]string{cmdPath}, c.argv...), c.envs, c.keys)
			if string(out) != want {
				results[idx] = "FAIL " + class + " " + hx.H(script) + " recovered " + hx.H(string(out))
			} else {
				results[idx] = "ok"
			}
		}
	})
	got, ok := evalQuoted(qs)
	var redo []int
	var redoS []string
	describe := func(s, g string, good bool) string {
		if !good {
			return "sh-error " + hx.H(s)
		}
		return hx.H(s) + " recovered " + hx.H(g)
	}
	for i, s := range qs {
		switch {
		case ok[i] && got[i] == s:
			results[qidx[i]] = "ok"
		case utf8.ValidString(s):
			results[qidx[i]] = "FAIL valid_utf8 " + describe(s, got[i], ok[i])
		default:
			redo = append(redo, i)
			redoS = append(redoS, stripInvalid(s))
		}
	}
	got2, ok2 := evalQuoted(redoS)
	for j, i := range redo {
		if ok2[j] && got2[j] == redoS[j] {
			results[qidx[i]] = "FAIL invalid_utf8_only " + describe(qs[i], got[i], ok[i])
		} else {
			results[qidx[i]] = "FAIL valid_utf8 " + describe(redoS[j], got2[j], ok2[j])
		}
	}
	for _, r := range results {
		fmt.Fprintln(hx.Out, r)
	}
}

func mapVals(m map[string]string) []string {
	var r []string
	for _, v := range m {
		r = append(r, v)
	}
	sort.Strings(r)
	return r
}

func dumpFormat(argv []string, env map[string]string, keys []string) string {
	var b strings.Builder
	for _, a := range argv {
		fmt.Fprintf(&b, "arg %s\n", hx.H(a))
	}
	ks := append([]string(nil), keys...)
	sort.Strings(ks)
	for _, k := range ks {
		fmt.Fprintf(&b, "env %s %s\n", hx.H(k), hx.H(env[k]))
	}
	return b.String()
}

// dumpEnvMain runs when vh is invoked by a generated job command line: it
// prints its argv and the environment (minus the marker), canonically.
func dumpEnvMain() {
	env := map[string]string{}
	var keys []string
	for _, kv := range os.Environ() {
		k, v, _ := strings.Cut(kv, "=")
		if k == "VH_DUMP" || k == "VH_DUMP_FILE" || k == "PATH" || k == "PWD" || k == "OLDPWD" || k == "SHLVL" || k == "_" {
			continue
		}
		env[k] = v
		keys = append(keys, k)
	}
	if f := os.Getenv("VH_DUMP_FILE"); f != "" {
		// job templates may redirect or background the command: report through a file
		os.WriteFile(f+".tmp", []byte(dumpFormat(os.Args, env, keys)), 0o644)
		os.Rename(f+".tmp", f)
		return
	}
	os.Stdout.WriteString(dumpFormat(os.Args, env, keys))
}
