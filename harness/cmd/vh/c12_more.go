package main

// C12, the remaining case kinds: GetSystemReqs (q) and MaxJobsSemaphore (m).
//
//	q <maxCores> <maxMemGB> <maxVmemMB> <threadsPerJob> <memGBPerJob> <extraVmemGB> <memCur> <vmemCur> d <t> <m> <v>
//	     dyadic request threads=t/64, mem=m/4096 GB, vmem=v/4096 GB (float64 products exact)
//	q ... f <threads> <mem> <vmem>      arbitrary float64 request (oracle only)
//	     observation: <centi-cores> <MB> <vmem MB> of the returned JobResources
//	m <limit> <op>...   ops: set,<md>,<w|q|r|c|f|d>  acq,<md>,<0|1 nonblocking>  rel,<md>  find  clear
//	     observation per op: returns T<md>/F<md>, parked B<md>, then /Current(),parked

import (
	"fmt"
	"math"
	"runtime"
	"sort"
	"strconv"
	"strings"
	"time"

	"github.com/martian-lang/martian/martian/core"
	"verifharness/internal/hx"
)

// ------------------------------------------------------------------ q

type c12Q struct {
	maxCores, maxMemGB int
	maxVmemMB          int64
	tpj, mpj, extra    int
	memCur, vmemCur    int64
	threads, mem, vmem float64
	dyadic             bool
}

func c12ParseQ(f []string) c12Q {
	iv := func(i int) int64 {
		v, err := strconv.ParseInt(f[i], 10, 64)
		if err != nil {
			panic("bad q case field " + f[i])
		}
		return v
	}
	q := c12Q{maxCores: int(iv(1)), maxMemGB: int(iv(2)), maxVmemMB: iv(3), tpj: int(iv(4)), mpj: int(iv(5)),
		extra: int(iv(6)), memCur: iv(7), vmemCur: iv(8)}
	if f[9] == "d" {
		q.dyadic = true
		q.threads, q.mem, q.vmem = float64(iv(10))/64, float64(iv(11))/4096, float64(iv(12))/4096
	} else {
		pf := func(i int) float64 {
			v, err := strconv.ParseFloat(f[i], 64)
			if err != nil {
				panic("bad q float " + f[i])
			}
			return v
		}
		q.threads, q.mem, q.vmem = pf(10), pf(11), pf(12)
	}
	return q
}

func (q *c12Q) manager() *core.LocalJobManager {
	lm := core.VerifLocalJobManager(q.maxCores, q.maxMemGB, q.maxVmemMB, 0,
		core.JobManagerSettings{ThreadsPerJob: q.tpj, MemGBPerJob: q.mpj, ExtraVmemGB: q.extra}, false)
	sems := lm.VerifSemaphores()
	sems[1].UpdateSize(q.memCur)
	if sems[2] != nil {
		sems[2].UpdateSize(q.vmemCur)
	}
	return lm
}

func (q *c12Q) run() core.JobResources {
	return q.manager().GetSystemReqs(&core.JobResources{Threads: q.threads, MemGB: q.mem, VMemGB: q.vmem})
}

func c12RoundStr(x float64) string {
	if math.IsNaN(x) || math.IsInf(x, 0) || math.Abs(x) > 9e18 {
		return fmt.Sprintf("%g", x)
	}
	return strconv.FormatInt(int64(math.Round(x)), 10)
}

func c12ImplQ(f []string) string {
	q := c12ParseQ(f)
	r := q.run()
	return c12RoundStr(r.Threads*100) + " " + c12RoundStr(r.MemGB*1024) + " " + c12RoundStr(r.VMemGB*1024)
}

// The property read on the result of GetSystemReqs: what will be reserved is
// positive and within the configured limits whatever was asked for.
func c12OracleQ(f []string) string {
	q := c12ParseQ(f)
	r := q.run()
	bad := func(x float64) bool { return math.IsNaN(x) || math.IsInf(x, 0) }
	if bad(r.Threads) || bad(r.MemGB) || bad(r.VMemGB) {
		return fmt.Sprintf("FAIL sysreqs_not_finite %+v", r)
	}
	if !(r.Threads > 0 && r.Threads <= float64(q.maxCores)) {
		return fmt.Sprintf("FAIL sysreqs_threads_outside_limit request %g -> %g threads, limit %d", q.threads, r.Threads, q.maxCores)
	}
	if !(r.MemGB >= 0 && r.MemGB <= float64(q.maxMemGB)) || (q.mpj > 0 && r.MemGB <= 0) {
		return fmt.Sprintf("FAIL sysreqs_mem_outside_limit request %g (current size %d MB) -> %g GB, limit %d", q.mem, q.memCur, r.MemGB, q.maxMemGB)
	}
	if q.maxVmemMB > 0 && int64(q.maxMemGB)*1024 <= q.maxVmemMB {
		if !(r.VMemGB >= 0 && r.VMemGB*1024 <= float64(q.maxVmemMB)) {
			return fmt.Sprintf("FAIL sysreqs_vmem_outside_limit request %g (current size %d MB) -> %g GB, limit %d MB", q.vmem, q.vmemCur, r.VMemGB, q.maxVmemMB)
		}
		if r.VMemGB > 0 && r.VMemGB < r.MemGB {
			return fmt.Sprintf("FAIL sysreqs_vmem_below_mem %g < %g", r.VMemGB, r.MemGB)
		}
	}
	return "ok"
}

func c12GenQ(r *hx.Rng, float bool) string {
	maxCores := hx.Pick(r, []int{1, 2, 4, 7, 16, 64})
	maxMem := hx.Pick(r, []int{1, 2, 6, 16, 128})
	maxVmem := int64(0)
	switch r.Intn(4) {
	case 0:
		maxVmem = int64(maxMem) * 1024
	case 1:
		maxVmem = int64(maxMem)*1024*2 + int64(r.Intn(3000))
	case 2:
		if r.Intn(4) == 0 {
			maxVmem = int64(maxMem)*512 + 1 // misconfigured: below the memory limit
		}
	}
	tpj := 1 + r.Intn(2)*r.Intn(4)
	mpj := hx.Pick(r, []int{1, 1, 2, 4, 0})
	extra := hx.Pick(r, []int{0, 0, 1, 3})
	memMax := int64(maxMem) * 1024
	memCur := memMax
	switch r.Intn(5) {
	case 0:
		memCur = int64(r.Intn(int(memMax) + 1))
	case 1:
		memCur = int64(-r.Intn(100))
	case 2:
		memCur = memMax / 2
	}
	vmemCur := maxVmem
	if maxVmem > 0 && r.Intn(3) == 0 {
		vmemCur = int64(r.Intn(int(maxVmem)+50)) - 40
	}
	head := fmt.Sprintf("q %d %d %d %d %d %d %d %d", maxCores, maxMem, maxVmem, tpj, mpj, extra, memCur, vmemCur)
	if float {
		fl := []string{"0", "0.07", "0.1", "0.29", "1.15", "2.675", "-0.07", "-1.1", "1e-9", "-1e-9", "1e-320",
			"0.999999999", "3.0000000001", "1e6", "1e15", "8.9e15", "1e19", "-1e19", "1e300", "-1e300",
			"9007199254740993", "4.35", "1.005", "16.000001", "0.5", "127.99"}
		return fmt.Sprintf("%s f %s %s %s", head, hx.Pick(r, fl), hx.Pick(r, fl), hx.Pick(r, fl))
	}
	dy := func(unit, lim int64) int64 {
		switch r.Intn(10) {
		case 0:
			return 0
		case 1:
			return lim * unit
		case 2:
			return lim*unit + 1 + int64(r.Intn(int(unit)*3))
		case 3:
			return -int64(r.Intn(int(lim*unit) + 2))
		case 4:
			return -(lim*unit + int64(r.Intn(500)))
		case 5:
			return 1 + int64(r.Intn(int(unit)))
		case 6:
			return int64(r.Intn(int(lim*unit*3) + 1))
		default:
			return int64(r.Intn(int(lim*unit) + 1))
		}
	}
	return fmt.Sprintf("%s d %d %d %d", head, dy(64, int64(maxCores)), dy(4096, int64(maxMem)), dy(4096, int64(maxMem)*2))
}

// ------------------------------------------------------------------ m

type c12MOp struct {
	kind string
	md   int
	arg  string
}

var c12States = map[string]core.MetadataState{"w": core.Waiting, "q": core.Queued, "r": core.Running,
	"c": core.Complete, "f": core.Failed, "d": core.DisabledState}

type c12MRes struct {
	md int
	ok bool
}

type c12MObs struct {
	events  []string
	current int
	parked  int
	stuck   bool
}

func c12RunMaxJobs(limit int, toks []string) []c12MObs {
	sem := core.NewMaxJobsSemaphore(limit)
	mds := map[int]*core.Metadata{}
	get := func(id int) *core.Metadata {
		if m, ok := mds[id]; ok {
			return m
		}
		m := core.NewMetadata("md"+strconv.Itoa(id), "/nonexistent/c12/md"+strconv.Itoa(id))
		mds[id] = m
		return m
	}
	results := make(chan c12MRes, len(toks)+8)
	issued, returned := 0, 0
	obs := make([]c12MObs, len(toks))
	for i, t := range toks {
		o := &obs[i]
		p := strings.Split(t, ",")
		before := map[int]int{}
		_ = before
		switch p[0] {
		case "set":
			id, _ := strconv.Atoi(p[1])
			get(id).VerifSetState(c12States[p[2]])
		case "acq":
			id, _ := strconv.Atoi(p[1])
			md := get(id)
			nb := p[2] == "1"
			issued++
			go func() { results <- c12MRes{id, sem.Acquire(md, nb)} }()
		case "rel":
			id, _ := strconv.Atoi(p[1])
			sem.Release(get(id))
		case "find":
			sem.FindDone()
		case "clear":
			sem.Clear()
		default:
			panic("bad m op " + t)
		}
		parkedBefore := -1
		_ = parkedBefore
		deadline := time.Now().Add(c12Wait)
		var rets []string
		acqBlocked := false
		for spins := 0; ; spins++ {
			for {
				select {
				case r := <-results:
					returned++
					if r.ok {
						rets = append(rets, "T"+strconv.Itoa(r.md))
					} else {
						rets = append(rets, "F"+strconv.Itoa(r.md))
					}
					continue
				default:
				}
				break
			}
			if returned+sem.VerifParked() == issued {
				// stable twice in a row (a woken caller is neither parked nor returned)
				runtime.Gosched()
				if len(results) == 0 && returned+sem.VerifParked() == issued {
					break
				}
				continue
			}
			if time.Now().After(deadline) {
				o.stuck = true
				break
			}
			if spins < 200 {
				runtime.Gosched()
			} else {
				time.Sleep(20 * time.Microsecond)
			}
		}
		if p[0] == "acq" {
			// the call of this op parked iff it did not return
			id := p[1]
			mine := false
			for _, r := range rets {
				if r[1:] == id {
					mine = true
				}
			}
			// a parked duplicate of the same metadata may have returned instead;
			// count returns of this metadata against earlier parked callers first
			_ = mine
			acqBlocked = false
		}
		_ = acqBlocked
		sort.Strings(rets)
		o.events = rets
		o.current = sem.Current()
		o.parked = sem.VerifParked()
	}
	// let parked callers go
	sem.Clear()
	return obs
}

func c12MObsLine(obs []c12MObs) string {
	parts := make([]string, len(obs))
	for i, o := range obs {
		e := "-"
		if len(o.events) > 0 {
			e = strings.Join(o.events, ",")
		}
		if o.stuck {
			e += ",STUCK"
		}
		parts[i] = fmt.Sprintf("%s/%d,%d", e, o.current, o.parked)
	}
	if len(parts) == 0 {
		return "-"
	}
	return strings.Join(parts, ";")
}

// The property read on the real MaxJobsSemaphore's own trace.
//
// Outstanding jobs: a metadata object is outstanding from the moment an
// Acquire for it returns true (the job is then submitted) until it is
// released (endJob) or its state becomes complete / failed / disabled (the
// job is over; that is what FindDone may collect).  A job that is merely
// queued or running stays outstanding whatever the semaphore does.  At every
// instant the number of outstanding jobs must not exceed the configured
// maximum.  Also: Current() never exceeds the limit, and (no stall) whenever
// callers are parked at quiescence there is no free slot.
func c12OracleM(limit int, toks []string, obs []c12MObs) string {
	cleared := false
	outstanding := map[int]bool{}
	state := map[int]string{}
	describe := func() string {
		var ids []int
		for md := range outstanding {
			ids = append(ids, md)
		}
		sort.Ints(ids)
		parts := make([]string, len(ids))
		for k, md := range ids {
			st := state[md]
			if st == "" {
				st = "w"
			}
			parts[k] = fmt.Sprintf("md%d:%s", md, st)
		}
		return strings.Join(parts, ",")
	}
	for i, o := range obs {
		at := fmt.Sprintf("op %d (%s)", i, toks[i])
		p := strings.Split(toks[i], ",")
		switch p[0] {
		case "clear":
			cleared = true
		case "rel":
			md, _ := strconv.Atoi(p[1])
			delete(outstanding, md)
		case "set":
			md, _ := strconv.Atoi(p[1])
			state[md] = p[2]
			if p[2] == "c" || p[2] == "f" || p[2] == "d" {
				delete(outstanding, md)
			}
		}
		if o.stuck {
			return "FAIL maxjobs_not_quiescent " + at
		}
		for _, e := range o.events {
			if strings.HasPrefix(e, "T") {
				md, _ := strconv.Atoi(e[1:])
				outstanding[md] = true
			}
		}
		if len(outstanding) > limit {
			return fmt.Sprintf("FAIL maxjobs_outstanding_over_limit %s: %d jobs were granted a slot, are not released and not finished (%s), maximum %d; Current() says %d; ops so far: %s",
				at, len(outstanding), describe(), limit, o.current, strings.Join(toks[:i+1], " "))
		}
		if o.current > limit {
			return fmt.Sprintf("FAIL maxjobs_over_limit %s: %d running, limit %d", at, o.current, limit)
		}
		if cleared && o.parked > 0 {
			return fmt.Sprintf("FAIL maxjobs_stall %s: %d callers still parked after Clear", at, o.parked)
		}
		if !cleared && o.parked > 0 && o.current < limit {
			return fmt.Sprintf("FAIL maxjobs_stall %s: %d callers parked although only %d of %d slots are taken", at, o.parked, o.current, limit)
		}
	}
	return "ok"
}

func c12GenM(r *hx.Rng) string {
	limit := 1 + r.Intn(4)
	nmd := 2 + r.Intn(6)
	nops := 4 + r.Intn(40)
	var sb strings.Builder
	fmt.Fprintf(&sb, "m %d", limit)
	sts := []string{"w", "q", "q", "r", "r", "c", "f", "d"}
	for i := 0; i < nops; i++ {
		md := 1 + r.Intn(nmd)
		k := r.Intn(100)
		switch {
		case k < 40:
			nb := 0
			if r.Intn(3) == 0 {
				nb = 1
			}
			fmt.Fprintf(&sb, " acq,%d,%d", md, nb)
		case k < 62:
			fmt.Fprintf(&sb, " set,%d,%s", md, hx.Pick(r, sts))
		case k < 82:
			fmt.Fprintf(&sb, " rel,%d", md)
		case k < 98:
			fmt.Fprintf(&sb, " find")
		default:
			fmt.Fprintf(&sb, " clear")
		}
	}
	return sb.String()
}

// ------------------------------------------------------------------ dispatch

func c12GenMore(tier string, r *hx.Rng) {
	w := hx.Out
	nq, nf, nm := 3000, 1200, 1200
	if tier == "thorough" {
		nq, nf, nm = 60000, 20000, 30000
	}
	// the fixed corner the theorem C12_vmem_misconfigured talks about
	fmt.Fprintln(w, "q 4 8 2048 1 1 0 8192 2048 d 0 16384 0")
	for i := 0; i < nq; i++ {
		fmt.Fprintln(w, c12GenQ(r, false))
	}
	for i := 0; i < nf; i++ {
		fmt.Fprintln(w, c12GenQ(r, true))
	}
	fmt.Fprintln(w, "m 1 acq,1,0 acq,2,0 acq,3,0 set,2,f rel,1 rel,3")
	fmt.Fprintln(w, "m 2 acq,1,0 acq,2,0 acq,3,0 acq,3,0 acq,4,0 rel,1 rel,2 set,3,c set,4,c find")
	for i := 0; i < nm; i++ {
		fmt.Fprintln(w, c12GenM(r))
	}
	c12GenJobs(tier, r)
	c12GenConc(tier, r)
}

func c12ImplMore(f []string) string {
	switch f[0] {
	case "q":
		return c12ImplQ(f)
	case "m":
		limit, _ := strconv.Atoi(f[1])
		return c12MObsLine(c12RunMaxJobs(limit, f[2:]))
	case "j":
		return c12ImplJ(f)
	case "i":
		return c12ImplI(f)
	case "c":
		return c12RunStress(f)
	}
	return "?"
}

func c12OracleMore(f []string) string {
	switch f[0] {
	case "q":
		return c12OracleQ(f)
	case "m":
		limit, _ := strconv.Atoi(f[1])
		return c12OracleM(limit, f[2:], c12RunMaxJobs(limit, f[2:]))
	case "j":
		return c12OracleJ(f)
	case "i":
		return c12OracleI(f)
	case "c":
		return c12OracleC(f)
	}
	return "skip"
}
