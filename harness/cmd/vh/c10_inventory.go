package main

// C10 map-range inventory: every `for ... range <map-typed expression>` in
// the given packages of the repository under test, found with go/types (the
// packages are type-checked from source; their imports come from the export
// data that `go list -export` produces from the build cache).
//
//	vh c10 inventory <repo> <pkg pattern>...
//
// prints one line per site, tab separated:
//
//	file  enclosing-function  ranged-expression  ordinal  line  map-type
//
// (file, function, expression, ordinal) identify a site; ordinal counts the
// sites with the same (file, function, expression) in source order, so that
// moving code within a file changes nothing, while a new traversal, or one
// moved to another function, is a new site.

import (
	"bytes"
	"encoding/json"
	"fmt"
	"go/ast"
	"go/importer"
	"go/parser"
	"go/token"
	"go/types"
	"io"
	"os"
	"os/exec"
	"path/filepath"
	"sort"
	"strings"

	"verifharness/internal/hx"
)

type c10ListPkg struct {
	ImportPath string
	Dir        string
	Export     string
	GoFiles    []string
	DepOnly    bool
}

func c10Inventory(args []string) {
	if len(args) < 2 {
		fmt.Fprintln(os.Stderr, "usage: vh c10 inventory <repo> <pkg>...")
		os.Exit(2)
	}
	repo := args[0]
	cmd := exec.Command("go", append([]string{"list", "-export", "-deps",
		"-json=ImportPath,Dir,Export,GoFiles,DepOnly"}, args[1:]...)...)
	cmd.Dir = repo
	cmd.Stderr = os.Stderr
	outb, err := cmd.Output()
	if err != nil {
		fmt.Fprintln(os.Stderr, "go list failed:", err)
		os.Exit(3)
	}
	dec := json.NewDecoder(bytes.NewReader(outb))
	exports := map[string]string{}
	var roots []c10ListPkg
	for {
		var p c10ListPkg
		if err := dec.Decode(&p); err == io.EOF {
			break
		} else if err != nil {
			fmt.Fprintln(os.Stderr, "go list output:", err)
			os.Exit(3)
		}
		exports[p.ImportPath] = p.Export
		if !p.DepOnly {
			roots = append(roots, p)
		}
	}
	fset := token.NewFileSet()
	imp := importer.ForCompiler(fset, "gc", func(path string) (io.ReadCloser, error) {
		e := exports[path]
		if e == "" {
			return nil, fmt.Errorf("no export data for %s", path)
		}
		return os.Open(e)
	})
	type site struct {
		file, fn, expr, typ string
		line, pos          int
	}
	var sites []site
	typeErrs := 0
	for _, p := range roots {
		var files []*ast.File
		for _, g := range p.GoFiles {
			f, err := parser.ParseFile(fset, filepath.Join(p.Dir, g), nil, 0)
			if err != nil {
				fmt.Fprintln(os.Stderr, "parse:", err)
				os.Exit(3)
			}
			files = append(files, f)
		}
		info := &types.Info{Types: map[ast.Expr]types.TypeAndValue{}}
		conf := types.Config{Importer: imp, Error: func(err error) {
			typeErrs++
			fmt.Fprintln(os.Stderr, "type error:", err)
		}}
		conf.Check(p.ImportPath, fset, files, info)
		for _, f := range files {
			fn := strings.TrimPrefix(fset.Position(f.Pos()).Filename, strings.TrimSuffix(repo, "/")+"/")
			for _, d := range f.Decls {
				fd, ok := d.(*ast.FuncDecl)
				if !ok {
					continue
				}
				name := fd.Name.Name
				if fd.Recv != nil && len(fd.Recv.List) > 0 {
					name = types.ExprString(fd.Recv.List[0].Type) + "." + name
				}
				ast.Inspect(fd, func(n ast.Node) bool {
					rs, ok := n.(*ast.RangeStmt)
					if !ok {
						return true
					}
					t := info.TypeOf(rs.X)
					if t == nil {
						// untypable: report it, so that it cannot hide
						sites = append(sites, site{fn, name, types.ExprString(rs.X), "UNTYPED",
							fset.Position(rs.Pos()).Line, int(rs.Pos())})
						return true
					}
					if _, ok := t.Underlying().(*types.Map); ok {
						sites = append(sites, site{fn, name, types.ExprString(rs.X),
							strings.ReplaceAll(t.String(), "github.com/martian-lang/martian/martian/", ""),
							fset.Position(rs.Pos()).Line, int(rs.Pos())})
					}
					return true
				})
			}
		}
	}
	if typeErrs > 0 {
		fmt.Fprintln(os.Stderr, "type checking reported errors; inventory not trustworthy")
		os.Exit(3)
	}
	sort.Slice(sites, func(i, j int) bool {
		a, b := sites[i], sites[j]
		if a.file != b.file {
			return a.file < b.file
		}
		return a.pos < b.pos
	})
	ord := map[string]int{}
	for _, s := range sites {
		k := s.file + "\t" + s.fn + "\t" + s.expr
		fmt.Fprintf(hx.Out, "%s\t%d\t%d\t%s\n", k, ord[k], s.line, s.typ)
		ord[k]++
	}
}
