package main

// C04 / C14 - volatile data removal.
//
//	vh c04 gen <tier> <seed>                 in-process op-sequence cases: "P <progseed> <mode> <opseed> <nops>"
//	vh c04 impl <work> <modelcases> <oracle> per case: builds the program, instantiates a real pipestance
//	                                         (no job runs), writes the stage files, applies the op sequence to the
//	                                         real Fork objects (hook martian/core/verif_export_c04.go) and prints the
//	                                         bookkeeping observation after every op; writes the same case in the
//	                                         model's transport format and the property oracle's verdict per case
//	vh c04 genprogs <dir> <n> <seed> <stagecmd> <dynamic>
//	vh c04 run <dir> <bindir> <par> <psid> <mode> [sched]   real mrp runs; writes <psid>.vdr.json per program
//	vh c04 e2e <dir> <psid> <modelcases> <implobs> <oracle> model cases + observations + oracle verdicts of the runs
//	vh c04 pure gen|impl                     pathIsInside / anyOverlap / mergeVDRKillReports cases

import (
	"encoding/json"
	"fmt"
	"os"
	"path/filepath"
	"sort"
	"strconv"
	"strings"
	"sync"
	"time"

	"github.com/martian-lang/martian/martian/core"

	"verifharness/internal/hx"
)

func init() {
	props["c04"] = &propCmd{
		gen:    c04GenCases,
		impl:   c04Impl,
		oracle: func([]string) {},
		extra: map[string]func([]string){
			"genprogs": c04GenProgs,
			"run":      c04Run,
			"e2e":      c04E2E,
			"pure":     c04Pure,
		},
	}
}

// ---------------------------------------------------------------- model transport

type c04File struct {
	LSize int64 // lstat size (Size is what the runtime's walk sees: the target's size for a link)
	Path  string
	Own   string // st ct jt sf cf jf
	Size  int64
	Kind  string // f d l
	Names []int  // argument ids
	ID    int
}

type c04ForkM struct {
	ID                   int
	Node                 string
	ForkID               string
	Index                int
	Split, Vol, Sv, Decl bool
	Valued               []int
	Fa                   [][2]int // arg, holder (-1 = top)
	Fp                   [][2]int // node, arg
	Files                []*c04File
	chunkless            string
}

func b01(b bool) string {
	if b {
		return "1"
	}
	return "0"
}

func joinInts(l []int, sep string) string {
	if len(l) == 0 {
		return "-"
	}
	s := make([]string, len(l))
	for i, x := range l {
		s[i] = strconv.Itoa(x)
	}
	return strings.Join(s, sep)
}

func holderStr(h int) string {
	if h < 0 {
		return "T"
	}
	return strconv.Itoa(h)
}

func pairsStr(l [][2]int, second func(int) string) string {
	if len(l) == 0 {
		return "-"
	}
	l = append([][2]int(nil), l...)
	sort.Slice(l, func(i, j int) bool {
		if l[i][0] != l[j][0] {
			return l[i][0] < l[j][0]
		}
		return l[i][1] < l[j][1]
	})
	var s []string
	for i, p := range l {
		if i > 0 && p == l[i-1] {
			continue // the nil *Node and the nil interface are the same holder
		}
		s = append(s, strconv.Itoa(p[0])+":"+second(p[1]))
	}
	return strings.Join(s, "+")
}

func (f *c04ForkM) transport() string {
	var fs []string
	for _, x := range f.Files {
		fs = append(fs, fmt.Sprintf("%d:%s:%d:%s", x.ID, x.Own, x.Size, joinInts(x.Names, ".")))
	}
	files := "-"
	if len(fs) > 0 {
		files = strings.Join(fs, "/")
	}
	return strings.Join([]string{strconv.Itoa(f.ID), b01(f.Split), b01(f.Vol), b01(f.Sv), b01(f.Decl),
		joinInts(f.Valued, "+"), pairsStr(f.Fa, holderStr), pairsStr(f.Fp, strconv.Itoa), files}, ",")
}

func c04CaseLine(kind, mode string, forks []*c04ForkM, ops []string) string {
	fs := make([]string, len(forks))
	for i, f := range forks {
		fs[i] = f.transport()
	}
	f := "-"
	if len(fs) > 0 {
		f = strings.Join(fs, ";")
	}
	o := "-"
	if len(ops) > 0 {
		o = strings.Join(ops, ",")
	}
	return kind + " " + mode + " " + f + " " + o
}

// ---------------------------------------------------------------- what an argument's value names

// c04JSONPath: the value at a dotted path; arrays are mapped over; an object
// lacking the member is a typed map and is mapped over as well.
func c04JSONPath(v interface{}, p string) []interface{} {
	if p == "" {
		return []interface{}{v}
	}
	key, rest := p, ""
	if i := strings.IndexByte(p, '.'); i >= 0 {
		key, rest = p[:i], p[i+1:]
	}
	switch x := v.(type) {
	case map[string]interface{}:
		if e, ok := x[key]; ok {
			return c04JSONPath(e, rest)
		}
		var out []interface{}
		for _, e := range x {
			out = append(out, c04JSONPath(e, p)...)
		}
		return out
	case []interface{}:
		var out []interface{}
		for _, e := range x {
			out = append(out, c04JSONPath(e, p)...)
		}
		return out
	}
	return nil
}

func c04ValuePaths(v interface{}, out *[]string) {
	switch x := v.(type) {
	case string:
		if strings.HasPrefix(x, "/") {
			*out = append(*out, x)
		}
	case []interface{}:
		for _, e := range x {
			c04ValuePaths(e, out)
		}
	case map[string]interface{}:
		for k, e := range x {
			if strings.HasPrefix(k, "/") {
				*out = append(*out, k)
			}
			c04ValuePaths(e, out)
		}
	}
}

// c04TypedPath: the values an argument path denotes, following the declared
// type (typed maps and arrays elementwise, the struct FS by member); a typed
// map may have a key equal to the name of a member of its values.
func c04TypedPath(v interface{}, p, ty string) []interface{} {
	if p == "" {
		return []interface{}{v}
	}
	switch {
	case strings.HasSuffix(ty, "[]"):
		var out []interface{}
		if x, ok := v.([]interface{}); ok {
			for _, e := range x {
				out = append(out, c04TypedPath(e, p, ty[:len(ty)-2])...)
			}
		}
		return out
	case strings.HasPrefix(ty, "map<") && strings.HasSuffix(ty, ">"):
		var out []interface{}
		if x, ok := v.(map[string]interface{}); ok {
			for _, e := range x {
				out = append(out, c04TypedPath(e, p, ty[4:len(ty)-1])...)
			}
		}
		return out
	case ty == "FS":
		key, rest := p, ""
		if i := strings.IndexByte(p, '.'); i >= 0 {
			key, rest = p[:i], p[i+1:]
		}
		if x, ok := v.(map[string]interface{}); ok {
			mt := map[string]string{"x": "txt", "n": "int", "y": "txt"}[key]
			if e, ok := x[key]; ok && mt != "" {
				return c04TypedPath(e, rest, mt)
			}
		}
		return nil
	}
	return c04JSONPath(v, p)
}

// c04ArgPathsTyped: outs is the whole outs object, arg "<out>.<path>", outTypes
// the declared types of the output parameters (nil: untyped walk).
func c04ArgPathsTyped(outs interface{}, arg string, outTypes map[string]string) []string {
	name, rest := arg, ""
	if i := strings.IndexByte(arg, '.'); i >= 0 {
		name, rest = arg[:i], arg[i+1:]
	}
	ty := outTypes[name]
	m, ok := outs.(map[string]interface{})
	if ty == "" || rest == "" || !ok {
		return c04ArgPaths(outs, arg)
	}
	var ps []string
	for _, v := range c04TypedPath(m[name], rest, ty) {
		c04ValuePaths(v, &ps)
	}
	for i, p := range ps {
		ps[i] = filepath.Clean(p)
	}
	return ps
}

func c04StageOutTypes(st *c04StageDef) map[string]string {
	if st == nil {
		return nil
	}
	m := map[string]string{}
	for _, o := range st.Outs {
		m[o.Name] = o.Ty
	}
	return m
}

func c04ArgPaths(outs interface{}, arg string) []string {
	var ps []string
	for _, v := range c04JSONPath(outs, arg) {
		c04ValuePaths(v, &ps)
	}
	for i, p := range ps {
		ps[i] = filepath.Clean(p)
	}
	return ps
}

func c04Overlap(a, b string) bool {
	return a == b || strings.HasPrefix(a, b+"/") || strings.HasPrefix(b, a+"/")
}

// c04Names: which of the arguments name the file (directly, as a parent
// directory, as something inside it, or - for a symbolic link - its target).
func c04Names(f *c04File, argPaths map[int][]string) []int {
	alt := []string{f.Path}
	if f.Kind == "l" {
		if t, err := filepath.EvalSymlinks(f.Path); err == nil {
			alt = append(alt, t)
		}
		if t, err := os.Readlink(f.Path); err == nil {
			if !filepath.IsAbs(t) {
				t = filepath.Join(filepath.Dir(f.Path), t)
			}
			alt = append(alt, filepath.Clean(t))
		}
	}
	var names []int
	for a, ps := range argPaths {
		hit := false
		for _, p := range ps {
			for _, q := range alt {
				if c04Overlap(p, q) {
					hit = true
				}
			}
		}
		if hit {
			names = append(names, a)
		}
	}
	sort.Ints(names)
	return names
}

// ---------------------------------------------------------------- in-process op sequences

func c04GenCases(tier string, rng *hx.Rng) {
	n := 60
	if tier != "quick" {
		n = 600
	}
	modes := []string{"rolling", "post", "strict", "disable"}
	for i := 0; i < n; i++ {
		fmt.Fprintf(hx.Out, "P %d %s %d %d\n", rng.Next()%1000000, modes[i%4], rng.Next()%1000000, 20+rng.Intn(60))
	}
}

type c04Sim struct {
	dir, psdir, mode string
	src              []byte
	prog             *c04Prog
	v                *core.VerifVdr
	forks            []*c04ForkM // stage forks
	argID            map[string]int
	nodeID           map[string]int
	pathID           map[string]int
	allFiles         []*c04File
	phase            map[int]int
	outs             map[int][]byte
	nodeForks        map[string][]int
}

func shortNode(fq string) string {
	p := strings.Split(fq, ".")
	if len(p) > 2 {
		return strings.Join(p[2:], ".")
	}
	return fq
}

func (s *c04Sim) stageOf(node string) *c04StageDef {
	n := node[strings.LastIndexByte(node, '.')+1:]
	for _, st := range s.prog.Stages {
		if st.Name == n {
			return st
		}
	}
	return nil
}

func c04WritePhase(ps *c04PhaseSpec, files, tmp string) {
	for _, w := range ps.Write {
		root := files
		if w[0] == "tmp" {
			root = tmp
		}
		p := filepath.Join(root, w[1])
		os.MkdirAll(filepath.Dir(p), 0o755)
		size, _ := strconv.Atoi(w[2])
		os.WriteFile(p, c04Content(filepath.Base(p), size), 0o644)
	}
	for _, l := range ps.Links {
		p := filepath.Join(files, l[0])
		os.MkdirAll(filepath.Dir(p), 0o755)
		os.Symlink(c04Subst(l[1], files), p)
	}
}

func c04ListTree(root, own string, out *[]*c04File) {
	filepath.Walk(root, func(p string, info os.FileInfo, err error) error {
		if err != nil || p == root {
			return nil
		}
		k := "f"
		if info.IsDir() {
			k = "d"
		} else if info.Mode()&os.ModeSymlink != 0 {
			k = "l"
		}
		size := info.Size()
		lsize := size
		if k == "l" {
			// the runtime's walk opens the entry, so it sees the target's size
			if st, err := os.Stat(p); err == nil {
				size = st.Size()
			}
		}
		*out = append(*out, &c04File{Path: p, Own: own, Size: size, LSize: lsize, Kind: k})
		return nil
	})
}

// booksOf reads the real books of a fork and translates names to ids.
func (s *c04Sim) booksOf(f *c04ForkM) (fa [][2]int, fp [][2]int, fpm map[int][]int, has bool, bad string) {
	rfa, rfp, rfpm, has := s.v.Books(f.Node, f.Index)
	for a, hs := range rfa {
		if len(hs) == 0 {
			bad = "empty holder set for " + a
		}
		for _, h := range hs {
			if h == core.VerifTopHolder {
				fa = append(fa, [2]int{s.arg(a), -1})
			} else {
				fa = append(fa, [2]int{s.arg(a), s.node(h)})
			}
		}
	}
	for n, as := range rfp {
		if len(as) == 0 {
			bad = "empty argument set for " + n
		}
		for _, a := range as {
			fp = append(fp, [2]int{s.node(n), s.arg(a)})
		}
	}
	if has {
		fpm = map[int][]int{}
		for p, as := range rfpm {
			id, ok := s.pathID[p]
			if !ok {
				bad = "unknown file in fileParamMap: " + p
				continue
			}
			l := []int{}
			for _, a := range as {
				l = append(l, s.arg(a))
			}
			sort.Ints(l)
			fpm[id] = l
		}
	}
	return
}

func (s *c04Sim) arg(a string) int {
	if id, ok := s.argID[a]; ok {
		return id
	}
	id := len(s.argID)
	s.argID[a] = id
	return id
}

func (s *c04Sim) node(n string) int {
	n = shortNode(n)
	if id, ok := s.nodeID[n]; ok {
		return id
	}
	id := len(s.nodeID)
	s.nodeID[n] = id
	return id
}

func (s *c04Sim) open() error {
	os.MkdirAll(s.psdir, 0o755)
	v, err := core.VerifVdrOpen(s.src, filepath.Join(s.dir, "pipeline.mro"), "ps", s.psdir, s.mode)
	if err != nil {
		return err
	}
	s.v = v
	return nil
}

// setup instantiates, creates chunks, writes every file, and fills the model's
// description of every stage fork.
func (s *c04Sim) setup() error {
	if err := s.open(); err != nil {
		return err
	}
	s.argID, s.nodeID, s.pathID = map[string]int{}, map[string]int{}, map[string]int{}
	s.phase, s.outs, s.nodeForks = map[int]int{}, map[int][]byte{}, map[string][]int{}
	for _, rf := range s.v.Forks() {
		if !rf.IsStage {
			continue
		}
		st := s.stageOf(rf.Node)
		if st == nil {
			return fmt.Errorf("no stage for %s", rf.Node)
		}
		f := &c04ForkM{ID: len(s.forks), Node: rf.Node, ForkID: rf.Id, Index: rf.Index, Split: rf.Split,
			Vol: rf.CallVolatile, Sv: rf.StrictDeclared, Decl: rf.VolatileDecl}
		s.forks = append(s.forks, f)
		s.nodeForks[shortNode(rf.Node)] = append(s.nodeForks[shortNode(rf.Node)], f.ID)
		s.node(rf.Node)
		nch := 1
		if st.Split {
			nch = st.NChunks
		}
		if nch == 0 {
			f.chunkless = "y"
		}
		d := s.v.PrepareChunks(rf.Node, rf.Index, nch)
		var outsTmpl json.RawMessage
		pick := func(ps *c04PhaseSpec) *c04PhaseSpec {
			if ps.By != "" {
				if v, ok := ps.Variants[fmt.Sprintf("#%de0;", rf.Index+1)]; ok {
					return &v
				}
			}
			return ps
		}
		var outFiles string
		// every job directory has its tmp/ (cleanXTemp only marks a phase as
		// cleaned when the directory can be listed)
		os.MkdirAll(d.SplitTmp, 0o755)
		os.MkdirAll(d.JoinTmp, 0o755)
		if st.Split {
			os.MkdirAll(d.SplitTmp, 0o755)
			os.MkdirAll(d.JoinTmp, 0o755)
			c04WritePhase(st.Files["split"], d.SplitFiles, d.SplitTmp)
			for i := range d.ChunkFiles {
				os.MkdirAll(d.ChunkTmp[i], 0o755)
				c04WritePhase(st.Files["chunk"], d.ChunkFiles[i], d.ChunkTmp[i])
				if st.Files["chunk"].RmTmp0 && i == 0 {
					os.RemoveAll(d.ChunkTmp[i])
				}
			}
			j := pick(st.Files["join"])
			c04WritePhase(j, d.JoinFiles, d.JoinTmp)
			outsTmpl, outFiles = j.Outs, d.JoinFiles
		} else {
			os.MkdirAll(d.ChunkTmp[0], 0o755)
			m := pick(st.Files["main"])
			c04WritePhase(m, d.ChunkFiles[0], d.ChunkTmp[0])
			outsTmpl, outFiles = m.Outs, d.ChunkFiles[0]
		}
		var tv interface{}
		json.Unmarshal(outsTmpl, &tv)
		ob, _ := json.Marshal(c04Template(tv, outFiles))
		s.outs[f.ID] = ob
		c04ListTree(d.SplitFiles, "sf", &f.Files)
		c04ListTree(d.SplitTmp, "st", &f.Files)
		for i := range d.ChunkFiles {
			c04ListTree(d.ChunkFiles[i], "cf", &f.Files)
			c04ListTree(d.ChunkTmp[i], "ct", &f.Files)
		}
		c04ListTree(d.JoinFiles, "jf", &f.Files)
		c04ListTree(d.JoinTmp, "jt", &f.Files)
		for _, x := range f.Files {
			x.ID = len(s.allFiles)
			s.pathID[x.Path] = x.ID
			s.allFiles = append(s.allFiles, x)
		}
	}
	// books, valued arguments, names
	for _, f := range s.forks {
		fa, fp, _, _, _ := s.booksOf(f)
		f.Fa, f.Fp = fa, fp
		var ov interface{}
		json.Unmarshal(s.outs[f.ID], &ov)
		argPaths := map[int][]string{}
		seen := map[int]bool{}
		for _, p := range fa {
			if seen[p[0]] {
				continue
			}
			seen[p[0]] = true
			for name, id := range s.argID {
				if id == p[0] {
					ps := c04ArgPathsTyped(ov, name, c04StageOutTypes(s.stageOf(f.Node)))
					if len(ps) > 0 {
						argPaths[id] = ps
						f.Valued = append(f.Valued, id)
					}
				}
			}
		}
		sort.Ints(f.Valued)
		for _, x := range f.Files {
			if x.Own[1] == 'f' {
				x.Names = c04Names(x, argPaths)
			}
		}
	}
	return nil
}

func repStr(r core.VerifVdrReport) string {
	if !r.Present {
		return "~"
	}
	return fmt.Sprintf("%d/%d", r.Count, r.Size)
}

// observe renders the state of every stage fork (same format as ocaml/src/c04.ml).
func (s *c04Sim) observe(total string) (string, string) {
	var parts []string
	bad := ""
	for _, f := range s.forks {
		fa, fp, fpm, has, b := s.booksOf(f)
		if b != "" {
			bad = b
		}
		fpmS := "~"
		if has {
			var es []string
			ids := make([]int, 0, len(fpm))
			for id := range fpm {
				ids = append(ids, id)
			}
			sort.Ints(ids)
			for _, id := range ids {
				es = append(es, strconv.Itoa(id)+"="+joinInts(fpm[id], "."))
			}
			fpmS = "-"
			if len(es) > 0 {
				fpmS = strings.Join(es, "+")
			}
		}
		var disk []int
		for _, x := range f.Files {
			if _, err := os.Lstat(x.Path); err == nil {
				disk = append(disk, x.ID)
			}
		}
		p, fin := s.v.Reports(f.Node, f.Index)
		ps := "~"
		if p.Present {
			ps = fmt.Sprintf("%d/%d/%s%s%s", p.Count, p.Size, b01(p.Split), b01(p.Chunks), b01(p.Join))
		}
		parts = append(parts, fmt.Sprintf("%d[%s][%s][%s][%s][%s][%s]", f.ID, pairsStr(fa, holderStr),
			pairsStr(fp, strconv.Itoa), fpmS, joinInts(disk, "+"), ps, repStr(fin)))
	}
	return strings.Join(parts, ";") + "|" + total, bad
}

func (s *c04Sim) advance(f *c04ForkM) {
	switch s.phase[f.ID] {
	case 0:
		s.v.SplitDone(f.Node, f.Index)
	case 1:
		s.v.ChunksDone(f.Node, f.Index)
	case 2:
		s.v.JoinDone(f.Node, f.Index)
	case 3:
		if err := s.v.Complete(f.Node, f.Index, s.outs[f.ID]); err != nil {
			panic(err)
		}
	default:
		return
	}
	s.phase[f.ID]++
}

// c04Impl: one case per input line.
func c04Impl(args []string) {
	work, _ := filepath.Abs(args[0])
	mc, _ := os.Create(args[1])
	defer mc.Close()
	oc, _ := os.Create(args[2])
	defer oc.Close()
	caseNo := 0
	hx.Lines(os.Stdin, func(f []string) {
		caseNo++
		pseed, _ := strconv.ParseUint(f[1], 10, 64)
		oseed, _ := strconv.ParseUint(f[3], 10, 64)
		nops, _ := strconv.Atoi(f[4])
		dir := filepath.Join(work, fmt.Sprintf("c%05d", caseNo))
		os.MkdirAll(dir, 0o755)
		line, obs, verdict := c04SimCase(dir, pseed, f[2], oseed, nops)
		fmt.Fprintln(mc, line)
		fmt.Fprintln(oc, verdict)
		fmt.Fprintln(hx.Out, obs)
		if !strings.HasPrefix(verdict, "FAIL") && os.Getenv("VH_KEEP") == "" {
			os.RemoveAll(dir)
		}
	})
}

func c04SimCase(dir string, pseed uint64, mode string, oseed uint64, nops int) (line, obs, verdict string) {
	prog := c04Generate(hx.NewRng(pseed), "/bin/true", false, pseed%3 == 0)
	src := []byte(prog.Mro("/bin/true"))
	os.WriteFile(filepath.Join(dir, "pipeline.mro"), src, 0o644)
	s := &c04Sim{dir: dir, psdir: filepath.Join(dir, "ps"), mode: mode, src: src, prog: prog}
	defer func() {
		if r := recover(); r != nil {
			if os.Getenv("VH_TRACE") != "" {
				panic(r)
			}
			line, obs, verdict = "X", fmt.Sprintf("crash:%v", r), fmt.Sprintf("FAIL harness_crash %v", r)
		}
		if s.v != nil {
			s.v.Close()
		}
	}()
	if err := s.setup(); err != nil {
		return "X", "setup-error", "skip " + strings.ReplaceAll(err.Error(), "\n", " ")
	}
	rng := hx.NewRng(oseed)
	var ops, steps []string
	total := "~"
	badBooks := ""
	badClone := ""
	record := func() {
		o, bad := s.observe(total)
		if bad != "" {
			badBooks = bad
		}
		steps = append(steps, o)
	}
	// dynamic fork expansion: a clone of a fork that has not started carries
	// exactly the fork's books (in particular every nil holder)
	for _, f := range s.forks {
		rfa, rfp, _, _ := s.v.Books(f.Node, f.Index)
		cfa, cfp := s.v.CloneBooks(f.Node, f.Index)
		if d := c04BooksDiff(rfa, cfa); d != "" {
			badClone = "fileArgs of a clone of " + shortNode(f.Node) + " " + f.ForkID + ": " + d
		} else if d := c04BooksDiff(rfp, cfp); d != "" {
			badClone = "filePostNodes of a clone of " + shortNode(f.Node) + " " + f.ForkID + ": " + d
		}
	}
	nodeDone := map[string]bool{}
	emitDone := func() {
		// a node whose forks are all complete is a finished consumer
		names := make([]string, 0, len(s.nodeForks))
		for n := range s.nodeForks {
			names = append(names, n)
		}
		sort.Strings(names)
		for _, n := range names {
			if nodeDone[n] {
				continue
			}
			all := true
			for _, id := range s.nodeForks[n] {
				if s.phase[id] < 4 {
					all = false
				}
			}
			if all {
				nodeDone[n] = true
				ops = append(ops, fmt.Sprintf("c%d", s.nodeID[n]))
				record()
			}
		}
	}
	doOp := func(kind byte, f *c04ForkM) {
		switch kind {
		case 'a':
			if s.phase[f.ID] >= 4 {
				return
			}
			s.advance(f)
			ops = append(ops, fmt.Sprintf("a%d", f.ID))
			record()
			if s.phase[f.ID] == 2 && len(f.chunkless) > 0 {
				// without chunks the runtime goes from the split straight to
				// the join; "chunks complete" is not a state of the directory
				s.advance(f)
				ops = append(ops, fmt.Sprintf("a%d", f.ID))
				record()
			}
			emitDone()
		case 'h':
			if s.phase[f.ID] < 4 {
				return
			}
			s.v.Cache(f.Node, f.Index)
			ops = append(ops, fmt.Sprintf("h%d", f.ID))
			record()
		case 'k':
			s.v.PartialKill(f.Node, f.Index)
			ops = append(ops, fmt.Sprintf("k%d", f.ID))
			record()
		case 'w':
			if mode == "disable" {
				return
			}
			r := s.v.FinalSweep()
			total = repStr(r)
			ops = append(ops, "w")
			record()
		case 'r':
			s.v.Close()
			s.v = nil
			if err := s.open(); err != nil {
				panic(err)
			}
			ops = append(ops, "r")
			record()
		}
	}
	if len(s.forks) > 0 {
		for i := 0; i < nops; i++ {
			f := s.forks[rng.Intn(len(s.forks))]
			switch x := rng.Intn(100); {
			case x < 45:
				doOp('a', f)
			case x < 60:
				doOp('h', f)
			case x < 92:
				doOp('k', f)
			case x < 95:
				doOp('w', nil)
			default:
				doOp('r', nil)
			}
		}
		// finish everything, then the final sweep (twice: it must be idempotent)
		for _, f := range s.forks {
			for s.phase[f.ID] < 4 {
				doOp('a', f)
				if rng.Intn(3) == 0 {
					doOp('k', f)
				}
			}
		}
		for _, f := range s.forks {
			if rng.Intn(2) == 0 {
				doOp('h', f)
				doOp('k', f)
			}
		}
		doOp('w', nil)
	}
	line = c04CaseLine("S", mode, s.forks, ops)
	obs = strings.Join(steps, " ")
	if obs == "" {
		obs = "-"
	}
	verdict = s.oracle(mode, badBooks, total)
	if badClone != "" {
		if verdict == "ok" {
			verdict = "FAIL cloned_fork_books_differ " + badClone
		} else {
			verdict += " ;; FAIL cloned_fork_books_differ " + badClone
		}
	}
	return
}

func c04BooksDiff(a, b map[string][]string) string {
	for k, l := range a {
		if strings.Join(l, ",") != strings.Join(b[k], ",") {
			return fmt.Sprintf("%s: %q in the fork, %q in its clone", k, l, b[k])
		}
	}
	for k, l := range b {
		if _, ok := a[k]; !ok {
			return fmt.Sprintf("%s: absent in the fork, %q in its clone", k, l)
		}
	}
	return ""
}

// oracle: the properties read directly on the directory tree and the reports
// after the final sweep.
func (s *c04Sim) oracle(mode, badBooks, total string) (verdict string) {
	var fails []string
	seenClass := map[string]bool{}
	add := func(msg string) {
		cls := strings.SplitN(strings.TrimPrefix(msg, "FAIL "), " ", 2)[0]
		if !seenClass[cls] {
			seenClass[cls] = true
			fails = append(fails, msg)
		}
	}
	if badBooks != "" {
		add("FAIL books_representation " + badBooks)
	}
	symlinkBytes := ""
	defer func() {
		if symlinkBytes != "" {
			add(symlinkBytes)
		}
		if len(fails) > 0 {
			verdict = strings.Join(fails, " ;; ")
		}
	}()
	var sumC, sumS uint64
	defer func() {
		if mode != "disable" && total != "~" && total != fmt.Sprintf("%d/%d", sumC, sumS) {
			add(fmt.Sprintf("FAIL pipestance_report_totals total=%s sum_of_forks=%d/%d", total, sumC, sumS))
		}
	}()
	for _, f := range s.forks {
		topArgs := map[int]bool{}
		for _, p := range f.Fa {
			if p[1] < 0 {
				topArgs[p[0]] = true
			}
		}
		var gone int64
		var goneBytes, goneLBytes int64
		for _, x := range f.Files {
			_, err := os.Lstat(x.Path)
			exists := err == nil
			if !exists {
				gone++
				goneBytes += x.Size
				goneLBytes += x.LSize
			}
			keep := false
			for _, a := range x.Names {
				if topArgs[a] {
					keep = true
				}
			}
			if keep && !exists {
				add(fmt.Sprintf("FAIL top_or_retained_file_removed %s fork %s of %s", filepath.Base(x.Path), f.ForkID, shortNode(f.Node)))
			}
			if mode == "disable" {
				continue
			}
			if exists && x.Own[1] == 't' {
				add(fmt.Sprintf("FAIL temp_file_survives %s in %s", filepath.Base(x.Path), shortNode(f.Node)))
			}
			if exists && x.Own == "cf" && f.Split && len(x.Names) == 0 {
				add(fmt.Sprintf("FAIL chunk_file_of_split_stage_survives %s in %s", filepath.Base(x.Path), shortNode(f.Node)))
			}
			vol := f.Sv || (mode == "strict" && !f.Decl) || f.Vol
			if exists && vol && !keep {
				add(fmt.Sprintf("FAIL volatile_unreferenced_file_survives %s fork %s of %s", filepath.Base(x.Path), f.ForkID, shortNode(f.Node)))
			}
		}
		if mode == "disable" {
			continue
		}
		_, fin := s.v.Reports(f.Node, f.Index)
		if !fin.Present {
			add("FAIL no_final_report " + shortNode(f.Node))
			continue
		}
		sumC += uint64(fin.Count)
		sumS += fin.Size
		for _, p := range fin.Paths {
			if _, err := os.Lstat(p); err == nil {
				add("FAIL reported_path_exists " + filepath.Base(p))
			}
			if !strings.HasPrefix(p, s.psdir+"/") {
				add("FAIL reported_path_outside_pipestance " + p)
			}
		}
		if int64(fin.Count) != gone || int64(fin.Size) != goneBytes {
			add(fmt.Sprintf("FAIL fork_report_totals report=%d/%d removed=%d/%d in %s", fin.Count, fin.Size, gone, goneBytes, shortNode(f.Node)))
		}
		if goneBytes != goneLBytes {
			symlinkBytes = fmt.Sprintf("FAIL report_bytes_symlink_counted_as_target report=%d removed=%d in %s", fin.Size, goneLBytes, shortNode(f.Node))
		}
	}
	return "ok"
}

// ---------------------------------------------------------------- generated programs for real runs

func c04GenProgs(args []string) {
	outdir, stagecmd := args[0], args[3]
	n, _ := strconv.Atoi(args[1])
	seed, _ := strconv.ParseUint(args[2], 10, 64)
	dynamic := len(args) > 4 && args[4] == "1"
	rng := hx.NewRng(seed)
	stats := map[string]int{}
	for i := 0; i < n; i++ {
		p := c04GenerateOpt(rng, stagecmd, dynamic, i%3 == 0, i%4 == 1)
		dir := filepath.Join(outdir, fmt.Sprintf("p%04d", i))
		os.MkdirAll(dir, 0o755)
		os.WriteFile(filepath.Join(dir, "pipeline.mro"), []byte(p.Mro(stagecmd)), 0o644)
		os.WriteFile(filepath.Join(dir, "spec.json"), p.Spec(), 0o644)
		pj, _ := json.Marshal(p)
		os.WriteFile(filepath.Join(dir, "prog.json"), pj, 0o644)
		for k, v := range p.Stats {
			stats[k] += v
		}
	}
	b, _ := json.Marshal(stats)
	fmt.Fprintln(hx.Out, string(b))
}

type c04RunObs struct {
	Exit     int                    `json:"exit"`
	Mode     string                 `json:"mode"`
	Sched    string                 `json:"sched"`
	Missing  []string               `json:"missing"`
	Corrupt  []string               `json:"corrupt"`
	Saw      int                    `json:"saw"`
	Wrote    []c04Wrote             `json:"wrote"`
	Reports  map[string]c04Rep      `json:"reports"` // fork dir (relative) -> _vdrkill
	Partials map[string]c04Rep      `json:"partials"`
	Total    *c04Rep                `json:"total"`
	ForkOuts map[string]interface{} `json:"fork_outs"`
	TopOuts  interface{}            `json:"top_outs"`
	Sentinel string                 `json:"sentinel"`
	Books    []c04BookDump          `json:"books"`
	BooksErr string                 `json:"books_err"`
	// "panic_in_immortalize": mrp crashed while serializing the final state,
	// after VDRKill and post-processing had finished (not a VDR matter; the
	// tree is final and is evaluated)
	Note string `json:"note"`
}

type c04Wrote struct {
	WalkSize int64  `json:"walk_size"`
	Job      string `json:"job"`
	Kind     string `json:"kind"` // Ff Fd Fl Tf Td Tl
	Size     int64  `json:"size"`
	Path     string `json:"path"`
	Exists   bool   `json:"exists"`
	Intact   bool   `json:"intact"`
}

type c04Rep struct {
	Count uint64   `json:"count"`
	Size  uint64   `json:"size"`
	Paths []string `json:"paths"`
}

type c04BookDump struct {
	Node   string              `json:"node"`
	ForkID string              `json:"fork"`
	Index  int                 `json:"index"`
	Split  bool                `json:"split"`
	Vol    bool                `json:"vol"`
	Sv     bool                `json:"sv"`
	Decl   bool                `json:"decl"`
	Fa     map[string][]string `json:"fa"`
	Fp     map[string][]string `json:"fp"`
}

func readRep(path string) *c04Rep {
	b, err := os.ReadFile(path)
	if err != nil {
		return nil
	}
	var r c04Rep
	var wrap struct {
		Report *c04Rep `json:"report"`
	}
	if json.Unmarshal(b, &wrap) == nil && wrap.Report != nil {
		return wrap.Report
	}
	if json.Unmarshal(b, &r) != nil {
		return nil
	}
	return &r
}

func sentinelDigest(dir string) string {
	var l []string
	filepath.Walk(dir, func(p string, info os.FileInfo, err error) error {
		if err == nil && !info.IsDir() {
			b, _ := os.ReadFile(p)
			l = append(l, fmt.Sprintf("%s:%d:%x", p[len(dir):], len(b), hx.NewRng(uint64(len(b))).Next()^uint64(sumBytes(b))))
		}
		return nil
	})
	return strings.Join(l, ",")
}

func sumBytes(b []byte) (s uint32) {
	for i, c := range b {
		s = s*31 + uint32(c) + uint32(i)
	}
	return
}

// vh c04 run <progsdir> <bindir> <par> <psid> <mode> [sched]
func c04Run(args []string) {
	progs, bindir, psid, mode := args[0], args[1], args[3], args[4]
	par, _ := strconv.Atoi(args[2])
	sched := ""
	if len(args) > 5 {
		sched = args[5]
	}
	entries, _ := os.ReadDir(progs)
	var dirs []string
	for _, e := range entries {
		if e.IsDir() {
			dirs = append(dirs, filepath.Join(progs, e.Name()))
		}
	}
	sem := make(chan struct{}, par)
	var wg sync.WaitGroup
	var bookMu sync.Mutex
	summaries := make([]string, len(dirs))
	for i, d := range dirs {
		wg.Add(1)
		sem <- struct{}{}
		go func(i int, d string) {
			defer wg.Done()
			defer func() { <-sem }()
			outside := filepath.Join(d, psid+"_outside")
			os.RemoveAll(outside)
			os.RemoveAll(filepath.Join(d, psid))
			os.Remove(filepath.Join(d, psid+".events"))
			os.MkdirAll(filepath.Join(outside, "keep"), 0o755)
			os.WriteFile(filepath.Join(outside, "keep", "sentinel_s100.dat"), c04Content("sentinel_s100.dat", 100), 0o644)
			before := sentinelDigest(outside)
			env := []string{"VH_OUTSIDE=" + outside}
			if sched != "" {
				env = append(env, "VH_SCHED="+sched)
			}
			res := runMrp(bindir, d, psid, []string{"--vdrmode=" + mode}, env, 90*time.Second)
			os.WriteFile(filepath.Join(d, psid+".log"), []byte(res.Stdout), 0o644)
			obs := c04Collect(d, psid, mode, sched, res.Exit)
			if res.Exit != 0 && strings.Contains(res.Stdout, "panic:") &&
				strings.Contains(res.Stdout, "core.(*Pipestance).Immortalize") &&
				strings.Contains(res.Stdout, "core.(*Pipestance).PostProcess") {
				obs.Note = "panic_in_immortalize"
			}
			if sentinelDigest(outside) == before {
				obs.Sentinel = "intact"
			} else {
				obs.Sentinel = "changed"
			}
			// the static books, from a separate in-process instantiation
			bookMu.Lock()
			obs.Books, obs.BooksErr = c04DumpBooks(d, psid, mode)
			bookMu.Unlock()
			b, _ := json.Marshal(obs)
			os.WriteFile(filepath.Join(d, psid+".vdr.json"), b, 0o644)
			summaries[i] = fmt.Sprintf("%s exit=%d jobs=%d ms=%d", filepath.Base(d), res.Exit, len(obs.Wrote), res.WallMs)
		}(i, d)
	}
	wg.Wait()
	for _, s := range summaries {
		fmt.Fprintln(hx.Out, s)
	}
}

func c04DumpBooks(d, psid, mode string) (dump []c04BookDump, errs string) {
	defer func() {
		if r := recover(); r != nil {
			errs = fmt.Sprint(r)
		}
	}()
	src, _ := os.ReadFile(filepath.Join(d, "pipeline.mro"))
	psdir := filepath.Join(d, psid+"_books")
	os.RemoveAll(psdir)
	os.MkdirAll(psdir, 0o755)
	v, err := core.VerifVdrOpen(src, filepath.Join(d, "pipeline.mro"), psid, psdir, mode)
	if err != nil {
		return nil, err.Error()
	}
	defer os.RemoveAll(psdir)
	defer v.Close()
	for _, rf := range v.Forks() {
		if !rf.IsStage {
			continue
		}
		fa, fp, _, _ := v.Books(rf.Node, rf.Index)
		for k, l := range fa {
			for i, h := range l {
				if h != "" {
					l[i] = shortNode(h)
				}
			}
			fa[k] = l
		}
		nfp := map[string][]string{}
		for k, l := range fp {
			nfp[shortNode(k)] = l
		}
		dump = append(dump, c04BookDump{Node: shortNode(rf.Node), ForkID: rf.Id, Index: rf.Index, Split: rf.Split,
			Vol: rf.CallVolatile, Sv: rf.StrictDeclared, Decl: rf.VolatileDecl, Fa: fa, Fp: nfp})
	}
	return dump, ""
}

func c04Collect(d, psid, mode, sched string, exit int) *c04RunObs {
	obs := &c04RunObs{Exit: exit, Mode: mode, Sched: sched, Reports: map[string]c04Rep{}, Partials: map[string]c04Rep{},
		ForkOuts: map[string]interface{}{}}
	b, _ := os.ReadFile(filepath.Join(d, psid+".events"))
	for _, line := range strings.Split(string(b), "\n") {
		f := strings.Split(line, " ")
		if len(f) < 4 {
			continue
		}
		switch f[1] {
		case "missing":
			obs.Missing = append(obs.Missing, f[2]+" "+hx.U(f[3]))
		case "corrupt":
			obs.Corrupt = append(obs.Corrupt, f[2]+" "+hx.U(f[3]))
		case "saw":
			obs.Saw++
		case "wrote":
			if len(f) >= 6 {
				size, _ := strconv.ParseInt(f[4], 10, 64)
				p := hx.U(f[5])
				w := c04Wrote{Job: f[2], Kind: f[3], Size: size, Path: p, WalkSize: size}
				if len(f) >= 7 {
					w.WalkSize, _ = strconv.ParseInt(f[6], 10, 64)
				}
				if _, err := os.Lstat(p); err == nil {
					w.Exists = true
					w.Intact = c04CheckFile(p) == ""
				}
				obs.Wrote = append(obs.Wrote, w)
			}
		}
	}
	psdir := filepath.Join(d, psid)
	obs.Total = readRep(filepath.Join(psdir, "_vdrkill"))
	filepath.Walk(psdir, func(p string, info os.FileInfo, err error) error {
		if err != nil {
			return nil
		}
		rel, _ := filepath.Rel(psdir, filepath.Dir(p))
		switch info.Name() {
		case "_vdrkill":
			if r := readRep(p); r != nil && rel != "." {
				obs.Reports[rel] = *r
			}
		case "_vdrkill.partial":
			if r := readRep(p); r != nil {
				obs.Partials[rel] = *r
			}
		case "_outs":
			if strings.HasPrefix(filepath.Base(rel), "fork") {
				if ob, err := os.ReadFile(p); err == nil {
					var v interface{}
					if json.Unmarshal(ob, &v) == nil {
						obs.ForkOuts[rel] = v
					}
				}
			}
		}
		return nil
	})
	obs.TopOuts = obs.ForkOuts["TOP/fork0"]
	return obs
}

// vh c04 e2e <progsdir> <psid> <modelcases> <implobs> <oracle>
// For every program directory with a <psid>.vdr.json: the model case (books
// from the implementation's static structure, files from what the stages
// wrote, canonical op order), the observed final state in the model's
// projection, and the oracle verdict.
func c04E2E(args []string) {
	progs, psid := args[0], args[1]
	mc, _ := os.Create(args[2])
	defer mc.Close()
	io_, _ := os.Create(args[3])
	defer io_.Close()
	oc, _ := os.Create(args[4])
	defer oc.Close()
	entries, _ := os.ReadDir(progs)
	for _, e := range entries {
		d := filepath.Join(progs, e.Name())
		b, err := os.ReadFile(filepath.Join(d, psid+".vdr.json"))
		if err != nil {
			continue
		}
		var obs c04RunObs
		if json.Unmarshal(b, &obs) != nil {
			continue
		}
		line, iobs, verdict := c04E2ECase(d, psid, &obs)
		fmt.Fprintln(mc, e.Name()+" "+line)
		fmt.Fprintln(io_, iobs)
		fmt.Fprintln(oc, verdict)
	}
}

// job id "TOP.S1.fork0.chnk0" / ".split" / ".join" -> node "TOP.S1", fork dir "fork0", part
func c04SplitJob(job string) (node, fork, part string) {
	cs := strings.Split(job, ".")
	var np []string
	part = "chunk"
	for _, c := range cs {
		switch {
		case c == "split" || c == "join":
			part = c
		case strings.HasPrefix(c, "chnk"):
		case strings.HasPrefix(c, "fork"):
			if fork == "" {
				fork = c
			} else {
				fork += "/" + c
			}
		default:
			np = append(np, c)
		}
	}
	return strings.Join(np, "."), fork, part
}

func c04E2ECase(d, psid string, obs *c04RunObs) (line, iobs, verdict string) {
	psdir := filepath.Join(d, psid)
	if obs.Exit != 0 && obs.Note != "panic_in_immortalize" {
		return "X", "run-failed", "FAIL run_failed exit " + strconv.Itoa(obs.Exit)
	}
	if obs.BooksErr != "" {
		return "X", "no-books", "skip books: " + obs.BooksErr
	}
	// declared output types per stage, for the typed reading of argument paths
	outTypesOf := map[string]map[string]string{}
	if pb, err := os.ReadFile(filepath.Join(d, "prog.json")); err == nil {
		var prog c04Prog
		if json.Unmarshal(pb, &prog) == nil {
			for _, st := range prog.Stages {
				outTypesOf[st.Name] = c04StageOutTypes(st)
			}
		}
	}
	argID, nodeID := map[string]int{}, map[string]int{}
	aid := func(a string) int {
		if id, ok := argID[a]; ok {
			return id
		}
		argID[a] = len(argID)
		return argID[a]
	}
	nid := func(n string) int {
		if id, ok := nodeID[n]; ok {
			return id
		}
		nodeID[n] = len(nodeID)
		return nodeID[n]
	}
	// forks that ran, from the write log and the fork outs
	type fk struct {
		m      *c04ForkM
		rel    string
		outs   interface{}
		nodeFq string
	}
	forks := map[string]*fk{}
	var order []string
	nodesSeen := map[string]bool{}
	getFork := func(node, fork string) *fk {
		rel := strings.ReplaceAll(node, ".", "/") + "/" + fork
		if f, ok := forks[rel]; ok {
			return f
		}
		// books: the static fork with this id, else the node's first fork
		var bd *c04BookDump
		for i := range obs.Books {
			if obs.Books[i].Node == node && (obs.Books[i].ForkID == fork || bd == nil) {
				if bd == nil || obs.Books[i].ForkID == fork {
					bd = &obs.Books[i]
				}
			}
		}
		if bd == nil {
			return nil
		}
		m := &c04ForkM{ID: len(forks), Node: node, ForkID: fork, Split: bd.Split, Vol: bd.Vol, Sv: bd.Sv, Decl: bd.Decl}
		for a, hs := range bd.Fa {
			for _, h := range hs {
				if h == "" {
					m.Fa = append(m.Fa, [2]int{aid(a), -1})
				} else {
					m.Fa = append(m.Fa, [2]int{aid(a), nid(h)})
				}
			}
		}
		for n, as := range bd.Fp {
			for _, a := range as {
				m.Fp = append(m.Fp, [2]int{nid(n), aid(a)})
			}
		}
		f := &fk{m: m, rel: rel, outs: obs.ForkOuts[rel], nodeFq: node}
		forks[rel] = f
		order = append(order, rel)
		nodesSeen[node] = true
		return f
	}
	nfile := 0
	for _, w := range obs.Wrote {
		node, fork, part := c04SplitJob(w.Job)
		f := getFork(node, fork)
		if f == nil {
			return "X", "no-books-for-" + node, "skip no static books for " + node
		}
		own := map[string]string{"split": "s", "chunk": "c", "join": "j"}[part] + strings.ToLower(w.Kind[:1])
		x := &c04File{Path: w.Path, Own: own, Size: w.WalkSize, LSize: w.Size, Kind: w.Kind[1:], ID: nfile}
		nfile++
		f.m.Files = append(f.m.Files, x)
	}
	for rel := range obs.ForkOuts {
		// stage forks that wrote nothing still take part
		parts := strings.Split(rel, "/")
		var np, fp []string
		for _, c := range parts {
			if strings.HasPrefix(c, "fork") {
				fp = append(fp, c)
			} else {
				np = append(np, c)
			}
		}
		node := strings.Join(np, ".")
		for i := range obs.Books {
			if obs.Books[i].Node == node {
				getFork(node, strings.Join(fp, "/"))
				break
			}
		}
	}
	sort.Strings(order)
	var ms []*c04ForkM
	for i, rel := range order {
		f := forks[rel]
		f.m.ID = i
		argPaths := map[int][]string{}
		seen := map[int]bool{}
		for _, p := range f.m.Fa {
			if seen[p[0]] {
				continue
			}
			seen[p[0]] = true
			for name, id := range argID {
				if id == p[0] {
					stName := f.nodeFq[strings.LastIndexByte(f.nodeFq, '.')+1:]
					if ps := c04ArgPathsTyped(f.outs, name, outTypesOf[stName]); len(ps) > 0 {
						argPaths[id] = ps
						f.m.Valued = append(f.m.Valued, id)
					}
				}
			}
		}
		sort.Ints(f.m.Valued)
		for _, x := range f.m.Files {
			if x.Own[1] == 'f' {
				x.Names = c04NamesE2E(x, argPaths)
			}
		}
		ms = append(ms, f.m)
	}
	// canonical op order: every fork runs to completion, caches, tries to
	// clean; every consumer finishes; the final sweep
	var ops []string
	for _, m := range ms {
		for k := 0; k < 4; k++ {
			ops = append(ops, fmt.Sprintf("a%d", m.ID))
		}
		ops = append(ops, fmt.Sprintf("h%d", m.ID), fmt.Sprintf("k%d", m.ID))
	}
	nodeNames := make([]string, 0, len(nodeID))
	for n := range nodeID {
		nodeNames = append(nodeNames, n)
	}
	sort.Strings(nodeNames)
	for _, n := range nodeNames {
		ops = append(ops, fmt.Sprintf("c%d", nodeID[n]))
	}
	for _, m := range ms {
		ops = append(ops, fmt.Sprintf("k%d", m.ID))
	}
	if obs.Mode != "disable" {
		ops = append(ops, "w")
	}
	line = c04CaseLine("E", obs.Mode, ms, ops)
	// observed final state in the model's projection
	var parts []string
	verdict = "ok"
	seenClass := map[string]bool{}
	fail := func(format string, a ...interface{}) {
		msg := fmt.Sprintf(format, a...)
		cls := strings.SplitN(msg, " ", 2)[0]
		if seenClass[cls] {
			return
		}
		seenClass[cls] = true
		if verdict == "ok" {
			verdict = "FAIL " + msg
		} else {
			verdict += " ;; FAIL " + msg
		}
	}
	if len(obs.Missing) > 0 {
		fail("argument_file_missing_at_start %s", strings.ReplaceAll(obs.Missing[0], psdir+"/", ""))
	}
	if len(obs.Corrupt) > 0 {
		fail("argument_file_corrupt_at_start %s", strings.ReplaceAll(obs.Corrupt[0], psdir+"/", ""))
	}
	if obs.Sentinel != "intact" {
		fail("outside_directory_touched")
	}
	var sumC, sumS uint64
	symlinkBytes := ""
	for _, rel := range order {
		f := forks[rel]
		var disk []int
		var goneC, goneS, goneLS uint64
		topArgs := map[int]bool{}
		for _, p := range f.m.Fa {
			if p[1] < 0 {
				topArgs[p[0]] = true
			}
		}
		for _, x := range f.m.Files {
			_, err := os.Lstat(x.Path)
			exists := err == nil
			if exists {
				disk = append(disk, x.ID)
			} else {
				goneC++
				goneS += uint64(x.Size)
				goneLS += uint64(x.LSize)
			}
			keep := false
			for _, a := range x.Names {
				if topArgs[a] {
					keep = true
				}
			}
			if keep && !exists {
				fail("top_or_retained_file_removed %s of %s", filepath.Base(x.Path), f.nodeFq)
			}
			if keep && exists && x.Kind == "f" && c04CheckFile(x.Path) != "" {
				fail("final_output_content_changed %s of %s", filepath.Base(x.Path), f.nodeFq)
			}
			if obs.Mode == "disable" {
				continue
			}
			if exists && x.Own[1] == 't' {
				fail("temp_file_survives %s in %s", filepath.Base(x.Path), f.nodeFq)
			}
			if exists && x.Own == "cf" && f.m.Split && len(x.Names) == 0 {
				fail("chunk_file_of_split_stage_survives %s in %s", filepath.Base(x.Path), f.nodeFq)
			}
			vol := f.m.Sv || (obs.Mode == "strict" && !f.m.Decl) || f.m.Vol
			if exists && vol && !keep {
				fail("volatile_unreferenced_file_survives %s of %s", filepath.Base(x.Path), f.nodeFq)
			}
		}
		fin := "~"
		if r, ok := obs.Reports[rel]; ok {
			fin = fmt.Sprintf("%d/%d", r.Count, r.Size)
			sumC += r.Count
			sumS += r.Size
			for _, p := range r.Paths {
				if _, err := os.Lstat(p); err == nil {
					fail("reported_path_exists %s", strings.ReplaceAll(p, psdir+"/", ""))
				}
				if !strings.HasPrefix(p, psdir+"/") {
					fail("reported_path_outside_pipestance %s", p)
				}
			}
			if r.Count != goneC || r.Size != goneS {
				fail("fork_report_totals report=%d/%d removed=%d/%d in %s", r.Count, r.Size, goneC, goneS, f.nodeFq)
			} else if goneS != goneLS {
				symlinkBytes = fmt.Sprintf("FAIL report_bytes_symlink_counted_as_target report=%d removed=%d in %s", r.Size, goneLS, f.nodeFq)
			}
		} else if obs.Mode != "disable" {
			fail("no_final_report %s", rel)
		}
		parts = append(parts, fmt.Sprintf("%d[%s][%s]", f.m.ID, joinInts(disk, "+"), fin))
	}
	total := "~"
	if obs.Total != nil && obs.Mode != "disable" {
		total = fmt.Sprintf("%d/%d", obs.Total.Count, obs.Total.Size)
		if obs.Total.Count != sumC || obs.Total.Size != sumS {
			fail("pipestance_report_totals total=%d/%d sum_of_forks=%d/%d", obs.Total.Count, obs.Total.Size, sumC, sumS)
		}
	}
	// final outputs: every path in the top-level outs exists with its content
	var tops []string
	c04ValuePaths(obs.TopOuts, &tops)
	for _, p := range tops {
		if c04CheckFile(p) != "" {
			fail("final_output_missing_or_changed %s", strings.ReplaceAll(p, psdir+"/", ""))
		}
	}
	iobs = strings.Join(parts, ";") + "|" + total
	if symlinkBytes != "" {
		if verdict == "ok" {
			verdict = symlinkBytes
		} else {
			verdict += " ;; " + symlinkBytes
		}
	}
	if verdict == "ok" && obs.Note != "" {
		verdict = "ok note=" + obs.Note
	}
	return
}

// names for files of a finished run: symbolic links that were moved away by
// post-processing can no longer be resolved, so links are compared by what
// their name says (ln_<target base name>).
func c04NamesE2E(f *c04File, argPaths map[int][]string) []int {
	alt := []string{f.Path}
	if f.Kind == "l" && strings.HasPrefix(filepath.Base(f.Path), "ln_") {
		alt = append(alt, filepath.Join(filepath.Dir(f.Path), filepath.Base(f.Path)[3:]))
	}
	var names []int
	for a, ps := range argPaths {
		hit := false
		for _, p := range ps {
			for _, q := range alt {
				if c04Overlap(p, q) {
					hit = true
				}
			}
		}
		if hit {
			names = append(names, a)
		}
	}
	sort.Ints(names)
	return names
}

// ---------------------------------------------------------------- pure functions

// vh c04 pure gen <seed> | impl
// cases: "i <hex test> <hex parent>" pathIsInside; "o <names ,hex> <files ,hex>" anyOverlap;
// "m <count:size:npaths,...>" mergeVDRKillReports; "l <paths ,hex>" the kill-path collapsing rule
func c04Pure(args []string) {
	comps := []string{"a", "b", "ab", "a.b", "files", "x_s1.dat", "d"}
	mk := func(r *hx.Rng) string {
		n := 1 + r.Intn(4)
		p := ""
		for i := 0; i < n; i++ {
			p += "/" + hx.Pick(r, comps)
		}
		return p
	}
	if args[0] == "gen" {
		seed, _ := strconv.ParseUint(args[1], 10, 64)
		r := hx.NewRng(seed)
		for i := 0; i < 1500; i++ {
			a, b := mk(r), mk(r)
			if r.Intn(3) == 0 {
				b = a + "/" + hx.Pick(r, comps)
			}
			if r.Bool() {
				a, b = b, a
			}
			fmt.Fprintf(hx.Out, "i %s %s\n", hx.H(a), hx.H(b))
		}
		for i := 0; i < 1500; i++ {
			var ns, fs []string
			for k := r.Intn(3); k >= 0; k-- {
				ns = append(ns, hx.H(mk(r)))
			}
			for k := r.Intn(4); k >= 0; k-- {
				fs = append(fs, hx.H(mk(r)))
			}
			fmt.Fprintf(hx.Out, "o %s %s\n", strings.Join(ns, ","), strings.Join(fs, ","))
		}
		for i := 0; i < 500; i++ {
			var rs []string
			for k := r.Intn(5); k >= 0; k-- {
				rs = append(rs, fmt.Sprintf("%d:%d:%d", r.Intn(1000), r.Intn(100000), r.Intn(4)))
			}
			fmt.Fprintf(hx.Out, "m %s\n", strings.Join(rs, ","))
		}
		return
	}
	hx.Lines(os.Stdin, func(f []string) {
		switch f[0] {
		case "i":
			fmt.Fprintln(hx.Out, b01(core.VerifPathIsInside(hx.U(f[1]), hx.U(f[2]))))
		case "o":
			var ns, fs []string
			for _, x := range strings.Split(f[1], ",") {
				ns = append(ns, hx.U(x))
			}
			for _, x := range strings.Split(f[2], ",") {
				fs = append(fs, hx.U(x))
			}
			a, _ := core.VerifAnyOverlap(ns, fs)
			fmt.Fprintln(hx.Out, b01(a != ""))
		case "m":
			var rs []core.VerifVdrReport
			for _, x := range strings.Split(f[1], ",") {
				var c, s, np int
				fmt.Sscanf(x, "%d:%d:%d", &c, &s, &np)
				rs = append(rs, core.VerifVdrReport{Present: true, Count: uint(c), Size: uint64(s), Paths: make([]string, np)})
			}
			m := core.VerifMergeVDRKillReports(rs)
			fmt.Fprintf(hx.Out, "%d/%d/%d\n", m.Count, m.Size, len(m.Paths))
		}
	})
}
