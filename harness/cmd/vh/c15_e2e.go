package main

// C15 end to end: real mrp processes on a real pipestance directory.
//
//	vh c15 e2e <dir> <seed>     <dir>/bin/mrp, <dir>/jobmanagers, <dir>/adapters exist
//
// Prints one line per scenario: ok <name> <detail> | FAIL <class> <detail>.
// Only kinds are observed: exit status, whether the process is still running,
// whether _lock / _finalstate exist - never message text.

import (
	"context"
	"fmt"
	"os"
	"os/exec"
	"path/filepath"
	"strings"
	"syscall"
	"time"

	"verifharness/internal/hx"
)

const c15SlowPy = `#!/usr/bin/env python3
import json, os.path, sys, time
def journal(md, prefix, name, content):
    with open(os.path.join(md, "_" + name), "w") as f:
        f.write(content)
    with open(prefix + name, "w") as f:
        f.write(content)
md, prefix = sys.argv[2], sys.argv[4] + "."
try:
    journal(md, prefix, "log", "start\n")
    args = json.load(open(os.path.join(md, "_args")))
    if os.path.exists(os.path.join(os.path.dirname(os.path.abspath(__file__)), "fail.flag")):
        raise RuntimeError("told to fail")
    time.sleep(args.get("delay") or 0)
    json.dump({"n": args.get("delay")}, open(os.path.join(md, "_outs"), "w"))
    journal(md, prefix, "complete", "complete\n")
except Exception as ex:
    journal(md, prefix, "errors", str(ex))
`

func c15Lib(ft, comment, extra string, factor string) string {
	return comment + "filetype " + ft + `;

` + comment + `stage SLOW(
    in  int     delay,
    in  int     factor,
    in  ` + ft + `[] reads,
    out int     n,
    src exec    "slow.py",
)
` + extra + `
pipeline P(
    in  int     delay,
    in  ` + ft + `[] reads,
    out int     n,
)
{
    call SLOW(
        delay  = self.delay,
        factor = ` + factor + `,
        reads  = self.reads,
    )

    return (
        n = SLOW.n,
    )
}
`
}

type c15Mrp struct {
	dir, work, lib string
}

func (m *c15Mrp) cmd(ctx context.Context, psid string, extra ...string) *exec.Cmd {
	args := append([]string{"inv.mro", psid, "--localcores=2", "--localmem=2", "--disable-ui"}, extra...)
	c := exec.CommandContext(ctx, filepath.Join(m.dir, "bin", "mrp"), args...)
	c.Dir = m.work
	c.Env = append(os.Environ(), "MROPATH="+m.lib, "PATH="+m.lib+":"+os.Getenv("PATH"))
	return c
}

// run to completion (or timeout): exit code, -1 if it had to be killed
func (m *c15Mrp) run(psid string, timeout time.Duration, extra ...string) int {
	ctx, cancel := context.WithTimeout(context.Background(), timeout)
	defer cancel()
	c := m.cmd(ctx, psid, extra...)
	err := c.Run()
	if ctx.Err() != nil {
		return -1
	}
	if err == nil {
		return 0
	}
	if ee, ok := err.(*exec.ExitError); ok {
		return ee.ExitCode()
	}
	return -2
}

func (m *c15Mrp) exists(psid, name string) bool {
	_, err := os.Stat(filepath.Join(m.work, psid, name))
	return err == nil
}

func (m *c15Mrp) waitFor(psid, name string, d time.Duration) bool {
	for end := time.Now().Add(d); time.Now().Before(end); time.Sleep(50 * time.Millisecond) {
		if m.exists(psid, name) {
			return true
		}
	}
	return false
}

func (m *c15Mrp) write(rel, body string, mode os.FileMode) {
	p := filepath.Join(m.work, rel)
	os.MkdirAll(filepath.Dir(p), 0o755)
	if err := os.WriteFile(p, []byte(body), mode); err != nil {
		panic(err)
	}
}

func c15E2E(args []string) {
	m := &c15Mrp{dir: args[0]}
	m.work = filepath.Join(m.dir, "work")
	m.lib = filepath.Join(m.work, "lib")
	os.RemoveAll(m.work)
	w := hx.Out
	say := func(format string, a ...interface{}) { fmt.Fprintf(w, format+"\n", a...); w.Flush() }
	inv := func(delay int) string {
		return fmt.Sprintf("@include \"lib.mro\"\n\ncall P(\n    delay = %d,\n    reads = [\"a.fastq\"],\n)\n", delay)
	}
	m.write("lib/slow.py", c15SlowPy, 0o755)
	m.write("lib/lib.mro", c15Lib("fastq", "", "", "1"), 0o644)
	m.write("inv.mro", inv(8), 0o644)

	// ---- scenario 1: a second instance against a live lock; --inspect
	first := m.cmd(context.Background(), "psA")
	if err := first.Start(); err != nil {
		say("FAIL e2e_setup cannot start mrp: %v", err)
		return
	}
	if !m.waitFor("psA", "_lock", 20*time.Second) {
		say("FAIL e2e_setup the first instance never wrote _lock")
		first.Process.Kill()
		return
	}
	rc := m.run("psA", 20*time.Second)
	alive := first.ProcessState == nil && syscall.Kill(first.Process.Pid, 0) == nil
	if rc > 0 && alive && m.exists("psA", "_lock") {
		say("ok second_instance_refused exit=%d first still running and holding _lock", rc)
	} else {
		say("FAIL second_instance_attached_to_live_pipestance exit=%d first_alive=%v lock=%v", rc, alive, m.exists("psA", "_lock"))
	}
	rc = m.run("psA", 2*time.Second, "--inspect")
	if rc == -1 {
		say("ok inspect_admitted read-only instance attached while the pipestance is locked (still serving after 2s)")
	} else {
		say("FAIL readonly_attach_refused --inspect exited with %d against a live pipestance", rc)
	}
	// a read-only instance that is REFUSED (the library was edited
	// semantically meanwhile) must leave the live instance's lock alone
	m.write("lib/lib.mro", c15Lib("fastq", "", "", "2"), 0o644)
	rc = m.run("psA", 10*time.Second, "--inspect")
	m.write("lib/lib.mro", c15Lib("fastq", "", "", "1"), 0o644)
	alive = first.ProcessState == nil && syscall.Kill(first.Process.Pid, 0) == nil
	switch {
	case !alive:
		say("skip refused_inspect the first instance had finished already")
	case rc <= 0:
		say("FAIL inspect_with_semantic_edit_admitted --inspect with an edited library exited with %d", rc)
	case !m.exists("psA", "_lock"):
		say("FAIL refused_readonly_attach_removed_live_lock the lock of the live instance is gone after a refused --inspect")
	default:
		rc2 := m.run("psA", 20*time.Second)
		alive = first.ProcessState == nil && syscall.Kill(first.Process.Pid, 0) == nil
		if rc2 > 0 || !alive {
			say("ok refused_inspect_left_lock exit=%d, a further writer is refused (exit %d)", rc, rc2)
		} else {
			say("FAIL second_instance_attached_to_live_pipestance after a refused --inspect: exit=%d", rc2)
		}
	}
	err := first.Wait()
	if err == nil && m.exists("psA", "_finalstate") && !m.exists("psA", "_lock") {
		say("ok first_instance_completed undisturbed by the refused and the read-only instance")
	} else {
		say("FAIL first_instance_disturbed err=%v finalstate=%v lock=%v", err, m.exists("psA", "_finalstate"), m.exists("psA", "_lock"))
	}

	// ---- scenario 2: a pipestance whose stage failed (no process is left
	// behind, the lock is released), re-attach with edited library
	m.write("inv.mro", inv(1), 0o644)
	m.write("lib/fail.flag", "x", 0o644)
	rc = m.run("psB", 60*time.Second)
	if rc > 0 && !m.exists("psB", "_lock") && !m.exists("psB", "_finalstate") && m.exists("psB", "_mrosource") {
		say("ok lock_released_after_failure exit=%d", rc)
	} else {
		say("skip failed_setup exit=%d lock=%v finalstate=%v", rc, m.exists("psB", "_lock"), m.exists("psB", "_finalstate"))
		return
	}
	os.Remove(filepath.Join(m.lib, "fail.flag"))
	// semantic edit of the library: an argument value inside the pipeline
	m.write("lib/lib.mro", c15Lib("fastq", "", "", "2"), 0o644)
	rc = m.run("psB", 30*time.Second)
	if rc > 0 && !m.exists("psB", "_lock") && !m.exists("psB", "_finalstate") {
		say("ok semantic_edit_refused exit=%d, pipestance left unlocked and unfinished", rc)
	} else {
		say("FAIL e2e_semantic_edit_accepted exit=%d lock=%v finalstate=%v", rc, m.exists("psB", "_lock"), m.exists("psB", "_finalstate"))
	}
	// a second semantic edit: parameter type
	m.write("lib/lib.mro", strings.Replace(c15Lib("fastq", "", "", "1"), "in  int     factor", "in  float   factor", 1), 0o644)
	rc = m.run("psB", 30*time.Second)
	if rc > 0 && !m.exists("psB", "_lock") && !m.exists("psB", "_finalstate") {
		say("ok semantic_retype_refused exit=%d", rc)
	} else {
		say("FAIL e2e_semantic_retype_accepted exit=%d lock=%v finalstate=%v", rc, m.exists("psB", "_lock"), m.exists("psB", "_finalstate"))
	}
	// reformatting the invocation file itself (the byte comparison with _invocation)
	m.write("lib/lib.mro", c15Lib("fastq", "", "", "1"), 0o644)
	m.write("inv.mro", strings.Replace(inv(1), "    delay = 1,", "    delay =   1,  # one second", 1), 0o644)
	rc = m.run("psB", 30*time.Second)
	if rc == 0 {
		say("ok invocation_reformat_accepted")
	} else {
		say("FAIL cosmetic_refused_invocation_file_text exit=%d: the invocation file with changed spacing and a comment is refused (bytes compared with _invocation)", rc)
	}
	m.write("inv.mro", inv(1), 0o644)
	if m.exists("psB", "_finalstate") {
		say("skip cosmetic_library_edit pipestance already complete")
		return
	}
	// cosmetic edit of the library: comments, file type renamed (used as T[]),
	// an unused stage added, declarations moved to another included file
	m.write("lib/types.mro", "# file types\nfiletype fq;\n", 0o644)
	body := c15Lib("fq", "# a comment\n", "\nstage UNUSED(\n    in  int x,\n    src exec \"slow.py\",\n)\n", "1")
	body = "@include \"types.mro\"\n\n" + strings.Replace(body, "filetype fq;\n", "", 1)
	m.write("lib/lib.mro", body, 0o644)
	rc = m.run("psB", 120*time.Second)
	if rc == 0 && m.exists("psB", "_finalstate") && !m.exists("psB", "_lock") {
		say("ok cosmetic_edit_accepted re-attached and completed")
	} else {
		logb, _ := os.ReadFile(filepath.Join(m.work, "psB", "_log"))
		tail := strings.Split(strings.TrimSpace(string(logb)), "\n")
		if len(tail) > 6 {
			tail = tail[len(tail)-6:]
		}
		say("FAIL e2e_cosmetic_edit_refused exit=%d finalstate=%v lock=%v log: %s", rc, m.exists("psB", "_finalstate"), m.exists("psB", "_lock"), strings.Join(tail, " | "))
	}
}
