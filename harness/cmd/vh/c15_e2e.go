package main

func c15E2E(args []string) {}
