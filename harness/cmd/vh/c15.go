package main

// C15 - re-attach is refused iff the invocation's meaning changed.
//
// gen:    random MRO programs (user file types, structs, split stages, nested
//         and mapped pipeline calls, aliases, wildcard bindings, disabled /
//         local / preflight / volatile modifiers) and, for each, every edit of
//         a catalogue of cosmetic (c), semantic (s) and unclassified (u) edits
//         applied at a random site of the transitive closure.  Both programs
//         are compiled by martian and the compiled Asts dumped (astdump).
//         Also literal pairs for Exp.equal, dense around the float tolerance.
// impl:   recompiles the sources, prints Ast.EquivalentCall both ways.
// oracle: the property read on the implementation: a cosmetic edit must be
//         accepted, a semantic one refused.

import (
	"encoding/json"
	"fmt"
	"math"
	"os"
	"path/filepath"
	"sort"
	"strconv"
	"strings"

	"github.com/martian-lang/martian/martian/syntax"
	"github.com/martian-lang/martian/martian/util"
	"verifharness/internal/astdump"
	"verifharness/internal/hx"
)

func init() {
	props["c15"] = &propCmd{gen: c15Gen, impl: c15Impl, oracle: c15Oracle,
		extra: map[string]func([]string){"e2e": c15E2E, "show": c15Show, "coq": c15Coq, "term": c15Term, "search": c15Search, "digest": c15DigestCmd}}
	c15Edits = append(c15Edits, c15MoreEdits()...)
}

// ------------------------------------------------------------ program model

type c15Type struct {
	Base     string
	Arr, Map int
}

func (t c15Type) String() string {
	s := t.Base
	if t.Map > 0 {
		s = "map<" + t.Base + strings.Repeat("[]", t.Map-1) + ">"
	}
	return s + strings.Repeat("[]", t.Arr)
}

type c15Param struct {
	Name    string
	T       c15Type
	Help    string
	OutName string
}

// c15Ex is a value expression.
type c15Ex struct {
	K     string // int float str bool null arr map struct self call split
	S     string // literal text / self param / CALL.out
	Items []c15Ex
	Keys  []string
}

type c15Bind struct {
	Id string // "*" for the wildcard
	E  c15Ex
}

type c15Call struct {
	Dec, Alias string
	Binds      []c15Bind
	MapCall    bool
	Local      bool
	Preflight  bool
	Volatile   bool
	Disabled   string // self param name or ""
}

func (c *c15Call) id() string {
	if c.Alias != "" {
		return c.Alias
	}
	return c.Dec
}

type c15Stage struct {
	Name      string
	Ins, Outs []c15Param
	Split     bool
	ChunkIns  []c15Param
	ChunkOuts []c15Param
	Src       string
	MemGB     string
	Threads   string
	Strict    bool
	Retain    []string
}

type c15Struct struct {
	Name    string
	Members []c15Param
}

type c15Pipe struct {
	Name      string
	Ins, Outs []c15Param
	Calls     []c15Call
	Ret       []c15Bind
	Retain    []string
}

type c15Prog struct {
	FileTypes []string
	Structs   []c15Struct
	Stages    []c15Stage
	Pipes     []c15Pipe // callees first
	Top       c15Call
	// rendering
	Indent   string
	Comments bool
	Include  bool // declarations of types and stages live in lib.mro
	Shuffle  int  // rotation of the stage declarations
}

func (p *c15Prog) clone() *c15Prog {
	b, _ := json.Marshal(p)
	var q c15Prog
	if err := json.Unmarshal(b, &q); err != nil {
		panic(err)
	}
	return &q
}

// ------------------------------------------------------------ rendering

func (e c15Ex) render() string {
	switch e.K {
	case "arr":
		parts := make([]string, len(e.Items))
		for i, it := range e.Items {
			parts[i] = it.render()
		}
		return "[" + strings.Join(parts, ", ") + "]"
	case "map", "struct":
		parts := make([]string, len(e.Items))
		for i, it := range e.Items {
			k := e.Keys[i]
			if e.K == "map" {
				k = strconv.Quote(k)
			}
			parts[i] = k + ": " + it.render()
		}
		return "{" + strings.Join(parts, ", ") + "}"
	case "split":
		return "split " + e.Items[0].render()
	case "self":
		return "self." + e.S
	case "str":
		return strconv.Quote(e.S)
	}
	return e.S // int float bool null call
}

func c15Params(sb *strings.Builder, ind, mode string, ps []c15Param, comments bool) {
	for i, p := range ps {
		if comments && i%2 == 0 {
			fmt.Fprintf(sb, "%s# the %s parameter\n", ind, p.Name)
		}
		fmt.Fprintf(sb, "%s%s%s %s", ind, mode, p.T.String(), p.Name)
		if p.Help != "" || p.OutName != "" {
			fmt.Fprintf(sb, " %s", strconv.Quote(p.Help))
		}
		if p.OutName != "" {
			fmt.Fprintf(sb, " %s", strconv.Quote(p.OutName))
		}
		sb.WriteString(",\n")
	}
}

func (c *c15Call) render(sb *strings.Builder, ind, kw string, comments bool) {
	if comments {
		fmt.Fprintf(sb, "%s# calls %s\n", ind, c.Dec)
	}
	sb.WriteString(ind)
	if c.MapCall {
		sb.WriteString("map ")
	}
	sb.WriteString(kw + " " + c.Dec)
	if c.Alias != "" {
		sb.WriteString(" as " + c.Alias)
	}
	sb.WriteString("(\n")
	for _, b := range c.Binds {
		fmt.Fprintf(sb, "%s%s%s = %s,\n", ind, ind, b.Id, b.E.render())
	}
	sb.WriteString(ind + ")")
	var mods []string
	if c.Disabled != "" {
		mods = append(mods, "disabled = self."+c.Disabled)
	}
	if c.Local {
		mods = append(mods, "local = true")
	}
	if c.Preflight {
		mods = append(mods, "preflight = true")
	}
	if c.Volatile {
		mods = append(mods, "volatile = true")
	}
	if len(mods) > 0 {
		sb.WriteString(" using (\n")
		for _, m := range mods {
			fmt.Fprintf(sb, "%s%s%s,\n", ind, ind, m)
		}
		sb.WriteString(ind + ")")
	}
	sb.WriteString("\n")
}

// render returns the files of the program; the invocation is main.mro.
func (p *c15Prog) render() map[string]string {
	ind := p.Indent
	if ind == "" {
		ind = "    "
	}
	var lib, main strings.Builder
	if p.Comments {
		lib.WriteString("# library of stages\n#\n# second line\n\n")
	}
	for _, f := range p.FileTypes {
		fmt.Fprintf(&lib, "filetype %s;\n", f)
	}
	for _, s := range p.Structs {
		fmt.Fprintf(&lib, "\nstruct %s(\n", s.Name)
		c15Params(&lib, ind, "", s.Members, p.Comments)
		lib.WriteString(")\n")
	}
	n := len(p.Stages)
	for i := 0; i < n; i++ {
		s := p.Stages[(i+p.Shuffle)%n]
		if p.Comments {
			fmt.Fprintf(&lib, "\n# stage %s does things", s.Name)
		}
		fmt.Fprintf(&lib, "\nstage %s(\n", s.Name)
		c15Params(&lib, ind, "in  ", s.Ins, p.Comments)
		c15Params(&lib, ind, "out ", s.Outs, false)
		fmt.Fprintf(&lib, "%ssrc py %s,\n)", ind, strconv.Quote(s.Src))
		if s.Split {
			lib.WriteString(" split (\n")
			c15Params(&lib, ind, "in  ", s.ChunkIns, false)
			c15Params(&lib, ind, "out ", s.ChunkOuts, false)
			lib.WriteString(")")
		}
		var res []string
		if s.MemGB != "" {
			res = append(res, "mem_gb = "+s.MemGB)
		}
		if s.Threads != "" {
			res = append(res, "threads = "+s.Threads)
		}
		if s.Strict {
			res = append(res, "volatile = strict")
		}
		if len(res) > 0 {
			lib.WriteString(" using (\n")
			for _, r := range res {
				fmt.Fprintf(&lib, "%s%s,\n", ind, r)
			}
			lib.WriteString(")")
		}
		if len(s.Retain) > 0 {
			lib.WriteString(" retain (\n")
			for _, r := range s.Retain {
				fmt.Fprintf(&lib, "%s%s,\n", ind, r)
			}
			lib.WriteString(")")
		}
		lib.WriteString("\n")
	}
	for _, pl := range p.Pipes {
		if p.Comments {
			fmt.Fprintf(&main, "\n# pipeline %s", pl.Name)
		}
		fmt.Fprintf(&main, "\npipeline %s(\n", pl.Name)
		c15Params(&main, ind, "in  ", pl.Ins, p.Comments)
		c15Params(&main, ind, "out ", pl.Outs, false)
		main.WriteString(")\n{\n")
		for i := range pl.Calls {
			pl.Calls[i].render(&main, ind, "call", p.Comments)
			main.WriteString("\n")
		}
		fmt.Fprintf(&main, "%sreturn (\n", ind)
		for _, b := range pl.Ret {
			fmt.Fprintf(&main, "%s%s%s = %s,\n", ind, ind, b.Id, b.E.render())
		}
		fmt.Fprintf(&main, "%s)\n", ind)
		if len(pl.Retain) > 0 {
			fmt.Fprintf(&main, "\n%sretain (\n", ind)
			for _, r := range pl.Retain {
				fmt.Fprintf(&main, "%s%s%s,\n", ind, ind, r)
			}
			fmt.Fprintf(&main, "%s)\n", ind)
		}
		main.WriteString("}\n")
	}
	main.WriteString("\n")
	p.Top.render(&main, "", "call", p.Comments)
	if p.Include {
		return map[string]string{"main.mro": "@include \"lib.mro\"\n" + main.String(), "lib.mro": lib.String()}
	}
	return map[string]string{"main.mro": lib.String() + main.String()}
}

// ------------------------------------------------------------ generation

var c15Scalars = []string{"int", "float", "string", "bool", "map", "path", "file"}

func c15RandType(r *hx.Rng, p *c15Prog) c15Type {
	bases := append([]string{}, c15Scalars...)
	bases = append(bases, p.FileTypes...)
	bases = append(bases, p.FileTypes...)
	for _, s := range p.Structs {
		bases = append(bases, s.Name)
	}
	t := c15Type{Base: hx.Pick(r, bases)}
	switch r.Intn(8) {
	case 0, 1:
		t.Arr = 1
	case 2:
		if t.Base != "map" {
			t.Map = 1
		}
	case 3:
		if t.Base != "map" {
			t.Map = 2
		}
	case 4:
		t.Arr = 2
	}
	return t
}

func c15Lit(r *hx.Rng, p *c15Prog, t c15Type, depth int) c15Ex {
	if r.Intn(12) == 0 {
		return c15Ex{K: "null", S: "null"}
	}
	if t.Arr > 0 {
		n := r.Intn(3)
		e := c15Ex{K: "arr"}
		for i := 0; i < n; i++ {
			e.Items = append(e.Items, c15Lit(r, p, c15Type{t.Base, t.Arr - 1, t.Map}, depth+1))
		}
		return e
	}
	if t.Map > 0 {
		n := r.Intn(3)
		e := c15Ex{K: "map"}
		for i := 0; i < n; i++ {
			e.Keys = append(e.Keys, fmt.Sprintf("k%d", i))
			e.Items = append(e.Items, c15Lit(r, p, c15Type{t.Base, t.Map - 1, 0}, depth+1))
		}
		return e
	}
	switch t.Base {
	case "int":
		return c15Ex{K: "int", S: strconv.FormatInt(hx.Pick(r, []int64{0, 1, -1, 42, 1 << 53, 1<<53 + 1, math.MaxInt64, int64(r.Intn(100000))}), 10)}
	case "float":
		if r.Intn(3) == 0 {
			// an integer literal bound to a float parameter
			return c15Ex{K: "int", S: hx.Pick(r, []string{"0", "1", "2", "-3", "7", "100"})}
		}
		return c15Ex{K: "float", S: hx.Pick(r, []string{"0.5", "1.0", "-2.25", "1e10", "3.0e-7", "6.02e23", "1.0000000000000002", "0.1"})}
	case "bool":
		return c15Ex{K: "bool", S: hx.Pick(r, []string{"true", "false"})}
	case "map":
		return c15Ex{K: "map", Keys: []string{"a", "b"}, Items: []c15Ex{{K: "int", S: "1"}, {K: "str", S: "x"}}}
	case "string", "path", "file":
		return c15Ex{K: "str", S: hx.Pick(r, []string{"", "a", "/some/path", "x y", "q\"uote", "café"})}
	}
	for _, f := range p.FileTypes {
		if f == t.Base {
			return c15Ex{K: "str", S: "/data/" + f + strconv.Itoa(r.Intn(10))}
		}
	}
	for _, s := range p.Structs {
		if s.Name == t.Base {
			e := c15Ex{K: "struct"}
			for _, m := range s.Members {
				e.Keys = append(e.Keys, m.Name)
				e.Items = append(e.Items, c15Lit(r, p, m.T, depth+1))
			}
			return e
		}
	}
	return c15Ex{K: "null", S: "null"}
}

type c15Src struct {
	ref string
	t   c15Type
}

// bind every input of callee; creates pipeline inputs on demand.
func c15BindCall(r *hx.Rng, p *c15Prog, pl *c15Pipe, call *c15Call, ins []c15Param, avail []c15Src, wildcard bool) {
	var wild []c15Param
	for _, in := range ins {
		if in.Name == "spare" {
			call.Binds = append(call.Binds, c15Bind{in.Name, c15Ex{K: "null", S: "null"}})
			continue
		}
		if wildcard && r.Intn(2) == 0 {
			clash := false
			for _, q := range pl.Ins {
				if q.Name == in.Name {
					clash = true
				}
			}
			if !clash {
				pl.Ins = append(pl.Ins, c15Param{Name: in.Name, T: in.T})
				wild = append(wild, in)
				continue
			}
		}
		var cands []c15Src
		for _, a := range avail {
			if a.t == in.T {
				cands = append(cands, a)
			}
		}
		switch k := r.Intn(10); {
		case k < 3 && len(cands) > 0:
			call.Binds = append(call.Binds, c15Bind{in.Name, c15Ex{K: "call", S: hx.Pick(r, cands).ref}})
		case k < 6:
			call.Binds = append(call.Binds, c15Bind{in.Name, c15Lit(r, p, in.T, 0)})
		default:
			name := fmt.Sprintf("%s_%s", strings.ToLower(call.id()), in.Name)
			pl.Ins = append(pl.Ins, c15Param{Name: name, T: in.T})
			call.Binds = append(call.Binds, c15Bind{in.Name, c15Ex{K: "self", S: name}})
		}
	}
	if len(wild) > 0 {
		call.Binds = append(call.Binds, c15Bind{"*", c15Ex{K: "call", S: "self"}})
	}
}

func c15GenProg(r *hx.Rng) *c15Prog {
	p := &c15Prog{FileTypes: []string{"fastq", "bam"}}
	if r.Bool() {
		p.FileTypes = append(p.FileTypes, "json")
	}
	p.Structs = []c15Struct{{Name: "Rec", Members: []c15Param{
		{Name: "n", T: c15Type{Base: "int"}}, {Name: "reads", T: c15Type{Base: "fastq"}}, {Name: "tag", T: c15Type{Base: "string"}}}}}
	if r.Bool() {
		p.Structs = append(p.Structs, c15Struct{Name: "Plain", Members: []c15Param{
			{Name: "a", T: c15Type{Base: "int"}}, {Name: "b", T: c15Type{Base: "float", Arr: r.Intn(2)}}}})
	}
	ns := 3 + r.Intn(2)
	for i := 0; i < ns; i++ {
		s := c15Stage{Name: fmt.Sprintf("STAGE_%d", i), Src: fmt.Sprintf("stages/s%d", i)}
		for j, n := 0, 1+r.Intn(3); j < n; j++ {
			s.Ins = append(s.Ins, c15Param{Name: fmt.Sprintf("i%d", j), T: c15RandType(r, p)})
		}
		s.Ins = append(s.Ins, c15Param{Name: "spare", T: c15RandType(r, p)})
		for j, n := 0, 1+r.Intn(2); j < n; j++ {
			o := c15Param{Name: fmt.Sprintf("o%d", j), T: c15RandType(r, p)}
			if r.Intn(4) == 0 {
				o.Help = "help text"
				if r.Bool() {
					o.OutName = fmt.Sprintf("out%d.dat", j)
				}
			}
			s.Outs = append(s.Outs, o)
		}
		s.Outs = append(s.Outs, c15Param{Name: "sout", T: c15RandType(r, p)})
		if r.Intn(3) == 0 {
			s.Split = true
			s.ChunkIns = []c15Param{{Name: "chunk", T: c15Type{Base: "int"}}}
			if r.Bool() {
				s.ChunkOuts = []c15Param{{Name: "part", T: c15Type{Base: "file"}}}
			}
		}
		if r.Intn(3) == 0 {
			s.MemGB = hx.Pick(r, []string{"1", "4", "0.5"})
		}
		if r.Intn(4) == 0 {
			s.Threads = hx.Pick(r, []string{"2", "0.5"})
		}
		s.Strict = r.Intn(5) == 0
		if o0 := s.Outs[0].T; r.Intn(3) == 0 && o0.Arr == 0 && o0.Map == 0 && (p.isFileType(o0.Base) || o0.Base == "file" || o0.Base == "path") {
			s.Retain = []string{s.Outs[0].Name}
		}
		p.Stages = append(p.Stages, s)
	}
	p.Stages = append(p.Stages, c15Stage{Name: "CHECK", Src: "stages/check",
		Ins: []c15Param{{Name: "level", T: c15Type{Base: "int"}}, {Name: "spare", T: c15Type{Base: "int"}}}})
	p.Stages = append(p.Stages, c15Stage{Name: "SINK", Src: "stages/sink",
		Ins: []c15Param{{Name: "a", T: c15Type{Base: "bool"}}, {Name: "b", T: c15Type{Base: "bool"}},
			{Name: "scale", T: c15Type{Base: "float"}}, {Name: "weights", T: c15Type{Base: "float", Arr: 1}}, {Name: "spare", T: c15Type{Base: "int"}}}})

	// INNER: calls stage 0 and stage 1
	inner := c15Pipe{Name: "INNER"}
	var avail []c15Src
	for i := 0; i < 2; i++ {
		st := &p.Stages[i]
		c := c15Call{Dec: st.Name}
		if r.Intn(3) == 0 {
			c.Alias = fmt.Sprintf("ALIAS_%d", i)
		}
		c.Volatile = r.Intn(4) == 0
		c.Local = r.Intn(6) == 0
		c15BindCall(r, p, &inner, &c, st.Ins, avail, false)
		for _, o := range st.Outs {
			if o.Name != "sout" {
				avail = append(avail, c15Src{c.id() + "." + o.Name, o.T})
			}
		}
		inner.Calls = append(inner.Calls, c)
	}
	for i, a := range avail {
		if a.t.Map > 0 && a.t.Arr > 0 {
			continue
		}
		if i == 0 || r.Intn(2) == 0 {
			name := fmt.Sprintf("r%d", i)
			o := c15Param{Name: name, T: a.t}
			if r.Intn(5) == 0 {
				o.Help = "an output"
				o.OutName = fmt.Sprintf("result%d", i)
			}
			inner.Outs = append(inner.Outs, o)
			inner.Ret = append(inner.Ret, c15Bind{name, c15Ex{K: "call", S: a.ref}})
		}
	}
	if r.Intn(3) == 0 {
		inner.Retain = []string{avail[0].ref}
	}

	// OUTER: CHECK (preflight), INNER (plain, aliased or mapped), stage 2 with
	// disabled, possibly a mapped call of the last stage
	outer := c15Pipe{Name: "OUTER"}
	outer.Ins = append(outer.Ins, c15Param{Name: "lvl", T: c15Type{Base: "int"}},
		c15Param{Name: "skip", T: c15Type{Base: "bool"}}, c15Param{Name: "skip2", T: c15Type{Base: "bool"}})
	chk := c15Call{Dec: "CHECK", Preflight: r.Intn(3) != 0, Local: r.Bool(),
		Binds: []c15Bind{{"level", c15Ex{K: "self", S: "lvl"}}, {"spare", c15Ex{K: "null", S: "null"}}}}
	outer.Calls = append(outer.Calls, chk)
	outer.Calls = append(outer.Calls, c15Call{Dec: "SINK", Binds: []c15Bind{{"a", c15Ex{K: "self", S: "skip"}},
		{"b", c15Ex{K: "self", S: "skip2"}}, {"scale", c15Lit(r, p, c15Type{Base: "float"}, 0)},
		{"weights", c15Lit(r, p, c15Type{Base: "float", Arr: 1}, 0)}, {"spare", c15Ex{K: "null", S: "null"}}}})
	ic := c15Call{Dec: "INNER"}
	if r.Intn(3) == 0 {
		ic.Alias = "INNER_RUN"
	}
	mapped := 0 // 0 no, 1 array, 2 map
	if len(inner.Ins) > 0 && r.Intn(3) == 0 {
		mapped = 1 + r.Intn(2)
		ic.MapCall = true
	}
	if r.Intn(4) == 0 {
		ic.Disabled = "skip2"
	}
	for k, in := range inner.Ins {
		if mapped > 0 && k == 0 && in.T.Map == 0 {
			// split over a literal collection of the parameter's type
			coll := c15Ex{}
			if mapped == 1 {
				coll.K = "arr"
				for i := 0; i < 2; i++ {
					coll.Items = append(coll.Items, c15Lit(r, p, in.T, 1))
				}
			} else {
				coll.K = "map"
				for i := 0; i < 2; i++ {
					coll.Keys = append(coll.Keys, fmt.Sprintf("key%d", i))
					coll.Items = append(coll.Items, c15Lit(r, p, in.T, 1))
				}
			}
			ic.Binds = append(ic.Binds, c15Bind{in.Name, c15Ex{K: "split", Items: []c15Ex{coll}}})
			continue
		}
		if mapped > 0 && k == 0 {
			mapped = 0
			ic.MapCall = false
		}
		if r.Intn(3) == 0 {
			ic.Binds = append(ic.Binds, c15Bind{in.Name, c15Lit(r, p, in.T, 0)})
		} else {
			name := "in_" + in.Name
			outer.Ins = append(outer.Ins, c15Param{Name: name, T: in.T})
			ic.Binds = append(ic.Binds, c15Bind{in.Name, c15Ex{K: "self", S: name}})
		}
	}
	outer.Calls = append(outer.Calls, ic)
	var oavail []c15Src
	for _, o := range inner.Outs {
		t := o.T
		if mapped == 1 {
			t.Arr++
		} else if mapped == 2 {
			if t.Map > 0 {
				continue
			}
			t = c15Type{Base: t.Base, Map: t.Arr + 1}
		}
		oavail = append(oavail, c15Src{ic.id() + "." + o.Name, t})
	}
	st2 := &p.Stages[2]
	c2 := c15Call{Dec: st2.Name, Volatile: r.Intn(3) == 0}
	if r.Intn(2) == 0 {
		c2.Disabled = "skip"
	}
	c15BindCall(r, p, &outer, &c2, st2.Ins, oavail, r.Intn(2) == 0)
	outer.Calls = append(outer.Calls, c2)
	for _, o := range st2.Outs {
		if o.Name != "sout" {
			oavail = append(oavail, c15Src{c2.id() + "." + o.Name, o.T})
		}
	}
	if ns > 3 {
		// map call of a stage over a pipeline input, or a plain call
		st3 := &p.Stages[3]
		c3 := c15Call{Dec: st3.Name, MapCall: true}
		in0 := st3.Ins[0]
		if in0.T.Map != 0 || r.Intn(2) == 0 {
			c3.MapCall = false
			c15BindCall(r, p, &outer, &c3, st3.Ins, oavail, false)
			outer.Calls = append(outer.Calls, c3)
		} else {
			name := "sweep"
			lt := in0.T
			arrMode := r.Bool()
			if arrMode {
				lt.Arr++
			} else {
				lt = c15Type{Base: lt.Base, Map: lt.Arr + 1}
			}
			outer.Ins = append(outer.Ins, c15Param{Name: name, T: lt})
			c3.Binds = append(c3.Binds, c15Bind{in0.Name, c15Ex{K: "split", Items: []c15Ex{{K: "self", S: name}}}})
			c15BindCall(r, p, &outer, &c3, st3.Ins[1:], nil, false)
			outer.Calls = append(outer.Calls, c3)
			for _, o := range st3.Outs {
				t := o.T
				if o.Name == "sout" {
					continue
				}
				if arrMode {
					t.Arr++
				} else if t.Map == 0 {
					t = c15Type{Base: t.Base, Map: t.Arr + 1}
				} else {
					continue
				}
				oavail = append(oavail, c15Src{c3.id() + "." + o.Name, t})
			}
		}
	}
	for i, a := range oavail {
		if a.t.Map > 0 && a.t.Arr > 0 {
			continue
		}
		if i == 0 || r.Intn(2) == 0 {
			name := fmt.Sprintf("out%d", i)
			outer.Outs = append(outer.Outs, c15Param{Name: name, T: a.t})
			outer.Ret = append(outer.Ret, c15Bind{name, c15Ex{K: "call", S: a.ref}})
		}
	}
	p.Pipes = []c15Pipe{inner, outer}
	p.Top = c15Call{Dec: "OUTER"}
	for _, in := range outer.Ins {
		var e c15Ex
		switch in.Name {
		case "skip", "skip2":
			e = c15Ex{K: "bool", S: hx.Pick(r, []string{"true", "false"})}
		default:
			e = c15Lit(r, p, in.T, 0)
		}
		p.Top.Binds = append(p.Top.Binds, c15Bind{in.Name, e})
	}
	p.Include = r.Intn(3) == 0
	p.Comments = r.Intn(3) == 0
	return p
}

// ------------------------------------------------------------ edits

type c15Edit struct {
	class string // c cosmetic, s semantic, u unclassified by the property
	name  string
	f     func(p *c15Prog, r *hx.Rng) bool
}

// c15EditPre[name], if set, is applied to the base program first; its result
// is the ORIGINAL of the pair (so that the edit can rely on declarations that
// already exist in the original source).
var c15EditPre = map[string]func(p *c15Prog, r *hx.Rng) bool{}

// all calls of the program (top call last)
func (p *c15Prog) calls() []*c15Call {
	var out []*c15Call
	for i := range p.Pipes {
		for j := range p.Pipes[i].Calls {
			out = append(out, &p.Pipes[i].Calls[j])
		}
	}
	return append(out, &p.Top)
}

// all binding lists (call bindings and returns)
func (p *c15Prog) bindLists() []*[]c15Bind {
	var out []*[]c15Bind
	for _, c := range p.calls() {
		out = append(out, &c.Binds)
	}
	for i := range p.Pipes {
		out = append(out, &p.Pipes[i].Ret)
	}
	return out
}

// visit every expression node
func c15Walk(e *c15Ex, f func(*c15Ex)) {
	f(e)
	for i := range e.Items {
		c15Walk(&e.Items[i], f)
	}
}

func (p *c15Prog) leaves(kinds ...string) []*c15Ex {
	var out []*c15Ex
	for _, l := range p.bindLists() {
		for i := range *l {
			c15Walk(&(*l)[i].E, func(e *c15Ex) {
				for _, k := range kinds {
					if e.K == k {
						out = append(out, e)
					}
				}
			})
		}
	}
	return out
}

func c15EditLeaf(kind string, f func(e *c15Ex, r *hx.Rng) bool) func(p *c15Prog, r *hx.Rng) bool {
	return func(p *c15Prog, r *hx.Rng) bool {
		ls := p.leaves(kind)
		if len(ls) == 0 {
			return false
		}
		return f(hx.Pick(r, ls), r)
	}
}

func (p *c15Prog) renameType(old, new string) {
	fix := func(ps []c15Param) {
		for i := range ps {
			if ps[i].T.Base == old {
				ps[i].T.Base = new
			}
		}
	}
	for i := range p.Structs {
		fix(p.Structs[i].Members)
	}
	for i := range p.Stages {
		fix(p.Stages[i].Ins)
		fix(p.Stages[i].Outs)
		fix(p.Stages[i].ChunkIns)
		fix(p.Stages[i].ChunkOuts)
	}
	for i := range p.Pipes {
		fix(p.Pipes[i].Ins)
		fix(p.Pipes[i].Outs)
	}
}

// does any parameter use the type in the given shape class?
func (p *c15Prog) typeUsed(base string, pred func(t c15Type) bool) bool {
	found := false
	chk := func(ps []c15Param) {
		for _, q := range ps {
			if q.T.Base == base && pred(q.T) {
				found = true
			}
		}
	}
	for _, s := range p.Stages {
		chk(s.Ins)
		chk(s.Outs)
	}
	for _, s := range p.Pipes {
		chk(s.Ins)
		chk(s.Outs)
	}
	return found
}

// the stage / pipeline parameter lists in the closure
func (p *c15Prog) paramLists(outs bool) []*[]c15Param {
	var l []*[]c15Param
	for i := range p.Stages {
		if outs {
			l = append(l, &p.Stages[i].Outs)
		} else {
			l = append(l, &p.Stages[i].Ins)
		}
	}
	return l
}

func (p *c15Prog) spare(r *hx.Rng, outs bool) *c15Param {
	name := "spare"
	if outs {
		name = "sout"
	}
	var c []*c15Param
	for _, l := range p.paramLists(outs) {
		for i := range *l {
			if (*l)[i].Name == name {
				c = append(c, &(*l)[i])
			}
		}
	}
	if len(c) == 0 {
		return nil
	}
	return hx.Pick(r, c)
}

func c15Retype(outs bool, f func(t c15Type, p *c15Prog) (c15Type, bool)) func(p *c15Prog, r *hx.Rng) bool {
	return func(p *c15Prog, r *hx.Rng) bool {
		for try := 0; try < 8; try++ {
			sp := p.spare(r, outs)
			if sp == nil {
				return false
			}
			if nt, ok := f(sp.T, p); ok && nt != sp.T {
				sp.T = nt
				return true
			}
		}
		return false
	}
}

func (p *c15Prog) isFileType(b string) bool {
	for _, f := range p.FileTypes {
		if f == b {
			return true
		}
	}
	return false
}

var c15Edits = []c15Edit{
	// ---------------- cosmetic: must be accepted
	{"c", "identity", func(p *c15Prog, r *hx.Rng) bool { return true }},
	{"c", "whitespace", func(p *c15Prog, r *hx.Rng) bool {
		p.Indent = hx.Pick(r, []string{"\t", "  ", " \t  ", "        "})
		return true
	}},
	{"c", "comments", func(p *c15Prog, r *hx.Rng) bool { p.Comments = !p.Comments; return true }},
	{"c", "include_structure", func(p *c15Prog, r *hx.Rng) bool { p.Include = !p.Include; return true }},
	{"c", "declaration_order", func(p *c15Prog, r *hx.Rng) bool { p.Shuffle = 1 + r.Intn(len(p.Stages)-1); return true }},
	{"c", "filetype_rename_scalar", func(p *c15Prog, r *hx.Rng) bool {
		for _, f := range p.FileTypes {
			if p.typeUsed(f, func(t c15Type) bool { return t.Arr == 0 && t.Map == 0 }) &&
				!p.typeUsed(f, func(t c15Type) bool { return t.Arr > 0 || t.Map > 0 }) {
				p.renameType(f, f+"_v2")
				for i := range p.FileTypes {
					if p.FileTypes[i] == f {
						p.FileTypes[i] = f + "_v2"
					}
				}
				return true
			}
		}
		return false
	}},
	{"c", "filetype_rename_collection", func(p *c15Prog, r *hx.Rng) bool {
		for _, f := range p.FileTypes {
			if p.typeUsed(f, func(t c15Type) bool { return t.Arr > 0 || t.Map > 0 }) {
				p.renameType(f, f+"_v2")
				for i := range p.FileTypes {
					if p.FileTypes[i] == f {
						p.FileTypes[i] = f + "_v2"
					}
				}
				return true
			}
		}
		return false
	}},
	{"c", "filetype_unused_added", func(p *c15Prog, r *hx.Rng) bool { p.FileTypes = append(p.FileTypes, "unused_t"); return true }},
	{"c", "unused_stage_added", func(p *c15Prog, r *hx.Rng) bool {
		p.Stages = append(p.Stages, c15Stage{Name: "UNUSED", Src: "stages/unused", Ins: []c15Param{{Name: "x", T: c15Type{Base: "int"}}}})
		return true
	}},
	// ---------------- semantic: must be refused
	{"s", "call_alias_top", func(p *c15Prog, r *hx.Rng) bool { p.Top.Alias = "RENAMED_TOP"; return true }},
	{"s", "call_alias_inner", func(p *c15Prog, r *hx.Rng) bool {
		// rename a call inside a pipeline and every reference to it
		pl := &p.Pipes[r.Intn(len(p.Pipes))]
		c := &pl.Calls[r.Intn(len(pl.Calls))]
		old, nw := c.id(), "RENAMED_"+c.id()
		c.Alias = nw
		fix := func(e *c15Ex) {
			if e.K == "call" && strings.HasPrefix(e.S, old+".") {
				e.S = nw + e.S[len(old):]
			}
		}
		for i := range pl.Calls {
			for j := range pl.Calls[i].Binds {
				c15Walk(&pl.Calls[i].Binds[j].E, fix)
			}
		}
		for j := range pl.Ret {
			c15Walk(&pl.Ret[j].E, fix)
		}
		for j := range pl.Retain {
			if strings.HasPrefix(pl.Retain[j], old+".") {
				pl.Retain[j] = nw + pl.Retain[j][len(old):]
			}
		}
		return true
	}},
	{"s", "literal_int", c15EditLeaf("int", func(e *c15Ex, r *hx.Rng) bool {
		v, _ := strconv.ParseInt(e.S, 10, 64)
		if v > 1<<60 {
			v -= 1 + int64(r.Intn(1000))
		} else {
			v += 1 + int64(r.Intn(3))
		}
		e.S = strconv.FormatInt(v, 10)
		return true
	})},
	{"s", "literal_float", c15EditLeaf("float", func(e *c15Ex, r *hx.Rng) bool {
		v, _ := strconv.ParseFloat(e.S, 64)
		v = v*(1+math.Ldexp(1, -30+r.Intn(28))) + math.SmallestNonzeroFloat64
		e.S = strconv.FormatFloat(v, 'e', -1, 64)
		return true
	})},
	{"s", "literal_float_few_ulp", c15EditLeaf("float", func(e *c15Ex, r *hx.Rng) bool {
		v, _ := strconv.ParseFloat(e.S, 64)
		w := v
		for i, n := 0, 1+r.Intn(3); i < n; i++ {
			w = math.Nextafter(w, math.Inf(1))
		}
		e.S = strconv.FormatFloat(w, 'e', -1, 64)
		return w != v
	})},
	{"s", "literal_string", c15EditLeaf("str", func(e *c15Ex, r *hx.Rng) bool { e.S += hx.Pick(r, []string{"x", " ", "/", "é"}); return true })},
	{"s", "literal_bool", c15EditLeaf("bool", func(e *c15Ex, r *hx.Rng) bool {
		if e.S == "true" {
			e.S = "false"
		} else {
			e.S = "true"
		}
		return true
	})},
	{"s", "literal_to_null", func(p *c15Prog, r *hx.Rng) bool {
		ls := p.leaves("int", "float", "str", "bool")
		if len(ls) == 0 {
			return false
		}
		*hx.Pick(r, ls) = c15Ex{K: "null", S: "null"}
		return true
	}},
	{"s", "array_length", c15EditLeaf("arr", func(e *c15Ex, r *hx.Rng) bool {
		if len(e.Items) == 0 {
			return false
		}
		if r.Bool() {
			e.Items = append(e.Items, e.Items[0])
		} else {
			e.Items = e.Items[1:]
		}
		return true
	})},
	{"s", "array_order", c15EditLeaf("arr", func(e *c15Ex, r *hx.Rng) bool {
		if len(e.Items) < 2 || c15NearlySame(e.Items[0], e.Items[1]) {
			return false // swapping them would stay within the float tolerance
		}
		e.Items[0], e.Items[1] = e.Items[1], e.Items[0]
		return true
	})},
	{"s", "map_key", c15EditLeaf("map", func(e *c15Ex, r *hx.Rng) bool {
		if len(e.Keys) == 0 {
			return false
		}
		e.Keys[r.Intn(len(e.Keys))] += "_x"
		return true
	})},
	{"s", "map_entry_removed", c15EditLeaf("map", func(e *c15Ex, r *hx.Rng) bool {
		if len(e.Keys) == 0 {
			return false
		}
		e.Keys, e.Items = e.Keys[1:], e.Items[1:]
		return true
	})},
	{"s", "reference_target", func(p *c15Prog, r *hx.Rng) bool {
		// two inputs of the same type feed two parameters: swap them
		for _, c := range p.calls() {
			if c.Dec == "SINK" {
				c.Binds[0].E.S, c.Binds[1].E.S = c.Binds[1].E.S, c.Binds[0].E.S
				return true
			}
		}
		return false
	}},
	{"s", "param_added", func(p *c15Prog, r *hx.Rng) bool {
		st := &p.Stages[r.Intn(len(p.Stages))]
		st.Ins = append(st.Ins, c15Param{Name: "extra", T: c15Type{Base: "int"}})
		for _, c := range p.calls() {
			if c.Dec == st.Name {
				c.Binds = append([]c15Bind{{"extra", c15Ex{K: "int", S: "7"}}}, c.Binds...)
			}
		}
		return true
	}},
	{"s", "param_removed", func(p *c15Prog, r *hx.Rng) bool {
		st := &p.Stages[r.Intn(len(p.Stages))]
		for i, in := range st.Ins {
			if in.Name == "spare" {
				st.Ins = append(st.Ins[:i:i], st.Ins[i+1:]...)
			}
		}
		for _, c := range p.calls() {
			if c.Dec == st.Name {
				for i, b := range c.Binds {
					if b.Id == "spare" {
						c.Binds = append(c.Binds[:i:i], c.Binds[i+1:]...)
						break
					}
				}
			}
		}
		return true
	}},
	{"s", "out_param_added", func(p *c15Prog, r *hx.Rng) bool {
		st := &p.Stages[r.Intn(len(p.Stages)-2)]
		st.Outs = append(st.Outs, c15Param{Name: "extra_out", T: c15Type{Base: "int"}})
		return true
	}},
	{"s", "out_param_removed", func(p *c15Prog, r *hx.Rng) bool {
		st := &p.Stages[r.Intn(len(p.Stages)-2)]
		for i, o := range st.Outs {
			if o.Name == "sout" {
				st.Outs = append(st.Outs[:i:i], st.Outs[i+1:]...)
				// references to it must go too: only safe if unreferenced
				for _, e := range p.leaves("call") {
					if strings.HasSuffix(e.S, ".sout") {
						return false
					}
				}
				for _, pl := range p.Pipes {
					for _, rt := range pl.Retain {
						if strings.HasSuffix(rt, ".sout") {
							return false
						}
					}
				}
				return true
			}
		}
		return false
	}},
	{"s", "param_retype_base", c15Retype(false, func(t c15Type, p *c15Prog) (c15Type, bool) {
		switch t.Base {
		case "int":
			t.Base = "float"
		case "float", "bool", "map":
			t.Base = "string"
		case "string":
			t.Base = "int"
		default:
			if p.isFileType(t.Base) || t.Base == "path" || t.Base == "file" {
				t.Base = "string"
			} else {
				t.Base = "int" // a struct
			}
		}
		return t, true
	})},
	{"s", "param_retype_array_dim", c15Retype(false, func(t c15Type, p *c15Prog) (c15Type, bool) {
		if t.Arr > 0 {
			t.Arr--
		} else {
			t.Arr++
		}
		return t, true
	})},
	{"s", "param_retype_map_dim", c15Retype(false, func(t c15Type, p *c15Prog) (c15Type, bool) {
		if t.Base == "map" {
			return t, false
		}
		if t.Map > 0 {
			t.Map = 0
		} else {
			t.Map = 1 + t.Arr
			t.Arr = 0
		}
		return t, true
	})},
	{"s", "param_retype_file_to_struct", c15Retype(false, func(t c15Type, p *c15Prog) (c15Type, bool) {
		if p.isFileType(t.Base) {
			t.Base = "Rec"
			return t, true
		}
		return t, false
	})},
	{"s", "out_param_retype_base", c15Retype(true, func(t c15Type, p *c15Prog) (c15Type, bool) {
		if t.Base == "int" {
			t.Base = "string"
		} else {
			t.Base = "int"
		}
		return t, true
	})},
	{"s", "out_param_retype_map_dim", c15Retype(true, func(t c15Type, p *c15Prog) (c15Type, bool) {
		if t.Base == "map" || t.Arr > 0 {
			return t, false
		}
		if t.Map > 0 {
			t.Map = 0
		} else {
			t.Map = 1
		}
		return t, true
	})},
	{"s", "split_flag", func(p *c15Prog, r *hx.Rng) bool {
		st := &p.Stages[r.Intn(len(p.Stages)-2)]
		st.Split = !st.Split
		if !st.Split {
			st.ChunkIns, st.ChunkOuts = nil, nil
		}
		return true
	}},
	{"s", "return_binding", func(p *c15Prog, r *hx.Rng) bool {
		// return another output of the same type, or null
		pl := &p.Pipes[r.Intn(len(p.Pipes))]
		if len(pl.Ret) == 0 {
			return false
		}
		b := &pl.Ret[r.Intn(len(pl.Ret))]
		b.E = c15Ex{K: "null", S: "null"}
		return true
	}},
	{"s", "modifier_local", func(p *c15Prog, r *hx.Rng) bool {
		var cs []*c15Call
		for _, c := range p.calls() {
			if c.Dec != "OUTER" && c.Dec != "INNER" {
				cs = append(cs, c)
			}
		}
		c := hx.Pick(r, cs)
		c.Local = !c.Local
		return true
	}},
	{"s", "modifier_preflight", func(p *c15Prog, r *hx.Rng) bool {
		for _, c := range p.calls() {
			if c.Dec == "CHECK" {
				c.Preflight = !c.Preflight
				return true
			}
		}
		return false
	}},
	{"s", "disabled_changed", func(p *c15Prog, r *hx.Rng) bool {
		for _, c := range p.calls() {
			if c.Disabled == "skip" {
				c.Disabled = "skip2"
				return true
			} else if c.Disabled == "skip2" {
				c.Disabled = "skip"
				return true
			}
		}
		return false
	}},
	{"s", "disabled_added", func(p *c15Prog, r *hx.Rng) bool {
		for _, c := range p.Pipes[1].Calls {
			_ = c
		}
		for i := range p.Pipes[1].Calls {
			c := &p.Pipes[1].Calls[i]
			if c.Disabled == "" && !c.Preflight {
				c.Disabled = "skip"
				return true
			}
		}
		return false
	}},
	{"s", "disabled_removed", func(p *c15Prog, r *hx.Rng) bool {
		for _, c := range p.calls() {
			if c.Disabled != "" {
				c.Disabled = ""
				return true
			}
		}
		return false
	}},
	{"s", "struct_member_retype", func(p *c15Prog, r *hx.Rng) bool {
		s := &p.Structs[r.Intn(len(p.Structs))]
		m := &s.Members[0]
		if m.T.Base == "int" {
			m.T.Base = "float"
			return true
		}
		return false
	}},
	{"s", "struct_member_added", func(p *c15Prog, r *hx.Rng) bool {
		s := &p.Structs[r.Intn(len(p.Structs))]
		s.Members = append(s.Members, c15Param{Name: "added", T: c15Type{Base: "int"}})
		// struct literals must supply it
		for _, l := range p.bindLists() {
			for i := range *l {
				c15Walk(&(*l)[i].E, func(e *c15Ex) {
					if e.K == "struct" && len(e.Keys) == len(s.Members)-1 && e.Keys[0] == s.Members[0].Name {
						e.Keys = append(e.Keys, "added")
						e.Items = append(e.Items, c15Ex{K: "int", S: "0"})
					}
				})
			}
		}
		return true
	}},
	// ---------------- not classified by the property: correspondence only
	{"u", "stage_src", func(p *c15Prog, r *hx.Rng) bool { p.Stages[0].Src += "_v2"; return true }},
	{"u", "resources", func(p *c15Prog, r *hx.Rng) bool { p.Stages[1].MemGB = "16"; p.Stages[1].Threads = "3"; return true }},
	{"u", "stage_retain", func(p *c15Prog, r *hx.Rng) bool {
		if len(p.Stages[0].Retain) > 0 {
			p.Stages[0].Retain = nil
		} else {
			p.Stages[0].Retain = []string{p.Stages[0].Outs[0].Name}
		}
		return true
	}},
	{"u", "modifier_volatile", func(p *c15Prog, r *hx.Rng) bool {
		c := &p.Pipes[0].Calls[0]
		c.Volatile = !c.Volatile
		return true
	}},
	{"u", "strict_volatile", func(p *c15Prog, r *hx.Rng) bool { p.Stages[0].Strict = !p.Stages[0].Strict; return true }},
	{"u", "help_text", func(p *c15Prog, r *hx.Rng) bool { p.Stages[0].Ins[0].Help = "new help"; return true }},
	{"u", "chunk_params", func(p *c15Prog, r *hx.Rng) bool {
		for i := range p.Stages {
			if p.Stages[i].Split {
				p.Stages[i].ChunkIns = append(p.Stages[i].ChunkIns, c15Param{Name: "more", T: c15Type{Base: "string"}})
				return true
			}
		}
		return false
	}},
	{"u", "stage_out_name", func(p *c15Prog, r *hx.Rng) bool {
		o := &p.Stages[0].Outs[0]
		o.Help, o.OutName = "h", "renamed_output"
		return true
	}},
	{"u", "pipeline_out_name", func(p *c15Prog, r *hx.Rng) bool {
		pl := &p.Pipes[r.Intn(2)]
		if len(pl.Outs) == 0 {
			return false
		}
		o := &pl.Outs[0]
		o.Help, o.OutName = "h", "renamed_output"
		return true
	}},
	{"u", "param_order", func(p *c15Prog, r *hx.Rng) bool {
		st := &p.Stages[0]
		if len(st.Ins) < 2 {
			return false
		}
		st.Ins[0], st.Ins[len(st.Ins)-1] = st.Ins[len(st.Ins)-1], st.Ins[0]
		return true
	}},
	{"u", "binding_order", func(p *c15Prog, r *hx.Rng) bool {
		if len(p.Top.Binds) < 2 {
			return false
		}
		b := p.Top.Binds
		b[0], b[len(b)-1] = b[len(b)-1], b[0]
		return true
	}},
	{"u", "call_order", func(p *c15Prog, r *hx.Rng) bool {
		c := p.Pipes[1].Calls
		c[0], c[1] = c[1], c[0]
		return true
	}},
	{"u", "pipeline_retain", func(p *c15Prog, r *hx.Rng) bool {
		pl := &p.Pipes[0]
		if len(pl.Retain) > 0 {
			pl.Retain = nil
			return true
		}
		return false
	}},
	{"u", "wildcard_expanded", func(p *c15Prog, r *hx.Rng) bool {
		for _, c := range p.calls() {
			for i, b := range c.Binds {
				if b.Id == "*" {
					var st *c15Stage
					for j := range p.Stages {
						if p.Stages[j].Name == c.Dec {
							st = &p.Stages[j]
						}
					}
					bound := map[string]bool{}
					for _, ob := range c.Binds {
						bound[ob.Id] = true
					}
					c.Binds = append(c.Binds[:i:i], c.Binds[i+1:]...)
					for _, in := range st.Ins {
						if !bound[in.Name] {
							c.Binds = append(c.Binds, c15Bind{in.Name, c15Ex{K: "self", S: in.Name}})
						}
					}
					return true
				}
			}
		}
		return false
	}},
	{"u", "callee_swapped_behind_alias", func(p *c15Prog, r *hx.Rng) bool {
		// `call STAGE_0` becomes `call STAGE_0_TWIN as STAGE_0` with an identical signature
		st := p.Stages[0]
		st.Name = "STAGE_0_TWIN"
		st.Src = "stages/twin"
		p.Stages = append(p.Stages, st)
		for _, c := range p.calls() {
			if c.Dec == "STAGE_0" {
				if c.Alias == "" {
					c.Alias = "STAGE_0"
				}
				c.Dec = "STAGE_0_TWIN"
			}
		}
		return true
	}},
	{"u", "builtin_file_to_path", func(p *c15Prog, r *hx.Rng) bool {
		ok := false
		for _, l := range append(p.paramLists(false), p.paramLists(true)...) {
			for i := range *l {
				if (*l)[i].T.Base == "file" {
					(*l)[i].T.Base = "path"
					ok = true
				}
			}
		}
		// pipeline parameters carrying the value change with it
		if ok {
			for i := range p.Pipes {
				for j := range p.Pipes[i].Ins {
					if p.Pipes[i].Ins[j].T.Base == "file" {
						p.Pipes[i].Ins[j].T.Base = "path"
					}
				}
				for j := range p.Pipes[i].Outs {
					if p.Pipes[i].Outs[j].T.Base == "file" {
						p.Pipes[i].Outs[j].T.Base = "path"
					}
				}
			}
			for i := range p.Structs {
				for j := range p.Structs[i].Members {
					if p.Structs[i].Members[j].T.Base == "file" {
						p.Structs[i].Members[j].T.Base = "path"
					}
				}
			}
		}
		return ok
	}},
}

// ------------------------------------------------------------ compile

type c15Files map[string]string

func c15Enc(f c15Files) string {
	b, _ := json.Marshal(f)
	return hx.H(string(b))
}

func c15Dec(s string) c15Files {
	var f c15Files
	if err := json.Unmarshal([]byte(hx.U(s)), &f); err != nil {
		panic(err)
	}
	return f
}

var c15Dir string
var c15DirN int

func c15Compile(f c15Files) (*syntax.Ast, error) {
	if c15Dir == "" {
		d, err := os.MkdirTemp("", "c15_mro_")
		if err != nil {
			panic(err)
		}
		c15Dir = d
	}
	c15DirN++
	d := filepath.Join(c15Dir, strconv.Itoa(c15DirN%8))
	os.RemoveAll(d)
	os.MkdirAll(d, 0o755)
	for name, body := range f {
		if err := os.WriteFile(filepath.Join(d, name), []byte(body), 0o644); err != nil {
			panic(err)
		}
	}
	_, _, ast, err := syntax.Compile(filepath.Join(d, "main.mro"), []string{d}, false)
	return ast, err
}

func c15Cleanup() {
	if c15Dir != "" {
		os.RemoveAll(c15Dir)
	}
}

type c15Quiet struct{}

func (c15Quiet) Write(b []byte) (int, error)       { return len(b), nil }
func (c15Quiet) WriteString(s string) (int, error) { return len(s), nil }

func c15Silence() { util.SetPrintLogger(c15Quiet{}) }

// ------------------------------------------------------------ gen

func c15Gen(tier string, r *hx.Rng) {
	c15Silence()
	defer c15Cleanup()
	w := hx.Out
	nprog := 14
	if tier == "thorough" {
		nprog = 150
	}
	skipped := 0
	for i := 0; i < nprog; i++ {
		base := c15GenProg(r)
		fa := base.render()
		astA, err := c15Compile(fa)
		if err != nil {
			fmt.Fprintf(os.Stderr, "c15 gen: base program does not compile: %v\n%s\n", err, fa["main.mro"])
			skipped++
			continue
		}
		da := astdump.Ast(astA).Transport()
		for _, ed := range c15Edits {
			orig, fo, do := base, fa, da
			if pre := c15EditPre[ed.name]; pre != nil {
				orig = base.clone()
				if !pre(orig, r) {
					continue
				}
				fo = orig.render()
				astO, err := c15Compile(fo)
				if err != nil {
					fmt.Fprintf(os.Stderr, "c15 gen: original of edit %s does not compile: %.300v\n", ed.name, err)
					skipped++
					continue
				}
				do = astdump.Ast(astO).Transport()
			}
			// an edit lands on a random site; a site where it does not
			// compile (e.g. a fractional literal for an int parameter) is
			// retried elsewhere
			var lastErr error
			done := false
			for try := 0; try < 4 && !done; try++ {
				q := orig.clone()
				if !ed.f(q, r) {
					lastErr = nil
					break
				}
				fb := q.render()
				astB, err := c15Compile(fb)
				if err != nil {
					lastErr = err
					continue
				}
				fmt.Fprintf(w, "p %s %s %s %s %s %s\n", ed.class, ed.name, c15Enc(fo), c15Enc(fb), do, astdump.Ast(astB).Transport())
				done = true
			}
			if !done && lastErr != nil {
				fmt.Fprintf(os.Stderr, "c15 gen: edit %s does not compile: %.300v\n", ed.name, lastErr)
				skipped++
			}
		}
	}
	// literal pairs for Exp.equal
	c15GenLiterals(tier, r)
	fmt.Fprintf(os.Stderr, "c15 gen: %d programs/edits skipped (did not compile)\n", skipped)
}

func c15FloatLit(f float64) string { return strconv.FormatFloat(f, 'e', -1, 64) }

func c15GenLiterals(tier string, r *hx.Rng) {
	var parser syntax.Parser
	emit := func(a, b string) {
		ea, err1 := parser.ParseValExp([]byte(a))
		eb, err2 := parser.ParseValExp([]byte(b))
		if err1 != nil || err2 != nil {
			return
		}
		fmt.Fprintf(hx.Out, "e %s %s %s %s\n", hx.H(a), hx.H(b), astdump.Exp(ea).Transport(), astdump.Exp(eb).Transport())
	}
	floats := []float64{1, 0.1, 1e-15, 1e15, 3, 1e300, 1.7e308, 5e-324, 1e-310, 2.2250738585072014e-308, 1e-300, 9007199254740992,
		9007199254740994, 9.223372036854776e18, 4.5e15, 123456.789, -1, -0.3, 1e22, 1e-7}
	steps := []int{-12, -9, -8, -7, -6, -5, -4, -3, -2, -1, 0, 1, 2, 3, 4, 5, 6, 7, 8, 9, 12}
	n := 40
	if tier == "thorough" {
		n = 1500
	}
	for i := 0; i < n; i++ {
		floats = append(floats, math.Ldexp(0.5+float64(r.Next()>>11)/float64(1<<53)/2, r.Intn(600)-300)*float64(1-2*r.Intn(2)))
	}
	for _, f := range floats {
		for _, s := range steps {
			g := f
			for k := 0; k < s; k++ {
				g = math.Nextafter(g, math.Inf(1))
			}
			for k := 0; k > s; k-- {
				g = math.Nextafter(g, math.Inf(-1))
			}
			if math.IsInf(g, 0) {
				continue
			}
			emit(c15FloatLit(f), c15FloatLit(g))
		}
	}
	ints := []int64{0, 1, -1, 1 << 53, 1<<53 + 1, 1<<53 + 2, 1<<53 - 1, 1<<54 + 2, 1<<54 + 3, 1<<54 + 1, math.MaxInt64, math.MaxInt64 - 1, math.MaxInt64 - 512,
		math.MaxInt64 - 513, math.MinInt64 + 1, -(1 << 53) - 1, 1<<62 + 1<<8, 1<<62 + 1<<9, 1<<62 + 3<<8, 123456789}
	for i := 0; i < n; i++ {
		ints = append(ints, int64(r.Next()>>uint(r.Intn(60))))
	}
	for _, a := range ints {
		for _, d := range []int64{0, 1, -1, 2, 256, 1024} {
			b := a + d
			if (d > 0 && b < a) || (d < 0 && b > a) {
				continue
			}
			emit(strconv.FormatInt(a, 10), strconv.FormatInt(b, 10))
			emit(strconv.FormatInt(a, 10), c15FloatLit(float64(b)))
			emit(c15FloatLit(float64(b)), strconv.FormatInt(a, 10))
			// non-integral floats next to the integer
			for _, fr := range []float64{0.5, -0.5, 0.25, 0.9} {
				if g := float64(b) + fr; g != float64(b) {
					emit(strconv.FormatInt(a, 10), c15FloatLit(g))
					emit(c15FloatLit(g), strconv.FormatInt(a, 10))
				}
			}
		}
	}
	// structured literals
	lits := []string{`null`, `true`, `false`, `"a"`, `"b"`, `""`, `[]`, `[1]`, `[1, 2]`, `[2, 1]`, `[1.0, 2]`, `{}`, `{"a": 1}`, `{"a": 2}`, `{"b": 1}`,
		`{"a": 1, "b": 2}`, `{"b": 2, "a": 1}`, `{a: 1}`, `{a: 1, b: [1, {"x": null}]}`, `{a: 1, b: [1, {"x": 0}]}`, `[[1], [2, 3]]`, `[[1], [2, 3.0]]`, `[[1, 2], [3]]`,
		`1`, `1.0`, `"1"`, `[null]`, `[[]]`, `{"a": {"a": 1}}`, `{"a": {"a": 1.0000000000000002}}`}
	for _, a := range lits {
		for _, b := range lits {
			emit(a, b)
		}
	}
}

// ------------------------------------------------------------ impl / oracle

func c15Equal(a, b syntax.Exp) bool {
	return (&syntax.BindStm{Id: "x", Exp: a}).Equals(&syntax.BindStm{Id: "x", Exp: b})
}

func c15TF(b bool) string {
	if b {
		return "T"
	}
	return "F"
}

func c15Impl(args []string) {
	c15Silence()
	defer c15Cleanup()
	var parser syntax.Parser
	hx.Lines(os.Stdin, func(f []string) {
		switch f[0] {
		case "p":
			a, err1 := c15Compile(c15Dec(f[3]))
			b, err2 := c15Compile(c15Dec(f[4]))
			if err1 != nil || err2 != nil {
				fmt.Fprintln(hx.Out, "compile-error")
				return
			}
			fmt.Fprintf(hx.Out, "%s %s\n", c15TF(b.EquivalentCall(a)), c15TF(a.EquivalentCall(b)))
		case "e":
			a, err1 := parser.ParseValExp([]byte(hx.U(f[1])))
			b, err2 := parser.ParseValExp([]byte(hx.U(f[2])))
			if err1 != nil || err2 != nil {
				fmt.Fprintln(hx.Out, "parse-error")
				return
			}
			fmt.Fprintf(hx.Out, "%s %s\n", c15TF(c15Equal(a, b)), c15TF(c15Equal(b, a)))
		default:
			fmt.Fprintln(hx.Out, "?")
		}
	})
}

// The property read directly on the implementation: the pipestance was
// started with A; B is supplied on re-attach; martian decides with
// newAst.EquivalentCall(oldAst).
func c15Oracle(args []string) {
	c15Silence()
	defer c15Cleanup()
	hx.Lines(os.Stdin, func(f []string) {
		if f[0] != "p" || f[1] == "u" {
			fmt.Fprintln(hx.Out, "skip")
			return
		}
		a, err1 := c15Compile(c15Dec(f[3]))
		b, err2 := c15Compile(c15Dec(f[4]))
		if err1 != nil || err2 != nil {
			fmt.Fprintln(hx.Out, "skip")
			return
		}
		accepted := b.EquivalentCall(a)
		switch {
		case f[1] == "c" && !accepted:
			fmt.Fprintf(hx.Out, "FAIL cosmetic_refused_%s a cosmetic edit (%s) is refused on re-attach\n", f[2], f[2])
		case f[1] == "s" && accepted:
			fmt.Fprintf(hx.Out, "FAIL semantic_accepted_%s a semantic edit (%s) is accepted on re-attach\n", f[2], f[2])
		default:
			fmt.Fprintln(hx.Out, "ok")
		}
	})
}

// show prints the sources of a case line given on stdin (for replays).
func c15Show(args []string) {
	hx.Lines(os.Stdin, func(f []string) {
		if f[0] == "p" {
			for _, k := range []int{3, 4} {
				fs := c15Dec(f[k])
				names := make([]string, 0, len(fs))
				for n := range fs {
					names = append(names, n)
				}
				sort.Strings(names)
				for _, n := range names {
					fmt.Fprintf(hx.Out, "=== %s %s\n%s\n", map[int]string{3: "original", 4: "edited"}[k], n, fs[n])
				}
			}
		}
	})
}

// coq <cases> <impl> <np> <ne>: a Coq file whose vm_compute evaluation lists
// the sampled cases on which the model (evaluated by the kernel) differs from
// the implementation's observation.
func c15Coq(args []string) {
	c15Silence()
	defer c15Cleanup()
	cases, _ := os.ReadFile(args[0])
	impl, _ := os.ReadFile(args[1])
	np, _ := strconv.Atoi(args[2])
	ne, _ := strconv.Atoi(args[3])
	cl := strings.Split(strings.TrimSpace(string(cases)), "\n")
	il := strings.Split(strings.TrimSpace(string(impl)), "\n")
	var ps, es []int
	for i, c := range cl {
		if strings.HasPrefix(c, "p ") {
			ps = append(ps, i)
		} else if strings.HasPrefix(c, "e ") {
			es = append(es, i)
		}
	}
	pick := func(idx []int, n int) []int {
		if n >= len(idx) || n <= 0 {
			return idx
		}
		var out []int
		for k := 0; k < n; k++ {
			out = append(out, idx[k*len(idx)/n])
		}
		return out
	}
	b := func(s string) string {
		if s == "T" {
			return "true"
		}
		return "false"
	}
	var parser syntax.Parser
	w := hx.Out
	fmt.Fprintln(w, "From Coq Require Import String.\nFrom Martian Require Import Lib.Bytes Mro.Ast K.Equiv.\nOpen Scope string_scope.")
	fmt.Fprintln(w, "Definition pcases : list (nat * (ast * ast) * (bool * bool)) := [")
	first := true
	for _, i := range pick(ps, np) {
		f := strings.Split(cl[i], " ")
		o := strings.Split(il[i], " ")
		a, err1 := c15Compile(c15Dec(f[3]))
		bb, err2 := c15Compile(c15Dec(f[4]))
		if err1 != nil || err2 != nil || len(o) < 2 {
			continue
		}
		if !first {
			fmt.Fprintln(w, ";")
		}
		first = false
		fmt.Fprintf(w, "(%d, (%s,\n %s), (%s, %s))", i, astdump.Ast(a).Coq(), astdump.Ast(bb).Coq(), b(o[0]), b(o[1]))
	}
	fmt.Fprintln(w, "].")
	fmt.Fprintln(w, "Definition ecases : list (nat * (exp * exp) * (bool * bool)) := [")
	first = true
	for _, i := range pick(es, ne) {
		f := strings.Split(cl[i], " ")
		o := strings.Split(il[i], " ")
		ea, err1 := parser.ParseValExp([]byte(hx.U(f[1])))
		eb, err2 := parser.ParseValExp([]byte(hx.U(f[2])))
		if err1 != nil || err2 != nil || len(o) < 2 {
			continue
		}
		if !first {
			fmt.Fprintln(w, ";")
		}
		first = false
		fmt.Fprintf(w, "(%d, (%s, %s), (%s, %s))", i, astdump.Exp(ea).Coq(), astdump.Exp(eb).Coq(), b(o[0]), b(o[1]))
	}
	fmt.Fprintln(w, "].")
	fmt.Fprintln(w, `Definition badp := filter (fun c => let '(_, (a, b), (r1, r2)) := c in
  negb (Bool.eqb (equiv_call b a) r1 && Bool.eqb (equiv_call a b) r2 && wf_ast a && wf_ast b)) pcases.
Definition bade := filter (fun c => let '(_, (a, b), (r1, r2)) := c in
  negb (Bool.eqb (exp_equal a b) r1 && Bool.eqb (exp_equal b a) r2)) ecases.
Definition M := Eval vm_compute in (app (map (fun c => fst (fst c)) badp) (map (fun c => fst (fst c)) bade)).
Print M.
Definition COUNT := Eval vm_compute in (length pcases, length ecases).
Print COUNT.`)
}

// term <file.mro>: the Coq term of the compiled Ast of an MRO file.
func c15Term(args []string) {
	c15Silence()
	_, _, ast, err := syntax.Compile(args[0], []string{filepath.Dir(args[0])}, false)
	if err != nil {
		fmt.Fprintln(os.Stderr, err)
		os.Exit(1)
	}
	fmt.Fprintln(hx.Out, astdump.Ast(ast).Coq())
}
