package main

// C09, comments inside collection literals: trees for the model
// K/ExpComments.v.  Case line:  k <layout> <tree>
// tree := L | A<n>{.c<k>.tree}^n | M<n>{.c<k>.tree}^n   (tokens joined by '.')
// c<k>: k comments are attached to the element that follows; comment ids are
// numbered in source order, so the model's in-order list is 0,1,2,...
// layout 0: comments directly above their element; 1: a blank line between
// the comment block and the element (scopeComments).
// Observation: the comment ids in the order they appear in the formatted text.

import (
	"fmt"
	"regexp"
	"strconv"
	"strings"

	"verifharness/internal/hx"
)

type c09Tree struct {
	kind  byte // 'L', 'A', 'M'
	items []c09Item
}
type c09Item struct {
	ncom int
	t    *c09Tree
}

func (t *c09Tree) enc(b *[]string) {
	if t.kind == 'L' {
		*b = append(*b, "L")
		return
	}
	*b = append(*b, fmt.Sprintf("%c%d", t.kind, len(t.items)))
	for _, it := range t.items {
		*b = append(*b, "c"+strconv.Itoa(it.ncom))
		it.t.enc(b)
	}
}

func c09ParseTree(toks []string, pos *int) *c09Tree {
	tk := toks[*pos]
	*pos++
	if tk == "L" {
		return &c09Tree{kind: 'L'}
	}
	n, _ := strconv.Atoi(tk[1:])
	t := &c09Tree{kind: tk[0]}
	for i := 0; i < n; i++ {
		k, _ := strconv.Atoi(toks[*pos][1:])
		*pos++
		t.items = append(t.items, c09Item{k, c09ParseTree(toks, pos)})
	}
	return t
}

// render writes the literal, one element per line, comments above elements.
func (t *c09Tree) render(b *strings.Builder, ind string, next *int, layout int) {
	switch t.kind {
	case 'L':
		b.WriteString("1")
		return
	}
	open, close := "[", "]"
	if t.kind == 'M' {
		open, close = "{", "}"
	}
	if len(t.items) == 0 {
		b.WriteString(open + close)
		return
	}
	b.WriteString(open + "\n")
	for i, it := range t.items {
		for k := 0; k < it.ncom; k++ {
			fmt.Fprintf(b, "%s    # k%d\n", ind, *next)
			*next++
		}
		if it.ncom > 0 && layout == 1 {
			b.WriteString("\n")
		}
		b.WriteString(ind + "    ")
		if t.kind == 'M' {
			fmt.Fprintf(b, "\"k%d\": ", i)
		}
		it.t.render(b, ind+"    ", next, layout)
		b.WriteString(",\n")
	}
	b.WriteString(ind + close)
}

func c09RandTree(r *hx.Rng, depth int) *c09Tree {
	if depth <= 0 || r.Intn(5) == 0 {
		return &c09Tree{kind: 'L'}
	}
	t := &c09Tree{kind: "AAM"[r.Intn(3)]}
	n := 1
	if r.Intn(3) == 0 {
		n = r.Intn(4)
	}
	for i := 0; i < n; i++ {
		c := 0
		if r.Intn(3) == 0 {
			c = 1 + r.Intn(2)
		}
		t.items = append(t.items, c09Item{c, c09RandTree(r, depth-1)})
	}
	return t
}

func c09GenLiteralTrees(tier string, r *hx.Rng) {
	w := hx.Out
	emit := func(t *c09Tree) {
		var b []string
		t.enc(&b)
		for layout := 0; layout < 2; layout++ {
			fmt.Fprintf(w, "k %d %s\n", layout, strings.Join(b, "."))
		}
	}
	// every chain of single-element levels up to depth 4 (array or map at
	// each level), with every choice of which levels carry a comment
	for depth := 1; depth <= 4; depth++ {
		for shape := 0; shape < 1<<depth; shape++ {
			for com := 0; com < 1<<depth; com++ {
				var t *c09Tree = &c09Tree{kind: 'L'}
				for l := depth - 1; l >= 0; l-- {
					k := byte('A')
					if shape>>l&1 == 1 {
						k = 'M'
					}
					t = &c09Tree{kind: k, items: []c09Item{{com >> l & 1, t}}}
				}
				emit(t)
			}
		}
	}
	n := 400
	if tier == "thorough" {
		n = 6000
	}
	for i := 0; i < n; i++ {
		emit(c09RandTree(r, 1+r.Intn(5)))
	}
}

var c09KRe = regexp.MustCompile(`# k(\d+)`)

// c09LiteralObserve formats a program whose only binding is the literal and
// returns the comment ids in output order, and the total number of comments.
func c09LiteralObserve(f []string) (string, int, string) {
	toks := strings.Split(f[2], ".")
	pos := 0
	t := c09ParseTree(toks, &pos)
	layout, _ := strconv.Atoi(f[1])
	var b strings.Builder
	b.WriteString("stage S(\n    in  map x,\n    src py \"s\",\n)\n\ncall S(\n    x = ")
	next := 0
	t.render(&b, "    ", &next, layout)
	b.WriteString(",\n)\n")
	f1, err := c09Format([]byte(b.String()))
	if err != nil {
		return "ERR", next, b.String()
	}
	var ids []string
	for _, m := range c09KRe.FindAllStringSubmatch(f1, -1) {
		ids = append(ids, m[1])
	}
	if len(ids) == 0 {
		return "-", next, b.String()
	}
	return strings.Join(ids, ","), next, b.String()
}
